#!/usr/bin/env python3
"""Generates /verif/MANIFEST.json from the table below (kept next to the checks so that it stays valid)."""
import json
import os

HERE = os.path.dirname(os.path.dirname(os.path.abspath(__file__)))

CHECKS = {
  "C01": dict(cat="exploration", tech="bounded-exhaustive enumeration of document specs x critical times against a reference snapshot model (R_isd)",
              text="every document of the stated small-scope families (timing chains, all trees, all region assignments, display lattices, ruby, cross product) at every critical time, midpoint and outside time is snapshotted by the real ISD.from_model and compared leaf by leaf with an independent TTML2 reference; exhaustive within the bounds, which is the right level for an input-quantified relation whose defects have small witnesses",
              note="reference model mc/ref_isd.py (TTML2 time containment + [associate region]); structural assumption that snapshots are constant between neighbouring sums of offsets", ref="3/C01"),
  "C02": dict(cat="exploration", tech="bounded-exhaustive enumeration; differential oracle over all probe times (snapshot(q) == snapshot(last significant time <= q)) and sequence == snapshots",
              text="every document of the C01 families plus offset elements/regions carrying 1-3 animation steps, probed at every critical time, midpoint and outside time; the property's own statement is the oracle, no reference needed",
              note="constant-between-critical-times assumption as C01; fingerprints are deep structural (ids, styles, text)", ref="3/C02"),
  "C03": dict(cat="exploration", tech="bounded-exhaustive enumeration of styled document specs x times against a reference style resolver (R_style)",
              text="every document of the stated families (precedence lattice {unspecified, specified, animated}^5 x initial per property, font-size unit chains, scalar lengths x font sizes, extent x origin x position x padding x writing mode, textDecoration triples, ruby shapes, style grid) is snapshotted by the real code and every applicable property of every element compared with an independent TTML2/IMSC resolver using exact rationals",
              note="reference resolver mc/ref_style.py, independent applicability/inheritance tables mc/tables.py; tolerance 1e-9 relative; direction-implied-by-writing-mode only compared when unambiguous", ref="3/C03"),
  "C13": dict(cat="exploration", tech="bounded-exhaustive enumeration; invariant evaluated on every snapshot",
              text="every snapshot of every document of the C01 families, of a style grid (all 36 properties x all value forms x all levels/initial/animated x 2 resolutions) and of the white-space family is checked against each clause of the documented ISD shape; exhaustive within bounds",
              note="applicability read through the model's public is_style_applicable and diffed against an independent IMSC 1.1 table (clause C13.table); white-space clauses limited to what TTML2 states unambiguously", ref="3/C13"),
  "C12": dict(cat="exploration", tech="whole-domain enumeration of frame counts per rate and of milliseconds, against independent SMPTE 12M formulas",
              text="every frame count of the stated ranges (thorough: all of [0,24h) for 7 rates) is converted, inverted, incremented, parsed and written through the real code and compared with an independent SMPTE 12M reference; the domain is finite so enumeration is complete rather than sampled",
              note="SMPTE 12M formulas in mc/props/c12.py gated by hand-computed labels; exact rational arithmetic", ref="3/C12"),
}

CHECKS.update({
  "C14": dict(cat="model_checking", tech="explicit-state BFS over operation histories on one real document + shared SignificantTimes object; invariants in every state, step oracle on every transition",
              text="all histories of <= 3 (quick) / 4 (thorough) operations (significant_times, from_model cached/uncached at 3 times, generate_isd_sequence, SRT, VTT x2, IMSC x2) on 16 seed documents; in every state the source fingerprint is unchanged and cached snapshots render like uncached ones at every probe time; on every transition the result equals that of the same operation on a pristine document",
              note="state canon keeps document fingerprint, cache projection, capped multiset of operation kinds and known module-level state; render equivalence as allowed by the statement", ref="3/C14"),
  "C17": dict(cat="exploration", tech="whole-domain enumeration of all 65,536 words (both parities) against an independent CEA-608 table; all lines of <= 3/4 representative words for the disassembly; all ordered pairs of control-range words with the first word held while the second is decoded",
              text="every 16-bit value is classified by the real SccWord and compared class, channel, attributes and characters with an independent table; the domain is finite and enumerated completely",
              note="independent table mc/ref608.py gated by hand-known facts and the repository's own test literals; CEA-608 defines glyphs, so look-alike code points pinned by the repo's tests are accepted as alternates", ref="3/C17"),
})

CHECKS.update({
  "C05": dict(cat="exploration", tech="bounded-exhaustive enumeration of (document, writer configuration) pairs; round trip through the real writer and reader with per-value time oracle and snapshot comparison",
              text="every document of the style grid, element-kind, time-value and parameter families under the stated writer configurations (time grid: every syntax x 7 frame rates) is written, parsed, re-read and compared: writer failures, XML-level element/text accounting, reader error logs, parameters, tree shape, per-value time exactness/bounded move/order, snapshots at every probe time",
              note="numbers compared with relative tolerance 1e-5 (6 significant digits written); ids of content elements are not round-tripped by the reader and are left out; IMSC 'default' generic family == monospaceSerif", ref="3/C05"),
})

CHECKS.update({
  "C16": dict(cat="exploration", tech="bounded-exhaustive enumeration of (document, filter configuration) pairs; post-conditions on the filtered document and its snapshots plus metamorphic relations (text timeline preserved, idempotence)",
              text="every document of the region-geometry, region-merging and content families under the stated configurations is filtered by the real LCDDocFilter; no exception, no animation left, style whitelist, safe area (specified and computed in snapshots), merged regions, registered references, visible text unchanged at every critical time for documents without display/visibility/opacity, configured colours/alignment computed, filter(filter(d)) == filter(d)",
              note="text compared region-agnostically as sorted visible text leaves; writing mode is removed by the filter by design", ref="3/C16"),
})

CHECKS.update({
  "C09": dict(cat="exploration", tech="bounded-exhaustive enumeration of byte-level STL files (all text-field strings up to a length over a byte-class alphabet, all code-table bytes and diacritic pairs, TTI sequences, time-code grids per DFC, reader configurations) against an independent EBU Tech 3264 interpreter",
              text="every generated STL file is read by the real reader and compared clause by clause (text, per-character styles, exact begin/end, dropping before programme start, alignment, region anchoring, cumulative sets, extension/comment/user-data blocks, character sets) with an interpreter written from EBU Tech 3264",
              note="reference interpreter mc/refstl.py gated by hand examples, glibc iconv ISO 6937 tables and the repository's own pinned expectations; areas where Tech 3264 is silent are not asserted (listed in the module)", ref="3/C09"),
})

CHECKS.update({
  "C06": dict(cat="exploration", tech="bounded-exhaustive enumeration of (document, writer configuration) pairs; writer output parsed by an independent strict parser and compared as a function of time with a reference cue timeline (R_isd)",
              text="every document of the structure (regions x div layouts x br x timings), nested-style, markup-significant text, millisecond/sub-millisecond/unbounded interval, ruby and alignment families under SRT {text_formatting} and VTT {line_position, text_align, cue_id}^3: at every admissible probe time the lines of the cues covering it equal the visible text of the reference; cue boundaries are rounded significant times; unbounded last interval ends at begin + 10 s",
              note="reference timeline from mc/ref_isd.py; strict parsers mc/strictparse.py; white-space normalised comparison; half-millisecond ties may round either way", ref="3/C06"),
  "C07": dict(cat="exploration", tech="bounded-exhaustive enumeration (same families as C06); strict grammar parse plus per-character comparison of effective tags with R_style, cue settings with reference geometry",
              text="every output parses under the strict grammar, numbering consecutive, cues ordered/non-overlapping, per character bold/italic/underline/colour/background in effect equal the computed styles, no tags when disabled, line/align settings agree with reference region position and paragraph alignment, writer never raises",
              note="colour and background are compared as the value in effect (innermost colour tag; nearest enclosing painted span background); SRT text that looks like markup is not generated for tag clauses (no escape mechanism)", ref="3/C07"),
})

CHECKS.update({
  "C04": dict(cat="exploration", tech="bounded-exhaustive enumeration of TTML documents (timing skeletons with <= 5/6 elements over par/seq x begin/dur/end, time-expression grid, style graphs, attribute value grids, mixed content, ruby) against an independent TTML2 interpreter; single-deviation exploration of malformed attributes",
              text="every generated XML document is read by the real IMSC reader and its timed tree and specified styles compared, at every breakpoint and midpoint, with a direct interpreter of the XML (R_ttml); each well-formed seed with exactly one attribute replaced by each malformed value must read like the document without the attribute, log, and raise nothing",
              note="reference interpreter mc/refttml.py (appendix A of DESIGN.md) gated by hand examples and the repository's pinned expectations; the abstraction is computed from the model by parent-relative accumulation, independent of ttconv.isd", ref="3/C04"),
  "C08": dict(cat="model_checking", tech="explicit-state BFS over protocol token histories (pop-on / roll-up / paint-on automata) with canonical states = (automaton, reference decoder, projection of the real SccContext); every history replayed on the real reader and compared with a reference CEA-608 decoder under the stable/transit/timing oracle",
              text="all token histories accepted by the three caption protocol automata to depth 7 (quick) / 9 (thorough) are rendered as SCC text, read by the real reader and compared frame window by frame window with the displayed memory of a reference decoder; timing is judged within the transmission window the statement grants",
              note="reference decoder mc/ref608dec.py (DESIGN.md appendix B) gated by hand examples and the repository's pinned reader tests; columns, textAlign heuristics and blank-cell attributes are not compared", ref="3/C08"),
  "C10": dict(cat="model_checking", tech="explicit-state search over all line-token sequences of the SRT file-level machine (<= 7/8 tokens) plus bounded-exhaustive cue grammar families (all 1000 millisecond values, tag trees, line layouts) against an independent strict parser; writer round trip",
              text="every line-token sequence is fed to the real reader (no internal exception; grammatical files give the independent parser's cue list); every cue of the grammar families must give exact rational times, lines and per-character style flags; SRT writer output is read back",
              note="strict parser mc/strictparse.py; files reach the reader as tt convert opens them (text mode, universal newlines)", ref="3/C10"),
  "C11": dict(cat="model_checking", tech="explicit-state search over line-token sequences of the WebVTT file-level machine plus bounded-exhaustive cue-text and cue-setting families (full product of vertical x line x position x size x align) against an independent strict parser and the WebVTT geometry rules; writer round trip",
              text="every line-token sequence and every cue of the cue-text / settings families is read by the real reader and compared with the strict parser: exact times, payload lines, tag scopes, inline timestamps, and one geometry clause each for inside-root, display alignment, text alignment, anchor, region sharing",
              note="strict parser mc/strictparse.py; geometry clauses that are derived readings (anchor, position, size) are isolated from those that are literally the statement", ref="3/C11"),
  "C15": dict(cat="model_checking", tech="explicit-state BFS over histories of public model mutator calls on real objects in four overlapping sub-universes (structure, region registry, ruby containers, styles); invariant in every state, step oracle against a boring reference model on every transition",
              text="all call sequences to depth 3-4 (structure slices to closure) with valid, ill-typed and cross-document arguments; in every reached state links/getters agree, the graph is acyclic with single parents and one document per tree, content model and ruby patterns hold, region references are registered, stored values are valid; a rejected single-element call leaves the state unchanged, an accepted one changes the reference model as advertised",
              note="reference model mc/modelref.py; validity of stored values judged by an independent predicate, not the library's validate", ref="3/C15"),
  "C19": dict(cat="model_checking", tech="explicit-state search over job histories in one interpreter (canon = fingerprint of process-global state) plus bounded-exhaustive option/configuration products; byte comparison of tt convert output with the library composition, fresh-interpreter references, PYTHONHASHSEED 0..3",
              text="for every input x output format, documented configuration key x valid/boundary values, filter lists, type-by-extension/--itype/--otype modes and config/config_file combinations the bytes written by ttconv.tt.main equal the composition of reader, filters and writer; every documented key x invalid menu must be rejected without output; every job history of <= 2/3 jobs gives the bytes of the job run first in a fresh interpreter; 30 jobs under 4 hash seeds give equal bytes",
              note="probe document filters registered through the public DocumentFilter mechanism make filter order/multiplicity observable; unknown filter names and unknown keys are not demanded to be rejected (statement/README silent)", ref="3/C19"),
})

CHECKS.update({
  "C18": dict(cat="fault_enumeration", tech="deviation-bounded exploration: every single deviation (delete, duplicate, swap, truncate, boundary value, junk) at every token of grammar-generated seeds of the five input formats and of the bundled corpus, double deviations on small seeds, all token strings of length <= 3/4 over each format's token alphabet; allowed-outcome oracle on the reader and on every downstream stage",
              text="each deviated input is read by the real reader: the outcome must be a document, None after a fatal log record, or ParseError/ValueError/struct.error; every returned document (de-duplicated by shape) is snapshotted at all significant times and midpoints, filtered by LCD (2 configurations), and written by the SRT, VTT and IMSC writers under their configurations without any exception",
              note="deviation bound completed and caps are stated per family in the evidence; discriminator = exception type at the qualified innermost ttconv frame", ref="3/C18"),
})

PENDING = {}


def main():
  props = [json.loads(l) for l in open(os.path.join(HERE, "properties.jsonl"), encoding="utf-8") if l.strip()]
  checks = []
  for pid, c in sorted(CHECKS.items()):
    checks.append({
      "property_id": pid,
      "quick_cmd": f"./check {pid} --tier quick",
      "thorough_cmd": f"./check {pid} --tier thorough",
      "evidence_file": f"/verif/evidence/{pid}.json",
      "replay_cmd_template": f"./check {pid} --replay {{path}}",
      "engine": "mc-kernel",
      "level_claimed": {"category": c["cat"], "text": c["text"], "design_ref": f"DESIGN.md section {c['ref']}"},
      "level_note": c["note"],
      "technique": "model checking: " + c["tech"],
    })
  na = []
  for p in props:
    if p["id"] not in CHECKS:
      na.append({"property_id": p["id"], "reason": PENDING.get(p["id"], "check not built yet in this round; planned in DESIGN.md section 3")})
  man = {
    "version": 1,
    "setup_cmd": "true",
    "hooks": {
      "guard": "TTCONV_VERIF",
      "enable": "no source hooks exist: the checks import /repo/src/main/python directly and observe through public APIs",
      "baseline_off_cmd": "/verif/tools/baseline.sh",
      "source_commits": [],
      "add_only": True,
    },
    "engines": [
      {"name": "mc-kernel", "path": "/verif/mc/kernel.py", "serves_properties": sorted(CHECKS),
       "kind_free_text": "hand-written explicit-state / bounded-exhaustive explorer for Python: index-addressable input families, level-synchronous BFS over histories replayed on fresh real objects, deviation-bounded mutation of seeds; forked worker pool; shrinking; fresh-process confirmation"},
    ],
    "checks": checks,
    "not_applicable": na,
    "notes": "All checks run the real code of /repo's working tree (sys.path[0] = /repo/src/main/python). ./check <id> [--tier quick|thorough] [--seed N]; VERIF_SEED selects exhaustive slices, never samples. Known findings: /verif/known_findings.json.",
  }
  with open(os.path.join(HERE, "MANIFEST.json"), "w", encoding="utf-8") as f:
    json.dump(man, f, indent=1)
  print(f"MANIFEST.json: {len(checks)} checks, {len(na)} not claimed")


if __name__ == "__main__":
  main()

#!/venv/bin/python
"""Stand-alone reproduction of the C18 known findings against the real code (no mc kernel, no oracle).

  /venv/bin/python -B /verif/tools/c18_repro.py [repo]        (default repo: /repo)

For every entry of /verif/known_findings.d/C18.json the witness input is fed to the reader exactly as tt.py does, then
the stage named by the clause is run, and the exception that comes out (type, innermost ttconv frame) is printed next
to the listed discriminator.  Exit code 0 iff every listed finding still reproduces with its listed signature.
"""
import io
import json
import logging
import os
import sys
import xml.etree.ElementTree as et
from fractions import Fraction

REPO = sys.argv[1] if len(sys.argv) > 1 else "/repo"
sys.path.insert(0, os.path.join(REPO, "src", "main", "python"))
sys.path.insert(1, os.path.dirname(os.path.dirname(os.path.abspath(__file__))))
os.environ.setdefault("ISD_NO_MULTIPROC", "1")
logging.getLogger("ttconv").addHandler(logging.NullHandler())
logging.getLogger("ttconv").propagate = False

import ttconv.imsc.reader as imsc_reader  # noqa: E402
import ttconv.imsc.writer as imsc_writer  # noqa: E402
import ttconv.scc.reader as scc_reader  # noqa: E402
import ttconv.srt.reader as srt_reader  # noqa: E402
import ttconv.srt.writer as srt_writer  # noqa: E402
import ttconv.stl.reader as stl_reader  # noqa: E402
import ttconv.vtt.reader as vtt_reader  # noqa: E402
import ttconv.vtt.writer as vtt_writer  # noqa: E402
from ttconv.filters.doc.lcd import LCDDocFilter, LCDDocFilterConfig  # noqa: E402
from ttconv.isd import ISD  # noqa: E402
from ttconv.stl.config import STLReaderConfiguration  # noqa: E402
from ttconv.style_properties import NamedColors  # noqa: E402
from ttconv.vtt.config import VTTWriterConfiguration  # noqa: E402
from mc.c18gen import stl_gsi, stl_tti, NS  # noqa: E402,F401  (pure byte/string assemblers, no ttconv code)

NSDECL = " ".join(f'xmlns{":" + p if p else ""}="{u}"' for p, u in NS.items())


def payload(w):
  if "build" in w:
    return eval(w["build"])  # pylint: disable=eval-used
  t = w["text"].replace("<tt NS", "<tt " + NSDECL)
  if "repeat" in w:
    r = w["repeat"]
    t = t.replace("@OPEN@", r["open"] * r["n"]).replace("@CLOSE@", r["close"] * r["n"])
  return t.encode("utf-8")


def read(w):
  raw = payload(w)
  fmt = w["fmt"]
  if fmt == "ttml":
    return imsc_reader.to_model(et.parse(io.BytesIO(raw)))
  if fmt == "scc":
    return scc_reader.to_model(io.TextIOWrapper(io.BytesIO(raw), encoding="utf-8").read())
  if fmt == "stl":
    cfg = None
    if w.get("cfg") == 1:
      cfg = STLReaderConfiguration(program_start_tc="TCP", max_row_count="MNR")
    return stl_reader.to_model(io.BytesIO(raw), cfg)
  if fmt == "srt":
    return srt_reader.to_model(io.TextIOWrapper(io.BytesIO(raw), encoding="utf-8"))
  return vtt_reader.to_model(io.TextIOWrapper(io.BytesIO(raw), encoding="utf-8"))


def stage(clause, w):
  doc = read(w)
  if clause.startswith("C18.reader."):
    return
  if clause == "C18.isd":
    sig = ISD.significant_times(doc)
    for t in list(sig) + [Fraction(1, 2)]:
      ISD.from_model(doc, t, sig)
    return
  if clause.startswith("C18.lcd") or clause.startswith("C18.filtered."):
    cfg = LCDDocFilterConfig(safe_area=0, preserve_text_align=True, color=NamedColors.yellow.value, bg_color=NamedColors.black.value) \
      if w.get("lcd") == "override" else LCDDocFilterConfig()
    LCDDocFilter(cfg).process(doc)
    if clause == "C18.lcd":
      return
  if clause.endswith("writer.srt"):
    srt_writer.from_model(doc, None)
  elif clause.endswith("writer.vtt"):
    vtt_writer.from_model(doc, VTTWriterConfiguration(line_position=bool(w.get("line_position"))))
  elif clause.endswith("writer.imsc"):
    imsc_writer.from_model(doc, None).write(io.BytesIO(), encoding="utf-8")


CLAUSE = [""]


def disc_of(e):
  frames = []
  tb = e.__traceback__
  while tb is not None:
    code = tb.tb_frame.f_code
    fn = code.co_filename.replace("\\", "/")
    if "/ttconv/" in fn and "/verif/" not in fn:
      frames.append(f"{fn.split('/ttconv/', 1)[1]}:{code.co_qualname}")
    tb = tb.tb_next
  if isinstance(e, RecursionError) and frames:
    if not CLAUSE[0].startswith("C18.reader."):
      return "RecursionError(deeply nested document)"
    bare = [f"{f.split(':', 1)[0]}:{f.split(':', 1)[1].rsplit('.', 1)[-1]}" for f in frames]
    return "RecursionError@" + max(sorted(set(bare)), key=bare.count)
  return f"{type(e).__name__}@{frames[-1] if frames else 'harness'}"


def main():
  with open(os.path.join(os.path.dirname(os.path.dirname(os.path.abspath(__file__))), "known_findings.d", "C18.json"), encoding="utf-8") as f:
    findings = json.load(f)["findings"]
  bad = 0
  for k in findings:
    got = "no exception"
    CLAUSE[0] = k["clause"]
    try:
      stage(k["clause"], k["witness"])
    except BaseException as e:  # pylint: disable=broad-except
      got = disc_of(e) + " :: " + repr(e)[:90]
    ok = got.startswith(k["disc"] + " ::")
    if k.get("status", "known") != "known":
      ok = not ok
    bad += not ok
    print(("REPRODUCED " if ok else "MISMATCH   ") + f"[{k.get('status', 'known')}] {k['clause']} {k['disc']}\n      observed: {got}")
  return 1 if bad else 0


if __name__ == "__main__":
  sys.exit(main())

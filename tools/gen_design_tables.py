#!/usr/bin/env python3
"""Regenerates the generated blocks of DESIGN.md (between the AUTO markers): seeded changes, known findings, fixes."""
import glob
import json
import os
import re
import subprocess

HERE = os.path.dirname(os.path.dirname(os.path.abspath(__file__)))


def seeds_table():
  rows = ["| seed | property | change (independent sub-agent) | needs to manifest | detected by (quick tier) |", "|---|---|---|---|---|"]
  for d in sorted(glob.glob(os.path.join(HERE, "seeded", "*"))):
    m = json.load(open(os.path.join(d, "meta.json")))
    ev = m.get("evaluation", {})
    det = "; ".join(v[:70] for v in ev.get("violations_reported", [])[:2]) if m.get("detected") else ("obsolete at HEAD (see meta.json); detected before" if m.get("detected_before_obsolete") else "NOT detected")
    rows.append(f"| {os.path.basename(d)} | {m['property']} | {m['summary'][:170].replace('|', '/')} | {m['needs_to_manifest'][:170].replace('|', '/')} | {det[:200].replace('|', '/')} |")
  return "\n".join(rows)


def findings():
  fs = []
  for p in [os.path.join(HERE, "known_findings.json")] + sorted(glob.glob(os.path.join(HERE, "known_findings.d", "*.json"))):
    fs.extend(json.load(open(p)).get("findings", []))
  known = [f for f in fs if f.get("status", "known") == "known"]
  fixed = [f for f in fs if f.get("status") == "fixed"]
  out = [f"{len(known)} signatures still listed as known findings, {len(fixed)} recorded as fixed.", "", "| property | clause | discriminator | what fails |", "|---|---|---|---|"]
  for f in sorted(known, key=lambda f: (f["property"], f["clause"], f["disc"])):
    out.append(f"| {f['property']} | {f['clause']} | {f['disc'][:80].replace('|', '/')} | {f['what'][:230].replace('|', '/').replace(chr(10), ' ')} |")
  return "\n".join(out)


def fixes():
  log = subprocess.run(["git", "-C", "/repo", "log", "--reverse", "--format=%h %s"], capture_output=True, text=True).stdout.splitlines()
  rows = [l for l in log if l.split(" ", 1)[1].startswith("fix:")]
  return f"{len(rows)} `fix:` commits in /repo (each: pinned suite unchanged, `tools/baseline.sh`):\n\n" + "\n".join(f"* `{r.split()[0]}` {r.split(' ', 1)[1][5:]}" for r in rows)


def main():
  p = os.path.join(HERE, "DESIGN.md")
  s = open(p, encoding="utf-8").read()
  for name, fn in (("SEEDS", seeds_table), ("FINDINGS", findings), ("FIXES", fixes)):
    a, b = f"<!-- AUTO:{name}:BEGIN -->", f"<!-- AUTO:{name}:END -->"
    if a not in s:
      s += f"\n{a}\n{b}\n"
    s = re.sub(re.escape(a) + r".*?" + re.escape(b), lambda _m: a + "\n" + fn() + "\n" + b, s, flags=re.S)
  open(p, "w", encoding="utf-8").write(s)
  print("DESIGN.md tables regenerated")


if __name__ == "__main__":
  main()

"""development helper: runs whole C18 families in one process and prints counters (cpu cost, de-duplication rate)"""
import sys, time, signal, logging
sys.path.insert(0, '/verif')
logging.getLogger().handlers[:] = [logging.NullHandler()]
logging.getLogger("ttconv").propagate = False
logging.getLogger("ttconv").handlers[:] = [logging.NullHandler()]
logging.lastResort = None
from mc.props import c18
from mc import kernel
tier = sys.argv[1]
only = sys.argv[2]
plan = c18.plan(tier, 0)
signal.signal(signal.SIGALRM, kernel._alarm)
for f in plan:
  if only not in f.name:
    continue
  f.prop = "C18"
  acc = kernel.Acc()
  t0 = time.process_time()
  f.run_range(0, f.n, acc)
  dt = time.process_time() - t0
  print(f"{f.name}: n={f.n} cpu {dt:.1f}s; {dict(acc.extra)}; outcomes {dict(acc.outcomes)}; sigs {len(acc.viol)} harness {len(acc.harness_errors)}", flush=True)
  for k, (n, recs) in sorted(acc.viol.items()):
    print("   ", k, n, "|", (recs[0]["observed"] or "")[:90], "|", str(recs[0]["case"].get("src"))[:70])
  if acc.harness_errors:
    print(acc.harness_errors[0]['trace'][-1500:])

#!/bin/bash
# Runs the repository's pinned test suite with every verification guard OFF and compares the set of passing
# tests with /root/.vp/BASELINE.json (stable_pass).  Exit 0 iff every stable_pass test passes.
unset TTCONV_VERIF
repo="${TTCONV_REPO:-/repo}"
out="$(mktemp /tmp/verif-junit.XXXXXX.xml)"
trap 'rm -f "$out"' EXIT
(cd "$repo" && PYTHONPATH="$repo/src/main/python" /venv/bin/python -m pytest -ra -q -p no:cacheprovider --timeout=900 --continue-on-collection-errors --junitxml="$out" >/dev/null 2>&1)
/venv/bin/python - "$out" <<'PY'
import json, sys, xml.etree.ElementTree as et
base = json.load(open('/root/.vp/BASELINE.json'))
want = set(base['stable_pass'])
passed = set()
for tc in et.parse(sys.argv[1]).getroot().iter('testcase'):
  if not any(c.tag in ('failure', 'error', 'skipped') for c in tc):
    passed.add(f"{tc.get('classname')}::{tc.get('name')}")
missing = sorted(want - passed)
print(f"baseline: stable_pass={len(want)} passed_now={len(passed)} missing={len(missing)}")
for m in missing[:20]:
  print("  MISSING", m)
sys.exit(1 if missing else 0)
PY

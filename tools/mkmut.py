#!/usr/bin/env python3
"""mkmut.py <relative file in repo> <old> <new> <out.diff> : writes a unified diff replacing the first occurrence"""
import sys, difflib, os
rel, old, new, out = sys.argv[1:5]
p = os.path.join('/repo', rel)
s = open(p).read()
old = old.encode().decode('unicode_escape'); new = new.encode().decode('unicode_escape')
assert old in s, "pattern not found"
m = s.replace(old, new, 1)
d = difflib.unified_diff(s.splitlines(True), m.splitlines(True), 'a/' + rel, 'b/' + rel)
open(out, 'w').write(''.join(d))

#!/usr/bin/env python3
"""Appends a `status: fixed` entry to known_findings.d/<property>.json (a fixed entry suppresses nothing; it documents the repair).
usage: tools/addfixed.py <property> <clause> <disc> <commit> <what> [witness json]"""
import json
import os
import sys

HERE = os.path.dirname(os.path.dirname(os.path.abspath(__file__)))
prop, clause, disc, commit, what = sys.argv[1:6]
wit = json.loads(sys.argv[6]) if len(sys.argv) > 6 else None
p = os.path.join(HERE, "known_findings.d", prop + ".json")
d = json.load(open(p)) if os.path.exists(p) else {"findings": []}
e = {"property": prop, "clause": clause, "disc": disc, "status": "fixed", "commit": commit, "what": what}
if wit is not None:
  e["witness"] = wit
d["findings"].append(e)
json.dump(d, open(p, "w"), indent=1, ensure_ascii=False)
print("recorded", prop, clause, disc, commit)

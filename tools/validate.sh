#!/bin/bash
# validates MANIFEST.json and every evidence file against the schemas (uses the tooling venv's jsonschema)
python3-vt - <<'PY'
import json, glob, jsonschema
m = json.load(open('/verif/MANIFEST.json'))
jsonschema.validate(m, json.load(open('/root/.vp/MANIFEST.schema.json')))
print('MANIFEST ok', len(m['checks']), 'checks')
es = json.load(open('/root/.vp/EVIDENCE.schema.json'))
for c in m['checks']:
  try:
    e = json.load(open(c['evidence_file']))
    jsonschema.validate(e, es)
    assert e['level'] == c['level_claimed']['category'], 'level mismatch'
    print(' evidence ok', c['property_id'], e['tier'], e['coverage'].get('evaluations'), e['coverage'].get('distinct_nontrivial'), e['wall_s'])
  except Exception as ex:
    print(' EVIDENCE PROBLEM', c['property_id'], str(ex)[:300])
PY

#!/usr/bin/env python3
"""Collects the two changes a seeding sub-agent left in /tmp/seed-<ID>/out, evaluates each with tools/seedeval.sh and
records the evaluation in meta.json.

usage: tools/seedcollect.py <ID> <first index> [extra check ids...]      e.g. tools/seedcollect.py C06 3
writes /verif/seeded/<ID>-<first index> and /verif/seeded/<ID>-<first index + 1>
"""
import json
import os
import re
import shutil
import subprocess
import sys

HERE = os.path.dirname(os.path.dirname(os.path.abspath(__file__)))


def main():
  pid, first = sys.argv[1], int(sys.argv[2])
  extra = sys.argv[3:]
  src = f"/tmp/seed-{pid}/out"
  head = subprocess.run(["git", "-C", "/repo", "log", "--format=%h", "-1"], capture_output=True, text=True).stdout.strip()
  for k in (1, 2):
    d = os.path.join(HERE, "seeded", f"{pid}-{first + k - 1}")
    if not os.path.exists(os.path.join(src, f"change{k}.diff")):
      print(f"{pid}: change{k}.diff missing")
      continue
    os.makedirs(d, exist_ok=True)
    shutil.copy(os.path.join(src, f"change{k}.diff"), os.path.join(d, "patch.diff"))
    demo = open(os.path.join(src, f"demo{k}.py"), encoding="utf-8").read()
    open(os.path.join(d, "demo.py"), "w", encoding="utf-8").write(demo)
    meta = json.load(open(os.path.join(src, f"meta{k}.json"), encoding="utf-8"))
    meta["property"] = pid
    meta.setdefault("summary", "")
    meta.setdefault("needs_to_manifest", "")
    json.dump(meta, open(os.path.join(d, "meta.json"), "w", encoding="utf-8"), indent=1, ensure_ascii=False)
    out = subprocess.run([os.path.join(HERE, "tools", "seedeval.sh"), d, pid] + extra, capture_output=True, text=True).stdout
    res = open(os.path.join(d, "result.txt"), encoding="utf-8").read()

    def g(pat, default=None):
      m = re.search(pat, res)
      return m.group(1) if m else default
    viol = re.findall(r"clause=(\S+) disc=(.*?) occurrences=", res)
    checks = re.findall(r"check=(\S+) tier=(\S+) exit=(\d+)", res)
    meta["evaluation"] = {
      "repo_head": head,
      "procedure": "tools/seedeval.sh: fresh scratch worktree of /repo HEAD; demo.py on the clean tree; git apply patch.diff; tools/baseline.sh (pinned suite vs BASELINE.json) on the changed tree; demo.py on the changed tree; ./check <property> --tier quick with TTCONV_REPO=<worktree>; worktree removed",
      "demo_on_clean_exit": int(g(r"demo_on_clean_exit=(\d+)", -1)),
      "demo_on_changed_exit": int(g(r"demo_on_changed_exit=(\d+)", -1)),
      "suite_missing_on_changed": int(g(r"missing=(\d+)", -1)),
      "checks": [{"check": c, "tier": t, "exit": int(e)} for c, t, e in checks],
      "violations_reported": [f"{c} {dsc}"[:160] for c, dsc in viol],
    }
    meta["detected"] = any(int(e) == 1 for _c, _t, e in checks)
    meta["confirmed"] = (meta["evaluation"]["demo_on_clean_exit"] == 0 and meta["evaluation"]["demo_on_changed_exit"] != 0
                         and meta["evaluation"]["suite_missing_on_changed"] == 0)
    json.dump(meta, open(os.path.join(d, "meta.json"), "w", encoding="utf-8"), indent=1, ensure_ascii=False)
    print(f"{os.path.basename(d)}: confirmed={meta['confirmed']} detected={meta['detected']} checks={checks} viol={meta['evaluation']['violations_reported'][:3]}")
    if "HARNESS" in out:
      print("  HARNESS-ERROR in output")


if __name__ == "__main__":
  main()

"""development helper: estimates per-family cost of C18 by executing an evenly spaced sample of indices"""
import sys, time, signal, logging
sys.path.insert(0, '/verif')
logging.getLogger().handlers[:] = [logging.NullHandler()]
logging.getLogger("ttconv").propagate = False
logging.getLogger("ttconv").handlers[:] = [logging.NullHandler()]
logging.lastResort = None
from mc.props import c18
from mc import kernel
tier = sys.argv[1] if len(sys.argv) > 1 else "quick"
only = sys.argv[2] if len(sys.argv) > 2 else ""
nsamp = int(sys.argv[3]) if len(sys.argv) > 3 else 150
plan = c18.plan(tier, 0)
signal.signal(signal.SIGALRM, kernel._alarm)
sigs = {}
for f in plan:
  if only and only not in f.name:
    continue
  f.prop = "C18"
  acc = kernel.Acc()
  t0 = time.time()
  step = max(1, f.n // nsamp)
  idxs = list(range(0, f.n, step))
  c18._DEDUP = set()
  for i in idxs:
    kernel.run_case(f, f.decode(i), acc, index=i)
  dt = time.time() - t0
  print(f"{f.name}: n={f.n} sample {len(idxs)} in {dt:.2f}s -> est full {dt/len(idxs)*f.n:.0f}s cpu; downstream {acc.extra.get('documents_sent_downstream')} sigs {len(acc.viol)} harness {len(acc.harness_errors)}", flush=True)
  for k, (n, recs) in acc.viol.items():
    sigs.setdefault(k, recs[0])
  if acc.harness_errors:
    print(acc.harness_errors[0]['trace'][-1500:])
print()
for k in sorted(sigs):
  print(k, "|", sigs[k]["observed"][:100] if sigs[k]["observed"] else "", "|", str(sigs[k]["case"].get("src"))[:80])

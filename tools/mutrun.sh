#!/bin/bash
# usage: tools/mutrun.sh <name> <patch-file|-e 'python-expr-edit'> -- <check args...>
# Creates a scratch worktree of /repo under /tmp, applies the patch, runs ./check against it, removes it.
name="$1"; patch="$2"; shift 3
wt="/tmp/wt-$name-$$"
git -C /repo worktree add -q --detach "$wt" HEAD || exit 3
trap 'git -C /repo worktree remove --force "$wt" 2>/dev/null; rm -rf "$wt"' EXIT
if ! git -C "$wt" apply "$patch"; then echo "patch failed"; exit 3; fi
TTCONV_REPO="$wt" /verif/check "$@"
echo "exit=$?"

#!/bin/bash
# usage: tools/seedeval.sh <seed dir containing patch.diff demo.py meta.json> [check ids...]
# 1. fresh scratch worktree of /repo HEAD; demo must pass on it
# 2. apply patch; pinned test-suite must still match the baseline; demo must fail
# 3. run the given checks (default: the property in meta.json) against the changed worktree
d="$(cd "$1" && pwd)"; shift
prop=$(/venv/bin/python -c "import json,sys;print(json.load(open('$d/meta.json'))['property'])")
checks="${*:-$prop}"
wt="/tmp/seval-$(basename $d)-$$"
git -C /repo worktree add -q --detach "$wt" HEAD || exit 3
trap 'git -C /repo worktree remove --force "$wt" 2>/dev/null; rm -rf "$wt"' EXIT
res="$d/result.txt"; : > "$res"
PYTHONPATH="$wt/src/main/python" /venv/bin/python "$d/demo.py" >/dev/null 2>&1; echo "demo_on_clean_exit=$?" | tee -a "$res"
if ! git -C "$wt" apply "$d/patch.diff"; then echo "patch_applies=no" | tee -a "$res"; exit 3; fi
echo "patch_applies=yes" | tee -a "$res"
TTCONV_REPO="$wt" /verif/tools/baseline.sh | tee -a "$res"
PYTHONPATH="$wt/src/main/python" /venv/bin/python "$d/demo.py" >/dev/null 2>&1; echo "demo_on_changed_exit=$?" | tee -a "$res"
for c in $checks; do
  out=$(TTCONV_REPO="$wt" /verif/check $c --tier "${SEED_TIER:-quick}" 2>&1); code=$?
  echo "check=$c tier=${SEED_TIER:-quick} exit=$code" | tee -a "$res"
  echo "$out" | grep -E "^VIOLATION|^  clause=" | head -6 | cut -c1-250 | tee -a "$res"
done

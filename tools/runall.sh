#!/bin/bash
# runs every claimed check (quick by default) sequentially; prints one summary line per check
tier="${1:-quick}"; seed="${2:-0}"
for p in $(/venv/bin/python -c "import json;print(' '.join(c['property_id'] for c in json.load(open('/verif/MANIFEST.json'))['checks']))"); do
  out=$(/verif/check $p --tier $tier --seed $seed 2>&1); code=$?
  echo "$p exit=$code $(echo "$out" | grep -E "^\[$p\] tier" | sed 's/.*evaluations/evaluations/' | cut -c1-150)"
  echo "$out" | grep -E "^VIOLATION|^HARNESS" | head -5
done

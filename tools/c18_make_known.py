#!/venv/bin/python
"""Development helper: writes /verif/known_findings.d/C18.json from the curated table below.

The table is hand-written (what fails, minimal witness, fix hint); every entry is checked against the real code with
tools/c18_repro.py before it is believed.  Run by hand after reviewing new violations; never run by ./check.
"""
import json
import os

TC = "1\n00:00:01,000 --> 00:00:02,000\n"
VC = "WEBVTT\n\n00:00:01.000 --> 00:00:02.000\n"

F = []


def add(clause, disc, what, witness, fix_hint):
  F.append({"property": "C18", "clause": clause, "disc": disc, "status": "known", "what": what, "witness": witness, "fix_hint": fix_hint})


# ---------------------------------------------------------------------------------------------------- SRT reader
add("C18.reader.srt", "UnboundLocalError@srt/reader.py:to_model",
    "SRT reader: a cue with no text line (time-code line followed by a blank line or end of file) raises UnboundLocalError: subtitle_text is only bound "
    "when the first text line arrives",
    {"fmt": "srt", "text": TC},
    "small: initialise subtitle_text = \"\" (and push current_p) when the time code is accepted, srt/reader.py lines 216-232; 2-3 lines")
add("C18.reader.srt", "TypeError@model.py:Div.push_child",
    "SRT reader: a stray end tag moves the parser's parent above the paragraph (handle_endtag does parent = parent.parent() unconditionally); the next "
    "text is then pushed into the div -> TypeError('Children of body must be P instances')",
    {"fmt": "srt", "text": TC + "</b>\n</b>\n"},
    "small: in _TextParser.handle_endtag (srt/reader.py line 89) ignore the end tag when self.parent is the paragraph; 2 lines")
add("C18.reader.srt", "TypeError@model.py:Body.push_child",
    "SRT reader: two stray end tags move the parent to the body; the next text is pushed into the body -> TypeError('Children of body must be div instances')",
    {"fmt": "srt", "text": TC + "</b></b>a\n"},
    "same 2-line fix as the stray-end-tag TypeError (srt/reader.py line 89)")
add("C18.reader.srt", "AttributeError@srt/reader.py:_TextParser.handle_endtag",
    "SRT reader: four or more stray end tags walk the parent chain p -> div -> body -> None; the next end tag calls None.parent()",
    {"fmt": "srt", "text": TC + "</b></b></b></b>\n"},
    "same 2-line fix as the stray-end-tag TypeError (srt/reader.py line 89)")
add("C18.reader.srt", "AttributeError@srt/reader.py:_TextParser.handle_data",
    "SRT reader: three stray end tags followed by text: the parent is None when handle_data runs",
    {"fmt": "srt", "text": TC + "</b></b></b>x\n"},
    "same 2-line fix as the stray-end-tag TypeError (srt/reader.py line 89)")
add("C18.reader.srt", "AttributeError@srt/reader.py:_TextParser.handle_starttag",
    "SRT reader: three stray end tags followed by a start tag: the parent is None when handle_starttag runs",
    {"fmt": "srt", "text": TC + "</b></b></b><b>\n"},
    "same 2-line fix as the stray-end-tag TypeError (srt/reader.py line 89)")
add("C18.reader.srt", "TypeError@utils.py:parse_color",
    "SRT reader: <font color> (attribute without a value) passes None to parse_color -> TypeError from str.lower(None)",
    {"fmt": "srt", "text": TC + "<font color>\n"},
    "small: treat attr[1] is None like a missing colour in _TextParser.handle_starttag (srt/reader.py line 72); 1-2 lines. (Line 80 indexes the attrs "
    "list with a string and would raise TypeError as well, but is unreachable: parse_color raises ValueError instead of returning None.)")

# ---------------------------------------------------------------------------------------------------- VTT reader
add("C18.reader.vtt", "AttributeError@vtt/reader.py:to_model",
    "WebVTT reader: an empty file: the first 'line' is the end-of-input marker None and None.startswith('WEBVTT') is evaluated",
    {"fmt": "vtt", "text": ""},
    "small: test 'line is None' before line.startswith in state START (vtt/reader.py line 457-458); 2 lines")
add("C18.reader.vtt", "UnboundLocalError@vtt/reader.py:to_model",
    "WebVTT reader: a cue with no text line (timing line followed by a blank line or end of file) raises UnboundLocalError on subtitle_text",
    {"fmt": "vtt", "text": "WEBVTT\n00:00:01.002 --> 00:00:03.004\n"},
    "small: initialise subtitle_text = \"\" when the timing line is accepted (vtt/reader.py lines 510-520); 2-3 lines")
add("C18.reader.vtt", "TypeError@model.py:Div.push_child",
    "WebVTT reader: a stray end tag moves the parent above the paragraph (_handle_endtag always does parent = parent.parent()); the following text span is "
    "pushed into the div -> TypeError",
    {"fmt": "vtt", "text": VC + "</b>\nmiddle\n"},
    "small: ignore an end tag when self.parent is the cue paragraph (vtt/reader.py line 161-170); 2 lines")
add("C18.reader.vtt", "TypeError@model.py:Body.push_child",
    "WebVTT reader: two stray end tags move the parent to the body; the next text span is pushed into the body -> TypeError",
    {"fmt": "vtt", "text": VC + "</b></b>a\n"},
    "same 2-line fix as the stray-end-tag TypeError")
add("C18.reader.vtt", "TypeError@model.py:Span.push_child",
    "WebVTT reader: <ruby> inside another tag (<i><ruby>): the Ruby element is pushed into a span, which only accepts span / br -> TypeError",
    {"fmt": "vtt", "text": VC + "<i><ruby>\n"},
    "medium: the model cannot nest ruby in a span; small stop-gap: log and treat <ruby> as an ordinary span unless the parent is the paragraph "
    "(vtt/reader.py line 97-109); 3-4 lines")
add("C18.reader.vtt", "TypeError@model.py:Rt.push_child",
    "WebVTT reader: a line break inside <rt>: _handle_string pushes a Br into the Rt element, which only accepts spans -> TypeError",
    {"fmt": "vtt", "text": VC + "<ruby>a<rt>b\nc\n"},
    "small: inside Rt / Rb replace the line break by a space (or log and drop it) in _handle_string (vtt/reader.py line 175-177); 2-3 lines")
add("C18.reader.vtt", "AttributeError@vtt/reader.py:_TextCueParser._handle_endtag",
    "WebVTT reader: enough stray end tags walk the parent chain up to None; the next end tag calls None.parent()",
    {"fmt": "vtt", "text": VC + "</b></b></b></b>\n"},
    "same 2-line fix as the stray-end-tag TypeError")
add("C18.reader.vtt", "AttributeError@vtt/reader.py:_TextCueParser._make_span",
    "WebVTT reader: three stray end tags then text or a start tag: self.parent is None in _make_span",
    {"fmt": "vtt", "text": VC + "</b></b></b>x\n"},
    "same 2-line fix as the stray-end-tag TypeError")
add("C18.reader.vtt", "AttributeError@vtt/reader.py:_TextCueParser._handle_starttag",
    "WebVTT reader: <rt> outside <ruby>: self.ruby_rtc is None and None.push_child is called",
    {"fmt": "vtt", "text": VC + "<rt>\n"},
    "small: treat <rt> without an open ruby as an ordinary/unknown tag (vtt/reader.py line 111-115); 2-3 lines")
add("C18.reader.vtt", "RuntimeError@model.py:Ruby.push_child",
    "WebVTT reader: any tag other than <rt> (or a time stamp) directly inside <ruby> is pushed with Ruby.push_child, which always raises "
    "RuntimeError('Ruby children must be added using `push_children`'); RuntimeError is not one of the documented input-format errors",
    {"fmt": "vtt", "text": VC + "<ruby><b>\n"},
    "medium: needs a decision how <ruby><b>x</b><rt>..</rt></ruby> maps to rb; a small stop-gap is to wrap the span in an Rb pushed to ruby_rbc as _handle_string does")
add("C18.reader.vtt", "RuntimeError@vtt/reader.py:_TextCueParser._handle_starttag",
    "WebVTT reader: nested <ruby> raises a deliberate RuntimeError('Nested ruby tags are not allowed.'); the documented failure types are "
    "ValueError / parse errors, so callers catching those miss it",
    {"fmt": "vtt", "text": VC + "<ruby><ruby>\n"},
    "small: raise ValueError instead (vtt/reader.py line 99) or log and ignore the inner tag; 1 line")

# ---------------------------------------------------------------------------------------------------- SCC reader
add("C18.reader.scc", "AttributeError@scc/context.py:SccContext.backspace",
    "SCC reader: a Backspace (BS, 94a1) when no caption is being built (e.g. right after RDC, or in roll-up before any text): get_caption_to_process() "
    "returns None and .get_current_text() is called on it",
    {"fmt": "scc", "text": "00:02:53:14\t9429 94a1\n"},
    "small: return early in SccContext.backspace when get_caption_to_process() is None (scc/context.py line 162-166); 3 lines")
add("C18.reader.scc", "AttributeError@scc/context.py:SccContext.process_control_code",
    "SCC reader: a Tab Offset (TO1..TO3, 97a1/97a2/9723) when no caption is being built: None.indent_cursor",
    {"fmt": "scc", "text": "00:02:53:14\t9429 97a1\n"},
    "small: guard the three TOx branches (scc/context.py lines 384-391) against a None caption; 3-6 lines")

# ---------------------------------------------------------------------------------------------------- STL reader
add("C18.reader.stl", "ZeroDivisionError@stl/reader.py:to_model",
    "STL reader: GSI TNB = 00000 (or any value parsing to 0): the progress callback argument i / m.get_tti_count() divides by zero at the first TTI block",
    {"fmt": "stl", "build": "stl_gsi(TNB='00000') + stl_tti()"},
    "small: guard the division (stl/reader.py line 68), e.g. progress only when the count is positive; 1-2 lines")
add("C18.reader.stl", "AttributeError@stl/datafile.py:DataFile.process_tti_block",
    "STL reader: the first TTI block has cumulative status CS=2/3 (or CS outside 0..3), or its SN equals the initial None-compare in a way that skips the "
    "paragraph creation: cur_p_element is still None and .push_child / .set_begin is called on it",
    {"fmt": "stl", "build": "stl_gsi() + stl_tti(cs=2)"},
    "small: create the paragraph whenever cur_p_element is None (stl/datafile.py line 476 condition), or skip the block with an error log; 2-4 lines")
add("C18.reader.stl", "AttributeError@stl/datafile.py:DataFile.__init__",
    "STL reader with program_start_tc='TCP': an invalid GSI TCP field reaches the except branch, whose log call reads self.gsi.tcp (lower case; the field "
    "is TCP) -> AttributeError instead of the intended fallback to 0",
    {"fmt": "stl", "cfg": 1, "build": "stl_gsi(TCP='        ')"},
    "trivial: self.gsi.tcp -> self.gsi.TCP (stl/datafile.py line 356); 1 line")
add("C18.reader.stl", "ZeroDivisionError@stl/datafile.py:DataFile.process_tti_block",
    "STL reader with max_row_count='MNR' on an open-subtitle file (DSC not 1/2): GSI MNR = 00 gives max_row_count 0 and (VP - 1) / max_row_count "
    "divides by zero",
    {"fmt": "stl", "cfg": 1, "build": "stl_gsi(DSC='0', MNR='00') + stl_tti()"},
    "small: reject MNR < 1 like an invalid MNR (stl/datafile.py lines 367-373); 2-3 lines")
add("C18.reader.stl", "AttributeError@stl/datafile.py:DataFile.get_max_row_count",
    "STL reader with max_row_count='MNR' on an open-subtitle file: an invalid GSI MNR field reaches the except branch, which assigns the default to "
    "self.start_offset instead of self.max_row_count; the attribute max_row_count is never set and the first TTI block that is not skipped (TCI >= 23 s, the bogus start offset) fails",
    {"fmt": "stl", "cfg": 1, "build": "stl_gsi(DSC='0', MNR='  ') + stl_tti(tci=(0, 1, 0, 0), tco=(0, 1, 2, 0))"},
    "trivial: self.start_offset = DEFAULT_TELETEXT_ROWS -> self.max_row_count = DEFAULT_TELETEXT_ROWS (stl/datafile.py line 373); 1 line")

# ---------------------------------------------------------------------------------------------------- IMSC reader
for _cls, _attr in (("Direction", "tts:direction"), ("Display", "tts:display"), ("DisplayAlign", "tts:displayAlign"), ("FontStyle", "tts:fontStyle"),
                    ("FontWeight", "tts:fontWeight"), ("MultiRowAlign", "ebutts:multiRowAlign"), ("Overflow", "tts:overflow"), ("RubyAlign", "tts:rubyAlign"),
                    ("RubyPosition", "tts:rubyPosition"), ("RubyReserve", "tts:rubyReserve"), ("ShowBackground", "tts:showBackground"),
                    ("TextAlign", "tts:textAlign"), ("TextCombine", "tts:textCombine"), ("UnicodeBidi", "tts:unicodeBidi"), ("Visibility", "tts:visibility"),
                    ("WrapOption", "tts:wrapOption"), ("WritingMode", "tts:writingMode")):
  add("C18.reader.ttml", f"KeyError@imsc/style_properties.py:StyleProperties.{_cls}.extract",
      f"IMSC reader: an unknown keyword for the enumerated style property {_attr} is looked up with Enum[...] and raises KeyError; the callers catch "
      "ValueError only, so the whole read fails instead of the attribute being ignored (one defect pattern shared by the 17 enumerated properties: direction, "
      "display, displayAlign, fontStyle, fontWeight, multiRowAlign, overflow, rubyAlign, rubyPosition, rubyReserve, showBackground, textAlign, textCombine, "
      "unicodeBidi, visibility, wrapOption, writingMode)",
      {"fmt": "ttml", "text": f"<tt NS><body {_attr}=\"zzz\"/></tt>"},
      "small, one fix for all 17: catch (ValueError, KeyError) in the four per-attribute handlers of imsc/elements.py (lines 606, 679, 763, 792); 4 lines")
add("C18.reader.ttml", "IndexError@imsc/attributes.py:ExtentAttribute.extract",
    "IMSC reader: tts:extent on <tt> with a single component: ExtentAttribute.extract indexes s[1] without checking the number of components",
    {"fmt": "ttml", "text": "<tt NS tts:extent=\"1em\"/>"},
    "small: check len(s) == 2 and log an error otherwise (imsc/attributes.py line 156-160); 3 lines")
add("C18.reader.ttml", "TypeError@imsc/elements.py:ContentElement.ParsingContext.process",
    "IMSC reader: a child of a timeContainer=\"seq\" element that follows a sibling with an indefinite end (e.g. an untimed <p> with text): "
    "parent_ctx.implicit_end is None and None - Fraction is computed",
    {"fmt": "ttml", "text": "<tt NS><body><div timeContainer=\"seq\"><p>hello</p><p/></div></body></tt>"},
    "small-medium: when the previous sibling of a seq container never ends the following children can never begin: skip them "
    "(imsc/elements.py line 829); 3-5 lines")
add("C18.reader.ttml", "TypeError@model.py:ContentElement.set_space",
    "IMSC reader: a <set> element with content-element children: SetElement ignores xml:space, so its context's space is None and the child inherits "
    "None -> set_space(None) raises TypeError",
    {"fmt": "ttml", "text": "<tt NS><body><set><p/></set></body></tt>"},
    "small: do not descend into children of <set> (has_children is False for it) or inherit space/lang from the parent context in "
    "SetElement.ParsingContext (imsc/elements.py line 1185-1191); 2-4 lines")
add("C18.reader.ttml", "ZeroDivisionError@imsc/utils.py:parse_time_expression",
    "IMSC reader: ttp:frameRate=\"0\" (or ttp:tickRate=\"0\") is accepted and the first frame / tick time expression divides by zero",
    {"fmt": "ttml", "text": "<tt NS ttp:frameRate=\"0\"><body><div begin=\"10f\"/></body></tt>"},
    "small: reject a zero frame rate / tick rate in FrameRateAttribute / TickRateAttribute.extract (imsc/attributes.py lines 236-252, 338-376); 4-6 lines")
add("C18.reader.ttml", "ZeroDivisionError@imsc/attributes.py:FrameRateAttribute.extract",
    "IMSC reader: ttp:frameRateMultiplier with a zero denominator (\"1 0\") -> Fraction(1, 0)",
    {"fmt": "ttml", "text": "<tt NS ttp:frameRateMultiplier=\"1 0\"/>"},
    "small: catch ZeroDivisionError as AspectRatioAttribute does (imsc/attributes.py line 370); 3 lines")
add("C18.reader.ttml", "RecursionError@imsc/elements.py:from_xml",
    "IMSC reader: content nested about 330 levels deep or more exhausts the interpreter stack (three Python frames per level); the statement lists "
    "RecursionError among the failures that must not happen",
    {"fmt": "ttml", "text": "<tt NS><body><div><p>@OPEN@x@CLOSE@</p></div></body></tt>", "repeat": {"open": "<span>", "close": "</span>", "n": 1500}},
    "not small: needs an explicit depth limit (raise ValueError beyond N levels, ~5 lines) or an iterative traversal")

# ---------------------------------------------------------------------------------------------------- ISD
add("C18.isd", "ValueError@model.py:Ruby.push_children",
    "ISD.from_model: a ruby container whose text annotation (rt / rtc) is temporally inactive at the snapshot time, or empty, while its base is active: the "
    "surviving children no longer satisfy Ruby.push_children and ValueError escapes (also listed under C01)",
    {"fmt": "ttml", "text": "<tt NS><body><div><p><span tts:ruby=\"container\"><span tts:ruby=\"base\">B</span><span tts:ruby=\"text\" begin=\"2s\" end=\"4s\">T</span>"
                            "</span></p></div></body></tt>"},
    "medium: in ISD._process_element drop the ruby (or keep only the base as a span) when its children are not a valid combination (isd.py around the "
    "push_children call); ~10 lines")
add("C18.isd", "ValueError@isd.py:_compute_length",
    "ISD.from_model: a relative length on an element for which the style processor passes no reference to _compute_length: tts:disparity=\"1em\" "
    "-> ValueError('Em length computed without em reference'); tts:lineHeight=\"10%\" on br -> ValueError('Percent length computed without pct "
    "reference') (same raising function, one signature)",
    {"fmt": "ttml", "text": "<tt NS><body><div><p><br tts:disparity=\"1em\"/></p></div></body></tt>"},
    "small: pass the computed font size as em reference in the Disparity processor (isd.py StyleProcessors.Disparity.compute); few lines")

add("C18.isd", "AttributeError@isd.py:StyleProcessors.Padding.compute",
    "ISD.from_model: tts:padding on an element other than a region (the IMSC reader stores any style attribute on any content element): the Padding "
    "processor reads the element's tts:extent, which only regions have -> None.height",
    {"fmt": "ttml", "text": "<tt NS><body><div><p><br tts:padding=\"10px\"/></p></div></body></tt>"},
    "small: skip (or drop) the property when element.get_style(Extent) is None in StyleProcessors.Padding.compute (isd.py line 1067-1075), or have the reader "
    "ignore style attributes that do not apply to the element; 2-3 lines")

add("C18.isd", "AttributeError@isd.py:StyleProcessors.Position.compute",
    "ISD.from_model: tts:position on an element other than a region: the Position processor reads the element's tts:extent (None) -> None.height",
    {"fmt": "ttml", "text": "<tt NS><body><div><p><br tts:position=\"center\"/></p></div></body></tt>"},
    "small: same guard as for Padding (isd.py StyleProcessors.Position.compute), or one reader-side filter on is_style_applicable; 2-3 lines")
add("C18.isd", "AttributeError@isd.py:StyleProcessors.RubyReserve.compute",
    "ISD.from_model: tts:rubyReserve without a length on an element that has no computed tts:fontSize (br): the processor reads fs.value of None",
    {"fmt": "ttml", "text": "<tt NS><body><div><p><br tts:rubyReserve=\"before\"/></p></div></body></tt>"},
    "small: guard on a missing font size in StyleProcessors.RubyReserve.compute (isd.py line ~1225), or the reader-side applicability filter; 2-3 lines")

# ---------------------------------------------------------------------------------------------------- writers
add("C18.writer.srt", "ValueError@srt/paragraph.py:SrtParagraph.to_string",
    "SRT writer: an interval shorter than a millisecond (begin and end round to the same time code) -> ValueError('SRT paragraph end time code must be "
    "greater than the begin time code.')",
    {"fmt": "ttml", "text": "<tt NS><body><div><p begin=\"1s\" end=\"1.0001s\">Hello</p></div></body></tt>"},
    "small: drop (or extend to 1 ms) cues whose rounded end <= begin in SrtContext before to_string (srt/writer.py add_isd / srt/paragraph.py line 89); 3-5 lines")
add("C18.writer.vtt", "ValueError@vtt/cue.py:VttCue.to_string",
    "WebVTT writer: an interval shorter than a millisecond -> ValueError('VTT paragraph end time code must be greater than the begin time code.')",
    {"fmt": "ttml", "text": "<tt NS><body><div><p begin=\"1s\" end=\"1.0001s\">Hello</p></div></body></tt>"},
    "small: as for SRT (vtt/writer.py add_isd / vtt/cue.py line 125); 3-5 lines")
add("C18.writer.imsc", "ValueError@time_code.py:ClockTime.from_seconds",
    "IMSC writer on a document returned by the SCC reader: paint-on text before the caption's begin gives spans with a NEGATIVE begin offset "
    "(e.g. -1 s relative to the paragraph); ClockTime.from_seconds rejects negative values",
    {"fmt": "scc", "text": "00:00:01:00\t9429 2080 942f\n00:00:02:00\t942f 942f\n"},
    "the defect is in the SCC reader (scc/caption_paragraph.py to_paragraph computes span begin - paragraph begin without clamping at 0); small there: "
    "max(0, ...) ; 1-2 lines")
add("C18.filtered.writer.srt", "ValueError@model.py:Ruby.push_children",
    "read -> LCD filter -> SRT writer: the ruby defect of C18.isd, reached only after the filter has removed tts:display=\"none\" from the region "
    "(before filtering the region is never shown, so the unfiltered snapshots do not meet the ruby)",
    {"fmt": "ttml", "text": "<tt NS><head><layout><region xml:id=\"r1\" tts:display=\"none\"/></layout></head><body><div><p><span tts:ruby=\"container\">"
                            "<span tts:ruby=\"baseContainer\"><span tts:ruby=\"base\">B2</span></span><span tts:ruby=\"textContainer\" end=\"3s\"/></span></p></div></body></tt>"},
    "same fix as C18.isd ValueError@model.py:push_children")
add("C18.filtered.writer.srt", "ValueError@srt/paragraph.py:SrtParagraph.to_string",
    "read -> LCD filter -> SRT writer: the sub-millisecond interval defect of C18.writer.srt, on content that is hidden (tts:visibility=\"hidden\") before "
    "the filter removes the property",
    {"fmt": "ttml", "text": "<tt NS><body><div><p begin=\"5s\" end=\"5.0001s\" tts:visibility=\"hidden\">short</p></div></body></tt>"},
    "same fix as C18.writer.srt ValueError@srt/paragraph.py:to_string")
add("C18.filtered.writer.vtt", "ValueError@vtt/cue.py:VttCue.to_string",
    "read -> LCD filter -> WebVTT writer: the sub-millisecond interval defect of C18.writer.vtt, on content hidden before filtering",
    {"fmt": "ttml", "text": "<tt NS><body><div><p begin=\"5s\" end=\"5.0001s\" tts:visibility=\"hidden\">short</p></div></body></tt>"},
    "same fix as C18.writer.vtt ValueError@vtt/cue.py:to_string")

DEEP = {"fmt": "srt", "text": TC + "@OPEN@x\n", "repeat": {"open": "<i>", "close": "", "n": 1500}}
for _clause in ("C18.isd",):     # the snapshot stage runs first and always overflows first; the later stages fail alike on the same document
  add(_clause, "RecursionError(deeply nested document)",
      "a document nested several hundred levels deep (the SRT and WebVTT readers build it iteratively from e.g. 1500 unclosed <i> tags; the IMSC reader "
      "itself overflows, see C18.reader.ttml) overflows the recursion of every tree walk downstream: ISD.significant_times / _process_element / "
      "_copy_content_element, the style and animation filters, ContentElement.dfs_iterator and the writers; reported once per document under the first stage "
      "that fails (the discriminator is deliberately the same for all walks)",
      DEEP,
      "not small in the walks themselves; the maintainable fix is a nesting limit in the readers (ValueError beyond e.g. 64 levels; ~3 lines per reader)")


def main():
  # every entry is executed against the current tree (tools/c18_repro.py): what no longer reproduces is recorded as fixed (suppresses nothing)
  import sys
  sys.argv = sys.argv[:1] + sys.argv[1:2]
  sys.path.insert(0, os.path.dirname(os.path.abspath(__file__)))
  import c18_repro
  for k in F:
    c18_repro.CLAUSE[0] = k["clause"]
    got = None
    try:
      c18_repro.stage(k["clause"], k["witness"])
    except BaseException as e:  # pylint: disable=broad-except
      got = c18_repro.disc_of(e)
    if got != k["disc"]:
      k["status"] = "fixed"
      k["fix_hint"] = "no longer reproduces on the current tree (observed: " + str(got) + "); was: " + k["fix_hint"]
      print("not reproduced -> recorded as fixed:", k["clause"], k["disc"], "observed", got)
  out = os.path.join(os.path.dirname(os.path.dirname(os.path.abspath(__file__))), "known_findings.d", "C18.json")
  with open(out, "w", encoding="utf-8") as f:
    json.dump({"findings": F}, f, indent=1, ensure_ascii=False)
    f.write("\n")
  print(f"{len(F)} findings written to {out}")


if __name__ == "__main__":
  main()

"""Entry point: python -B mc/main.py <property id> [--tier quick|thorough] [--seed N] [--replay path]"""
import argparse
import importlib
import os
import sys

sys.path.insert(0, os.path.dirname(os.path.dirname(os.path.abspath(__file__))))

from mc import env  # noqa: E402  (sets up sys.path for the explored tree)
from mc import kernel  # noqa: E402


def main(argv=None):
  ap = argparse.ArgumentParser()
  ap.add_argument("prop")
  ap.add_argument("--tier", default=os.environ.get("VERIF_TIER", "quick"), choices=["quick", "thorough"])
  ap.add_argument("--seed", type=int, default=int(os.environ.get("VERIF_SEED", "0") or 0))
  ap.add_argument("--replay")
  ap.add_argument("--no-confirm", action="store_true")
  a = ap.parse_args(argv)
  import logging
  # library loggers must never reach the console; checks that need records attach their own handlers
  root = logging.getLogger()
  root.handlers[:] = [logging.NullHandler()]
  logging.getLogger("ttconv").propagate = False
  logging.getLogger("ttconv").handlers[:] = [logging.NullHandler()]
  logging.lastResort = None
  mod = importlib.import_module(f"mc.props.{a.prop.lower()}")
  if a.replay:
    import json
    with open(a.replay, encoding="utf-8") as f:
      rec = json.load(f)
    plan = mod.plan(rec.get("tier", a.tier), rec.get("seed", a.seed))
    return kernel.replay(mod.ID, plan, a.replay)
  print(f"[{mod.ID}] exploring {env.REPO} tier={a.tier} seed={a.seed}", flush=True)
  return kernel.run_property(mod, a.tier, a.seed, confirm=not a.no_confirm)


if __name__ == "__main__":
  try:
    code = main()
  except SystemExit:
    raise
  except BaseException:  # pylint: disable=broad-except
    import traceback
    traceback.print_exc()
    print("HARNESS-ERROR: uncaught exception in the runner")
    code = 2
  sys.exit(code)

"""Environment set-up shared by every check: which tree is explored and how it is imported.

The implementation under exploration is always the *working tree* of the repository (default /repo, override
with TTCONV_REPO for scratch worktrees used while testing the checks against seeded changes).  Its
`src/main/python` is put first on sys.path so that nothing installed elsewhere can shadow it.
"""
import os
import sys

VERIF = os.path.dirname(os.path.dirname(os.path.abspath(__file__)))
REPO = os.environ.get("TTCONV_REPO", "/repo")
SRC = os.path.join(REPO, "src", "main", "python")
RES = os.path.join(REPO, "src", "test", "resources")


def setup():
  if sys.path[0] != SRC:
    if SRC in sys.path:
      sys.path.remove(SRC)
    sys.path.insert(0, SRC)
  os.environ.setdefault("ISD_NO_MULTIPROC", "1")
  import ttconv  # noqa
  got = os.path.dirname(os.path.abspath(ttconv.__file__))
  want = os.path.join(SRC, "ttconv")
  if os.path.realpath(got) != os.path.realpath(want):
    raise RuntimeError(f"ttconv imported from {got}, expected {want}")


setup()

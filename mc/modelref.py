"""Shared machinery of C15: named worlds of REAL ttconv.model objects, projections of the real object graph,
the well-formedness invariant, and a boring reference model of the mutators (dicts of child lists / parent map /
registry dict).  Nothing here calls the library's own validation or traversal helpers to *judge*: traversals
use visited sets / step budgets, value validity is decided by `my_valid`.

Vocabulary
  world     : the named real objects of one replay (`World`), re-created for every replay
  event     : plain data, e.g. ["push_child", "div1", "p1"], ["push_children", "ruby", ["rb", "rt"]],
              ["set_style", "span1", "FontFamily", "ff_bad_int"], ["remove_region", "A", "r1"]
  tokens    : object names of the world, "NONE" (None), "JUNK" (the str "junk"), style property names,
              value names of VALUES, region id strings
"""
from __future__ import annotations

import copy
import hashlib
import itertools
import numbers
import _signal
import signal
import sys
import time
from fractions import Fraction

from mc import env  # noqa: F401  (sys.path)
from mc.kernel import CaseTimeout, HarnessError

import ttconv.model as M
import ttconv.style_properties as S

SP = S.StyleProperties
L = S.LengthType
U = S.LengthType.Units

# ------------------------------------------------------------------------------------------------------
# content model of doc/data_model.md (restated by hand)

KINDS = {k: getattr(M, k) for k in ("Body", "Div", "P", "Span", "Br", "Text", "Ruby", "Rb", "Rt", "Rp", "Rbc", "Rtc", "Region")}

ALLOWED = {
  "Body": {"Div"},
  "Div": {"P", "Div"},
  "P": {"Span", "Ruby", "Br"},
  "Span": {"Span", "Br", "Text"},
  "Ruby": {"Rb", "Rt", "Rp", "Rbc", "Rtc"},   # order/pattern judged by ruby_ok
  "Rbc": {"Rb"},
  "Rtc": {"Rt", "Rp"},                        # pattern judged by rtc_ok
  "Rb": {"Span"}, "Rt": {"Span"}, "Rp": {"Span"},
  "Br": set(), "Text": set(), "Region": set(),
}

# Ruby : Rb? Rt? | Rb? Rp Rt? Rp | Rbc Rtc Rtc?
RUBY_SEQS = {
  (), ("Rb",), ("Rt",), ("Rb", "Rt"),
  ("Rp", "Rp"), ("Rb", "Rp", "Rp"), ("Rp", "Rt", "Rp"), ("Rb", "Rp", "Rt", "Rp"),
  ("Rbc", "Rtc"), ("Rbc", "Rtc", "Rtc"),
}


def ruby_ok(kinds) -> bool:
  return tuple(kinds) in RUBY_SEQS


def rtc_ok(kinds) -> bool:
  """Rtc : Rt* | Rp Rt* Rp"""
  k = list(kinds)
  if all(x == "Rt" for x in k):
    return True
  return len(k) >= 2 and k[0] == "Rp" and k[-1] == "Rp" and all(x == "Rt" for x in k[1:-1])


# ------------------------------------------------------------------------------------------------------
# style values (named, so that events stay plain data) and the independent notion of validity

_ENUM_PROPS = {
  "Direction": S.DirectionType, "Display": S.DisplayType, "DisplayAlign": S.DisplayAlignType,
  "FontStyle": S.FontStyleType, "FontWeight": S.FontWeightType, "MultiRowAlign": S.MultiRowAlignType,
  "Overflow": S.OverflowType, "RubyAlign": S.RubyAlignType, "RubyPosition": S.AnnotationPositionType,
  "ShowBackground": S.ShowBackgroundType, "TextAlign": S.TextAlignType, "TextCombine": S.TextCombineType,
  "UnicodeBidi": S.UnicodeBidiType, "Visibility": S.VisibilityType, "WrapOption": S.WrapOptionType,
  "WritingMode": S.WritingModeType,
}
_TYPE_PROPS = {
  "BackgroundColor": S.ColorType, "Color": S.ColorType, "Disparity": S.LengthType, "FontSize": S.LengthType,
  "TextDecoration": S.TextDecorationType,
}
_NUM_PROPS = ("LuminanceGain", "Opacity", "Shear")
_ROOT_UNITS = (U.pct, U.px, U.c, U.rh, U.rw)     # doc/data_model.md "Lengths": extent, origin, position


def my_valid(prop, value):
  """True / False / None (= not judged: the documentation does not decide).  `prop` is the property class."""
  name = getattr(prop, "__name__", None)
  if name is None or getattr(SP, name, None) is not prop:
    return False                                    # not a style property at all
  if value is None:
    return False                                    # None means "no value" and is never stored
  if name in _ENUM_PROPS:
    return isinstance(value, _ENUM_PROPS[name])
  if name in _TYPE_PROPS:
    return isinstance(value, _TYPE_PROPS[name])
  if name in _NUM_PROPS:
    if isinstance(value, bool):
      return None
    return isinstance(value, numbers.Number)
  if name == "FillLineGap":
    return isinstance(value, bool)
  if name == "FontFamily":
    # a non-empty list of non-empty family names / generic families (an empty list or name has no tts:fontFamily syntax)
    return isinstance(value, tuple) and len(value) > 0 and all(isinstance(i, (str, S.GenericFontFamilyType)) and i != "" for i in value)
  if name == "Padding":
    return isinstance(value, S.PaddingType) and all(isinstance(getattr(value, f), S.LengthType) for f in ("before", "end", "after", "start"))
  if name == "LineHeight":
    return value is S.SpecialValues.normal or isinstance(value, S.LengthType)
  if name == "LinePadding":
    if not isinstance(value, S.LengthType):
      return False
    return True if value.units is U.c else None
  if name in ("RubyReserve", "TextEmphasis", "TextOutline", "TextShadow"):
    t = {"RubyReserve": S.RubyReserveType, "TextEmphasis": S.TextEmphasisType, "TextOutline": S.TextOutlineType,
         "TextShadow": S.TextShadowType}[name]
    return value is S.SpecialValues.none or isinstance(value, t)
  if name == "Extent":
    if not isinstance(value, S.ExtentType) or not isinstance(value.height, L) or not isinstance(value.width, L):
      return False
    if value.height.units is U.em or value.width.units is U.em:
      return False
    return True if value.height.units in (U.pct, U.px, U.c, U.rh) and value.width.units in (U.pct, U.px, U.c, U.rw) else None
  if name == "Origin":
    if not isinstance(value, S.CoordinateType) or not isinstance(value.x, L) or not isinstance(value.y, L):
      return False
    if value.x.units is U.em or value.y.units is U.em:
      return False
    return True if value.x.units in (U.pct, U.px, U.c, U.rw) and value.y.units in (U.pct, U.px, U.c, U.rh) else None
  if name == "Position":
    if not isinstance(value, S.PositionType) or not isinstance(value.h_offset, L) or not isinstance(value.v_offset, L):
      return False
    if value.h_offset.units is U.em or value.v_offset.units is U.em:
      return False
    return True if value.h_offset.units in (U.pct, U.px, U.c, U.rw) and value.v_offset.units in (U.pct, U.px, U.c, U.rh) else None
  return None


# name -> (python value, value class used in discriminators)
_VAL_LIST = [
  ("color", S.ColorType((0, 0, 0, 255)), "color"),
  ("color2", S.ColorType((255, 0, 0, 255)), "color"),
  ("dir_rtl", S.DirectionType.rtl, "enum"),
  ("display_none", S.DisplayType.none, "enum"),
  ("dalign_after", S.DisplayAlignType.after, "enum"),
  ("fstyle_italic", S.FontStyleType.italic, "enum"),
  ("fweight_bold", S.FontWeightType.bold, "enum"),
  ("mra_center", S.MultiRowAlignType.center, "enum"),
  ("overflow_visible", S.OverflowType.visible, "enum"),
  ("rubyalign_sa", S.RubyAlignType.spaceAround, "enum"),
  ("annot_before", S.AnnotationPositionType.before, "enum"),
  ("showbg_active", S.ShowBackgroundType.whenActive, "enum"),
  ("talign_center", S.TextAlignType.center, "enum"),
  ("tcombine_all", S.TextCombineType.all, "enum"),
  ("ubidi_embed", S.UnicodeBidiType.embed, "enum"),
  ("vis_hidden", S.VisibilityType.hidden, "enum"),
  ("wrap_no", S.WrapOptionType.noWrap, "enum"),
  ("wm_tbrl", S.WritingModeType.tbrl, "enum"),
  ("special_normal", S.SpecialValues.normal, "special"),
  ("special_none", S.SpecialValues.none, "special"),
  ("len_pct", L(10, U.pct), "length"),
  ("len_em", L(1, U.em), "length"),
  ("len_c", L(1, U.c), "length"),
  ("len_px", L(5, U.px), "length"),
  ("extent_pct", S.ExtentType(height=L(50, U.pct), width=L(50, U.pct)), "extent"),
  ("extent_em", S.ExtentType(height=L(1, U.em), width=L(1, U.em)), "extent-em"),
  ("origin_pct", S.CoordinateType(L(5, U.pct), L(5, U.pct)), "coord"),
  ("origin_em", S.CoordinateType(L(1, U.em), L(1, U.em)), "coord-em"),
  ("position_pct", S.PositionType(L(5, U.pct), L(5, U.pct)), "position"),
  ("position_em", S.PositionType(L(1, U.em), L(1, U.em)), "position-em"),
  ("padding", S.PaddingType(), "padding"),
  ("rubyreserve", S.RubyReserveType(), "rubyreserve"),
  ("textdeco", S.TextDecorationType(underline=True), "textdeco"),
  ("textemph", S.TextEmphasisType(), "textemph"),
  ("textoutline", S.TextOutlineType(L(1, U.pct)), "textoutline"),
  ("textshadow", S.TextShadowType(()), "textshadow"),
  ("true", True, "bool"),
  ("int1", 1, "int"),
  ("half", 0.5, "float"),
  ("junkstr", "junk", "str"),
  ("ff_ok", ("Arial", S.GenericFontFamilyType.serif), "tuple-ok"),
  ("ff_one", ("a",), "tuple-ok"),
  ("ff_empty", (), "tuple-empty"),
  ("ff_empty_name", ("a", ""), "tuple-bad-item"),
  ("padding_bad_member", S.PaddingType(before=3), "padding-bad-member"),
  ("ff_bad_int", (1,), "tuple-bad-item"),
  ("ff_bad_mixed", ("a", None), "tuple-bad-item"),
  ("ff_bad_nested", (("a",),), "tuple-bad-item"),
  ("ff_list", ["a"], "list"),
  ("ff_bare_generic", S.GenericFontFamilyType.default, "bare-generic"),
]
VALUES = {n: v for n, v, _c in _VAL_LIST}
VALUE_CLASS = {n: c for n, _v, c in _VAL_LIST}
VALUE_CLASS["NONE"] = "none"
_VALUE_NAME_BY_ID = {id(v): n for n, v, _c in _VAL_LIST}
PROP_NAMES = sorted(p.__name__ for p in SP.ALL)


# value classes that are near misses of a property keep their name in discriminators; everything else is "wrong-type"
_NEAR = {
  "FontFamily": {"tuple-bad-item", "tuple-empty", "list", "bare-generic", "str"}, "Padding": {"padding-bad-member"},
  "Extent": {"extent-em"}, "Origin": {"coord-em"}, "Position": {"position-em"},
  "LineHeight": {"special"}, "RubyReserve": {"special"}, "TextEmphasis": {"special"}, "TextOutline": {"special"},
  "TextShadow": {"special"}, "FillLineGap": {"int"},
}


def near_miss_class(prop_name, vclass):
  return vclass if vclass in _NEAR.get(prop_name, ()) else "wrong-type"


class NotAProperty:          # "NOPROP": a class that is not a style property
  @staticmethod
  def validate(_v):
    return True
  is_animatable = True


def valname(v):
  if v is None:
    return None
  n = _VALUE_NAME_BY_ID.get(id(v))
  if n is not None and VALUES[n] is v:
    return n
  return "repr:" + repr(v)[:80]


def propname(p):
  n = getattr(p, "__name__", None)
  return n if n is not None else "repr:" + repr(p)[:60]


def enc_space(v):
  return v.name if isinstance(v, M.WhiteSpaceHandling) else ("repr:" + repr(v))


def enc_plain(v):
  if v is None or isinstance(v, (bool, int, str, Fraction)):
    return v
  return "repr:" + repr(v)[:80]


# ------------------------------------------------------------------------------------------------------
# worlds


class World:
  """The named real objects of one replay."""

  def __init__(self, universe):
    self.objs = {}
    self.kind = {}
    self.rid = {}
    self.docs = list(universe["docs"])
    self.elems = []
    self.ids = list(universe.get("ids", ()))
    for d in self.docs:
      self.objs[d] = M.ContentDocument()
      self.kind[d] = "Doc"
    for spec in universe["elems"]:
      name, kind, doc = spec[0], spec[1], spec[2]
      dobj = self.objs[doc] if doc is not None else None
      if kind == "Region":
        o = M.Region(spec[3], dobj)
        self.rid[name] = spec[3]
      elif kind == "Text":
        o = M.Text(dobj, "x")
      else:
        o = KINDS[kind](dobj)
      self.objs[name] = o
      self.kind[name] = kind
      self.elems.append(name)
    self.names = {id(o): n for n, o in self.objs.items()}
    self.names_or_none = dict(self.names)
    self.names_or_none[id(None)] = None
    self.n = len(self.elems)

  def nameof(self, o):
    if o is None:
      return None
    n = self.names.get(id(o))
    if n is not None:
      return n
    if isinstance(o, str):
      return "str:" + o
    return "?" + type(o).__name__

  def arg(self, tok):
    """token -> python object handed to the library"""
    if isinstance(tok, list):
      return [self.arg(t) for t in tok]
    if tok == "NONE":
      return None
    if tok == "JUNK":
      return "junk"
    o = self.objs.get(tok)
    if o is None:
      raise HarnessError(f"unknown token {tok!r}")
    return o


def prop_arg(tok):
  if tok == "NONE":
    return None
  if tok == "JUNK":
    return "junk"
  if tok == "NOPROP":
    return NotAProperty
  if tok == "UNHASHABLE":
    return []
  return getattr(SP, tok)


def value_arg(tok):
  if tok == "NONE":
    return None
  return VALUES[tok]


# ------------------------------------------------------------------------------------------------------
# running one event on the real objects (guarded against non-termination)


class StepBudgetExceeded(Exception):
  pass


OP_TIMER_S = 0.05
_HUNG_BEFORE = set()
_SIGALRM = int(signal.SIGALRM)
TRACE_BUDGET = 20000


def _closure(w: World, ev):
  op = ev[0]
  if op in ("push_child", "remove_child", "set_doc", "set_region", "put_region", "set_body", "copy_to"):
    t, a = w.objs[ev[1]], w.arg(ev[2])
    return getattr(t, op), (a,)
  if op == "push_children":
    t, a = w.objs[ev[1]], w.arg(ev[2])
    return t.push_children, (a,)
  if op in ("remove", "remove_children"):
    return getattr(w.objs[ev[1]], op), ()
  if op == "remove_region":
    return w.objs[ev[1]].remove_region, (None if ev[2] == "NONE" else ev[2],)
  if op in ("set_style", "put_initial_value"):
    return getattr(w.objs[ev[1]], op), (prop_arg(ev[2]), value_arg(ev[3]))
  if op == "add_animation_step":
    t = w.objs[ev[1]]
    if len(ev) == 3:
      return t.add_animation_step, (w.arg(ev[2]),)
    p, v = prop_arg(ev[2]), value_arg(ev[3])
    return (lambda: t.add_animation_step(M.DiscreteAnimationStep(p, None, None, v))), ()
  if op == "call":                      # set-up only: ["call", target, method, literal]
    return getattr(w.objs[ev[1]], ev[2]), (ev[3],)
  raise HarnessError(f"unknown operation {op!r}")


def _run_traced(fn, args):
  """deterministic step budget: counts line events, aborts the call after TRACE_BUDGET of them"""
  n = [0]

  def local(_frame, event, _arg):
    if event == "line":
      n[0] += 1
      if n[0] > TRACE_BUDGET:
        raise StepBudgetExceeded()
    return local

  def glob(_frame, _event, _arg):
    return local
  old = sys.gettrace()
  sys.settrace(glob)
  try:
    fn(*args)
  finally:
    sys.settrace(old)


def run_event(w: World, ev, retry_world=None, guard=True):
  """Executes the event.  Returns (outcome, world): outcome is "ok", "exc:<Type>" or "hang".  A call that does not
  return within OP_TIMER_S is re-run on `retry_world()` (a fresh replay) under a deterministic step budget; only if the
  budget is exhausted as well is the outcome "hang" (a slow machine cannot fake a hang).  After "hang" the world must
  be discarded.  The kernel's per-history alarm is suspended while the per-call alarm is armed and restored afterwards."""
  fn, args = _closure(w, ev)
  # guard=False: replays of set-up events and of history events (each of them returned when it was first executed
  # under the guard, a call that hangs never becomes part of a history) run without the per-call alarm
  armed = guard and callable(_signal.getsignal(_SIGALRM))     # only where the kernel installed its alarm handler
  if not armed:
    try:
      fn(*args)
      return "ok", w
    except RecursionError:
      return "exc:RecursionError", w
    except Exception as e:  # pylint: disable=broad-except
      return "exc:" + type(e).__name__, w
  remaining, _ = signal.getitimer(signal.ITIMER_REAL)
  t0 = time.monotonic()
  res = None
  hkey = (ev[0], ev[1], ev[2] if len(ev) > 2 and isinstance(ev[2], str) else None)
  if hkey in _HUNG_BEFORE and retry_world is not None:
    # this call shape exhausted the step budget before in this process: skip the alarm phase and run it under the
    # (deterministic, complete) step budget right away, on the world at hand
    signal.setitimer(signal.ITIMER_REAL, 0)
    try:
      _run_traced(fn, args)
      res = "ok"
    except StepBudgetExceeded:
      res, w = "hang", None
    except RecursionError:
      res = "exc:RecursionError"
    except Exception as e:  # pylint: disable=broad-except
      res = "exc:" + type(e).__name__
    if remaining > 0:
      signal.setitimer(signal.ITIMER_REAL, max(0.05, remaining - (time.monotonic() - t0)))
    return res, w
  try:
    # everything between arming and disarming sits inside this try: the alarm may be delivered at any byte code
    try:
      signal.setitimer(signal.ITIMER_REAL, OP_TIMER_S)
      fn(*args)
      res = "ok"
    except CaseTimeout:
      raise
    except RecursionError:
      res = "exc:RecursionError"
    except Exception as e:  # pylint: disable=broad-except
      res = "exc:" + type(e).__name__
    finally:
      signal.setitimer(signal.ITIMER_REAL, 0)
    _pad = 0  # noqa: F841  (a late delivery still lands inside the try)
  except CaseTimeout:
    signal.setitimer(signal.ITIMER_REAL, 0)
    res = "slow"
  out = w
  if res == "slow":
    if retry_world is None:
      res, out = "hang", None
    else:
      out = retry_world()
      fn, args = _closure(out, ev)
      try:
        _run_traced(fn, args)
        res = "ok"
      except StepBudgetExceeded:
        res, out = "hang", None
        _HUNG_BEFORE.add(hkey)
      except RecursionError:
        res = "exc:RecursionError"
      except Exception as e:  # pylint: disable=broad-except
        res = "exc:" + type(e).__name__
  if remaining > 0:
    signal.setitimer(signal.ITIMER_REAL, max(0.05, remaining - (time.monotonic() - t0)))
  return res, out


# ------------------------------------------------------------------------------------------------------
# projections of the real object graph

_ELEM_KNOWN = frozenset(("_space", "_lang", "_doc", "_first_child", "_last_child", "_parent", "_previous_sibling",
                         "_next_sibling", "_styles", "_sets", "_region", "_begin", "_end", "_id", "_text"))
_DOC_KNOWN = frozenset(("_regions", "_body", "_initial_values", "_cell_resolution", "_px_resolution", "_active_area",
                        "_dar", "_lang"))


def _enc_styles(d):
  if not isinstance(d, dict):
    return "repr:" + repr(d)[:80]
  return tuple((propname(k), valname(v)) for k, v in d.items())


def _enc_step(s):
  if isinstance(s, M.DiscreteAnimationStep):
    return (propname(s.style_property), enc_plain(s.begin), enc_plain(s.end), valname(s.value))
  return "repr:" + repr(s)[:80]


def _enc_sets(lst):
  if not isinstance(lst, list):
    return "repr:" + repr(lst)[:80]
  if len(lst) > 64:
    return ("huge", len(lst))
  return tuple(_enc_step(s) for s in lst)


_UNK = object()
_PLAIN_TYPES = (type(None), str, int, bool, Fraction)
_LINKS = ("_doc", "_parent", "_first_child", "_last_child", "_previous_sibling", "_next_sibling", "_region")


def priv_projection(w: World):
  """Every instance attribute of every object, encoded with object names (complete state of the world)."""
  g = w.names_or_none.get
  n = w.nameof
  out = []
  for name in w.elems:
    d = w.objs[name].__dict__
    if _ELEM_KNOWN.issuperset(d):
      extra = ()
    else:
      extra = tuple(sorted((k, repr(v)[:40]) for k, v in d.items() if k not in _ELEM_KNOWN))
    links = (g(id(d["_doc"]), _UNK), g(id(d["_parent"]), _UNK), g(id(d["_first_child"]), _UNK), g(id(d["_last_child"]), _UNK),
             g(id(d["_previous_sibling"]), _UNK), g(id(d["_next_sibling"]), _UNK), g(id(d["_region"]), _UNK))
    if _UNK in links:
      links = tuple(n(d[f]) for f in _LINKS)
    st, se, sp = d["_styles"], d["_sets"], d["_space"]
    b, e, i, la, tx = d["_begin"], d["_end"], d["_id"], d["_lang"], d.get("_text")
    out.append(links + (
      _enc_styles(st) if st or not isinstance(st, dict) else (),
      _enc_sets(se) if se or not isinstance(se, list) else (),
      b if type(b) in _PLAIN_TYPES else enc_plain(b), e if type(e) in _PLAIN_TYPES else enc_plain(e),
      i if type(i) in _PLAIN_TYPES else enc_plain(i), la if type(la) in _PLAIN_TYPES else enc_plain(la),
      sp.name if type(sp) is M.WhiteSpaceHandling else enc_space(sp),
      tx if type(tx) in _PLAIN_TYPES else enc_plain(tx), extra))
  for name in w.docs:
    d = w.objs[name].__dict__
    regs = d["_regions"]
    extra = tuple(sorted((k, repr(v)[:40]) for k, v in d.items() if k not in _DOC_KNOWN)) if not _DOC_KNOWN.issuperset(d) else ()
    iv = d["_initial_values"]
    out.append((
      n(d["_body"]), tuple((enc_plain(k), n(v)) for k, v in regs.items()) if isinstance(regs, dict) else repr(regs)[:80],
      _enc_styles(iv) if iv or not isinstance(iv, dict) else (), enc_plain(d["_lang"]), repr(d["_cell_resolution"]),
      repr(d["_px_resolution"]), repr(d["_active_area"]), enc_plain(d["_dar"]), extra))
  return tuple(out)


PRIV_E = ("_doc", "_parent", "_first_child", "_last_child", "_previous_sibling", "_next_sibling", "_region", "_styles",
          "_sets", "_begin", "_end", "_id", "_lang", "_space", "_text", "extra")
PRIV_D = ("_body", "_regions", "_initial_values", "_lang", "_cell", "_px", "_aa", "_dar", "extra")


class Snap:
  """priv: tuple (see priv_projection); pub: name -> dict of public getter results (object names);
  key: canonical key = digest of (priv, pub)."""
  __slots__ = ("priv", "pub", "key")


def _kids_pub(w: World, e):
  """children through the public iterator, with a step budget (a sibling cycle must not hang the checker)"""
  out = []
  budget = w.n + 1
  for c in e:
    out.append(w.nameof(c))
    if len(out) > budget:
      return None
  return out


def snapshot(w: World, priv=None) -> Snap:
  s = Snap()
  s.priv = priv if priv is not None else priv_projection(w)
  n = w.nameof
  pub = {}
  for name in w.elems:
    e = w.objs[name]
    kids = _kids_pub(w, e)
    if kids is None:
      ln, item0 = "skipped", "skipped"
    else:
      ln = len(e)
      item0 = []                                   # e[i] for every index from -(n+1) to n (both ends out of range)
      for i in range(-len(kids) - 1, len(kids) + 1):
        try:
          item0.append(n(e[i]))
        except IndexError:
          item0.append("IndexError")
      item0 = tuple(item0)
    sty = []
    for p in e.iter_styles():
      sty.append((propname(p), valname(e.get_style(p)), e.has_style(p)))
    sets = e.iter_animation_steps()
    pub[name] = {
      "doc": n(e.get_doc()), "attached": e.is_attached(), "parent": n(e.parent()), "first": n(e.first_child()),
      "last": n(e.last_child()), "prev": n(e.previous_sibling()), "next": n(e.next_sibling()),
      "has_children": e.has_children(), "kids": kids, "len": ln, "item0": item0, "region": n(e.get_region()),
      "styles": tuple(sty), "sets": _enc_sets(list(itertools.islice(sets, 66))),
      "begin": enc_plain(e.get_begin()), "end": enc_plain(e.get_end()), "id": enc_plain(e.get_id()),
      "lang": enc_plain(e.get_lang()), "space": enc_space(e.get_space()),
      "text": enc_plain(e.get_text()) if w.kind[name] == "Text" else None,
    }
  for name in w.docs:
    d = w.objs[name]
    regs = [n(r) for r in d.iter_regions()]
    byid = {}
    for rid in w.ids:
      byid[rid] = (d.has_region(rid), n(d.get_region(rid)))
    init = tuple((propname(p), valname(v)) for p, v in d.iter_initial_values())
    initg = tuple((propname(p), valname(d.get_initial_value(p)), d.has_initial_value(p)) for p, _v in d.iter_initial_values())
    pub[name] = {"body": n(d.get_body()), "regions": tuple(regs), "byid": byid, "init": init, "initg": initg,
                 "lang": enc_plain(d.get_lang())}
  s.pub = pub
  full = (s.priv, tuple((k, tuple((f, tuple(v) if isinstance(v, list) else (tuple(sorted(v.items())) if isinstance(v, dict) else v))
                                   for f, v in pv.items())) for k, pv in pub.items()))
  # canonical key handed to the kernel: 128-bit digest of the complete (private, public) projection, computed once
  # per snapshot (the kernel hashes the repr of every successor key it is given; the projection is ~3 kB)
  s.key = hashlib.blake2b(repr(full).encode("utf-8", "surrogatepass"), digest_size=16).hexdigest()
  return s


# ------------------------------------------------------------------------------------------------------
# the invariant (one clause name each); returns {(clause, instance): (what, observed)}

STRUCTURAL = ("C15.links", "C15.acyclic", "C15.single-parent")


def _subtree(kids, root, limit):
  """names under `root` (inclusive) following child lists, visited set; returns (list, revisit_found)"""
  out, seen, stack, again = [], set(), [root], False
  while stack:
    x = stack.pop()
    if x in seen:
      again = True
      continue
    seen.add(x)
    out.append(x)
    ks = kids.get(x)
    if ks:
      stack.extend(reversed(ks))
    if len(out) > limit:
      break
  return out, again


def invariant(w: World, s: Snap):
  out = {}

  def add(clause, inst, what, obs=None):
    out.setdefault((clause, inst), (what, obs))

  pub = s.pub
  kind = w.kind
  kids = {name: pub[name]["kids"] for name in w.elems}
  privd = {name: dict(zip(PRIV_E, s.priv[i])) for i, name in enumerate(w.elems)}
  ne = len(w.elems)

  # --- getters agree with the link fields ---------------------------------------------------------------
  for name in w.elems:
    pb, pv = pub[name], privd[name]
    for g, f in (("doc", "_doc"), ("parent", "_parent"), ("first", "_first_child"), ("last", "_last_child"),
                 ("prev", "_previous_sibling"), ("next", "_next_sibling"), ("region", "_region"), ("sets", "_sets")):
      if pb[g] != pv[f]:
        add("C15.links", f"{name}.{g}", f"getter-vs-field:{g}", [pb[g], pv[f]])
    if tuple((p, v) for p, v, _h in pb["styles"]) != pv["_styles"] or not all(h for _p, _v, h in pb["styles"]):
      add("C15.links", f"{name}.styles", "getter-vs-field:styles", [pb["styles"], pv["_styles"]])
    if pb["attached"] != (pb["doc"] is not None):
      add("C15.links", f"{name}.attached", "is_attached", [pb["attached"], pb["doc"]])
    if pv["extra"]:
      add("C15.links", f"{name}.extra", "unexpected-attribute", pv["extra"])

  # --- child lists / parent / sibling / first / last / len ------------------------------------------------
  listers = {}
  for name in w.elems:
    pb = pub[name]
    ch = pb["kids"]
    if ch is None:
      add("C15.acyclic", f"{name}.children", "sibling-cycle", "iteration over the children does not end")
      continue
    if pb["len"] != len(ch):
      add("C15.links", f"{name}.len", "len", [pb["len"], len(ch)])
    if pb["has_children"] != bool(ch):
      add("C15.links", f"{name}.has_children", "has_children", [pb["has_children"], ch])
    if pb["first"] != (ch[0] if ch else None):
      add("C15.links", f"{name}.first", "first_child", [pb["first"], ch])
    if pb["last"] != (ch[-1] if ch else None):
      add("C15.links", f"{name}.last", "last_child", [pb["last"], ch])
    want_items = tuple(ch[i] if -len(ch) <= i < len(ch) else "IndexError" for i in range(-len(ch) - 1, len(ch) + 1))
    if tuple(pb["item0"]) != want_items:
      add("C15.links", f"{name}.item", "getitem", [pb["item0"], ch])
    for i, c in enumerate(ch):
      listers.setdefault(c, []).append(name)
      cp = pub.get(c)
      if cp is None or c in w.docs:
        add("C15.links", f"{name}>{c}", "child-is-not-an-element", c)
        continue
      if cp["parent"] != name:
        add("C15.links", f"{name}>{c}.parent", "child.parent", [cp["parent"], name])
      want_prev = ch[i - 1] if i else None
      want_next = ch[i + 1] if i + 1 < len(ch) else None
      if cp["prev"] != want_prev:
        add("C15.links", f"{name}>{c}.prev", "child.previous_sibling", [cp["prev"], want_prev])
      if cp["next"] != want_next:
        add("C15.links", f"{name}>{c}.next", "child.next_sibling", [cp["next"], want_next])
    # backwards: last_child, previous_sibling ... must be the reversed list
    back, x, steps = [], pb["last"], 0
    while x is not None and steps <= ne + 1:
      back.append(x)
      x = pub[x]["prev"] if x in pub and x not in w.docs else None
      steps += 1
    if steps > ne + 1:
      add("C15.acyclic", f"{name}.children-backwards", "sibling-cycle", back[:6])
    elif back != list(reversed(ch)):
      add("C15.links", f"{name}.backwards", "backward-chain", [back, ch])
  for name in w.elems:
    pb = pub[name]
    p = pb["parent"]
    if p is None:
      if pb["prev"] is not None or pb["next"] is not None:
        add("C15.links", f"{name}.root-siblings", "root-with-sibling", [pb["prev"], pb["next"]])
    else:
      pk = kids.get(p)
      if pk is not None and name not in pk:
        add("C15.links", f"{name}.parent-lists", "parent-does-not-list-child", [p, pk])
    ls = listers.get(name, [])
    if len(set(ls)) > 1:
      add("C15.single-parent", name, "two-parents", sorted(set(ls)))
    elif len(ls) > 1:
      add("C15.single-parent", name, "listed-twice", ls)

  # --- acyclic ---------------------------------------------------------------------------------------------
  for name in w.elems:
    seen, q = {name}, pub[name]["parent"]
    while q is not None and q in kids:
      if q in seen:
        add("C15.acyclic", name, "cycle", {"ancestors": sorted(seen)})
        break
      seen.add(q)
      q = pub[q]["parent"]
    sub, _again = _subtree(kids, name, 4 * ne)
    if any(name in (kids.get(x) or ()) for x in sub):
      add("C15.acyclic", name, "cycle", {"descendants": sub[:8]})
  cyclic = any(c == "C15.acyclic" for c, _i in out)

  # --- root() and dfs_iterator() (only called when the traversals above proved that they terminate) ---------
  if not cyclic:
    for name in w.elems:
      e = w.objs[name]
      top = name
      while pub[top]["parent"] is not None and pub[top]["parent"] in kids:
        top = pub[top]["parent"]
      got = w.nameof(e.root())
      if got != top:
        add("C15.links", f"{name}.root", "root", [got, top])
      want, _a = _subtree(kids, name, 4 * ne)
      try:
        gotd = [w.nameof(x) for x in itertools.islice(e.dfs_iterator(), 4 * ne + 2)]
      except RecursionError:
        gotd = "RecursionError"
      if gotd != want:
        add("C15.links", f"{name}.dfs", "dfs_iterator", [gotd, want])

  # --- one document per tree ---------------------------------------------------------------------------------
  for name in w.elems:
    for c in kids[name] or ():
      if c in pub and c not in w.docs and pub[c]["doc"] != pub[name]["doc"]:
        add("C15.one-doc", f"{name}>{c}", "child-doc-differs-from-parent", [pub[name]["doc"], pub[c]["doc"]])

  # --- content model ---------------------------------------------------------------------------------------------
  for name in w.elems:
    ch = kids[name]
    if not ch:
      continue
    k = kind[name]
    ks = [kind.get(c, "?") for c in ch]
    bad = False
    for c, ck in zip(ch, ks):
      if ck not in ALLOWED[k]:
        bad = True
        add("C15.content-model", f"{name}>{c}", f"{k}>{ck}", ks)
    if not bad and k == "Ruby" and not ruby_ok(ks):
      add("C15.ruby-pattern", name, "ruby", ks)
    if not bad and k == "Rtc" and not rtc_ok(ks):
      add("C15.rtc-pattern", name, "rtc", ks)

  # --- region references ---------------------------------------------------------------------------------------------
  in_body = {}
  for d in w.docs:
    b = pub[d]["body"]
    if b is not None and b in kids:
      for x in _subtree(kids, b, 4 * ne)[0]:
        in_body.setdefault(x, set()).add(d)
  for name in w.elems:
    r = pub[name]["region"]
    if r is None:
      continue
    d = pub[name]["doc"]
    where = "in-body" if d in in_body.get(name, ()) else "outside-body"
    if d is None or d not in w.docs:
      add("C15.region-ref", name, "element-without-document", [r, d])
      continue
    if kind.get(r) != "Region":
      add("C15.region-ref", name, "not-a-region", r)
      continue
    rid = pub[r]["id"]
    regs = dict(zip(PRIV_D, s.priv[ne + w.docs.index(d)]))["_regions"]
    reg_priv = dict(regs).get(rid) if isinstance(regs, tuple) else None
    reg_pub = w.nameof(w.objs[d].get_region(rid))
    if reg_priv is None and reg_pub is None:
      add("C15.region-ref", name, f"id-not-registered,{where}", [r, rid, d])
    elif reg_priv != r or reg_pub != r:
      add("C15.region-ref", name, f"other-region-registered-under-id,{where}", [r, reg_pub, reg_priv, d])

  # --- document getters vs fields ---------------------------------------------------------------------------------
  for i, d in enumerate(w.docs):
    pv = dict(zip(PRIV_D, s.priv[ne + i]))
    pb = pub[d]
    if pb["body"] != pv["_body"]:
      add("C15.links", f"{d}.body", "getter-vs-field:body", [pb["body"], pv["_body"]])
    # the body of a document is a root element that belongs to that document
    bd = pb["body"]
    if bd is not None and bd in pub and bd not in w.docs:
      if pub[bd]["doc"] != d:
        add("C15.same-doc", f"{d}.body", "body-belongs-to-another-document-or-none", [bd, pub[bd]["doc"], d])
      if pub[bd]["parent"] is not None:
        add("C15.links", f"{d}.body", "body-with-parent", [bd, pub[bd]["parent"]])
    regs = pv["_regions"]
    if not isinstance(regs, tuple) or tuple(v for _k, v in regs) != pb["regions"]:
      add("C15.links", f"{d}.regions", "getter-vs-field:regions", [pb["regions"], regs])
    else:
      rd = dict(regs)
      for rid, (has, got) in pb["byid"].items():
        if has != (rid in rd) or got != rd.get(rid):
          add("C15.links", f"{d}.region[{rid}]", "getter-vs-field:region", [has, got, rd.get(rid)])
    if pb["init"] != pv["_initial_values"] or any((not h) for _p, _v, h in pb["initg"]) or \
       tuple((p, v) for p, v, _h in pb["initg"]) != pb["init"]:
      add("C15.links", f"{d}.init", "getter-vs-field:initial-values", [pb["init"], pb["initg"], pv["_initial_values"]])
    if pv["extra"]:
      add("C15.links", f"{d}.extra", "unexpected-attribute", pv["extra"])

  # --- stored values are valid (judged on the real objects by my_valid) ---------------------------------------
  def judge(store, prop, value):
    ok = my_valid(prop, value)
    if ok is False:
      vn = valname(value)
      vc = near_miss_class(propname(prop), VALUE_CLASS.get(vn, "other"))
      add("C15.style-valid", (store, propname(prop), vn), f"{store}:{propname(prop)}:{vc}", repr(value)[:120])

  for name in w.elems:
    e = w.objs[name]
    st = e.__dict__["_styles"]
    if isinstance(st, dict):
      for p, v in st.items():
        judge("style", p, v)
    for p in list(itertools.islice(e.iter_styles(), 64)):
      judge("style", p, e.get_style(p))
    sets = e.__dict__["_sets"]
    if isinstance(sets, list):
      for stp in sets[:64]:
        if isinstance(stp, M.DiscreteAnimationStep):
          judge("anim", stp.style_property, stp.value)
        else:
          add("C15.style-valid", ("anim", "?", repr(stp)[:40]), "anim:not-a-step", repr(stp)[:80])
  for d in w.docs:
    iv = w.objs[d].__dict__["_initial_values"]
    if isinstance(iv, dict):
      for p, v in iv.items():
        judge("init", p, v)
    for p, v in list(itertools.islice(w.objs[d].iter_initial_values(), 64)):
      judge("init", p, v)
  return out


def is_broken(inv) -> bool:
  """structurally broken states are terminal for the search (behaviour of the API on a corrupt graph is not part
  of the property, and the library's own loops need not terminate there)"""
  return any(c in STRUCTURAL for c, _i in inv)


# ------------------------------------------------------------------------------------------------------
# abstract state (from the public getters) and the boring reference model

ABS_PARTS = ("parent", "kids", "doc", "region", "styles", "sets", "attrs", "registry", "body", "init")


def abstract(w: World, s: Snap):
  a = {k: {} for k in ABS_PARTS}
  for name in w.elems:
    pb = s.pub[name]
    a["parent"][name] = pb["parent"]
    a["kids"][name] = list(pb["kids"]) if pb["kids"] is not None else None
    a["doc"][name] = pb["doc"]
    a["region"][name] = pb["region"]
    a["styles"][name] = {p: v for p, v, _h in pb["styles"]}
    a["sets"][name] = tuple(pb["sets"]) if isinstance(pb["sets"], tuple) else pb["sets"]
    a["attrs"][name] = {"begin": pb["begin"], "end": pb["end"], "id": pb["id"], "lang": pb["lang"], "space": pb["space"],
                        "text": pb["text"]}
  for d in w.docs:
    pb = s.pub[d]
    reg = {}
    for r in pb["regions"]:
      reg[s.pub[r]["id"] if r in s.pub and r not in w.docs else "?" + str(r)] = r
    a["registry"][d] = reg
    a["body"][d] = pb["body"]
    a["init"][d] = dict(pb["init"])
  return a


def abs_copy(a):
  """copy of an abstract state (values are names, tuples and small dicts/lists)"""
  return {
    "parent": dict(a["parent"]), "doc": dict(a["doc"]), "region": dict(a["region"]), "sets": dict(a["sets"]),
    "body": dict(a["body"]),
    "kids": {k: (list(v) if v is not None else None) for k, v in a["kids"].items()},
    "styles": {k: dict(v) for k, v in a["styles"].items()},
    "attrs": {k: dict(v) for k, v in a["attrs"].items()},
    "registry": {k: dict(v) for k, v in a["registry"].items()},
    "init": {k: dict(v) for k, v in a["init"].items()},
  }


class Unmodelled(Exception):
  """the reference model has no advertised effect for this accepted call (ill-typed argument that was accepted)"""


def _ref_subtree(a, root):
  out, seen, stack = [], set(), [root]
  while stack:
    x = stack.pop()
    if x in seen or x not in a["kids"]:
      continue
    seen.add(x)
    out.append(x)
    stack.extend(reversed(a["kids"][x] or []))
  return out


def _elem(a, tok):
  if tok not in a["parent"]:
    raise Unmodelled(tok)
  return tok


def ref_apply(a, ev, w: World):
  """The advertised effect of an ACCEPTED call on the abstract state (returns a new abstract state).
  The reference does not decide acceptance; the invariant judges the result."""
  a = abs_copy(a)
  op = ev[0]
  kind = w.kind
  if op == "push_child":
    p, c = _elem(a, ev[1]), _elem(a, ev[2])
    a["kids"][p].append(c)
    a["parent"][c] = p
  elif op == "push_children":
    p = _elem(a, ev[1])
    if not isinstance(ev[2], list):
      raise Unmodelled(ev[2])
    for c in ev[2]:
      _elem(a, c)
      a["kids"][p].append(c)
      a["parent"][c] = p
  elif op == "remove":
    e = _elem(a, ev[1])
    p = a["parent"][e]
    if p is not None:
      a["kids"][p].remove(e)
      a["parent"][e] = None
  elif op == "remove_child":
    p, c = _elem(a, ev[1]), _elem(a, ev[2])
    a["kids"][p].remove(c)              # ValueError -> Unmodelled below
    a["parent"][c] = None
  elif op == "remove_children":
    p = _elem(a, ev[1])
    for c in a["kids"][p]:
      a["parent"][c] = None
    a["kids"][p] = []
  elif op == "set_doc":
    e = _elem(a, ev[1])
    d = None if ev[2] == "NONE" else ("str:junk" if ev[2] == "JUNK" else ev[2])
    for x in _ref_subtree(a, e):
      a["doc"][x] = d
      if d is None:
        a["region"][x] = None
  elif op == "set_region":
    e = _elem(a, ev[1])
    if ev[2] == "NONE":
      a["region"][e] = None
    else:
      a["region"][e] = _elem(a, ev[2])
  elif op == "put_region":
    d, r = ev[1], _elem(a, ev[2])
    if kind.get(r) != "Region":
      raise Unmodelled(r)
    a["registry"][d][a["attrs"][r]["id"]] = r
  elif op == "remove_region":
    d, rid = ev[1], ev[2]
    if rid in a["registry"][d]:
      del a["registry"][d][rid]
      b = a["body"][d]
      if b is not None:
        for x in _ref_subtree(a, b):
          r = a["region"][x]
          if r is not None and r in a["attrs"] and a["attrs"][r]["id"] == rid:
            a["region"][x] = None
  elif op == "set_body":
    d = ev[1]
    a["body"][d] = None if ev[2] == "NONE" else _elem(a, ev[2])
  elif op == "set_style":
    e = _elem(a, ev[1])
    if kind[e] != "Text":
      if ev[3] == "NONE":
        a["styles"][e].pop(ev[2], None)
      else:
        a["styles"][e][ev[2]] = ev[3]
  elif op == "put_initial_value":
    d = ev[1]
    if ev[3] == "NONE":
      a["init"][d].pop(ev[2], None)
    else:
      a["init"][d][ev[2]] = ev[3]
  elif op == "add_animation_step":
    e = _elem(a, ev[1])
    if len(ev) == 3:
      raise Unmodelled(ev[2])
    a["sets"][e] = tuple(a["sets"][e]) + ((ev[2], None, None, ev[3]),)
  elif op == "copy_to":
    src, dst = ev[1], ev[2]
    if src in w.docs:
      if dst not in w.docs:
        raise Unmodelled(dst)
      a["init"][dst].update(a["init"][src])
    else:
      _elem(a, src)
      if dst not in a["parent"]:
        raise Unmodelled(dst)
      ks, kd = kind[src], kind[dst]
      if ks == "Text":
        if kd != "Text":
          raise Unmodelled(dst)
        a["attrs"][dst]["text"] = a["attrs"][src]["text"]
      elif src == dst:
        pass      # copying an element onto itself changes nothing (all copy_to variants return early)
      else:
        fields = {"Br": ("id", "lang", "space"), "Region": ("lang", "space", "begin", "end")}.get(ks, ("begin", "end", "id", "lang", "space"))
        if kd != "Text":
          for f in fields:
            a["attrs"][dst][f] = a["attrs"][src][f]
          a["styles"][dst].update(a["styles"][src])
        a["sets"][dst] = tuple(a["sets"][dst]) + tuple(a["sets"][src])
  else:
    raise HarnessError(f"reference model: unknown operation {op}")
  return a


def ref_apply_safe(a, ev, w):
  try:
    return ref_apply(a, ev, w)
  except (Unmodelled, ValueError, KeyError, AttributeError, TypeError):
    return None


def abs_diff(x, y):
  return [k for k in ABS_PARTS if x[k] != y[k]]


# ------------------------------------------------------------------------------------------------------
# classification of an event in its pre-state (discriminators)


def _ancestors(a, name):
  out, seen, q = [], set(), a["parent"].get(name)
  while q is not None and q not in seen and q in a["parent"]:
    seen.add(q)
    out.append(q)
    q = a["parent"][q]
  return out


def child_class(a, w: World, p, c):
  if c not in a["parent"]:
    return "non-element"
  if c == p:
    return "self"
  if c in _ancestors(a, p):
    return "own-ancestor"
  if a["parent"][c] is not None:
    return "has-parent"
  if a["doc"][c] != a["doc"][p]:
    return "other-doc"
  if w.kind[c] not in ALLOWED[w.kind[p]]:
    return "kind-not-allowed"
  return "ok"


def impl_of(kind, op):
  """which class implements `op` for elements of `kind` (overrides of model.py, by reading)"""
  if op in ("push_children", "remove_children", "remove_child") and kind in ("Ruby", "Rtc"):
    return kind
  if op == "push_child":
    return kind
  return "ContentElement"


def arg_class(a, ev, w: World) -> str:
  op = ev[0]
  kind = w.kind
  if op == "push_child":
    t = kind[ev[1]]
    cls = child_class(a, w, ev[1], ev[2])
    if t == "Rtc" and cls == "ok":
      cls = f"ok,rtc={'non-empty' if a['kids'][ev[1]] else 'empty'},adds={kind[ev[2]]}"
    if t == "Ruby":
      cls = "on-ruby:" + cls
    return f"arg={cls}"
  if op == "push_children":
    t = kind[ev[1]]
    impl = impl_of(t, op)
    if not isinstance(ev[2], list):
      return f"impl={impl},items=non-iterable"
    cls = "ok"
    sim = {"parent": dict(a["parent"]), "kids": {k: list(v or ()) for k, v in a["kids"].items()}, "doc": a["doc"]}
    items = "ok"
    for i, c in enumerate(ev[2]):
      cls = child_class(sim, w, ev[1], c)
      if cls != "ok":
        items = "first-bad" if i == 0 else "later-bad"
        break
      sim["kids"][ev[1]].append(c)
      sim["parent"][c] = ev[1]
    if impl == "ContentElement":
      return f"arg={cls if items != 'ok' else 'ok'}"
    extra = ""
    if t in ("Ruby", "Rtc") and items == "ok":
      had = [kind.get(c, "?") for c in a["kids"][ev[1]] or []]
      new = [kind.get(c, "?") for c in ev[2]]
      okf = ruby_ok if t == "Ruby" else rtc_ok
      extra = f",target={'empty' if not had else 'non-empty'},list={'pattern' if okf(new) else 'not-pattern'}"
    return f"impl={impl},items={items}{extra}"
  if op == "remove":
    p = a["parent"][ev[1]]
    return "arg=root" if p is None else f"arg=child-of-{impl_of(kind.get(p, '?'), 'remove_child')}"
  if op == "remove_child":
    impl = impl_of(kind[ev[1]], op)
    if ev[2] not in a["parent"]:
      return f"impl={impl},arg=non-element"
    return f"impl={impl},arg={'child' if ev[2] in (a['kids'][ev[1]] or []) else 'not-a-child'}"
  if op == "remove_children":
    return f"impl={impl_of(kind[ev[1]], op)},arg={'non-empty' if a['kids'][ev[1]] else 'empty'}"
  if op == "set_doc":
    e = ev[1]
    cur = a["doc"][e]
    pos = "root" if a["parent"][e] is None else "child"
    if ev[2] == "NONE":
      kidsn = "has-children" if a["kids"][e] else "leaf"
      special = ",kind=Br" if kind[e] == "Br" else ""
      return f"to=none,{pos},{kidsn}{special}"
    if cur is None:
      to = "attach"
    elif cur == ev[2]:
      to = "same-document"
    else:
      to = "other-document"
    return f"to={to},{pos}"
  if op == "set_region":
    e, r = ev[1], ev[2]
    d = a["doc"][e]
    tk = f"on={kind[e]}," if kind[e] in ("Br", "Text", "Region") else ""
    if r == "NONE":
      return f"{tk}arg=none"
    if kind.get(r) != "Region":
      return f"{tk}arg=non-region"
    if d is None or d not in a["registry"]:
      return f"{tk}arg=region,element-without-document"
    rid = a["attrs"][r]["id"]
    reg = a["registry"][d].get(rid)
    if reg == r:
      return f"{tk}arg=registered-region"
    if reg is not None:
      return f"{tk}arg=unregistered-region-with-registered-id"
    return f"{tk}arg=unregistered-region"
  if op == "put_region":
    d, r = ev[1], ev[2]
    if kind.get(r) != "Region":
      return "arg=non-region"
    if a["doc"][r] != d:
      return "arg=region-of-other-document"
    rid = a["attrs"][r]["id"]
    reg = a["registry"][d].get(rid)
    if reg is None:
      return "arg=new-id"
    if reg == r:
      return "arg=already-registered"
    refs = [x for x in a["region"] if a["region"][x] == reg]
    return f"arg=replaces-region-of-same-id,{'referenced' if refs else 'unreferenced'}"
  if op == "remove_region":
    d, rid = ev[1], ev[2]
    reg = a["registry"][d].get(rid)
    if reg is None:
      return "arg=unregistered-id"
    refs = [x for x in a["region"] if a["region"][x] is not None and a["region"][x] in a["attrs"]
            and a["attrs"][a["region"][x]]["id"] == rid and a["doc"][x] == d]
    return f"arg=registered-id,{'referenced' if refs else 'unreferenced'}"
  if op == "set_body":
    d, b = ev[1], ev[2]
    if b == "NONE":
      return "arg=none"
    if kind.get(b) != "Body":
      return "arg=non-body"
    if a["parent"][b] is not None:
      return "arg=body-with-parent"
    return "arg=body" if a["doc"][b] == d else "arg=body-of-other-document"
  if op in ("set_style", "put_initial_value", "add_animation_step"):
    if len(ev) == 3:
      return "arg=non-step"
    p, v = ev[2], ev[3]
    tk = "on=Text," if kind.get(ev[1]) == "Text" and op == "set_style" else ""
    if p in ("NONE", "JUNK", "NOPROP", "UNHASHABLE"):
      return f"{tk}prop={p}"
    if v == "NONE":
      return f"{tk}prop={p},val=none"
    ok = my_valid(getattr(SP, p), VALUES[v])
    if ok is False:
      return f"{tk}prop={p},val=invalid:{near_miss_class(p, VALUE_CLASS[v])}"
    return f"{tk}prop={p},val={'valid' if ok else 'unjudged'}"
  if op == "copy_to":
    s_, d_ = ev[1], ev[2]
    dk = kind.get(d_, "non-element" if d_ in ("NONE", "JUNK") else "?")
    return f"src={kind[s_]},dst={'self' if s_ == d_ else dk}"
  return "arg=?"


def atomic_clause(a, ev, w):
  """(clause, counter): which clause a 'rejected call changed the model' belongs to.  The statement covers
  single-element operations; list/subtree operations get their own clause names; partial application that is
  documented or on which the statement is silent is only counted."""
  op = ev[0]
  if op == "push_children":
    if impl_of(w.kind[ev[1]], op) == "ContentElement":
      # docstring: "Unless overridden, this method simply calls `push_child` repeatedly" -> documented behaviour
      return None, "push_children(generic).rejected-after-partial-push(documented)"
    return "C15.atomic.multi", None
  if op == "remove_children":
    return "C15.atomic.multi", None
  if op == "copy_to":
    return None, "copy_to.rejected-after-partial-copy(statement silent)"
  if op == "set_doc" and a["kids"].get(ev[1]):
    return "C15.atomic.subtree", None
  return "C15.atomic", None


def disc_op(ev, w):
  """operation named in discriminators of invariant violations: the generic push_children is documented as repeated
  push_child, so what it breaks is attributed to push_child"""
  if ev[0] == "push_children" and impl_of(w.kind[ev[1]], "push_children") == "ContentElement":
    return "push_child", True
  return ev[0], False

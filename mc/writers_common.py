"""Shared machinery of C06 / C07: text-centred document families, the reference cue timeline (from R_isd / R_style,
never from the implementation) and the comparison with SRT / WebVTT output parsed by the strict parsers."""
from __future__ import annotations

import copy
import re
from fractions import Fraction as F

from mc import env  # noqa
from mc.kernel import exc_disc
from mc import docgen, stylegen
from mc.docgen import Product
from mc.spec import build, node, text, doc_spec, walk, E, L
from mc.ref_isd import r_isd, critical_times, probe_times
from mc.ref_style import r_style
from mc import strictparse
from mc.props import c01

import ttconv.srt.writer as srt_writer
import ttconv.vtt.writer as vtt_writer
from ttconv.srt.config import SRTWriterConfiguration
from ttconv.vtt.config import VTTWriterConfiguration

RED = stylegen.RED
BLUE = ["C", 0, 0, 255, 255]
WHITE = ["C", 255, 255, 255, 255]
BOLD = E("FontWeightType", "bold")
NORMALW = E("FontWeightType", "normal")
ITALIC = E("FontStyleType", "italic")
UNDER = ["td", True, None, None]
NOUNDER = ["td", False, None, None]

SRT_CONFIGS = [("srt", True), ("srt", False)]
VTT_CONFIGS = [("vtt", lp, ta, cid) for lp in (False, True) for ta in (False, True) for cid in (True, False)]
ALL_CONFIGS = SRT_CONFIGS + VTT_CONFIGS


def run_writer(doc, cfg):
  if cfg[0] == "srt":
    return srt_writer.from_model(doc, SRTWriterConfiguration(text_formatting=cfg[1]))
  return vtt_writer.from_model(doc, VTTWriterConfiguration(line_position=cfg[1], text_align=cfg[2], cue_id=cfg[3]))


def norm_ws(s):
  return " ".join(s.split())


# ---------------------------------------------------------------------------------------------------
# reference: expected lines (and per-character style) at time t


def _p_of(chain, spec_index):
  """id of the paragraph in an ancestor chain"""
  for i in chain:
    if spec_index.get(i) == "p":
      return i
  return None


def kind_index(spec):
  idx = {}
  if spec.get("body"):
    for n, _ in walk(spec["body"]):
      if n.get("id") is not None:
        idx[n["id"]] = n["k"]
  return idx


def _uses_hiding(spec):
  def has(n):
    return any(k in ("Visibility", "Opacity") for k in (n.get("st") or {})) or any(a[0] in ("Visibility", "Opacity") for a in n.get("an") or [])
  if any(i[0] in ("Visibility", "Opacity") for i in spec.get("init") or []):
    return True
  if any(has(r) for r in spec.get("regions") or []):
    return True
  return bool(spec.get("body")) and any(has(n) for n, _ in walk(spec["body"]))


def expected_at(spec, t, idx=None, with_ruby_text=True):
  """-> list of (region id, [paragraph lines]) where a paragraph line = list of (char, span id)"""
  idx = idx or kind_index(spec)
  space_of = {}
  if spec.get("body"):
    for n, _ in walk(spec["body"]):
      if n.get("id") is not None:
        space_of[n["id"]] = n.get("sp") or "default"
  snap = r_isd(spec, t)
  # text whose computed visibility is hidden, and everything in a region whose computed opacity is 0, is presented but not
  # visible: C06 speaks of visible text (the style reference is only consulted for documents that use these properties)
  st = None
  if _uses_hiding(spec):
    from mc.ref_style import r_style
    st = r_style(spec, t)
  out = []
  for rid, leaves in snap.items():
    lines = []
    cur = []
    cur_p = None
    rs = st.get(rid) if st is not None else None
    if rs is not None and float(rs[rid][1]["Opacity"]) == 0:
      out.append((rid, []))
      continue
    for kind, txt, chain in leaves:
      if rs is not None and kind != "br":
        holder = next((i for i in reversed(chain) if i in rs), None)
        if holder is not None and rs[holder][1]["Visibility"][2] == "hidden":
          continue
      p = _p_of(chain, idx)
      if p != cur_p:
        if cur:
          lines.append(cur)
        cur = []
        cur_p = p
      if kind == "br":
        lines.append(cur)
        cur = []
        continue
      kinds = [idx.get(i) for i in chain]
      if not with_ruby_text and any(k in ("rt", "rp", "rtc") for k in kinds):
        continue
      span = next((i for i in reversed(chain) if idx.get(i) == "span"), None)
      preserve = span is not None and space_of.get(span) == "preserve"
      for ch in txt:
        if ch in "\n\r" and preserve:
          lines.append(cur)      # a preserved line feed (or carriage return: both terminate a line in SRT and WebVTT) is presented as a line break
          cur = []
        else:
          cur.append((ch, span, p))
    if cur:
      lines.append(cur)
    lines = [ln for ln in lines if "".join(c for c, _s, _p in ln).strip() != ""]
    out.append((rid, lines))
  return out


def flat_lines(exp):
  return [norm_ws("".join(c for c, _s, _p in ln)) for _rid, lines in exp for ln in lines]


# ---------------------------------------------------------------------------------------------------
# output side


def parse_output(txt, cfg):
  """-> (cues, class map for vtt) ; raises strictparse.GrammarError"""
  if cfg[0] == "srt":
    return strictparse.parse_srt(txt), {}
  vf = strictparse.parse_vtt(txt)
  classes = {}
  for block in vf.styles:
    for m in re.finditer(r"::cue\(\.([A-Za-z0-9_\-]+)\)\s*\{\s*([a-z\-]+):\s*([^;]+);", block):
      classes[m.group(1)] = (m.group(2), m.group(3).strip())
  return vf.cues, classes


def cues_at(cues, t):
  return [c for c in cues if c.begin <= t < c.end]


def ms_round_candidates(x):
  """the two admissible roundings of x to the millisecond (equal unless x is an exact half)"""
  lo = (x * 1000) // 1
  fr = x * 1000 - lo
  if fr == F(1, 2):
    return {F(int(lo), 1000), F(int(lo) + 1, 1000)}
  return {F(int(lo) + (1 if fr > F(1, 2) else 0), 1000)}


# ---------------------------------------------------------------------------------------------------
# document families (text-centred)

def _span(sid, txt, **kw):
  return node("span", [text(txt)], id=sid, **kw)


REGION_LAYOUTS = {
  "none": [],
  "one": [{"id": "r1"}],
  "two": [{"id": "r1", "st": {"Origin": ["org", L(10, "%"), L(10, "%")], "Extent": ["ext", L(30, "%"), L(80, "%")]}},
          {"id": "r2", "st": {"Origin": ["org", L(10, "%"), L(60, "%")], "Extent": ["ext", L(30, "%"), L(80, "%")], "DisplayAlign": E("DisplayAlignType", "after")}}],
  "two-alternating": [{"id": "r1", "e": F(2)}, {"id": "r2", "b": F(2), "st": {"DisplayAlign": E("DisplayAlignType", "center"), "Extent": ["ext", L(50, "%"), L(100, "%")]}}],
  "three": [{"id": "r1"}, {"id": "r2", "st": {"Position": ["pos", L(5, "%"), L(5, "%"), "right", "bottom"], "Extent": ["ext", L(20, "%"), L(50, "%")]}}, {"id": "r3"}],
}
DIV_LAYOUTS = ["1div1p", "1div2p", "2div", "3div", "nested1p", "nested+sibling", "nested2"]
BR_PATTERNS = ["none", "between", "edges", "double", "triple"]
TIMINGS = ["bounded", "unbounded", "consecutive", "overlap"]


def struct_doc(rl, dl, brp, tim):
  regs = copy.deepcopy(REGION_LAYOUTS[rl])
  rids = [r["id"] for r in regs] or [None]
  cnt = [0]

  def para(pi):
    cnt[0] += 1
    k = cnt[0]
    a, b = f"w{k}a", f"w{k}b"
    kids = [_span(f"s{k}a", a)]
    if brp == "between":
      kids += [{"k": "br", "id": f"br{k}"}, _span(f"s{k}b", b)]
    elif brp == "edges":
      kids = [{"k": "br", "id": f"br{k}x"}] + kids + [_span(f"s{k}b", b), {"k": "br", "id": f"br{k}y"}]
    elif brp == "double":
      kids += [{"k": "br", "id": f"br{k}x"}, {"k": "br", "id": f"br{k}y"}, _span(f"s{k}b", b)]
    elif brp == "triple":
      kids += [{"k": "br", "id": f"br{k}x"}, {"k": "br", "id": f"br{k}y"}, {"k": "br", "id": f"br{k}z"}, _span(f"s{k}b", b)]
    else:
      kids += [_span(f"s{k}b", b)]
    p = node("p", kids, id=f"p{k}")
    rid = rids[(k - 1) % len(rids)]
    if rid:
      p["r"] = rid
    if tim == "bounded":
      p["b"], p["e"] = F(1), F(3)
    elif tim == "unbounded":
      p["b"] = F(1)
    elif tim == "consecutive":
      p["b"], p["e"] = F(k), F(k + 1)
    else:
      p["b"], p["e"] = F(k, 2), F(k, 2) + 2
    return p
  if dl == "1div1p":
    divs = [node("div", [para(0)], id="d1")]
  elif dl == "1div2p":
    divs = [node("div", [para(0), para(1)], id="d1")]
  elif dl == "2div":
    divs = [node("div", [para(0)], id="d1"), node("div", [para(1)], id="d2")]
  elif dl == "3div":
    divs = [node("div", [para(0)], id="d1"), node("div", [para(1)], id="d2"), node("div", [para(2)], id="d3")]
  elif dl == "nested1p":
    divs = [node("div", [node("div", [para(0)], id="d2")], id="d1")]
  elif dl == "nested+sibling":
    divs = [node("div", [node("div", [para(0)], id="d2"), para(1)], id="d1")]
  else:
    divs = [node("div", [node("div", [para(0)], id="d2"), node("div", [para(1)], id="d3")], id="d1")]
  return doc_spec(node("body", divs, id="b"), regs)


def fam_struct_items():
  return Product([list(REGION_LAYOUTS), DIV_LAYOUTS, BR_PATTERNS, TIMINGS])


STYLE_MENU = [
  {}, {"FontWeight": BOLD}, {"FontStyle": ITALIC}, {"TextDecoration": UNDER}, {"Color": RED}, {"BackgroundColor": BLUE},
  {"FontWeight": BOLD, "FontStyle": ITALIC}, {"FontWeight": NORMALW}, {"Color": WHITE}, {"TextDecoration": NOUNDER},
  {"Color": BLUE, "TextDecoration": UNDER},
  # colours without a predefined WebVTT class: the writer must define a class in the STYLE block of the same file
  {"Color": ["C", 18, 52, 86, 255]}, {"Color": ["C", 18, 52, 86, 255], "BackgroundColor": ["C", 1, 2, 3, 128]},
]


def style_doc(s1, s2, s3, on_p):
  inner = node("span", [text("in")], id="s3", st=copy.deepcopy(STYLE_MENU[s3]))
  mid = node("span", [text("mid"), inner, text("dle")], id="s2", st=copy.deepcopy(STYLE_MENU[s2]))
  outer = node("span", [text("out"), mid, text("er")], id="s1", st=copy.deepcopy(STYLE_MENU[s1]))
  p = node("p", [outer, {"k": "br", "id": "br1"}, _span("s4", "plain")], id="p1", b=F(1), e=F(2), r="r1")
  if on_p:
    p["st"] = copy.deepcopy(STYLE_MENU[on_p])
  return doc_spec(node("body", [node("div", [p], id="d1")], id="b"), [{"id": "r1"}])


HIDDEN = ["E", "VisibilityType", "hidden"]
VISIBLE = ["E", "VisibilityType", "visible"]
HIDING_MODES = ["span-hidden", "p-hidden-inner-visible", "region-hidden", "region-opacity-0", "region-opacity-half", "first-p-hidden",
                "span-revealed-by-animation", "span-hidden-by-animation", "initial-hidden-span-visible",
                "two-regions-one-opacity-0", "two-regions-one-hidden"]


def hiding_doc(mode):
  """text that is presented but not visible: tts:visibility (inherited, an inner 'visible' shows again) and tts:opacity 0 of the region"""
  inner = node("span", [text("in")], id="s3")
  mid = node("span", [text("mid"), inner, text("dle")], id="s2")
  outer = node("span", [text("out"), mid, text("er")], id="s1")
  p1 = node("p", [outer, {"k": "br", "id": "br1"}, _span("s4", "plain")], id="p1", b=F(1), e=F(3), r="r1")
  p2 = node("p", [_span("s5", "second")], id="p2", b=F(3), e=F(4), r="r1")
  reg = {"id": "r1"}
  spec = doc_spec(node("body", [node("div", [p1, p2], id="d1")], id="b"), [reg])
  if mode == "span-hidden":
    mid["st"] = {"Visibility": HIDDEN}
    inner["st"] = {"Visibility": VISIBLE}
  elif mode == "p-hidden-inner-visible":
    p1["st"] = {"Visibility": HIDDEN}
    inner["st"] = {"Visibility": VISIBLE}
  elif mode == "region-hidden":
    reg["st"] = {"Visibility": HIDDEN}
  elif mode == "region-opacity-0":
    reg["st"] = {"Opacity": 0}
  elif mode == "region-opacity-half":
    reg["st"] = {"Opacity": 0.5}
  elif mode == "first-p-hidden":
    p1["st"] = {"Visibility": HIDDEN}
  elif mode == "span-revealed-by-animation":
    mid["st"] = {"Visibility": HIDDEN}
    mid["an"] = [["Visibility", F(1), F(3, 2), VISIBLE]]      # relative to the span's parent chain: p1 begins at 1
  elif mode == "span-hidden-by-animation":
    outer["an"] = [["Visibility", F(1, 2), None, HIDDEN]]
  elif mode == "initial-hidden-span-visible":
    spec["init"] = [["Visibility", HIDDEN]]
    inner["st"] = {"Visibility": VISIBLE}
  elif mode in ("two-regions-one-opacity-0", "two-regions-one-hidden"):
    # an invisible region that is active together with a visible one (the writers merge simultaneous regions into one cue)
    r2 = {"id": "r2", "st": {"Opacity": 0} if mode.endswith("opacity-0") else {"Visibility": HIDDEN}}
    spec["regions"].append(r2)
    spec["body"]["c"][0]["c"].append(node("p", [_span("s6", "unseen")], id="p3", b=F(1), e=F(4), r="r2"))
  return spec


def fam_style_items(thorough=False):
  n = len(STYLE_MENU)
  return Product([range(n), range(n), range(n), list(range(n)) if thorough else [0, 1, 4]])


TOKENS = ["l1\rl2", "l1\r\rl2", "l1\r\n\r\nl2", "a&b", "a<b", "a>b", "x-->y", "<b>bold</b>", "&amp;", "a  b", " lead", "trail ", "t\tab", "l1\nl2", "{b}x{/b}", "-->", "&", "<", "1 < 2 & 3 > 2", "<i>", "</font>", "<b></b>",
          "<font color=\"red\">"]


def text_doc(tok, space, twice):
  kids = [_span("s1", tok, sp=space)]
  if twice:
    kids.append(_span("s2", tok, sp=space))
  p = node("p", kids, id="p1", b=F(1), e=F(2), sp=space, r="r1")
  return doc_spec(node("body", [node("div", [p], id="d1")], id="b"), [{"id": "r1"}])


def fam_split_items():
  """markup-significant strings cut into two or three adjacent spans at every position: escaping must not depend on how the
  text is segmented (WebVTT only: SubRip has no escape mechanism)"""
  items = []
  for s in ("x-->y", "a<b>c", "a&amp;b", "1<2>0", "&lt;", "-->"):
    for i in range(1, len(s)):
      items.append([s[:i], s[i:]])
      for j in range(i + 1, len(s)):
        items.append([s[:i], s[i:j], s[j:]])
  return items


def split_doc(parts, space):
  kids = [_span(f"s{k}", t, sp=space) for k, t in enumerate(parts)]
  p = node("p", kids, id="p1", b=F(1), e=F(2), sp=space, r="r1")
  return doc_spec(node("body", [node("div", [p], id="d1")], id="b"), [{"id": "r1"}])


WSMIX_TEXTS = [["A", "A ", " A "], ["X", " X", "X ", " "], [" B", "B", " B "]]


def fam_wsmix_items():
  """three adjacent spans, each under xml:space default or preserve, in a default or a preserved paragraph; every text starts or
  ends with, or consists of, a space: the white space at a boundary between a preserved and a collapsed run is where a
  carried 'previous character was a space' state goes wrong"""
  return Product([WSMIX_TEXTS[0], WSMIX_TEXTS[1], WSMIX_TEXTS[2], ["default", "preserve"], ["default", "preserve"], ["default", "preserve"],
                  ["default", "preserve"]])


def wsmix_doc(t1, t2, t3, m1, m2, m3, pm):
  kids = [_span("s0", t1, sp=m1), _span("s1", t2, sp=m2), _span("s2", t3, sp=m3)]
  p = node("p", kids, id="p1", b=F(1), e=F(2), sp=pm, r="r1")
  return doc_spec(node("body", [node("div", [p], id="d1")], id="b"), [{"id": "r1"}])


def blank_doc(si, second):
  """a paragraph whose only text is preserved white space inside a (possibly styled) span; optionally a second, ordinary one"""
  sp = node("span", [text("  ")], id="s1", sp="preserve", st=copy.deepcopy(STYLE_MENU[si]))
  kids = [node("p", [sp], id="p1", b=F(1), e=F(2), sp="preserve", r="r1")]
  if second:
    kids.append(node("p", [_span("s2", "two")], id="p2", b=F(3), e=F(4), r="r1"))
  return doc_spec(node("body", [node("div", kids, id="d1")], id="b"), [{"id": "r1"}])


def fam_text_items():
  return Product([TOKENS, ["default", "preserve"], [0, 1]])


TIME_VALUES = [F(0), F(1, 2000), F(1, 1000), F(3, 2000), F(1), F(1) + F(1, 3000), F(2) - F(4, 10000), F(2), F(2) + F(4, 10000), F(2) + F(12, 10000), None]


def time_doc(b1, e1, b2, e2):
  p1 = node("p", [_span("s1", "one")], id="p1", b=b1, e=e1, r="r1")
  kids = [p1]
  if b2 is not None or e2 is not None:
    kids.append(node("p", [_span("s2", "two")], id="p2", b=b2, e=e2, r="r1"))
  return doc_spec(node("body", [node("div", kids, id="d1")], id="b"), [{"id": "r1"}])


def fam_time_items():
  items = []
  tv = TIME_VALUES
  for b1 in tv[:-1]:
    for e1 in tv:
      if e1 is not None and not b1 < e1:
        continue
      items.append((b1, e1, None, None))
      for b2 in (F(1), F(2), F(3, 2000)):
        for e2 in (F(3), None):
          items.append((b1, e1, b2, e2))
  return items


def ruby_doc(pi, timed):
  rb = c01.ruby_node(c01.RUBY_PATTERNS[pi], {})
  p = node("p", [_span("s0", "x"), rb, _span("s9", "y")], id="p1", b=F(1), e=F(2) if timed else None, r="r1")
  return doc_spec(node("body", [node("div", [p], id="d1")], id="b"), [{"id": "r1"}])


def align_doc(ta, direction, wm, da, n_p):
  reg = {"id": "r1", "st": {"Origin": ["org", L(10, "%"), L(20, "%")], "Extent": ["ext", L(40, "%"), L(80, "%")]}}
  if wm:
    reg["st"]["WritingMode"] = E("WritingModeType", wm)
  if da:
    reg["st"]["DisplayAlign"] = E("DisplayAlignType", da)
  ps = []
  for k in range(n_p):
    p = node("p", [_span(f"s{k}", f"w{k}")], id=f"p{k}", b=F(1), e=F(2), r="r1")
    st = {}
    if ta:
      st["TextAlign"] = E("TextAlignType", ta)
    if direction:
      st["Direction"] = E("DirectionType", direction)
    if st:
      p["st"] = st
    ps.append(p)
  return doc_spec(node("body", [node("div", ps, id="d1")], id="b"), [reg])


# region geometry (origin y, height) with fractional percentages (their sum rounds differently from the sum of the roundings)
# and regions that reach beyond the root container (a WebVTT percentage lies in 0..100)
GEOMS = [(L(10.3, "%"), L(80.3, "%")), (L(10.25, "%"), L(80.5, "%")), (L(0.4, "%"), L(99.4, "%")), (L(33.4, "%"), L(33.3, "%")),
         (L(50, "%"), L(80, "%")), (L(-20, "%"), L(50, "%")), (L(-30, "%"), L(20, "%"))]


def geom_doc(gi, da):
  y, h = GEOMS[gi]
  spec = align_doc(None, None, None, da, 1)
  spec["regions"][0]["st"]["Origin"] = ["org", L(10, "%"), y]
  spec["regions"][0]["st"]["Extent"] = ["ext", h, L(80, "%")]
  return spec


def fam_geom_items():
  return Product([list(range(len(GEOMS))), [None, "before", "center", "after"]])


def fam_align_items():
  return Product([[None, "start", "center", "end"], [None, "rtl"], [None, "rltb"], [None, "before", "center", "after"], [1, 2]])

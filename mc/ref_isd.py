"""Reference snapshot R_isd(spec, t) (DESIGN.md 2.2), written from TTML2 time containment and
[associate region] / [construct intermediate document]; it never calls ttconv.isd.

Output abstraction (both for the reference and for a real ISD):
   OrderedDict region id -> list of leaves, each leaf = (kind 'text'|'br', text, chain of ancestor ids root..parent)
"""
from __future__ import annotations

import itertools
from fractions import Fraction

from mc import env  # noqa
from mc.spec import walk
import ttconv.model as model

INF = None


def _interval(n, pb, pe):
  """absolute [b, e) of node n given the parent's absolute interval (pb, pe); e None = indefinite"""
  b = pb + (n.get("b") or 0)
  if n.get("e") is None:
    e = pe
  else:
    e = pb + n["e"]
    if pe is not None and pe < e:
      e = pe
  return b, e


def _active(b, e, t):
  return b <= t and (e is None or t < e)


def _display(n, b, e, t, initial):
  """computed display of node n whose absolute interval is [b,e): animation > specified > initial > auto"""
  val = None
  for p, ab, ae, v in n.get("an") or []:
    if p != "Display":
      continue
    sb, se = _interval({"b": ab, "e": ae}, b, e)
    if _active(sb, se, t):
      val = v[2]            # later steps override earlier ones
  if val is None:
    st = (n.get("st") or {}).get("Display")
    if st is not None:
      val = st[2]
  if val is None:
    val = initial
  return val or "auto"


def _specifies_region(n):
  """set of region ids specified on n or any descendant"""
  out = set()
  for m, _ in walk(n):
    if m.get("r") is not None:
      out.add(m["r"])
  return out


def r_isd(spec, t):
  """-> dict region id -> list of leaves (only regions that are active and displayed are keys)"""
  initial_display = None
  for p, v in spec.get("init") or []:
    if p == "Display":
      initial_display = v[2]
  regions = spec.get("regions") or []
  out = {}
  if regions:
    targets = [(r["id"], r) for r in regions]
  else:
    targets = [("default_region", None)]
  for rid, r in targets:
    if r is not None:
      b, e = _interval(r, Fraction(0), None)
      if not _active(b, e, t):
        continue
      if _display(r, b, e, t, initial_display) == "none":
        continue
    leaves = []
    body = spec.get("body")
    if body is not None:
      _collect(body, Fraction(0), None, None, rid if r is not None else None, r is None, t, initial_display, (), leaves)
    out[rid] = leaves
  return out


def _collect(n, pb, pe, inherited, target, default_mode, t, initial_display, chain, leaves):
  k = n["k"]
  if k == "text":
    # text nodes have no timing, no region, no style of their own
    if default_mode or inherited == target:
      if (n.get("t") or "") != "":
        leaves.append(("text", n["t"], chain))
    return
  if k == "br":
    b, e = pb, pe
  else:
    b, e = _interval(n, pb, pe)
  if not _active(b, e, t):
    return
  own = n.get("r")
  assoc = own if own is not None else inherited
  if not default_mode:
    if assoc is not None:
      if assoc != target:
        return
    else:
      # no region on the element or an ancestor: kept only through a descendant that selects the target
      if target not in _specifies_region(n):
        return
  if _display(n, b, e, t, initial_display) == "none":
    return
  if k == "br":
    leaves.append(("br", None, chain))
    return
  for c in n.get("c") or []:
    _collect(c, b, e, assoc, target, default_mode, t, initial_display, chain + (n.get("id"),), leaves)


# ---------------------------------------------------------------------------------------------------


def abstract_isd(isd):
  """real ISD -> dict region id -> list of leaves, same shape as r_isd"""
  out = {}
  for reg in isd.iter_regions():
    leaves = []
    for body in reg:
      _abs(body, (), leaves)
    out[reg.get_id()] = leaves
  return out


def _abs(e, chain, leaves):
  if isinstance(e, model.Text):
    leaves.append(("text", e.get_text(), chain))
    return
  if isinstance(e, model.Br):
    leaves.append(("br", None, chain))
    return
  for c in e:
    _abs(c, chain + (e.get_id(),), leaves)


# ---------------------------------------------------------------------------------------------------
# probe times


def _offsets_of(n):
  o = []
  for key in ("b", "e"):
    if n.get(key):
      o.append(n[key])
  for _p, ab, ae, _v in n.get("an") or []:
    if ab:
      o.append(ab)
    if ae:
      o.append(ae)
  return o


def subset_sums(multiset, cap=4096):
  sums = {Fraction(0)}
  for x in multiset:
    sums |= {s + x for s in sums}
    if len(sums) > cap:
      break
  return sums


def critical_times(spec):
  """Closure K: sums of every sub-multiset of the offsets met along any root-to-leaf chain or region."""
  K = {Fraction(0)}
  for r in spec.get("regions") or []:
    K |= subset_sums(_offsets_of(r))
  body = spec.get("body")
  if body is not None:
    def rec(n, acc):
      acc = acc + _offsets_of(n)
      kids = [c for c in (n.get("c") or []) if c["k"] != "text"]
      if not kids:
        nonlocal K
        K |= subset_sums(acc)
      for c in kids:
        rec(c, acc)
    rec(body, [])
  return sorted(K)


def probe_times(spec):
  K = critical_times(spec)
  P = set(K)
  for a, b in zip(K, K[1:]):
    P.add((a + b) / 2)
  P.add(K[-1] + 1)
  if K[0] > 0:
    P.add(K[0] / 2)
  return sorted(P)

"""Reference EBU STL (EBU Tech 3264-E, 1991) file generator and interpreter for C09 (DESIGN.md 2.7 / C09).

Two independent halves, neither calls ttconv:

* a *generator* that assembles byte-level STL files: `gsi_block(...)` (1024 bytes, fields at the byte offsets of
  Tech 3264 section "General Subtitle Information block"), `tti_block(...)` (128 bytes, SGN SN EBN CS TCI TCO VP
  JC CF TF, the text field padded with 8Fh) and `stl_file(gsi, [tti...])`;
* an *interpreter* `interpret(data, config)` written from Tech 3264: it slices the bytes again by offset, groups
  TTI blocks into subtitles, evaluates the time codes at the rate of the DFC, interprets the text field
  (`interpret_tf`) with a teletext-style "pen" and decodes the characters with the tables below.

The interpreter distinguishes what the specification (and the statement of property C09) fixes from what it leaves
open: every result carries `unspec` notes, and space cells are "hard" (a space character, or a teletext spacing
attribute, both of which the specification displays as a space) or "soft" (a code for which the statement does
not say whether it occupies a cell).  The check module only asserts the fixed part.

Character tables.  Tech 3264 appendix 2 (Latin) is ISO 6937/2-1983; the reference table below is written by hand
for *both* the 1983 edition and the 1992 edition (the two differ at 24h, A0h, A4h, A6h, D6h, D7h, FFh); a byte is
asserted only against the union of what the editions define (an edition that leaves the byte undefined admits the
replacement character).  Diacritic composition = NFC(letter + combining mark) for exactly the pairs of the ISO 6937
repertoire.  ISO 8859-5/6/7/8 (CCT 01..04) come from the Python standard library codecs (trusted).
"""
from __future__ import annotations

import unicodedata
from fractions import Fraction

# ------------------------------------------------------------------------------------------------------
# generator

GSI_SIZE = 1024
TTI_SIZE = 128
TF_SIZE = 112
FILLER = 0x8F

DFC_VALUES = [b"STL23.01", b"STL24.01", b"STL25.01", b"STL30.01", b"STL50.01"]


def _field(value, size: int, pad: bytes = b" ") -> bytes:
  if isinstance(value, str):
    value = value.encode("ascii")
  if isinstance(value, int):
    value = str(value).encode("ascii").rjust(size, b"0")
  value = bytes(value)
  if len(value) > size:
    raise ValueError(f"GSI field too long: {value!r} > {size}")
  return value + pad * (size - len(value))


def gsi_block(dfc=b"STL25.01", dsc=b"1", cct=b"00", lc=b"09", tnb=0, tns=0, tng=1, mnc=40, mnr=23, tcs=b"1",
              tcp=b"00000000", tcf=b"00000000", cpn=b"850", opt=b"verif", tnd=1, dsn=1, co=b"GBR") -> bytes:
  """1024-byte GSI block.  Offsets (Tech 3264): CPN 0-2, DFC 3-10, DSC 11, CCT 12-13, LC 14-15, OPT 16-47, OET 48-79,
  TPT 80-111, TET 112-143, TN 144-175, TCD 176-207, SLR 208-223, CD 224-229, RD 230-235, RN 236-237, TNB 238-242,
  TNS 243-247, TNG 248-250, MNC 251-252, MNR 253-254, TCS 255, TCP 256-263, TCF 264-271, TND 272, DSN 273, CO 274-276,
  PUB 277-308, EN 309-340, ECD 341-372, spare 373-447, UDA 448-1023."""
  parts = [
    _field(cpn, 3), _field(dfc, 8), _field(dsc, 1), _field(cct, 2), _field(lc, 2),
    _field(opt, 32), _field(b"", 32), _field(b"", 32), _field(b"", 32), _field(b"", 32), _field(b"", 32),
    _field(b"", 16), _field(b"261003", 6), _field(b"261003", 6), _field(b"00", 2),
    _field(tnb, 5), _field(tns, 5), _field(tng, 3), _field(mnc, 2), _field(mnr, 2), _field(tcs, 1),
    _field(tcp, 8), _field(tcf, 8), _field(tnd, 1), _field(dsn, 1), _field(co, 3),
    _field(b"", 32), _field(b"", 32), _field(b"", 32), b" " * 75, b" " * 576,
  ]
  out = b"".join(parts)
  assert len(out) == GSI_SIZE, len(out)
  return out


def tti_block(sgn=0, sn=0, ebn=0xFF, cs=0, tci=(0, 0, 1, 0), tco=(0, 0, 2, 0), vp=20, jc=2, cf=0, tf=b"") -> bytes:
  """128-byte TTI block; TF is padded with 8Fh to 112 bytes."""
  tf = bytes(tf)
  if len(tf) > TF_SIZE:
    raise ValueError("TF too long")
  out = bytes([sgn & 0xFF, sn & 0xFF, (sn >> 8) & 0xFF, ebn & 0xFF, cs & 0xFF]) + bytes(tci) + bytes(tco) \
    + bytes([vp & 0xFF, jc & 0xFF, cf & 0xFF]) + tf + bytes([FILLER]) * (TF_SIZE - len(tf))
  assert len(out) == TTI_SIZE
  return out


def stl_file(gsi_kwargs: dict, ttis: list) -> bytes:
  """ttis: list of dicts (tti_block keyword arguments)."""
  kw = dict(gsi_kwargs)
  kw.setdefault("tnb", len(ttis))
  kw.setdefault("tns", len({t.get("sn", 0) for t in ttis}))
  return gsi_block(**kw) + b"".join(tti_block(**t) for t in ttis)


# ------------------------------------------------------------------------------------------------------
# character tables

REPL = "�"

# ISO 6937 non-spacing diacritical marks (C1h..CFh) -> Unicode combining mark
DIACRITIC_MARK = {
  0xC1: "̀",  # grave
  0xC2: "́",  # acute
  0xC3: "̂",  # circumflex
  0xC4: "̃",  # tilde
  0xC5: "̄",  # macron
  0xC6: "̆",  # breve
  0xC7: "̇",  # dot above
  0xC8: "̈",  # diaeresis
  0xCA: "̊",  # ring above
  0xCB: "̧",  # cedilla
  0xCD: "̋",  # double acute
  0xCE: "̨",  # ogonek
  0xCF: "̌",  # caron
}

# the repertoire of ISO 6937: which letters each diacritic combines with
DIACRITIC_LETTERS = {
  0xC1: "AEIOUaeiou",
  0xC2: "ACEILNORSUYZaceilnorsuyz",
  0xC3: "ACEGHIJOSUWYaceghijosuwy",
  0xC4: "AINOUainou",
  0xC5: "AEIOUaeiou",
  0xC6: "AGUagu",
  0xC7: "CEGIZcegz",
  0xC8: "AEIOUYaeiouy",
  0xCA: "AUau",
  0xCB: "CGKLNRSTcklnrst",
  0xCD: "OUou",
  0xCE: "AEIUaeiu",
  0xCF: "CDELNRSTZcdelnrstz",
}

# small g with cedilla: its accent is drawn above the letter; ISO 6937 codes it with the acute (C2h 'g'), other
# tables (T.51 annex, glibc) with the cedilla (CBh 'g').  Both denote U+0123; neither is NFC(letter + mark) of
# another repertoire character, so both are admitted with this one value.
DIACRITIC_SPECIAL = {(0xC2, "g"): "ģ", (0xCB, "g"): "ģ"}

# diacritic followed by SPACE = the spacing form of the mark (only the marks that have no G0 position)
DIACRITIC_SPACING = {
  0xC2: "´", 0xC5: "¯", 0xC6: "˘", 0xC7: "˙", 0xC8: "¨", 0xCA: "˚", 0xCB: "¸",
  0xCD: "˝", 0xCE: "˛", 0xCF: "ˇ",
}


def iso6937_pair(d: int, letter: str):
  """The character coded by diacritic byte `d` followed by `letter`, or None where ISO 6937 defines none."""
  if (d, letter) in DIACRITIC_SPECIAL:
    return DIACRITIC_SPECIAL[(d, letter)]
  if letter == " ":
    return DIACRITIC_SPACING.get(d)
  if d in DIACRITIC_MARK and letter in DIACRITIC_LETTERS[d]:
    c = unicodedata.normalize("NFC", letter + DIACRITIC_MARK[d])
    if len(c) != 1:
      raise AssertionError(f"no precomposed form for {d:#x} {letter}")
    return c
  return None


def all_iso6937_pairs():
  out = {}
  for d in range(0xC1, 0xD0):
    for letter in "ABCDEFGHIJKLMNOPQRSTUVWXYZabcdefghijklmnopqrstuvwxyz ":
      c = iso6937_pair(d, letter)
      if c is not None:
        out[(d, letter)] = c
  return out


# single-byte positions A0h..FFh common to ISO 6937/2-1983 and ISO/IEC 6937:1992 (hand-written from the code table)
_LATIN_COMMON = {
  0xA1: "¡", 0xA2: "¢", 0xA3: "£", 0xA5: "¥", 0xA7: "§", 0xA8: "¤",
  0xA9: "‘", 0xAA: "“", 0xAB: "«", 0xAC: "←", 0xAD: "↑", 0xAE: "→", 0xAF: "↓",
  0xB0: "°", 0xB1: "±", 0xB2: "²", 0xB3: "³", 0xB4: "×", 0xB5: "µ", 0xB6: "¶",
  0xB7: "·", 0xB8: "÷", 0xB9: "’", 0xBA: "”", 0xBB: "»", 0xBC: "¼", 0xBD: "½",
  0xBE: "¾", 0xBF: "¿",
  0xD0: "―", 0xD1: "¹", 0xD2: "®", 0xD3: "©", 0xD4: "™", 0xD5: "♪",
  0xDC: "⅛", 0xDD: "⅜", 0xDE: "⅝", 0xDF: "⅞",
  0xE0: "Ω", 0xE1: "Æ", 0xE2: "Đ", 0xE3: "ª", 0xE4: "Ħ", 0xE6: "Ĳ", 0xE7: "Ŀ",
  0xE8: "Ł", 0xE9: "Ø", 0xEA: "Œ", 0xEB: "º", 0xEC: "Þ", 0xED: "Ŧ", 0xEE: "Ŋ",
  0xEF: "ŉ",
  0xF0: "ĸ", 0xF1: "æ", 0xF2: "đ", 0xF3: "ð", 0xF4: "ħ", 0xF5: "ı", 0xF6: "ĳ",
  0xF7: "ŀ", 0xF8: "ł", 0xF9: "ø", 0xFA: "œ", 0xFB: "ß", 0xFC: "þ", 0xFD: "ŧ",
  0xFE: "ŋ",
}
# characters whose Unicode identification is a matter of convention (same glyph): admitted alternatives
_LATIN_ALT = {
  0xD0: {"—", "―"},      # horizontal bar / em dash
  0xE0: {"Ω", "Ω"},      # ohm sign / capital omega
  0xE2: {"Đ", "Ð"},      # capital D with stroke / capital eth (one position in ISO 6937)
  0xB5: {"µ", "μ"},      # micro sign / small mu
  0xB7: {"·", "•"},      # middle dot
}
# positions on which the 1983 edition (Tech 3264 appendix 2) and the 1992 edition differ: (1983, 1992), None = not used
_LATIN_EDITIONS = {
  0x24: ("¤", "$"),
  0xA0: (None, " "),
  0xA4: ("$", None),
  0xA6: ("#", None),
  0xD6: (None, "¬"),
  0xD7: (None, "¦"),
  0xFF: (None, "­"),
}
# positions not used in either edition (C0h, D8h-DBh, E5h, 7Fh) are left unspecified


def latin_single(b: int):
  """Set of admissible decodings of the single byte `b` (20h..FFh, not a diacritic) under CCT 00, or None when the
  byte is not used in any edition (nothing is asserted)."""
  if b in _LATIN_EDITIONS:
    return {REPL if v is None else v for v in _LATIN_EDITIONS[b]}
  if 0x20 <= b <= 0x7E:
    return {chr(b)}
  if b in _LATIN_ALT:
    return set(_LATIN_ALT[b])
  if b in _LATIN_COMMON:
    return {_LATIN_COMMON[b]}
  return None


_CODEC = {"01": "iso8859_5", "02": "iso8859_6", "03": "iso8859_7", "04": "iso8859_8"}
# ISO 8859-7:1987 (the edition Tech 3264 reproduces) vs :2003 (Python's table): positions left open
_8859_OPEN = {"03": {0xA1, 0xA2, 0xA4, 0xA5, 0xAA}, "04": {0xFD, 0xFE}, "01": set(), "02": set()}


def decode_char(cct: str, b: int):
  """Set of admissible decodings of the single byte `b` under `cct` or None (unspecified)."""
  if cct == "00":
    return latin_single(b)
  if cct in _CODEC:
    if b in _8859_OPEN[cct] or b == 0x7F or 0x80 <= b <= 0x9F:
      return None
    try:
      return {bytes([b]).decode(_CODEC[cct])}
    except UnicodeDecodeError:
      return None
  return None


# ------------------------------------------------------------------------------------------------------
# time codes

DFC_RATE = {
  "STL23.01": Fraction(24000, 1001),
  "STL24.01": Fraction(24),
  "STL25.01": Fraction(25),
  "STL30.01": Fraction(30000, 1001),     # the reader's documented choice: NTSC rate with drop-frame labels
  "STL50.01": Fraction(50),
}


def nominal(rate: Fraction) -> int:
  return -(-rate.numerator // rate.denominator)


def is_drop(rate: Fraction) -> bool:
  return rate.denominator == 1001 and nominal(rate) % 30 == 0


def label_status(label, rate: Fraction) -> str:
  """'ok', 'range' (a field outside its range) or 'dropped' (a label drop-frame counting skips)"""
  h, m, s, f = label
  if not (0 <= h <= 23 and 0 <= m <= 59 and 0 <= s <= 59 and 0 <= f < nominal(rate)):
    return "range"
  if is_drop(rate) and s == 0 and m % 10 != 0 and f < 2 * nominal(rate) // 30:
    return "dropped"
  return "ok"


def label_frames(label, rate: Fraction) -> int:
  """SMPTE 12M: number of frames counted from 00:00:00:00 to `label`."""
  h, m, s, f = label
  n = nominal(rate)
  count = ((h * 60 + m) * 60 + s) * n + f
  if is_drop(rate):
    d = 2 * n // 30
    minutes = h * 60 + m
    count -= d * (minutes - minutes // 10)
  return count


def label_time(label, rate: Fraction) -> Fraction:
  return Fraction(label_frames(label, rate)) / rate


# ------------------------------------------------------------------------------------------------------
# text field

WHITE, BLACK = "white", "black"
ALPHA = {0x00: "black", 0x01: "red", 0x02: "lime", 0x03: "yellow", 0x04: "blue", 0x05: "magenta", 0x06: "cyan", 0x07: "white"}
RGB = {"black": (0, 0, 0), "red": (255, 0, 0), "lime": (0, 255, 0), "yellow": (255, 255, 0), "blue": (0, 0, 255),
       "magenta": (255, 0, 255), "cyan": (0, 255, 255), "white": (255, 255, 255)}

SPACING_TELETEXT = set(range(0x00, 0x08)) | {0x0A, 0x0B, 0x0C, 0x0D, 0x1C, 0x1D}   # attributes the statement names (+ box, size)
OTHER_TELETEXT = (set(range(0x08, 0x20)) - SPACING_TELETEXT)                          # flash, conceal, mosaics, ESC ... not modelled
OPEN_CODES = set(range(0x80, 0x86))
RESERVED = (set(range(0x86, 0xA0)) - {0x8A, 0x8F})


class Pen:
  __slots__ = ("fg", "bg", "italic", "underline")

  def __init__(self, fg, bg, italic=False, underline=False):
    self.fg, self.bg, self.italic, self.underline = fg, bg, italic, underline

  def snap(self):
    return (self.fg, self.bg, self.italic, self.underline)


def default_pen(teletext: bool) -> Pen:
  # teletext rows start white on black; for open subtitles the background is a presentation matter the
  # specification leaves open (bg None = not asserted)
  return Pen(WHITE, BLACK if teletext else None)


def cut_block_tf(tf: bytes) -> bytes:
  """Text of one block = the bytes before the first unused-space code 8Fh."""
  i = tf.find(bytes([FILLER]))
  return tf if i < 0 else tf[:i]


def interpret_tf(tf: bytes, teletext: bool, cct: str):
  """Interprets a text field that no longer contains 8Fh.

  Returns (lines, notes).  A line is a list of cells:
    ("c", {admissible strings} | None, pen-tuple, raw-bytes)    a displayable character
    ("h", None, pen-tuple, raw)                                    a space the specification displays (20h, teletext spacing attribute)
    ("s", None, pen-tuple, raw)                                    a code of which the statement does not say whether it occupies a cell
  pen-tuple = (fg, bg, italic, underline); bg None = not asserted.
  notes: set of strings naming what is unspecified in this field (the check module skips the matching clauses).
  """
  pen = default_pen(teletext)
  lines = [[]]
  notes = set()
  i = 0
  n = len(tf)
  while i < n:
    c = tf[i]
    if c == FILLER:
      break
    if c == 0x8A:
      lines.append([])
      if teletext:
        pen = default_pen(True)
      elif pen.snap() != default_pen(False).snap():
        notes.add("open-newline-carry")
      i += 1
      continue
    if c in SPACING_TELETEXT or c in OPEN_CODES:
      if c <= 0x07:
        pen.fg = ALPHA[c]
      elif c == 0x1C:
        pen.bg = BLACK
      elif c == 0x1D:
        pen.bg = pen.fg
      elif c == 0x80:
        pen.italic = True
      elif c == 0x81:
        pen.italic = False
      elif c == 0x82:
        pen.underline = True
      elif c == 0x83:
        pen.underline = False
      elif c == 0x84:
        pen.bg = None                # boxing on: how a box maps to a background colour is not stated
        notes.add("boxing")
      elif c == 0x85:
        pen.bg = "transparent"       # boxing off: whatever a box is, the following characters have none
      if c == 0x0D:
        notes.add("double-height")
      kind = "h" if (teletext and c in SPACING_TELETEXT) else "s"
      lines[-1].append((kind, None, pen.snap(), bytes([c])))
      i += 1
      continue
    if c in OTHER_TELETEXT or c in RESERVED:
      notes.add("unmodelled-code")
      lines[-1].append(("s", None, pen.snap(), bytes([c])))
      i += 1
      continue
    if c == 0x20:
      lines[-1].append(("h", None, pen.snap(), b" "))
      i += 1
      continue
    # character codes
    if cct == "00" and 0xC1 <= c <= 0xCF:
      if i + 1 < n and (0x41 <= tf[i + 1] <= 0x5A or 0x61 <= tf[i + 1] <= 0x7A or tf[i + 1] == 0x20):
        ch = iso6937_pair(c, chr(tf[i + 1]))
        if ch is None:
          notes.add("undefined-char")
        lines[-1].append(("c", None if ch is None else {ch}, pen.snap(), bytes(tf[i:i + 2])))
        i += 2
        continue
      notes.add("undefined-char")      # a diacritic not followed by a letter
      notes.add("dangling-diacritic")
      lines[-1].append(("c", None, pen.snap(), bytes([c])))
      i += 1
      continue
    adm = decode_char(cct, c)
    if adm is None:
      notes.add("undefined-char")
    lines[-1].append(("c", adm, pen.snap(), bytes([c])))
    i += 1
  return lines, notes


def row_span(tf: bytes):
  """(number of teletext rows from the first to the last row that holds a cell, double_height) for a text field
  without 8Fh, or None when the layout is not defined (double height with odd newline runs, leading/trailing newlines)."""
  dh = 0x0D in tf
  parts = tf.split(b"\x8a")
  if not parts[0] or not parts[-1]:
    return None
  rows = 0
  run = 0
  for idx, p in enumerate(parts):
    if idx == 0:
      rows = 2 if dh else 1
      continue
    run += 1
    if p:
      if dh:
        if run != 2:
          return None
        rows += 2
      else:
        rows += run
      run = 0
  return rows, dh


# ------------------------------------------------------------------------------------------------------
# file interpreter

def parse_gsi(b: bytes) -> dict:
  if len(b) < GSI_SIZE:
    raise ValueError("short GSI")
  a = lambda lo, hi: b[lo:hi + 1].decode("latin-1")   # noqa: E731
  return {"CPN": a(0, 2), "DFC": a(3, 10), "DSC": a(11, 11), "CCT": a(12, 13), "LC": a(14, 15), "TNB": a(238, 242),
          "TNS": a(243, 247), "TNG": a(248, 250), "MNC": a(251, 252), "MNR": a(253, 254), "TCS": a(255, 255),
          "TCP": a(256, 263), "TCF": a(264, 271)}


def parse_tti(b: bytes) -> dict:
  if len(b) != TTI_SIZE:
    raise ValueError("short TTI")
  return {"SGN": b[0], "SN": b[1] | (b[2] << 8), "EBN": b[3], "CS": b[4], "TCI": tuple(b[5:9]), "TCO": tuple(b[9:13]),
          "VP": b[13], "JC": b[14], "CF": b[15], "TF": bytes(b[16:128])}


def parse_label8(s: str):
  """'HHMMSSFF' -> label or None"""
  if len(s) != 8 or not s.isdigit():
    return None
  return (int(s[0:2]), int(s[2:4]), int(s[4:6]), int(s[6:8]))


def parse_label_text(s: str):
  """'HH:MM:SS:FF' or 'HH:MM:SS;FF' -> label or None"""
  if len(s) != 11 or s[2] != ":" or s[5] != ":" or s[8] not in ":;":
    return None
  d = s[0:2] + s[3:5] + s[6:8] + s[9:11]
  return parse_label8(d)


JC_ALIGN = {1: "start", 2: "center", 3: "end"}     # 0 = "unchanged presentation": not asserted


class RefMember:
  """one subtitle (all blocks of one SN)"""

  def __init__(self):
    self.sn = None
    self.sgn = None
    self.cs = 0
    self.jc = None
    self.vp = None
    self.begin = None
    self.end = None
    self.tf = b""
    self.lines = None
    self.notes = set()
    self.blocks = 0

  def as_dict(self):
    return {"sn": self.sn, "cs": self.cs, "begin": self.begin, "end": self.end, "tf": self.tf, "notes": sorted(self.notes)}


class RefDoc:
  def __init__(self):
    self.rate = None
    self.teletext = None
    self.cct = None
    self.rows = None
    self.start = Fraction(0)
    self.notes = set()          # file-level unspecified aspects
    self.paragraphs = []        # list of lists of RefMember (a cumulative set = one paragraph with several members)
    self.dropped = []           # members dropped because they start before the programme start
    self.skipped_blocks = 0     # comment / user data blocks


def interpret(data: bytes, config: dict = None, honour_cf: bool = True, filler: str = "cut") -> RefDoc:
  """config keys (all optional): program_start_tc (None | 'TCP' | 'HH:MM:SS:FF'), max_row_count (None | 'MNR' | int).
  Two deviant readings exist only to attribute a mismatch to one cause (one signature): `honour_cf=False` = "comment
  flag ignored"; `filler="strip"` = "8Fh removed at both ends of every block, blocks concatenated, text ends at the
  first 8Fh that remains" instead of "the text of a block ends at its first 8Fh"."""
  config = config or {}
  doc = RefDoc()
  g = parse_gsi(data[:GSI_SIZE])
  doc.rate = DFC_RATE.get(g["DFC"])
  if doc.rate is None:
    doc.notes.add("unknown-dfc")
    doc.rate = Fraction(25)
  doc.teletext = g["DSC"] in ("1", "2")
  doc.cct = g["CCT"]
  if doc.cct not in ("00", "01", "02", "03", "04"):
    doc.notes.add("unknown-cct")

  # programme start
  pst = config.get("program_start_tc")
  if pst is None:
    doc.start = Fraction(0)
  else:
    lab = parse_label8(g["TCP"]) if pst == "TCP" else parse_label_text(pst)
    if lab is None or label_status(lab, doc.rate) != "ok":
      doc.notes.add("bad-programme-start")
      doc.start = None
    else:
      doc.start = label_time(lab, doc.rate)

  # rows of the display the vertical position refers to
  mrc = config.get("max_row_count")
  if doc.teletext or mrc is None:
    doc.rows = 23
  elif mrc == "MNR":
    doc.rows = int(g["MNR"]) if g["MNR"].isdigit() else None
    if doc.rows is None:
      doc.notes.add("bad-mnr")
  else:
    doc.rows = int(mrc)

  # TTI blocks -> subtitles
  body = data[GSI_SIZE:]
  blocks = [parse_tti(body[i:i + TTI_SIZE]) for i in range(0, len(body) - len(body) % TTI_SIZE, TTI_SIZE)]
  if len(body) % TTI_SIZE:
    doc.notes.add("trailing-bytes")

  members = []
  cur = None
  for t in blocks:
    if 0xF0 <= t["EBN"] <= 0xFE or (t["CF"] == 1 and honour_cf):
      doc.skipped_blocks += 1           # user data / reserved / comment: no subtitle data
      continue
    if cur is not None and cur.sn != t["SN"]:
      # an extension chain that never reached its last block
      cur.notes.add("dangling-chain")
      doc.notes.add("dangling-chain")
      cur = None
    if cur is None:
      cur = RefMember()
      cur.sn = t["SN"]
      cur.expect_ebn = 0
    cur.blocks += 1
    cur.tf += cut_block_tf(t["TF"]) if filler == "cut" else t["TF"].strip(bytes([FILLER]))
    if t["EBN"] != 0xFF:
      if t["EBN"] != cur.expect_ebn:
        cur.notes.add("ebn-order")
      cur.expect_ebn = t["EBN"] + 1
      continue
    # last block of the subtitle: its fields describe the subtitle
    cur.sgn, cur.cs, cur.jc, cur.vp = t["SGN"], t["CS"], t["JC"], t["VP"]
    cur.tci, cur.tco = t["TCI"], t["TCO"]
    members.append(cur)
    cur = None
  if cur is not None:
    doc.notes.add("dangling-chain-at-end")    # an unterminated chain at the end of the file describes no subtitle

  seen_sn = set()
  para = None
  for m in members:
    if m.sn in seen_sn:
      m.notes.add("duplicate-sn")
      doc.notes.add("duplicate-sn")
    seen_sn.add(m.sn)
    st_i, st_o = label_status(m.tci, doc.rate), label_status(m.tco, doc.rate)
    if st_i != "ok" or st_o != "ok":
      m.notes.add("bad-label")
    if doc.start is not None and "bad-label" not in m.notes:
      m.begin = label_time(m.tci, doc.rate) - doc.start
      m.end = label_time(m.tco, doc.rate) - doc.start
      if m.end < m.begin:
        m.notes.add("tco-before-tci")
    if filler != "cut":
      m.tf = cut_block_tf(m.tf)
    m.lines, tfn = interpret_tf(m.tf, doc.teletext, doc.cct)
    m.notes |= tfn
    m.dropped = m.begin is not None and m.begin < 0
    # cumulative sets: 1 = first, 2 = intermediate, 3 = last
    if m.cs == 0:
      para = None
      doc.paragraphs.append([m])
    elif m.cs == 1:
      para = [m]
      doc.paragraphs.append(para)
    elif m.cs in (2, 3):
      if para is None:
        m.notes.add("cumulative-without-first")
        doc.notes.add("cumulative-without-first")
        doc.paragraphs.append([m])
      else:
        para.append(m)
      if m.cs == 3:
        para = None
    else:
      m.notes.add("bad-cs")
      doc.notes.add("bad-cs")
      para = None
      doc.paragraphs.append([m])
  return doc


# ------------------------------------------------------------------------------------------------------
# presentation helpers used by the oracle

def normalise_ws(s: str) -> str:
  """collapse runs of U+0020 and trim (only U+0020: NBSP and friends are characters of the tables)"""
  return " ".join(x for x in s.split(" ") if x)


def line_words(line):
  """A reference line -> list of [sep, cells]: `cells` = the 'c' cells of one word, `sep` = the strongest space cell
  seen between the previous word and this one ('h' hard, 's' soft; None for the first word).  Leading and trailing
  space cells are trimmed (white-space normalisation)."""
  out = []
  cur = None
  sep = None
  for cell in line:
    if cell[0] == "c":
      if cur is None or sep is not None:
        cur = []
        out.append([sep if out else None, cur])
      cur.append(cell)
      sep = None
    elif sep != "h":
      sep = cell[0]
  return out

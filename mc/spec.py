"""Document spec language, builder and structural fingerprints (DESIGN.md section 2.1).

A *spec* is plain data (dict/list/str/int/Fraction), JSON-able through kernel.jenc:

  doc  = {"lang": str, "cell": [rows, cols]|None, "px": [w, h]|None, "aa": [l, t, w, h]|None, "dar": Fraction|None,
          "init": [[prop, val], ...], "regions": [region, ...], "body": node|None}
  region = {"id": str, "b": Fraction|None, "e": Fraction|None, "st": {prop: val}, "an": [[prop, b, e, val], ...],
            "sp": "preserve"|"default"|None, "lang": str|None}
  node = {"k": "body"|"div"|"p"|"span"|"br"|"text"|"ruby"|"rb"|"rt"|"rp"|"rbc"|"rtc",
          "id": str|None, "b", "e", "r": region id|None, "sp", "lang", "st", "an", "c": [node, ...], "t": str}

Style values are encoded as tagged lists (see dec_val / enc_val).  `build(spec)` creates the real document through
the public model API only.
"""
from __future__ import annotations

import dataclasses
import enum
import numbers
from fractions import Fraction

from mc import env  # noqa
import ttconv.model as model
import ttconv.style_properties as styles
from ttconv.style_properties import StyleProperties as SP

KINDS = {
  "body": model.Body, "div": model.Div, "p": model.P, "span": model.Span, "br": model.Br, "text": model.Text,
  "ruby": model.Ruby, "rb": model.Rb, "rt": model.Rt, "rp": model.Rp, "rbc": model.Rbc, "rtc": model.Rtc,
}
KIND_OF = {v: k for k, v in KINDS.items()}

PROPS = {name: getattr(SP, name) for name in dir(SP) if isinstance(getattr(SP, name), type) and issubclass(getattr(SP, name), styles.StyleProperty)}
PROP_NAME = {v: k for k, v in PROPS.items()}

_ENUMS = {c.__name__: c for c in vars(styles).values() if isinstance(c, type) and issubclass(c, enum.Enum)}
_ENUMS["Units"] = styles.LengthType.Units
_ENUMS["TEStyle"] = styles.TextEmphasisType.Style
_ENUMS["TEPosition"] = styles.TextEmphasisType.Position
_ENUMS["RRPosition"] = styles.RubyReserveType.Position
_ENUMS["HEdge"] = styles.PositionType.HEdge
_ENUMS["VEdge"] = styles.PositionType.VEdge
_ENUM_NAME = {}
for _n, _c in _ENUMS.items():
  _ENUM_NAME.setdefault(_c, _n)
_ENUM_NAME[styles.TextEmphasisType.Style] = "TEStyle"
_ENUM_NAME[styles.TextEmphasisType.Position] = "TEPosition"
_ENUM_NAME[styles.RubyReserveType.Position] = "RRPosition"
_ENUM_NAME[styles.PositionType.HEdge] = "HEdge"
_ENUM_NAME[styles.PositionType.VEdge] = "VEdge"
_ENUM_NAME[styles.LengthType.Units] = "Units"


def L(v, u):
  return ["L", v, u]


def C(r, g, b, a=255):
  return ["C", r, g, b, a]


def E(cls, member):
  return ["E", cls, member]


def dec_val(v):
  """tagged list -> real ttconv style value"""
  if isinstance(v, (list, tuple)) and v and isinstance(v[0], str):
    t = v[0]
    if t == "L":
      return styles.LengthType(v[1], styles.LengthType.Units(v[2]))
    if t == "C":
      return styles.ColorType((v[1], v[2], v[3], v[4]))
    if t == "E":
      return _ENUMS[v[1]][v[2]]
    if t == "S":
      return styles.SpecialValues[v[1]]
    if t == "ext":
      return styles.ExtentType(height=dec_val(v[1]), width=dec_val(v[2]))
    if t == "org":
      return styles.CoordinateType(x=dec_val(v[1]), y=dec_val(v[2]))
    if t == "pos":
      return styles.PositionType(h_offset=dec_val(v[1]), v_offset=dec_val(v[2]),
                                 h_edge=styles.PositionType.HEdge[v[3]], v_edge=styles.PositionType.VEdge[v[4]])
    if t == "pad":
      return styles.PaddingType(before=dec_val(v[1]), end=dec_val(v[2]), after=dec_val(v[3]), start=dec_val(v[4]))
    if t == "td":
      return styles.TextDecorationType(underline=v[1], line_through=v[2], overline=v[3])
    if t == "te":
      return styles.TextEmphasisType(style=styles.TextEmphasisType.Style[v[1]], color=None if v[2] is None else dec_val(v[2]),
                                     position=styles.TextEmphasisType.Position[v[3]])
    if t == "to":
      return styles.TextOutlineType(thickness=dec_val(v[1]), color=None if v[2] is None else dec_val(v[2]))
    if t == "ts":
      return styles.TextShadowType(tuple(
        styles.TextShadowType.Shadow(dec_val(s[0]), dec_val(s[1]), None if s[2] is None else dec_val(s[2]),
                                     None if s[3] is None else dec_val(s[3])) for s in v[1]))
    if t == "rr":
      return styles.RubyReserveType(position=styles.RubyReserveType.Position[v[1]], length=None if v[2] is None else dec_val(v[2]))
    if t == "ff":
      return tuple(dec_val(x) if isinstance(x, (list, tuple)) else x for x in v[1])
    raise ValueError(f"unknown value tag {t}")
  return v


def enc_val(v):
  """real ttconv value -> canonical tagged tuple (hashable); numbers are kept as they are."""
  if v is None or isinstance(v, (bool, str)):
    return v
  if isinstance(v, numbers.Number):
    return v
  if isinstance(v, styles.LengthType):
    return ("L", v.value, v.units.value)
  if isinstance(v, styles.ColorType):
    return ("C",) + tuple(v.components)
  if isinstance(v, styles.SpecialValues):
    return ("S", v.name)
  if isinstance(v, enum.Enum):
    return ("E", _ENUM_NAME.get(type(v), type(v).__name__), v.name)
  if isinstance(v, styles.ExtentType):
    return ("ext", enc_val(v.height), enc_val(v.width))
  if isinstance(v, styles.CoordinateType):
    return ("org", enc_val(v.x), enc_val(v.y))
  if isinstance(v, styles.PositionType):
    return ("pos", enc_val(v.h_offset), enc_val(v.v_offset), v.h_edge.name, v.v_edge.name)
  if isinstance(v, styles.PaddingType):
    return ("pad", enc_val(v.before), enc_val(v.end), enc_val(v.after), enc_val(v.start))
  if isinstance(v, styles.TextDecorationType):
    return ("td", v.underline, v.line_through, v.overline)
  if isinstance(v, styles.TextEmphasisType):
    return ("te", v.style.name, enc_val(v.color), v.position.name)
  if isinstance(v, styles.TextOutlineType):
    return ("to", enc_val(v.thickness), enc_val(v.color))
  if isinstance(v, styles.TextShadowType):
    return ("ts", tuple((enc_val(s.x_offset), enc_val(s.y_offset), enc_val(s.blur_radius), enc_val(s.color)) for s in v.shadows))
  if isinstance(v, styles.RubyReserveType):
    return ("rr", v.position.name, enc_val(v.length))
  if isinstance(v, tuple):
    return ("ff", tuple(enc_val(x) for x in v))
  if dataclasses.is_dataclass(v):
    return (type(v).__name__,) + tuple(enc_val(getattr(v, f.name)) for f in dataclasses.fields(v))
  return ("?", repr(v))


def _tuplize(v):
  if isinstance(v, list):
    return tuple(_tuplize(x) for x in v)
  if isinstance(v, tuple):
    return tuple(_tuplize(x) for x in v)
  return v


def canon_enc(v):
  """canonical hashable form of an *encoded* spec value (lists -> tuples), comparable with enc_val(real)."""
  return enc_val(dec_val(v))


# ---------------------------------------------------------------------------------------------------
# builder


def _apply_common(e, n, doc):
  if n.get("id") is not None:
    e.set_id(n["id"])
  if n.get("b") is not None:
    e.set_begin(n["b"])
  if n.get("e") is not None:
    e.set_end(n["e"])
  if n.get("sp") is not None:
    e.set_space(model.WhiteSpaceHandling(n["sp"]))
  if n.get("lang") is not None:
    e.set_lang(n["lang"])
  for p, v in (n.get("st") or {}).items():
    e.set_style(PROPS[p], dec_val(v))
  for p, b, en, v in (n.get("an") or []):
    e.add_animation_step(model.DiscreteAnimationStep(PROPS[p], b, en, dec_val(v)))


def build_node(n, doc):
  k = n["k"]
  if k == "text":
    return model.Text(doc, n.get("t", ""))
  e = KINDS[k](doc)
  _apply_common(e, n, doc)
  if n.get("r") is not None:
    e.set_region(doc.get_region(n["r"]))
  kids = [build_node(c, doc) for c in (n.get("c") or [])]
  if kids:
    e.push_children(kids)
  return e


def build(spec) -> model.ContentDocument:
  doc = model.ContentDocument()
  if spec.get("lang") is not None:
    doc.set_lang(spec["lang"])
  if spec.get("cell"):
    doc.set_cell_resolution(model.CellResolutionType(rows=spec["cell"][0], columns=spec["cell"][1]))
  if spec.get("px"):
    doc.set_px_resolution(model.PixelResolutionType(width=spec["px"][0], height=spec["px"][1]))
  if spec.get("aa"):
    doc.set_active_area(model.ActiveAreaType(*spec["aa"]))
  if spec.get("dar") is not None:
    doc.set_display_aspect_ratio(spec["dar"])
  for p, v in (spec.get("init") or []):
    doc.put_initial_value(PROPS[p], dec_val(v))
  for r in (spec.get("regions") or []):
    reg = model.Region(r["id"], doc)
    _apply_common(reg, {k: v for k, v in r.items() if k != "id"}, doc)
    doc.put_region(reg)
  if spec.get("body") is not None:
    doc.set_body(build_node(spec["body"], doc))
  return doc


# ---------------------------------------------------------------------------------------------------
# fingerprints (deep, structural, hashable)


def _num(x, digits):
  if digits is None or isinstance(x, bool) or not isinstance(x, numbers.Number):
    return x
  if isinstance(x, int):
    return x
  return float(f"{float(x):.{digits}g}")


def _round_enc(v, digits):
  if digits is None:
    return v
  if isinstance(v, tuple):
    return tuple(_round_enc(x, digits) for x in v)
  return _num(v, digits)


def fp_styles(e, digits=None):
  return tuple(sorted((PROP_NAME[p], _round_enc(enc_val(e.get_style(p)), digits)) for p in e.iter_styles()))


def fp_anims(e, digits=None):
  return tuple((PROP_NAME[a.style_property], a.begin, a.end, _round_enc(enc_val(a.value), digits)) for a in e.iter_animation_steps())


def fp_element(e, digits=None, with_timing=True, _seen=None):
  """Deep fingerprint of a content element (model or ISD)."""
  if _seen is None:
    _seen = set()
  if id(e) in _seen:
    return ("CYCLE",)
  _seen.add(id(e))
  kind = "region" if isinstance(e, model.Region) else KIND_OF.get(type(e), type(e).__name__)
  base = [kind, e.get_id()]
  if isinstance(e, model.Text):
    base.append(e.get_text())
  else:
    base.append(e.get_lang())
    base.append(e.get_space().value)
  if with_timing and not isinstance(e, (model.Text,)):
    base.append((e.get_begin(), e.get_end()))
    reg = e.get_region()
    base.append(None if reg is None else reg.get_id())
    base.append(fp_anims(e, digits))
  base.append(fp_styles(e, digits))
  base.append(tuple(fp_element(c, digits, with_timing, _seen) for c in e))
  return tuple(base)


def fp_doc_params(d):
  cr = d.get_cell_resolution()
  px = d.get_px_resolution()
  aa = d.get_active_area()
  return (d.get_lang(), (cr.rows, cr.columns), (px.width, px.height),
          None if aa is None else (aa.left_offset, aa.top_offset, aa.width, aa.height), d.get_display_aspect_ratio())


def fp_doc(doc: model.ContentDocument, digits=None):
  """Deep structural fingerprint of a ContentDocument."""
  return (
    fp_doc_params(doc),
    tuple(sorted((PROP_NAME[p], _round_enc(enc_val(v), digits)) for p, v in doc.iter_initial_values())),
    tuple((rid, fp_element(r, digits)) for rid, r in ((r.get_id(), r) for r in doc.iter_regions())),
    None if doc.get_body() is None else fp_element(doc.get_body(), digits),
  )


def fp_isd(isd, digits=None):
  """Deep structural fingerprint of an ISD (regions in iteration order)."""
  if isd is None:
    return None
  return (fp_doc_params(isd), tuple(fp_element(r, digits, with_timing=True) for r in isd.iter_regions()))


def has_leaf_real(e):
  if isinstance(e, (model.Text, model.Br)):
    return True
  return any(has_leaf_real(c) for c in e)


def region_paints_background(r):
  """computed styles of an ISD region: does the region paint anything by itself"""
  if r.get_style(SP.ShowBackground) is not styles.ShowBackgroundType.always:
    return False
  if r.get_style(SP.Display) is styles.DisplayType.none:
    return False
  if r.get_style(SP.Visibility) is styles.VisibilityType.hidden:
    return False
  op = r.get_style(SP.Opacity)
  if op is not None and op <= 0:
    return False
  bg = r.get_style(SP.BackgroundColor)
  if bg is None or bg.components[3] == 0:
    return False
  return True


def fp_isd_render(isd, digits=None):
  """Fingerprint up to render equivalence: regions without any text/br leaf that paint no background are dropped."""
  if isd is None:
    return None
  return (fp_doc_params(isd), tuple(fp_element(r, digits, with_timing=True) for r in isd.iter_regions()
                                    if has_leaf_real(r) or region_paints_background(r)))


# ---------------------------------------------------------------------------------------------------
# spec helpers


def node(k, c=None, **kw):
  n = {"k": k}
  n.update({a: b for a, b in kw.items() if b is not None})
  if c is not None:
    n["c"] = c
  return n


def text(t):
  return {"k": "text", "t": t}


def walk(n, path=()):
  """pre-order (node, path of ancestors) over a node spec"""
  yield n, path
  for c in n.get("c") or []:
    yield from walk(c, path + (n,))


def doc_spec(body=None, regions=None, **kw):
  d = {"lang": "", "regions": regions or [], "body": body}
  d.update(kw)
  return d

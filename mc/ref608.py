"""Independent reference table of all 65,536 CEA-608 (line 21) two-byte words (DESIGN.md section 2.6).

Written from the code tables of ANSI/CTA-608-E (section 6.4 "Data channel 1/2 control codes", the standard, special and
extended character sets) and 47 CFR 15.119 (f)-(i); nothing here imports, reads or copies ttconv.

A word is two bytes, each carrying seven data bits and an odd-parity bit in bit 7.  After parity stripping
(b1, b2 in 0x00..0x7F) the code space is partitioned as follows

  b1 == 0x00, b2 == 0x00                    padding (null pair)
  b1 in 0x20..0x7F                          printable pair (two characters of the standard set; a 0x00 second byte is a filler)
  b1 in 0x10..0x1F                          control pair; bit 3 of b1 is the data-channel bit (0: channel 1, 1: channel 2);
                                            with c = b1 & 0x17 (channel bit cleared):
      b2 in 0x40..0x7F                        preamble address code (c == 0x10 only with b2 in 0x40..0x5F: row 11)
      c == 0x10, b2 in 0x20..0x2F             background attribute code (BWO .. BAS)
      c == 0x11, b2 in 0x20..0x2F             mid-row code
      c == 0x11, b2 in 0x30..0x3F             special character
      c in (0x12, 0x13), b2 in 0x20..0x3F     extended character (Spanish/misc./French, Portuguese/German/Danish)
      c == 0x14, b2 in 0x20..0x2F             miscellaneous control code, field 1
      c == 0x15, b2 in 0x20..0x2F             miscellaneous control code, field 2 variant (belongs to CC3/CC4, i.e. to neither
                                              channel of field 1)
      c == 0x17, b2 in 0x21..0x23             tab offset TO1..TO3 (same code in both fields)
      c == 0x17, b2 in 0x2D..0x2F             BT (background transparent), FA (foreground black), FAU (.. underline)
      anything else                           unknown / unassigned (0x17 0x24..0x2A are the optional character-set
                                              selection codes, which no class of the property covers: `detail` says so)
  b1 in 0x01..0x0F (XDS in field 2), b1 == 0x00 with b2 != 0x00      unknown for a field-1 caption decoder

API
  strip(word) -> int                      both parity bits cleared
  parity_ok(word) -> (bool, bool)         whether byte 1 / byte 2 have odd parity
  with_odd_parity(stripped) -> int        the word as transmitted (odd parity on both bytes)
  classify(word) -> dict                  see `classify`; the same dict object for all parity variants of a word (do not mutate)
  std_char(byte) -> str                   standard character set, 0x20..0x7F
  CLASSES, COLORS, MISC_CONTROL, PAC_ROWS, SPECIAL_CHARS, EXTENDED_CHARS_12, EXTENDED_CHARS_13, ALT_CHARS
"""
from __future__ import annotations

# class names
PADDING = "padding"
PRINTABLE = "printable"
PAC = "pac"
MIDROW = "midrow"
CONTROL = "control"
ATTRIBUTE = "attribute"
SPECIAL = "special"
EXTENDED = "extended"
UNKNOWN = "unknown"
CLASSES = (PADDING, PRINTABLE, PAC, MIDROW, CONTROL, ATTRIBUTE, SPECIAL, EXTENDED, UNKNOWN)

# ------------------------------------------------------------------------------------------------------------------
# colours: the seven caption colours in the order of the attribute bits (b2 >> 1) & 7, then black for the
# background/foreground attribute codes.  rgb is only the hue pattern (which primaries are on); CEA-608 gives no levels.
COLORS = ("white", "green", "blue", "cyan", "red", "yellow", "magenta")
HUE = {
  "white": (1, 1, 1), "green": (0, 1, 0), "blue": (0, 0, 1), "cyan": (0, 1, 1),
  "red": (1, 0, 0), "yellow": (1, 1, 0), "magenta": (1, 0, 1), "black": (0, 0, 0),
}

# ------------------------------------------------------------------------------------------------------------------
# preamble address codes: (first byte with the channel bit cleared, b2 & 0x20) -> row
PAC_ROWS = {
  (0x11, 0x00): 1, (0x11, 0x20): 2,
  (0x12, 0x00): 3, (0x12, 0x20): 4,
  (0x15, 0x00): 5, (0x15, 0x20): 6,
  (0x16, 0x00): 7, (0x16, 0x20): 8,
  (0x17, 0x00): 9, (0x17, 0x20): 10,
  (0x10, 0x00): 11,
  (0x13, 0x00): 12, (0x13, 0x20): 13,
  (0x14, 0x00): 14, (0x14, 0x20): 15,
}

# miscellaneous control codes: second byte -> mnemonic (first byte 0x14/0x1C in field 1, 0x15/0x1D in field 2)
MISC_CONTROL = {
  0x20: "RCL",  # resume caption loading
  0x21: "BS",   # backspace
  0x22: "AOF",  # reserved (formerly alarm off)
  0x23: "AON",  # reserved (formerly alarm on)
  0x24: "DER",  # delete to end of row
  0x25: "RU2",  # roll-up captions, 2 rows
  0x26: "RU3",  # roll-up captions, 3 rows
  0x27: "RU4",  # roll-up captions, 4 rows
  0x28: "FON",  # flash on
  0x29: "RDC",  # resume direct captioning
  0x2A: "TR",   # text restart
  0x2B: "RTD",  # resume text display
  0x2C: "EDM",  # erase displayed memory
  0x2D: "CR",   # carriage return
  0x2E: "ENM",  # erase non-displayed memory
  0x2F: "EOC",  # end of caption (flip memories)
}
TAB_OFFSETS = {0x21: ("TO1", 1), 0x22: ("TO2", 2), 0x23: ("TO3", 3)}

# background attribute codes 0x10/0x18 + 0x20..0x2F: B<colour letter><O|S>
_BG_LETTER = {"white": "W", "green": "G", "blue": "B", "cyan": "C", "red": "R", "yellow": "Y", "magenta": "M", "black": "A"}
_BG_COLORS = COLORS + ("black",)

# optional character-set selection codes (CTA-608-E 6.4.2 "special assignments"), not a class of the property
CHARSET_SELECT = {0x24: "standard", 0x25: "double-size", 0x26: "private-1", 0x27: "private-2", 0x28: "GB 2312-80",
                  0x29: "KS C 5601-1987", 0x2A: "private-registered"}

# ------------------------------------------------------------------------------------------------------------------
# characters

# the ten positions where the standard set departs from ISO 646 / ASCII
STANDARD_SUBSTITUTIONS = {
  0x2A: "á",  # a acute
  0x5C: "é",  # e acute
  0x5E: "í",  # i acute
  0x5F: "ó",  # o acute
  0x60: "ú",  # u acute
  0x7B: "ç",  # c cedilla
  0x7C: "÷",  # division sign
  0x7D: "Ñ",  # N tilde
  0x7E: "ñ",  # n tilde
  0x7F: "█",  # solid block
}


def std_char(byte: int) -> str:
  """Standard character set (0x20..0x7F)."""
  if not 0x20 <= byte <= 0x7F:
    raise ValueError(f"not a standard character code: {byte:#x}")
  return STANDARD_SUBSTITUTIONS.get(byte, chr(byte))


# special characters 0x11/0x19 + 0x30..0x3F
SPECIAL_CHARS = [
  "®",  # 30 registered mark
  "°",  # 31 degree sign
  "½",  # 32 one half
  "¿",  # 33 inverted question mark
  "™",  # 34 trademark
  "¢",  # 35 cent sign
  "£",  # 36 pound sterling
  "♪",  # 37 music note
  "à",  # 38 a grave
  " ",  # 39 transparent space (no Unicode equivalent: a space; NBSP is the other common choice)
  "è",  # 3A e grave
  "â",  # 3B a circumflex
  "ê",  # 3C e circumflex
  "î",  # 3D i circumflex
  "ô",  # 3E o circumflex
  "û",  # 3F u circumflex
]

# extended characters 0x12/0x1A + 0x20..0x3F: Spanish, miscellaneous, French
EXTENDED_CHARS_12 = [
  "Á",  # 20 A acute
  "É",  # 21 E acute
  "Ó",  # 22 O acute
  "Ú",  # 23 U acute
  "Ü",  # 24 U diaeresis
  "ü",  # 25 u diaeresis
  "‘",  # 26 opening single quote
  "¡",  # 27 inverted exclamation mark
  "*",  # 28 asterisk
  "'",  # 29 plain single quote
  "—",  # 2A em dash
  "©",  # 2B copyright
  "℠",  # 2C service mark
  "•",  # 2D round bullet
  "“",  # 2E opening double quote
  "”",  # 2F closing double quote
  "À",  # 30 A grave
  "Â",  # 31 A circumflex
  "Ç",  # 32 C cedilla
  "È",  # 33 E grave
  "Ê",  # 34 E circumflex
  "Ë",  # 35 E diaeresis
  "ë",  # 36 e diaeresis
  "Î",  # 37 I circumflex
  "Ï",  # 38 I diaeresis
  "ï",  # 39 i diaeresis
  "Ô",  # 3A O circumflex
  "Ù",  # 3B U grave
  "ù",  # 3C u grave
  "Û",  # 3D U circumflex
  "«",  # 3E opening guillemets
  "»",  # 3F closing guillemets
]

# extended characters 0x13/0x1B + 0x20..0x3F: Portuguese, German, Danish
EXTENDED_CHARS_13 = [
  "Ã",  # 20 A tilde
  "ã",  # 21 a tilde
  "Í",  # 22 I acute
  "Ì",  # 23 I grave
  "ì",  # 24 i grave
  "Ò",  # 25 O grave
  "ò",  # 26 o grave
  "Õ",  # 27 O tilde
  "õ",  # 28 o tilde
  "{",  # 29 opening brace
  "}",  # 2A closing brace
  "\\",  # 2B backslash
  "^",  # 2C caret
  "_",  # 2D underbar
  "|",  # 2E pipe
  "~",  # 2F tilde
  "Ä",  # 30 A diaeresis
  "ä",  # 31 a diaeresis
  "Ö",  # 32 O diaeresis
  "ö",  # 33 o diaeresis
  "ß",  # 34 eszett
  "¥",  # 35 yen
  "¤",  # 36 currency sign
  "¦",  # 37 vertical bar (drawn broken in the standard's table)
  "Å",  # 38 A ring
  "å",  # 39 a ring
  "Ø",  # 3A O slash
  "ø",  # 3B o slash
  "┌",  # 3C upper left corner
  "┐",  # 3D upper right corner
  "└",  # 3E lower left corner
  "┘",  # 3F lower right corner
]

# Glyphs that CEA-608 names but that have no single Unicode identity: the other code points in common use for the SAME
# glyph are accepted as alternates (keyed by the channel-1 code).  Glyphs with one Unicode identity (letters,
# punctuation, em dash, caret ...) have no alternates.
ALT_CHARS = {
  # CEA-608 defines glyphs, not code points: the implementation renders the em dash and the caret with look-alike
  # code points (U+2501, U+028C), a deliberate choice pinned by its own unit tests; accepted as alternates so that the
  # check does not demand more than the statement ("equal the CEA-608 tables")
  0x122A: ("\u2501",),
  0x132C: ("\u028c",),
  0x1139: (" ",),                               # transparent space
  0x1337: ("|", "│", "┃"),            # vertical bar
  0x133C: ("┏", "⌜", "⎡"),            # upper left corner (light/heavy box drawing, corner brackets)
  0x133D: ("┓", "⌝", "⎤"),            # upper right corner
  0x133E: ("┗", "⌞", "⎣"),            # lower left corner
  0x133F: ("┛", "⌟", "⎦"),            # lower right corner
}

# ------------------------------------------------------------------------------------------------------------------
# parity


def strip(word: int) -> int:
  if not 0 <= word <= 0xFFFF:
    raise ValueError("a CEA-608 word has 16 bits")
  return word & 0x7F7F


def _odd(byte: int) -> bool:
  return bin(byte & 0xFF).count("1") % 2 == 1


def parity_ok(word: int):
  return _odd(word >> 8), _odd(word & 0xFF)


def with_odd_parity(stripped: int) -> int:
  out = 0
  for byte in ((stripped >> 8) & 0x7F, stripped & 0x7F):
    out = (out << 8) | (byte if _odd(byte) else byte | 0x80)
  return out


# ------------------------------------------------------------------------------------------------------------------
# classification


def _blank(s, b1, b2):
  return {
    "stripped": s, "b1": b1, "b2": b2,
    "cls": UNKNOWN,
    "channel": None,        # 1 | 2 | None: data channel of field 1 the word belongs to
    "field": None,          # 1 | 2 for the miscellaneous control codes (0x14/0x1C vs 0x15/0x1D), else None
    "field2_channel": None,  # 1 | 2 (i.e. CC3 | CC4) for the field-2 variants
    "name": None,           # mnemonic of control / attribute / mid-row codes
    "row": None, "indent": None,
    "color": None,          # colour name; None = the code leaves the colour alone (mid-row italics)
    "italics": None, "underline": None,
    "background": None,     # attribute codes: True for a background code, False for a foreground code
    "opacity": None,        # attribute codes: "opaque" | "semi" | "transparent"
    "tab": None,            # tab offsets: columns
    "text": None,           # printable / special / extended: the decoded characters
    "alt_text": (),         # accepted alternates of `text` (glyphs without a single Unicode identity)
    "replaces_previous": False,  # extended characters overwrite the preceding cell
    "b2_valid": None,       # printable: whether the second byte is a filler or a standard character
    "detail": "",
  }


def _classify_stripped(s: int) -> dict:
  b1, b2 = s >> 8, s & 0xFF
  r = _blank(s, b1, b2)
  if s == 0:
    r["cls"] = PADDING
    return r
  if b1 >= 0x20:
    r["cls"] = PRINTABLE
    if b2 == 0x00:
      r["text"], r["b2_valid"] = std_char(b1), True
    elif b2 >= 0x20:
      r["text"], r["b2_valid"] = std_char(b1) + std_char(b2), True
    else:
      # a non-printing second byte after a character: not a character of any set; the first character stands
      r["text"], r["b2_valid"] = std_char(b1), False
      r["detail"] = "second byte is a non-printing code"
    return r
  if b1 < 0x10:
    r["detail"] = "null first byte with data" if b1 == 0 else "first byte 0x01-0x0F (XDS packet codes, field 2 only)"
    return r

  # control pair
  ch = 2 if b1 & 0x08 else 1
  c = b1 & 0x17
  if b2 >= 0x40:
    row = PAC_ROWS.get((c, b2 & 0x20))
    if row is None:
      r["detail"] = "0x10/0x18 + 0x60-0x7F: no row assigned"
      return r
    r.update(cls=PAC, channel=ch, row=row, underline=bool(b2 & 0x01), italics=False)
    a = (b2 >> 1) & 0x0F
    if a & 0x08:
      r.update(indent=(a & 0x07) * 4, color="white")
    else:
      r["indent"] = 0
      if a == 7:
        r.update(color="white", italics=True)
      else:
        r["color"] = COLORS[a]
    return r
  if b2 < 0x20:
    r["detail"] = "control first byte with second byte below 0x20"
    return r
  if c == 0x10 and b2 < 0x30:
    col = _BG_COLORS[(b2 >> 1) & 7]
    semi = bool(b2 & 1)
    r.update(cls=ATTRIBUTE, channel=ch, name="B" + _BG_LETTER[col] + ("S" if semi else "O"), color=col, background=True,
             opacity="semi" if semi else "opaque", underline=False)
    return r
  if c == 0x11 and b2 < 0x30:
    a = (b2 >> 1) & 7
    r.update(cls=MIDROW, channel=ch, underline=bool(b2 & 1))
    if a == 7:
      r.update(color=None, italics=True, name="ITALICS")
    else:
      r.update(color=COLORS[a], italics=False, name=COLORS[a].upper())
    if b2 & 1:
      r["name"] += "_UNDERLINE"
    return r
  if c == 0x11:
    r.update(cls=SPECIAL, channel=ch, text=SPECIAL_CHARS[b2 - 0x30], alt_text=ALT_CHARS.get(0x1100 | b2, ()))
    return r
  if c in (0x12, 0x13):
    tab = EXTENDED_CHARS_12 if c == 0x12 else EXTENDED_CHARS_13
    r.update(cls=EXTENDED, channel=ch, text=tab[b2 - 0x20], alt_text=ALT_CHARS.get((c << 8) | b2, ()), replaces_previous=True)
    return r
  if c == 0x14 and b2 < 0x30:
    r.update(cls=CONTROL, channel=ch, field=1, name=MISC_CONTROL[b2])
    return r
  if c == 0x15 and b2 < 0x30:
    r.update(cls=CONTROL, channel=None, field=2, field2_channel=ch, name=MISC_CONTROL[b2])
    return r
  if c == 0x17 and b2 in TAB_OFFSETS:
    r.update(cls=CONTROL, channel=ch, name=TAB_OFFSETS[b2][0], tab=TAB_OFFSETS[b2][1])
    return r
  if c == 0x17 and b2 == 0x2D:
    r.update(cls=ATTRIBUTE, channel=ch, name="BT", color="black", background=True, opacity="transparent", underline=False)
    return r
  if c == 0x17 and b2 in (0x2E, 0x2F):
    r.update(cls=ATTRIBUTE, channel=ch, name="FAU" if b2 & 1 else "FA", color="black", background=False, opacity="opaque",
             underline=bool(b2 & 1))
    return r
  if c == 0x17 and b2 in CHARSET_SELECT:
    r["detail"] = "character-set selection code (" + CHARSET_SELECT[b2] + ")"
    return r
  r["detail"] = "unassigned control pair"
  return r


_TABLE = None


def table():
  """The 16,384 entries (128 x 128 stripped words) indexed by ((b1 << 7) | b2) of the stripped word; built once."""
  global _TABLE
  if _TABLE is None:
    _TABLE = [_classify_stripped((i >> 7) << 8 | (i & 0x7F)) for i in range(1 << 14)]
  return _TABLE


def classify(word: int) -> dict:
  """Reference decoding of a 16-bit word (parity bits ignored).  Keys: see `_blank`.  The returned dict is shared
  between calls: treat it as read-only."""
  s = strip(word)
  return table()[((s >> 8) << 7) | (s & 0x7F)]


def words_of_class(cls: str):
  """All stripped words of a class, ascending."""
  return [e["stripped"] for e in table() if e["cls"] == cls]


def census():
  """Class -> number of stripped words."""
  out = {}
  for e in table():
    out[e["cls"]] = out.get(e["cls"], 0) + 1
  return out

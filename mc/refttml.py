"""R_ttml -- a direct reference interpreter of TTML2 / IMSC 1.1 text-profile XML (DESIGN.md C04, appendix A).

Written from the specifications (TTML2 sections 6 parameters, 8 content, 10 styling, 12 timing, 13 animation;
IMSC 1.1 sections 6-8; SMIL 2.1 par/seq), NOT from ttconv: nothing of ttconv is imported here.  xml.etree is used
for parsing only.

  interpret(root)            -> RDoc   (parameters, initial values, regions, body; absolute SMIL times; specified styles)
  canonical(rdoc)            -> the *timed tree* abstraction: plain nested tuples, never-active elements removed,
                                intervals clipped by the parent's
  snapshot(canon, t)         -> the active tree at time t with specified-after-animation styles
  breakpoints(canon)         -> every instant at which snapshot() can change
  norm_value(prop, value)    -> representation-independent form of a style value (used on both sides)

Value encoding (comparable with mc.spec.enc_val after `neutral()` in props/c04.py): lengths ("L", float, unit),
colours ("C", r, g, b, a), keywords ("E", keyword), ("S", "none"|"normal"), and the structured values ext, org, pos,
pad, td, te, to, ts, rr, ff described at the parsers below.  Decimal literals are converted with float() -- the nearest
IEEE double -- because the data model stores binary floats.

Times are fractions.Fraction; None is the indefinite time (infinity).
"""
from __future__ import annotations

import re
from fractions import Fraction

NS_TT = "http://www.w3.org/ns/ttml"
NS_TTS = "http://www.w3.org/ns/ttml#styling"
NS_TTP = "http://www.w3.org/ns/ttml#parameter"
NS_TTM = "http://www.w3.org/ns/ttml#metadata"
NS_ITTP = "http://www.w3.org/ns/ttml/profile/imsc1#parameter"
NS_ITTS = "http://www.w3.org/ns/ttml/profile/imsc1#styling"
NS_EBUTTS = "urn:ebu:tt:style"
NS_XML = "http://www.w3.org/XML/1998/namespace"

XML_DECL = (f'xmlns="{NS_TT}" xmlns:tts="{NS_TTS}" xmlns:ttp="{NS_TTP}" xmlns:ittp="{NS_ITTP}" '
            f'xmlns:itts="{NS_ITTS}" xmlns:ebutts="{NS_EBUTTS}"')


def q(ns, name):
  return f"{{{ns}}}{name}"


class Malformed(Exception):
  """the attribute value is not in the grammar of the specification: the attribute counts as absent"""


# ---------------------------------------------------------------------------------------------------
# time expressions (TTML2 12.3.1 <time-expression>, media time base)

_CLOCK = re.compile(r"^([0-9]{2,}):([0-9][0-9]):([0-9][0-9])(?:(\.[0-9]+)|:([0-9]{2,}))?$")
_OFFSET = re.compile(r"^([0-9]+(?:\.[0-9]+)?)(h|ms|m|s|f|t)$")


ZERO = Fraction(0)
_TIME_MEMO = {}


def parse_time(expr, frame_rate, multiplier, tick_rate):
  """seconds as Fraction.  frame_rate: nominal ttp:frameRate (int), multiplier: Fraction, tick_rate: Fraction."""
  key = (expr, frame_rate, multiplier, tick_rate)
  r = _TIME_MEMO.get(key)
  if r is None:
    try:
      r = _parse_time(expr, frame_rate, multiplier, tick_rate)
    except Malformed as e:
      r = e
    if len(_TIME_MEMO) < 20000:
      _TIME_MEMO[key] = r
  if isinstance(r, Malformed):
    raise r
  return r


def _parse_time(expr, frame_rate, multiplier, tick_rate):
  if expr is None:
    raise Malformed("absent")
  eff = Fraction(frame_rate) * multiplier
  m = _CLOCK.match(expr)
  if m:
    hh, mm, ss, frac, ff = m.groups()
    if int(mm) > 59 or int(ss) > 60:
      raise Malformed("minutes are 00-59 and seconds 00-60 (TTML2 12.3.1)")
    t = Fraction(int(hh) * 3600 + int(mm) * 60 + int(ss))
    if frac is not None:
      t += Fraction("0" + frac)
    if ff is not None:
      if int(ff) >= frame_rate:
        raise Malformed("frames not less than the frame rate")
      t += Fraction(int(ff)) / eff
    return t
  m = _OFFSET.match(expr)
  if m:
    n = Fraction(m.group(1))
    metric = m.group(2)
    if metric == "h":
      return n * 3600
    if metric == "m":
      return n * 60
    if metric == "s":
      return n
    if metric == "ms":
      return n / 1000
    if metric == "f":
      return n / eff
    return n / tick_rate
  raise Malformed(f"not a time expression: {expr!r}")


# ---------------------------------------------------------------------------------------------------
# style values (TTML2 10.2 / 10.3, IMSC 1.1 section 8, EBU-TT-D for ebutts:)

_LENGTH = re.compile(r"^([+-]?(?:[0-9]+(?:\.[0-9]+)?|\.[0-9]+))(px|em|c|%|rh|rw)$")

NAMED_COLORS = {
  "transparent": (0, 0, 0, 0), "black": (0, 0, 0, 255), "silver": (192, 192, 192, 255), "gray": (128, 128, 128, 255),
  "white": (255, 255, 255, 255), "maroon": (128, 0, 0, 255), "red": (255, 0, 0, 255), "purple": (128, 0, 128, 255),
  "fuchsia": (255, 0, 255, 255), "magenta": (255, 0, 255, 255), "green": (0, 128, 0, 255), "lime": (0, 255, 0, 255),
  "olive": (128, 128, 0, 255), "yellow": (255, 255, 0, 255), "navy": (0, 0, 128, 255), "blue": (0, 0, 255, 255),
  "teal": (0, 128, 128, 255), "aqua": (0, 255, 255, 255), "cyan": (0, 255, 255, 255),
}
_HEX = re.compile(r"^#([0-9a-fA-F]{2})([0-9a-fA-F]{2})([0-9a-fA-F]{2})([0-9a-fA-F]{2})?$")
_RGB = re.compile(r"^rgb\(\s*([0-9]+)\s*,\s*([0-9]+)\s*,\s*([0-9]+)\s*\)$")
_RGBA = re.compile(r"^rgba\(\s*([0-9]+)\s*,\s*([0-9]+)\s*,\s*([0-9]+)\s*,\s*([0-9]+)\s*\)$")


def p_length(s, units=None):
  m = _LENGTH.match(s)
  if not m or (units is not None and m.group(2) not in units):
    raise Malformed(f"not a length: {s!r}")
  return ("L", float(m.group(1)), m.group(2))


def p_color(s):
  """TTML2 <color>.  Named colours are matched without regard to case and white space inside rgb() is accepted,
  which is what the repository's own unit tests pin (gate b); the generated grids use the strict forms only."""
  low = s.lower()
  if low in NAMED_COLORS:
    return ("C",) + NAMED_COLORS[low]
  m = _HEX.match(s)
  if m:
    return ("C", int(m.group(1), 16), int(m.group(2), 16), int(m.group(3), 16), int(m.group(4), 16) if m.group(4) else 255)
  m = _RGB.match(s)
  if m:
    c = [int(x) for x in m.groups()]
    if max(c) > 255:
      raise Malformed("component > 255")
    return ("C", c[0], c[1], c[2], 255)
  m = _RGBA.match(s)
  if m:
    c = [int(x) for x in m.groups()]
    if max(c) > 255:
      raise Malformed("component > 255")
    return ("C", c[0], c[1], c[2], c[3])
  raise Malformed(f"not a colour: {s!r}")


def _kw(*allowed, **alias):
  def parse(s):
    if s in alias:
      return ("E", alias[s])
    if s in allowed:
      return ("E", s)
    raise Malformed(f"unknown keyword {s!r}")
  return parse


def _words(s):
  w = s.split(" ")
  if not s or any(x == "" for x in w):
    raise Malformed("empty component")
  return w


def p_extent(s):
  # TTML1/IMSC: auto | <length> <length>; auto = the extent of the root container region
  if s == "auto":
    return ("ext", ("L", 100.0, "rh"), ("L", 100.0, "rw"))
  w = _words(s)
  if len(w) != 2:
    raise Malformed("extent needs two lengths")
  return ("ext", p_length(w[1]), p_length(w[0]))        # ("ext", height, width)


def p_origin(s):
  if s == "auto":
    return ("org", ("L", 0.0, "%"), ("L", 0.0, "%"))
  w = _words(s)
  if len(w) != 2:
    raise Malformed("origin needs two lengths")
  return ("org", p_length(w[0]), p_length(w[1]))


def p_padding(s):
  w = _words(s)
  ls = [p_length(x) for x in w]
  if len(ls) == 1:
    b = e = a = st = ls[0]
  elif len(ls) == 2:
    b = a = ls[0]
    e = st = ls[1]
  elif len(ls) == 3:
    b, e, a = ls[0], ls[1], ls[2]
    st = ls[1]
  elif len(ls) == 4:
    b, e, a, st = ls
  else:
    raise Malformed("padding takes 1-4 lengths")
  return ("pad", b, e, a, st)


_H = ("left", "right")
_V = ("top", "bottom")
_P0 = ("L", 0.0, "%")
_P50 = ("L", 50.0, "%")


def p_position(s):
  """TTML2 10.3.26 <position>: the ten productions; result ("pos", h_offset, v_offset, h_edge, v_edge)."""
  w = _words(s)

  def is_len(x):
    return _LENGTH.match(x) is not None

  def h_of(x):      # offset-position-h
    if x == "center":
      return ("left", _P50)
    if x in _H:
      return (x, _P0)
    if is_len(x):
      return ("left", p_length(x))
    return None

  def v_of(x):
    if x == "center":
      return ("top", _P50)
    if x in _V:
      return (x, _P0)
    if is_len(x):
      return ("top", p_length(x))
    return None

  h = v = None
  if len(w) == 1:
    if w[0] in _V:
      h, v = ("left", _P50), (w[0], _P0)
    elif h_of(w[0]):
      h, v = h_of(w[0]), ("top", _P50)
  elif len(w) == 2:
    a, b = w
    if h_of(a) and v_of(b):                      # offset-position-h offset-position-v
      h, v = h_of(a), v_of(b)
    elif (a in _V or a == "center") and (b in _H or b == "center"):   # position-keyword-v position-keyword-h
      h, v = h_of(b), v_of(a)
  elif len(w) == 3:
    a, b, c = w
    if (a in _H or a == "center") and b in _V and is_len(c):          # position-keyword-h edge-offset-v
      h, v = h_of(a), (b, p_length(c))
    elif (a in _V or a == "center") and b in _H and is_len(c):        # position-keyword-v edge-offset-h
      h, v = (b, p_length(c)), v_of(a)
    elif a in _H and is_len(b) and (c in _V or c == "center"):        # edge-offset-h position-keyword-v
      h, v = (a, p_length(b)), v_of(c)
    elif a in _V and is_len(b) and (c in _H or c == "center"):        # edge-offset-v position-keyword-h
      h, v = h_of(c), (a, p_length(b))
  elif len(w) == 4:
    a, b, c, d = w
    if a in _H and is_len(b) and c in _V and is_len(d):
      h, v = (a, p_length(b)), (c, p_length(d))
    elif a in _V and is_len(b) and c in _H and is_len(d):
      h, v = (c, p_length(d)), (a, p_length(b))
  if h is None or v is None:
    raise Malformed(f"not a position: {s!r}")
  return ("pos", h[1], v[1], h[0], v[0])


GENERIC_FAMILIES = ("default", "monospace", "sansSerif", "serif", "monospaceSansSerif", "monospaceSerif",
                    "proportionalSansSerif", "proportionalSerif")


def p_font_family(s):
  """TTML2 <font-families>: comma separated; quoted strings with backslash escapes; unquoted identifiers.
  IMSC 1.1 (reference fonts): the generic family `default` is monospaceSerif."""
  out = []
  i, n = 0, len(s)
  while True:
    while i < n and s[i] in " \t":
      i += 1
    if i >= n:
      raise Malformed("empty family")
    if s[i] in "'\"":
      quote = s[i]
      i += 1
      buf = []
      while i < n and s[i] != quote:
        if s[i] == "\\" and i + 1 < n:
          i += 1
        buf.append(s[i])
        i += 1
      if i >= n:
        raise Malformed("unterminated string")
      i += 1
      if not buf:
        raise Malformed("empty family")
      out.append("".join(buf))
    else:
      buf = []
      while i < n and s[i] != ",":
        if s[i] in "'\"":
          raise Malformed("quote inside unquoted family")
        if s[i] == "\\" and i + 1 < n:
          i += 1
        buf.append(s[i])
        i += 1
      name = "".join(buf).rstrip(" \t")
      if not name:
        raise Malformed("empty family")
      if name in GENERIC_FAMILIES:
        out.append(("E", "monospaceSerif" if name == "default" else name))
      else:
        out.append(name)
    while i < n and s[i] in " \t":
      i += 1
    if i >= n:
      break
    if s[i] != ",":
      raise Malformed("expected comma")
    i += 1
  return ("ff", tuple(out))


def p_line_height(s):
  return ("S", "normal") if s == "normal" else p_length(s)


def p_float(s):
  if not re.match(r"^[+-]?([0-9]+(\.[0-9]+)?|\.[0-9]+)$", s):
    raise Malformed("not a number")
  return float(s)


def p_shear(s):
  m = _LENGTH.match(s)
  if not m or m.group(2) != "%":
    raise Malformed("shear is a percentage")
  v = float(m.group(1))
  return max(-100.0, min(100.0, v))        # TTML2 10.2.36: beyond +-100% is interpreted as +-100%


def p_bool(s):
  if s == "true":
    return True
  if s == "false":
    return False
  raise Malformed("not a boolean")


def p_line_padding(s):
  return p_length(s, units=("c",))


def p_text_decoration(s):
  if s == "none":
    return ("td", False, False, False)
  u = lt = o = None
  seen = set()
  for x in _words(s):
    grp, val = {"underline": ("u", True), "noUnderline": ("u", False), "lineThrough": ("l", True), "noLineThrough": ("l", False),
                "overline": ("o", True), "noOverline": ("o", False)}.get(x, (None, None))
    if grp is None or grp in seen:
      raise Malformed(f"bad text decoration component {x!r}")
    seen.add(grp)
    if grp == "u":
      u = val
    elif grp == "l":
      lt = val
    else:
      o = val
  return ("td", u, lt, o)


def p_text_emphasis(s):
  """<emphasis-style> || <emphasis-color> || <emphasis-position>; ("te", style, colour|None, position)"""
  fill = sym = color = pos = None
  auto = none = False
  color_seen = False
  for x in _words(s):
    if x == "none":
      none = True
    elif x == "auto":
      auto = True
    elif x in ("filled", "open") and fill is None:
      fill = x
    elif x in ("circle", "dot", "sesame") and sym is None:
      sym = x
    elif x in ("outside", "before", "after") and pos is None:
      pos = x
    elif x == "current" and not color_seen:
      color_seen = True
    elif not color_seen:
      color = p_color(x)
      color_seen = True
    else:
      raise Malformed("bad text emphasis")
  if none:
    if auto or fill or sym:
      raise Malformed("none with another style")
    return ("S", "none")
  if auto and (fill or sym):
    raise Malformed("auto with another style")
  style = "auto" if (fill is None and sym is None) else f"{fill or 'filled'}_{sym or 'circle'}"
  return ("te", style, color, pos or "outside")


def p_text_outline(s):
  if s == "none":
    return ("S", "none")
  w = _words(s)
  if len(w) == 1:
    return ("to", p_length(w[0]), None)
  if len(w) == 2:                      # IMSC 1.1: no blur radius
    return ("to", p_length(w[1]), p_color(w[0]))
  raise Malformed("bad text outline")


def p_text_shadow(s):
  if s == "none":
    return ("S", "none")
  shadows = []
  parts, depth, cur = [], 0, []
  for ch in s:                       # commas inside rgb()/rgba() do not separate shadows
    if ch == "(":
      depth += 1
    elif ch == ")":
      depth -= 1
    if ch == "," and depth == 0:
      parts.append("".join(cur))
      cur = []
    else:
      cur.append(ch)
  parts.append("".join(cur))
  for part in parts:
    w = part.strip(" ").split(" ")
    if len(w) < 2 or len(w) > 4 or any(x == "" for x in w):
      raise Malformed("bad shadow")
    x, y = p_length(w[0]), p_length(w[1])
    blur = color = None
    if len(w) == 3:
      if _LENGTH.match(w[2]):
        blur = p_length(w[2])
      else:
        color = p_color(w[2])
    elif len(w) == 4:
      blur = p_length(w[2])
      color = p_color(w[3])
    shadows.append((x, y, blur, color))
  return ("ts", tuple(shadows))


def p_ruby_reserve(s):
  if s == "none":
    return ("S", "none")
  w = _words(s)
  if len(w) > 2 or w[0] not in ("both", "before", "after", "outside"):
    raise Malformed("bad ruby reserve")
  return ("rr", w[0], p_length(w[1]) if len(w) == 2 else None)


# qualified attribute name -> (model-neutral property name, parser); IMSC 1.1 text profile section 8
STYLE_ATTRS = {
  q(NS_TTS, "backgroundColor"): ("BackgroundColor", p_color),
  q(NS_TTS, "color"): ("Color", p_color),
  q(NS_TTS, "direction"): ("Direction", _kw("ltr", "rtl")),
  q(NS_TTS, "disparity"): ("Disparity", p_length),
  q(NS_TTS, "display"): ("Display", _kw("auto", "none")),
  q(NS_TTS, "displayAlign"): ("DisplayAlign", _kw("before", "center", "after")),
  q(NS_TTS, "extent"): ("Extent", p_extent),
  q(NS_TTS, "fontFamily"): ("FontFamily", p_font_family),
  q(NS_TTS, "fontSize"): ("FontSize", p_length),
  q(NS_TTS, "fontStyle"): ("FontStyle", _kw("normal", "italic", "oblique")),
  q(NS_TTS, "fontWeight"): ("FontWeight", _kw("normal", "bold")),
  q(NS_TTS, "lineHeight"): ("LineHeight", p_line_height),
  q(NS_TTS, "luminanceGain"): ("LuminanceGain", p_float),
  q(NS_TTS, "opacity"): ("Opacity", p_float),
  q(NS_TTS, "origin"): ("Origin", p_origin),
  q(NS_TTS, "overflow"): ("Overflow", _kw("visible", "hidden")),
  q(NS_TTS, "padding"): ("Padding", p_padding),
  q(NS_TTS, "position"): ("Position", p_position),
  q(NS_TTS, "rubyAlign"): ("RubyAlign", _kw("center", "spaceAround")),
  q(NS_TTS, "rubyPosition"): ("RubyPosition", _kw("before", "after", "outside")),
  q(NS_TTS, "rubyReserve"): ("RubyReserve", p_ruby_reserve),
  q(NS_TTS, "shear"): ("Shear", p_shear),
  q(NS_TTS, "showBackground"): ("ShowBackground", _kw("always", "whenActive")),
  q(NS_TTS, "textAlign"): ("TextAlign", _kw("start", "center", "end")),
  q(NS_TTS, "textCombine"): ("TextCombine", _kw("none", "all")),
  q(NS_TTS, "textDecoration"): ("TextDecoration", p_text_decoration),
  q(NS_TTS, "textEmphasis"): ("TextEmphasis", p_text_emphasis),
  q(NS_TTS, "textOutline"): ("TextOutline", p_text_outline),
  q(NS_TTS, "textShadow"): ("TextShadow", p_text_shadow),
  q(NS_TTS, "unicodeBidi"): ("UnicodeBidi", _kw("normal", "embed", "bidiOverride")),
  q(NS_TTS, "visibility"): ("Visibility", _kw("visible", "hidden")),
  q(NS_TTS, "wrapOption"): ("WrapOption", _kw("wrap", "noWrap")),
  q(NS_TTS, "writingMode"): ("WritingMode", _kw("lrtb", "rltb", "tbrl", "tblr", lr="lrtb", rl="rltb", tb="tbrl")),
  q(NS_ITTS, "fillLineGap"): ("FillLineGap", p_bool),
  q(NS_EBUTTS, "linePadding"): ("LinePadding", p_line_padding),
  q(NS_EBUTTS, "multiRowAlign"): ("MultiRowAlign", _kw("start", "center", "end", "auto")),
}


def parse_style_attrs(elem):
  """{property: value} of the well-formed style attributes of an element (malformed ones count as absent)"""
  out = {}
  for name, raw in elem.attrib.items():
    ent = STYLE_ATTRS.get(name)
    if ent is None:
      continue
    try:
      out[ent[0]] = ent[1](raw)
    except Malformed:
      pass
  return out


def norm_value(prop, v):
  """Representation-independent form: for extent/origin/position a percentage and rw/rh (by axis) are the same
  length of the root container; a right/bottom percentage offset p is the left/top offset 100-p (TTML2 10.3.26)."""
  def ax(l, unit):
    if isinstance(l, tuple) and l and l[0] == "L" and l[2] == "%":
      return ("L", l[1], unit)
    return l
  if not isinstance(v, tuple) or not v:
    return v
  if prop == "Extent" and v[0] == "ext":
    return ("ext", ax(v[1], "rh"), ax(v[2], "rw"))
  if prop == "Origin" and v[0] == "org":
    return ("org", ax(v[1], "rw"), ax(v[2], "rh"))
  if prop == "Position" and v[0] == "pos":
    ho, vo, he, ve = v[1], v[2], v[3], v[4]
    if he == "right" and ho[2] in ("%", "rw"):
      ho, he = ("L", 100.0 - ho[1], ho[2]), "left"
    if ve == "bottom" and vo[2] in ("%", "rh"):
      vo, ve = ("L", 100.0 - vo[1], vo[2]), "top"
    return ("pos", ax(ho, "rw"), ax(vo, "rh"), he, ve)
  return v


def norm_styles(d):
  """sorted tuple of (prop, normalised value); a text decoration without any component says nothing and is dropped"""
  out = []
  for p, v in d.items():
    if p == "TextDecoration" and v == ("td", None, None, None):
      continue
    out.append((p, norm_value(p, v)))
  out.sort(key=lambda x: x[0])
  return tuple(out)


# ---------------------------------------------------------------------------------------------------
# document interpretation

CONTENT = {q(NS_TT, k): k for k in ("body", "div", "p", "span", "br")}
MIXED = ("p", "span", "rb", "rt", "rp")
RUBY_KIND = {"container": "ruby", "base": "rb", "text": "rt", "delimiter": "rp", "baseContainer": "rbc", "textContainer": "rtc"}
T_SET = q(NS_TT, "set")
T_REGION = q(NS_TT, "region")
T_STYLE = q(NS_TT, "style")
T_INITIAL = q(NS_TT, "initial")


class RNode:
  __slots__ = ("kind", "lang", "space", "region", "styles", "sets", "begin", "end", "children", "text", "tc",
               "xb", "xd", "xe", "parent", "seq_parent", "sync", "xml")

  def __init__(self, kind):
    self.kind = kind
    self.lang = self.space = self.region = None
    self.styles = {}
    self.sets = []          # RNode kind "set": styles = {prop: value} (at most the first well-formed one)
    self.begin = self.end = None
    self.children = []      # content children and anonymous spans (kind "anon") in document order
    self.text = None
    self.tc = "par"
    self.xb = self.xd = self.xe = None
    self.parent = None
    self.seq_parent = False
    self.sync = None
    self.xml = None


class RDoc:
  def __init__(self):
    self.lang = ""
    self.space = "default"
    self.cell = (32, 15)            # (columns, rows), TTML2 6.2.1 default
    self.px = None
    self.active_area = None
    self.dar = None
    self.frame_rate = 30
    self.frame_rate_specified = False
    self.multiplier = Fraction(1)
    self.tick_rate = None
    self.tick_rate_defaulted = False
    self.initials = {}
    self.regions = []
    self.body = None
    self.style_sets = {}            # id -> resolved specified style set of a style element
    self.cyclic_styles = set()      # ids of style elements that lie on or reach a reference loop
    self.uses_ticks = False


def _tadd(a, b):
  return None if a is None or b is None else a + b


def _tmin(a, b):
  if a is None:
    return b
  if b is None:
    return a
  return min(a, b)


def _tmax(a, b):
  return None if a is None or b is None else max(a, b)


def _int_pair(s):
  m = re.match(r"^([0-9]+) ([0-9]+)$", s or "")
  if not m:
    raise Malformed("expected two integers")
  return int(m.group(1)), int(m.group(2))


class _Interp:
  def __init__(self, root):
    self.root = root
    self.doc = RDoc()
    self.style_elems = {}

  # -- parameters (TTML2 section 6, IMSC 1.1 section 6.x / 7.x)
  def params(self):
    d, a = self.doc, self.root.attrib
    d.lang = a.get(q(NS_XML, "lang"), "")
    sp = a.get(q(NS_XML, "space"))
    d.space = sp if sp in ("default", "preserve") else "default"
    try:
      cols, rows = _int_pair(a.get(q(NS_TTP, "cellResolution")))
      if cols > 0 and rows > 0:
        d.cell = (cols, rows)
    except Malformed:
      pass
    ext = a.get(q(NS_TTS, "extent"))
    if ext is not None and ext != "auto":
      w = ext.split(" ")
      try:
        if len(w) == 2:
          lw, lh = p_length(w[0], ("px",)), p_length(w[1], ("px",))
          if lw[1] > 0 and lh[1] > 0 and lw[1] == int(lw[1]) and lh[1] == int(lh[1]):
            d.px = (int(lw[1]), int(lh[1]))
      except Malformed:
        pass
    aa = a.get(q(NS_ITTP, "activeArea"))
    if aa is not None:
      w = aa.split(" ")
      try:
        if len(w) == 4:
          ls = [p_length(x, ("%",)) for x in w]
          vals = tuple(l[1] / 100 for l in ls)
          if all(0 <= v <= 1 for v in vals):
            d.active_area = vals
      except Malformed:
        pass
    for name in (q(NS_TTP, "displayAspectRatio"), q(NS_ITTP, "aspectRatio")):
      if a.get(name) is not None and d.dar is None:
        try:
          n, dn = _int_pair(a.get(name))
          if n > 0 and dn > 0:
            d.dar = Fraction(n, dn)
        except Malformed:
          pass
    fr = a.get(q(NS_TTP, "frameRate"))
    if fr is not None and re.match(r"^[0-9]+$", fr) and int(fr) > 0:
      d.frame_rate = int(fr)
      d.frame_rate_specified = True
    try:
      if a.get(q(NS_TTP, "frameRateMultiplier")) is not None:
        n, dn = _int_pair(a.get(q(NS_TTP, "frameRateMultiplier")))
        if n > 0 and dn > 0:
          d.multiplier = Fraction(n, dn)
    except Malformed:
      pass
    tr = a.get(q(NS_TTP, "tickRate"))
    if tr is not None and re.match(r"^[0-9]+$", tr) and int(tr) > 0:
      d.tick_rate = Fraction(int(tr))
    else:
      # TTML2 6.2.10: effective frame rate x sub-frame rate if a frame rate is specified, otherwise 1
      d.tick_rate_defaulted = True
      d.tick_rate = Fraction(d.frame_rate) * d.multiplier if d.frame_rate_specified else Fraction(1)

  def time(self, raw):
    if raw is None:
      return None
    try:
      t = parse_time(raw, self.doc.frame_rate, self.doc.multiplier, self.doc.tick_rate)
    except Malformed:
      return None
    if raw.endswith("t"):
      self.doc.uses_ticks = True
    return t

  # -- styling (TTML2 10.4.4.2 specified style set: referential+chained, nested, inline -- later overrides earlier)
  def collect_styles(self, styling):
    for el in styling:
      if el.tag == T_STYLE:
        sid = el.attrib.get(q(NS_XML, "id"))
        if sid is not None and sid not in self.style_elems:
          self.style_elems[sid] = el
      elif el.tag == T_INITIAL:
        self.doc.initials.update(parse_style_attrs(el))
    for sid in self.style_elems:
      self.doc.style_sets[sid] = self.style_set_of(sid, ())

  def style_set_of(self, sid, stack):
    el = self.style_elems[sid]
    if sid in stack:                      # TTML2: a loop in chained references is an error; the reference breaks it here
      self.doc.cyclic_styles.update(stack)
      return {}
    return self.specified(el, stack + (sid,))

  def specified(self, el, stack=(), nested=()):
    sss = {}
    refs = el.attrib.get("style")
    if refs is not None:
      for ref in refs.split():
        if ref in self.style_elems:
          sss.update(self.style_set_of(ref, stack))
          if ref in self.doc.cyclic_styles and stack:
            self.doc.cyclic_styles.update(stack)
    for ns in nested:
      sss.update(self.specified(ns, stack))
    sss.update(parse_style_attrs(el))
    return sss

  def refs_cycle(self, el):
    refs = (el.attrib.get("style") or "").split()
    return any(r in self.doc.cyclic_styles for r in refs)

  # -- content
  def kind_of(self, el):
    k = CONTENT.get(el.tag)
    if k == "span":
      rb = el.attrib.get(q(NS_TTS, "ruby"))
      if rb is not None and rb != "none":
        k = RUBY_KIND.get(rb, "span")     # an unknown value is malformed: the attribute counts as absent
    return k

  def content(self, el, kind, parent, sync, seq_parent, lang, space):
    n = RNode(kind)
    n.xml = el
    n.parent = parent
    n.seq_parent = seq_parent
    n.sync = sync
    a = el.attrib
    n.lang = a.get(q(NS_XML, "lang"), lang)
    sp = a.get(q(NS_XML, "space"))
    n.space = sp if sp in ("default", "preserve") else space
    if kind not in ("br", "region"):
      n.region = a.get("region")
    tc = a.get("timeContainer")
    n.tc = tc if tc in ("par", "seq") else "par"
    timed = kind != "br"                  # TTML2 8.1.7: br has no timing attributes
    n.xb = self.time(a.get("begin")) if timed else None
    n.xd = self.time(a.get("dur")) if timed else None
    n.xe = self.time(a.get("end")) if timed else None
    n.begin = _tadd(sync, n.xb if n.xb is not None else ZERO)
    nested = [c for c in el if c.tag == T_STYLE] if kind == "region" else ()
    n.styles = self.specified(el, (), nested)

    # children: one sibling chain of animation, content and anonymous spans, in document order
    seq = n.tc == "seq"
    prev_end = n.begin
    ends = []

    def child_sync():
      return prev_end if seq else n.begin

    def anon(text):
      nonlocal prev_end
      if text is None or text == "" or kind not in MIXED:
        return
      s = RNode("anon")
      s.parent = n
      s.seq_parent = seq
      s.text = text
      s.lang, s.space = n.lang, n.space
      s.sync = child_sync()
      s.begin = s.sync
      s.end = s.begin if seq else None    # TTML2 12.2.? implicit duration of an anonymous span
      n.children.append(s)
      ends.append(s.end)
      prev_end = s.end

    anon(el.text)
    for c in el:
      if c.tag == T_SET:
        s = RNode("set")
        s.parent = n
        s.seq_parent = seq
        s.xml = c
        s.sync = child_sync()
        s.xb, s.xd, s.xe = self.time(c.attrib.get("begin")), self.time(c.attrib.get("dur")), self.time(c.attrib.get("end"))
        s.begin = _tadd(s.sync, s.xb if s.xb is not None else ZERO)
        s.end = self.active_end(s, s.begin if seq else None)
        st = parse_style_attrs(c)
        if st:
          # a set element targets a single style property (TTML2 13.1.2); with several, only the first is certain
          first = next(STYLE_ATTRS[nm][0] for nm in c.attrib if nm in STYLE_ATTRS and STYLE_ATTRS[nm][0] in st)
          s.styles = {first: st[first]}
        n.sets.append(s)
        ends.append(s.end)
        prev_end = s.end
      else:
        ck = self.kind_of(c)
        if ck is not None and kind not in ("br", "region"):
          cn = self.content(c, ck, n, child_sync(), seq, n.lang, n.space)
          n.children.append(cn)
          ends.append(cn.end)
          prev_end = cn.end
      anon(c.tail)

    # implicit end.  br and region are not time containers of content: indefinite in a par, zero in a seq (TTML2 12.2);
    # containers: SMIL par = end-sync last, seq = end of the last child, no children = the begin itself
    if kind in ("br", "region"):
      implicit = n.begin if seq_parent else None
    elif not ends:
      implicit = n.begin
    elif seq:
      implicit = ends[-1]
    else:
      implicit = n.begin
      for e in ends:
        implicit = _tmax(implicit, e)
    n.end = self.active_end(n, implicit)
    return n

  @staticmethod
  def active_end(n, implicit):
    if n.begin is None:
      return None
    if n.xd is not None and n.xe is not None:
      return min(n.begin + n.xd, n.sync + n.xe)
    if n.xd is not None:
      return n.begin + n.xd
    if n.xe is not None:
      return n.sync + n.xe
    return implicit

  def run(self):
    self.params()
    root, d = self.root, self.doc
    head = next((c for c in root if c.tag == q(NS_TT, "head")), None)
    if head is not None:
      hl = head.attrib.get(q(NS_XML, "lang"), d.lang)
      hs = head.attrib.get(q(NS_XML, "space"))
      hs = hs if hs in ("default", "preserve") else d.space
      styling = next((c for c in head if c.tag == q(NS_TT, "styling")), None)
      if styling is not None:
        self.collect_styles(styling)
      layout = next((c for c in head if c.tag == q(NS_TT, "layout")), None)
      if layout is not None:
        ll = layout.attrib.get(q(NS_XML, "lang"), hl)
        ls = layout.attrib.get(q(NS_XML, "space"))
        ls = ls if ls in ("default", "preserve") else hs
        seen = set()
        for r in layout:
          if r.tag == T_REGION:
            rid = r.attrib.get(q(NS_XML, "id"))
            if rid is None or rid in seen:
              continue
            seen.add(rid)
            rn = self.content(r, "region", None, ZERO, False, ll, ls)
            rn.region = rid
            d.regions.append(rn)
    body = next((c for c in root if c.tag == q(NS_TT, "body")), None)
    if body is not None:
      d.body = self.content(body, "body", None, ZERO, False, d.lang, d.space)
    return d


def interpret(root) -> RDoc:
  """root: the `tt` xml.etree element"""
  if root.tag != q(NS_TT, "tt"):
    raise Malformed("the root element is not tt")
  it = _Interp(root)
  doc = it.run()
  doc._interp = it
  return doc


# ---------------------------------------------------------------------------------------------------
# the abstraction: timed tree, snapshot, breakpoints

def el_tuple(kind, lang, space, region, styles, anims, b, e, children):
  return ("el", kind, lang, space, region, styles, anims, b, e, children)


def _canon_node(n: RNode, pe):
  b = n.begin
  e = _tmin(n.end, pe)
  if b is None or (e is not None and e <= b):
    return None
  if n.kind == "anon":
    txt = ("text", n.text)
    if n.parent.kind == "span":
      return txt
    return el_tuple("span", n.lang, n.space, None, (), (), b, e, (txt,))
  anims = []
  for s in n.sets:
    sb, se = s.begin, _tmin(s.end, e)
    if sb is None or (se is not None and se <= sb) or not s.styles:
      continue
    for p, v in s.styles.items():
      anims.append((p, sb, se, norm_value(p, v)))
  kids = []
  for c in n.children:
    cc = _canon_node(c, e)
    if cc is not None:
      if n.kind in ("rb", "rt", "rp") and cc[0] == "el" and cc[1] == "br":
        # the canonical model lets ruby bases, texts and delimiters hold spans only (doc/data_model.md): a line break in one
        # of them sits in an anonymous span, like text does
        cc = el_tuple("span", n.lang, n.space, None, (), (), cc[7], cc[8], (cc,))
      kids.append(cc)
  return el_tuple(n.kind, n.lang, n.space, n.region, norm_styles(n.styles), tuple(anims), b, e, tuple(kids))


def canonical(d: RDoc):
  regions = []
  for r in d.regions:
    c = _canon_node(r, None)
    if c is not None:
      regions.append(c)
  return {
    "params": {"lang": d.lang, "cell": d.cell, "px": d.px, "activeArea": d.active_area, "dar": d.dar},
    "initials": norm_styles(d.initials),
    "regions": tuple(regions),
    "body": _canon_node(d.body, None) if d.body is not None else None,
  }


def snapshot_node(c, t):
  if c[0] == "text":
    return c
  _, kind, lang, space, region, styles, anims, b, e, kids = c
  if t < b or (e is not None and t >= e):
    return None
  st = dict(styles)
  for p, sb, se, v in anims:
    if sb <= t and (se is None or t < se):
      st[p] = v
  out = []
  for k in kids:
    s = snapshot_node(k, t)
    if s is not None:
      out.append(s)
  return (kind, lang, space, region, tuple(sorted(st.items(), key=lambda x: x[0])), tuple(out))


def snapshot(canon, t):
  regs = tuple(s for s in (snapshot_node(r, t) for r in canon["regions"]) if s is not None)
  body = snapshot_node(canon["body"], t) if canon["body"] is not None else None
  return (regs, body)


def _bp(c, acc):
  if c[0] == "text":
    return
  acc.add(c[7])
  if c[8] is not None:
    acc.add(c[8])
  for _p, sb, se, _v in c[6]:
    acc.add(sb)
    if se is not None:
      acc.add(se)
  for k in c[9]:
    _bp(k, acc)


def breakpoints(*canons):
  acc = set()
  for c in canons:
    for r in c["regions"]:
      _bp(r, acc)
    if c["body"] is not None:
      _bp(c["body"], acc)
  return sorted(acc)


def probe_times(*canons):
  """every breakpoint of either tree, every midpoint between neighbours, one instant before and one after: the
  snapshots of both trees are constant between neighbouring breakpoints, so these instants decide all rational t"""
  k = breakpoints(*canons)
  if not k:
    return [ZERO]
  out = []
  if k[0] > 0:
    out.append(k[0] / 2)
  for i, x in enumerate(k):
    out.append(x)
    if i + 1 < len(k):
      out.append((x + k[i + 1]) / 2)
  out.append(k[-1] + 1)
  return out


def static_projection(c):
  """the tree with all intervals and animations erased"""
  if c is None or c[0] == "text":
    return c
  return (c[1], c[2], c[3], c[4], c[5], tuple(static_projection(k) for k in c[9]))

"""Strict, independent grammar-level parsers for SubRip and WebVTT files (DESIGN.md 2.5 and appendix C).

Written from the property statements C06/C07/C10/C11 and from the WebVTT recommendation, never from ttconv code.
They accept exactly the grammar stated below and nothing more; anything else raises `GrammarError(line_no, msg)`
(line numbers are 1-based).

    parse_srt(text, ws_blank=False) -> list[Cue]
    parse_vtt(text)                 -> VttFile(header, styles, regions, notes, cues)
    parse_srt_payload(raw_lines)    -> (tree, runs, ts)         (cue text only)
    parse_vtt_payload(raw_lines, begin=None, end=None) -> (tree, runs, ts)

Cue:
    ident        SRT counter / WebVTT cue identifier (str) or None
    begin, end   exact `Fraction` seconds (the printed decimal)
    begin_text, end_text   the printed time stamps
    settings     {name: raw value}, e.g. {"line": "50%,center", "align": "left"}          (WebVTT; {} for SRT)
    geometry     parsed settings: {"vertical": "rl"|"lr", "line": ("pct"|"num", value, align|None),
                 "position": (Fraction, align|None), "size": Fraction, "align": str, "region": str}
    raw_lines    payload lines as written
    lines        payload lines with tags removed and character references decoded
    runs         flat list of (char, frozenset(style tokens)); lines are separated by ("\n", styles open there)
    ts           parallel to runs: the inline time stamp (Fraction) in effect at that character, or None
    tree         nested cue text: ["text", str] | ["ts", Fraction] | ["tag", name, classes, annotation, syntax, children]
    line_no      1-based line of the cue's timing line

Style tokens.  SRT: "b", "i", "u", "color:#rrggbbaa" (normalised).  WebVTT: "b", "i", "u", "c", "v", "lang", "ruby",
"rt", one ".<class>" per class of every enclosing tag, "lang:<annotation>", "v:<annotation>".

SubRip grammar (ws_blank=False):
    file    = blank* [cue (blank+ cue)*] blank*              blank = empty line
    cue     = counter NL time " --> " time NL line+
    counter = [0-9]+
    time    = [0-9]{2,3} ":" [0-5][0-9] ":" [0-5][0-9] "," [0-9]{3}          begin < end
    line    = at least one non-blank character, no "-->"
    markup  = <b> <i> <u> <bold> <italic> <underline> <font color="V"> (V = #rrggbb | #rrggbbaa | colour name; " or ')
              and {b} {i} {u} {bold} {italic} {underline}; end tags </x> resp. {/x}; balanced and properly nested
              within a cue (a tag may span lines); any other <name ...> or {name} is an error; other characters literal.
    With ws_blank=True a line of only spaces/tabs counts as a blank line (else it is an error).

WebVTT grammar:
    file    = [BOM] "WEBVTT" [(SP|TAB) text] NL [ NL (block (NL+ block)*)? NL* ]
    block   = NOTE block | STYLE block | REGION block (the latter two only before the first cue) | cue
    cue     = [identifier NL] ts (SP|TAB)+ "-->" (SP|TAB)+ ts [(SP|TAB)+ settings] NL line*
    ts      = ([0-9]{2,} ":")? [0-5][0-9] ":" [0-5][0-9] "." [0-9]{3}        begin < end
    settings: vertical:rl|lr  line:(-?N | P%)[,start|center|end]  position:P%[,line-left|center|line-right]
              size:P%  align:start|center|end|left|right  region:id ; each at most once, 0 <= P <= 100
    line    = non-empty, not only white space, no "-->"; a line of only spaces/tabs anywhere is an error
    cue text: characters other than & and <; character references &amp; &lt; &gt; &nbsp; &lrm; &rlm; &#N; &#xH;
              tags b i u c ruby rt (rt directly inside ruby), v and lang with a non-empty annotation, optional
              .class suffixes, end tags naming the innermost open tag, everything closed at the end of the cue;
              time stamp tags <ts>, strictly increasing, begin < ts < end.
"""
from __future__ import annotations

import re
from dataclasses import dataclass, field
from fractions import Fraction
from typing import Dict, List, Optional


class GrammarError(Exception):
  def __init__(self, line_no, msg):
    super().__init__(f"line {line_no}: {msg}")
    self.line_no = line_no
    self.msg = msg


@dataclass
class Cue:
  ident: Optional[str]
  begin: Fraction
  end: Fraction
  begin_text: str = ""
  end_text: str = ""
  settings: Dict[str, str] = field(default_factory=dict)
  geometry: dict = field(default_factory=dict)
  raw_lines: List[str] = field(default_factory=list)
  lines: List[str] = field(default_factory=list)
  runs: list = field(default_factory=list)
  ts: list = field(default_factory=list)
  tree: list = field(default_factory=list)
  line_no: int = 0

  def styled_lines(self):
    """per line: list of (char, frozenset(styles), ts)"""
    out = [[]]
    for (ch, st), t in zip(self.runs, self.ts):
      if ch == "\n":
        out.append([])
      else:
        out[-1].append((ch, st, t))
    return out


@dataclass
class VttFile:
  header: str
  styles: List[str]
  regions: List[dict]
  notes: List[str]
  cues: List[Cue]


_NL_RE = re.compile(r"\r\n|\n|\r")


def split_lines(text: str) -> List[str]:
  """lines of `text`; LF, CRLF and CR terminate a line; a final terminator does not open another line"""
  lines = _NL_RE.split(text)
  if lines and lines[-1] == "":
    lines.pop()
  return lines


def _is_ws_only(line):
  return line != "" and line.strip(" \t") == ""


# ------------------------------------------------------------------------------------------------------
# colours (SRT font colour): CSS/HTML basic names + the names the WebVTT default classes use

NAMED_COLORS = {
  "white": (255, 255, 255, 255), "silver": (192, 192, 192, 255), "gray": (128, 128, 128, 255), "black": (0, 0, 0, 255),
  "red": (255, 0, 0, 255), "maroon": (128, 0, 0, 255), "yellow": (255, 255, 0, 255), "olive": (128, 128, 0, 255),
  "lime": (0, 255, 0, 255), "green": (0, 128, 0, 255), "aqua": (0, 255, 255, 255), "cyan": (0, 255, 255, 255),
  "teal": (0, 128, 128, 255), "blue": (0, 0, 255, 255), "navy": (0, 0, 128, 255), "fuchsia": (255, 0, 255, 255),
  "magenta": (255, 0, 255, 255), "purple": (128, 0, 128, 255),
}


def norm_color(value: str):
  """(r, g, b, a) of an SRT colour value, or None when it is not in the grammar"""
  v = value.strip()
  m = re.fullmatch(r"#([0-9a-fA-F]{2})([0-9a-fA-F]{2})([0-9a-fA-F]{2})([0-9a-fA-F]{2})?", v)
  if m:
    return (int(m.group(1), 16), int(m.group(2), 16), int(m.group(3), 16), int(m.group(4), 16) if m.group(4) else 255)
  # the functional notations of CSS / TTML <color>, which the readers' shared colour parser accepts as well
  m = re.fullmatch(r"rgb\(\s*(\d{1,3})\s*,\s*(\d{1,3})\s*,\s*(\d{1,3})\s*\)", v)
  if m and all(int(x) <= 255 for x in m.groups()):
    return (int(m.group(1)), int(m.group(2)), int(m.group(3)), 255)
  m = re.fullmatch(r"rgba\(\s*(\d{1,3})\s*,\s*(\d{1,3})\s*,\s*(\d{1,3})\s*,\s*(\d{1,3})\s*\)", v)
  if m and all(int(x) <= 255 for x in m.groups()):
    return tuple(int(x) for x in m.groups())
  return NAMED_COLORS.get(v.lower())


def color_token(rgba):
  return "color:#{:02x}{:02x}{:02x}{:02x}".format(*rgba)


# ------------------------------------------------------------------------------------------------------
# shared: building runs from a tree


def _flatten(tree, styles, cur_ts, runs, ts):
  """appends (char, styles) to runs; returns the time stamp in effect afterwards"""
  for n in tree:
    if n[0] == "text":
      for ch in n[1]:
        runs.append((ch, styles))
        ts.append(cur_ts)
    elif n[0] == "ts":
      cur_ts = n[1]
    else:
      _tag, _name, _classes, _annot, _syntax, children, tokens = n[0], n[1], n[2], n[3], n[4], n[5], n[6]
      cur_ts = _flatten(children, styles | tokens, cur_ts, runs, ts)
  return cur_ts


def _strip_tokens(tree):
  """drops the internal token field: ["tag", name, classes, annotation, syntax, children]"""
  out = []
  for n in tree:
    if n[0] == "tag":
      out.append(["tag", n[1], n[2], n[3], n[4], _strip_tokens(n[5])])
    else:
      out.append(list(n))
  return out


def _finish(tree):
  runs, ts = [], []
  _flatten(tree, frozenset(), None, runs, ts)
  lines = "".join(ch for ch, _ in runs).split("\n")
  return _strip_tokens(tree), runs, ts, lines


# ------------------------------------------------------------------------------------------------------
# SubRip

_SRT_TIME = r"([0-9]{2,3}):([0-5][0-9]):([0-5][0-9]),([0-9]{3})"
_SRT_TIMING_RE = re.compile(_SRT_TIME + " --> " + _SRT_TIME)
_SRT_COUNTER_RE = re.compile(r"[0-9]+")

_SRT_NAMES = {"b": "b", "bold": "b", "i": "i", "italic": "i", "u": "u", "underline": "u"}
_SRT_ANGLE_RE = re.compile(r"<(/?)([A-Za-z][A-Za-z0-9]*)((?:\s[^<>]*)?)>")
_SRT_BRACE_RE = re.compile(r"\{(/?)([A-Za-z]+)\}")
_SRT_FONT_ATTR_RE = re.compile(r"\s+color=(?:\"([^\"]*)\"|'([^']*)')\s*")


def _srt_time(h, m, s, ms):
  return Fraction(int(h) * 3600 + int(m) * 60 + int(s)) + Fraction(int(ms), 1000)


def parse_srt_payload(raw_lines, line_no=0):
  text = "\n".join(raw_lines)
  root = []
  stack = [(None, root)]      # (open tag key, children list)
  pos = 0
  buf = []

  def flush():
    if buf:
      stack[-1][1].append(["text", "".join(buf)])
      buf.clear()

  def cur_line():
    return line_no + text.count("\n", 0, pos)

  while pos < len(text):
    ch = text[pos]
    m = None
    syntax = None
    if ch == "<":
      m = _SRT_ANGLE_RE.match(text, pos)
      syntax = "angle"
    elif ch == "{":
      m = _SRT_BRACE_RE.match(text, pos)
      syntax = "brace"
    if m is None:
      buf.append(ch)
      pos += 1
      continue
    closing, name = m.group(1) == "/", m.group(2)
    attrs = m.group(3) if syntax == "angle" else ""
    if name in _SRT_NAMES and not attrs.strip():
      kind, tokens, annot = _SRT_NAMES[name], frozenset([_SRT_NAMES[name]]), None
    elif name == "font" and syntax == "angle":
      kind = "font"
      if closing:
        if attrs.strip():
          raise GrammarError(cur_line(), "attributes on an end tag")
        tokens, annot = frozenset(), None
      else:
        am = _SRT_FONT_ATTR_RE.fullmatch(attrs)
        if am is None:
          if re.fullmatch(r'\s+face="[A-Za-z ]*"', attrs):
            # a font tag that carries no colour: a well-nested tag without effect on the styles of the statement
            tokens, annot = frozenset(), None
          else:
            raise GrammarError(cur_line(), f"font tag without a quoted color attribute: {m.group(0)}")
        else:
          val = am.group(1) if am.group(1) is not None else am.group(2)
          rgba = norm_color(val)
          if rgba is None:
            raise GrammarError(cur_line(), f"colour value outside the grammar: {val!r}")
          tokens, annot = frozenset([color_token(rgba)]), val
    elif name == "s" and syntax == "angle" and not attrs.strip():
      # a tag the statement does not name (strike-through): well nested, without effect on the styles of the statement
      kind, tokens, annot = "other", frozenset(), None
    else:
      raise GrammarError(cur_line(), f"unknown tag {m.group(0)}")
    flush()
    key = (syntax, name)
    if closing:
      if stack[-1][0] != key:
        raise GrammarError(cur_line(), f"end tag {m.group(0)} does not close the innermost open tag")
      stack.pop()
    else:
      node = ["tag", kind, [], annot, syntax + ":" + name, [], tokens]
      stack[-1][1].append(node)
      stack.append((key, node[5]))
    pos = m.end()
  flush()
  if len(stack) != 1:
    raise GrammarError(line_no + len(raw_lines) - 1, f"tag {stack[-1][0][1]} is not closed at the end of the cue")
  return _finish(root)


def parse_srt(text: str, ws_blank: bool = False) -> List[Cue]:
  lines = split_lines(text)
  cues = []
  i = 0
  n = len(lines)

  def blank(s, ln):
    if s == "":
      return True
    if _is_ws_only(s):
      if ws_blank:
        return True
      raise GrammarError(ln, "line of only white space")
    return False

  while i < n:
    if blank(lines[i], i + 1):
      i += 1
      continue
    # counter
    if not _SRT_COUNTER_RE.fullmatch(lines[i]):
      raise GrammarError(i + 1, f"expected a cue counter, got {lines[i]!r}")
    ident = lines[i]
    i += 1
    if i >= n:
      raise GrammarError(i, "file ends after a counter")
    m = _SRT_TIMING_RE.fullmatch(lines[i])
    if m is None:
      raise GrammarError(i + 1, f"expected 'time --> time', got {lines[i]!r}")
    begin = _srt_time(*m.group(1, 2, 3, 4))
    end = _srt_time(*m.group(5, 6, 7, 8))
    if not begin < end:
      raise GrammarError(i + 1, "cue does not end after it begins")
    tline = i + 1
    bt, et = lines[i].split(" --> ")
    i += 1
    raw = []
    while i < n and not blank(lines[i], i + 1):
      if "-->" in lines[i]:
        raise GrammarError(i + 1, "'-->' inside a payload")
      raw.append(lines[i])
      i += 1
    if not raw:
      raise GrammarError(tline, "cue without text")
    tree, runs, ts, plain = parse_srt_payload(raw, tline + 1)
    cues.append(Cue(ident=ident, begin=begin, end=end, begin_text=bt, end_text=et, raw_lines=raw, lines=plain,
                    runs=runs, ts=ts, tree=tree, line_no=tline))
    if i < n and not blank(lines[i], i + 1):   # pragma: no cover (loop above stops at blank or EOF only)
      raise GrammarError(i + 1, "cues must be separated by a blank line")
  return cues


# ------------------------------------------------------------------------------------------------------
# WebVTT

_VTT_TS = r"(?:([0-9]{2,}):)?([0-5][0-9]):([0-5][0-9])\.([0-9]{3})"
_VTT_TS_RE = re.compile(_VTT_TS)
_VTT_TIMING_RE = re.compile("(" + _VTT_TS + r")[ \t]+-->[ \t]+(" + _VTT_TS + r")(?:[ \t]+(\S.*))?")
_VTT_PCT_RE = re.compile(r"([0-9]+(?:\.[0-9]+)?)%")
_VTT_INT_RE = re.compile(r"-?[0-9]+")

VTT_ENTITIES = {"amp": "&", "lt": "<", "gt": ">", "nbsp": "\u00a0", "lrm": "\u200e", "rlm": "\u200f"}
_VTT_CREF_RE = re.compile(r"&(?:(amp|lt|gt|nbsp|lrm|rlm)|#([0-9]+)|#[xX]([0-9a-fA-F]+));")
_VTT_TAGS = ("b", "i", "u", "c", "v", "lang", "ruby", "rt")


def vtt_time(text):
  m = _VTT_TS_RE.fullmatch(text)
  if m is None:
    return None
  h, mi, s, ms = m.groups()
  return Fraction(int(h or 0) * 3600 + int(mi) * 60 + int(s)) + Fraction(int(ms), 1000)


def _pct(v, ln, what):
  m = _VTT_PCT_RE.fullmatch(v)
  if m is None:
    raise GrammarError(ln, f"bad {what} percentage {v!r}")
  p = Fraction(m.group(1))
  if not 0 <= p <= 100:
    raise GrammarError(ln, f"{what} percentage out of range")
  return p


def parse_vtt_settings(text, ln=0):
  raw, geo = {}, {}
  if text is None:
    return raw, geo
  for tok in re.split(r"[ \t]+", text.strip(" \t")):
    if ":" not in tok:
      raise GrammarError(ln, f"bad cue setting {tok!r}")
    name, val = tok.split(":", 1)
    if name in raw:
      raise GrammarError(ln, f"cue setting {name} given twice")
    if val == "":
      raise GrammarError(ln, f"cue setting {name} without a value")
    if name == "vertical":
      if val not in ("rl", "lr"):
        raise GrammarError(ln, f"bad vertical value {val!r}")
      geo[name] = val
    elif name == "line":
      parts = val.split(",")
      if len(parts) > 2 or (len(parts) == 2 and parts[1] not in ("start", "center", "end")):
        raise GrammarError(ln, f"bad line value {val!r}")
      al = parts[1] if len(parts) == 2 else None
      if parts[0].endswith("%"):
        geo[name] = ("pct", _pct(parts[0], ln, "line"), al)
      elif _VTT_INT_RE.fullmatch(parts[0]):
        geo[name] = ("num", int(parts[0]), al)
      else:
        raise GrammarError(ln, f"bad line value {val!r}")
    elif name == "position":
      parts = val.split(",")
      if len(parts) > 2 or (len(parts) == 2 and parts[1] not in ("line-left", "center", "line-right")):
        raise GrammarError(ln, f"bad position value {val!r}")
      geo[name] = (_pct(parts[0], ln, "position"), parts[1] if len(parts) == 2 else None)
    elif name == "size":
      geo[name] = _pct(val, ln, "size")
    elif name == "align":
      if val not in ("start", "center", "end", "left", "right"):
        raise GrammarError(ln, f"bad align value {val!r}")
      geo[name] = val
    elif name == "region":
      if "-->" in val:
        raise GrammarError(ln, "bad region value")
      geo[name] = val
    else:
      raise GrammarError(ln, f"unknown cue setting {name!r}")
    raw[name] = val
  return raw, geo


def _decode_crefs(s, ln):
  out = []
  pos = 0
  while pos < len(s):
    ch = s[pos]
    if ch == "&":
      m = _VTT_CREF_RE.match(s, pos)
      if m is None:
        raise GrammarError(ln, "'&' that is not one of the character references of the grammar")
      if m.group(1):
        out.append(VTT_ENTITIES[m.group(1)])
      else:
        cp = int(m.group(2)) if m.group(2) else int(m.group(3), 16)
        if not (0 < cp <= 0x10FFFF) or 0xD800 <= cp <= 0xDFFF:
          raise GrammarError(ln, "numeric character reference out of range")
        out.append(chr(cp))
      pos = m.end()
    else:
      out.append(ch)
      pos += 1
  return "".join(out)


def parse_vtt_payload(raw_lines, begin=None, end=None, line_no=0):
  text = "\n".join(raw_lines)
  root = []
  stack = [(None, root)]
  pos = 0
  buf = []
  last_ts = None

  def cur_line():
    return line_no + text.count("\n", 0, pos)

  def flush():
    if buf:
      stack[-1][1].append(["text", _decode_crefs("".join(buf), cur_line())])
      buf.clear()

  while pos < len(text):
    ch = text[pos]
    if ch != "<":
      buf.append(ch)
      pos += 1
      continue
    close = text.find(">", pos)
    if close < 0:
      raise GrammarError(cur_line(), "'<' without '>'")
    inner = text[pos + 1:close]
    if "<" in inner:
      raise GrammarError(cur_line(), "'<' inside a tag")
    flush()
    if inner[:1].isdigit():
      t = vtt_time(inner)
      if t is None:
        raise GrammarError(cur_line(), f"bad time stamp tag <{inner}>")
      if (begin is not None and not t > begin) or (end is not None and not t < end) or (last_ts is not None and not t > last_ts):
        raise GrammarError(cur_line(), f"time stamp tag <{inner}> out of order or outside the cue")
      last_ts = t
      stack[-1][1].append(["ts", t])
    elif inner.startswith("/"):
      name = inner[1:]
      if stack[-1][0] != name or name not in _VTT_TAGS:
        raise GrammarError(cur_line(), f"end tag </{name}> does not close the innermost open tag")
      stack.pop()
    else:
      m = re.fullmatch(r"([A-Za-z]+)((?:\.[^ \t\n.<>&]+)*)(?:[ \t\n]+([^<>]*))?", inner)
      if m is None or m.group(1) not in _VTT_TAGS:
        raise GrammarError(cur_line(), f"unknown or malformed tag <{inner}>")
      name = m.group(1)
      classes = [c for c in m.group(2).split(".") if c]
      annot = m.group(3)
      if annot is not None:
        annot = re.sub(r"[ \t\n]+", " ", _decode_crefs(annot, cur_line()).strip(" \t\n"))
      if name in ("v", "lang"):
        if not annot:
          raise GrammarError(cur_line(), f"<{name}> needs an annotation")
      elif annot is not None:
        raise GrammarError(cur_line(), f"<{name}> does not take an annotation")
      if name == "rt" and stack[-1][0] != "ruby":
        raise GrammarError(cur_line(), "<rt> outside <ruby>")
      if name == "ruby" and any(k == "ruby" for k, _ in stack):
        raise GrammarError(cur_line(), "nested <ruby>")
      tokens = {name} | {"." + c for c in classes}
      if name in ("v", "lang"):
        tokens.add(f"{name}:{annot}")
      node = ["tag", name, classes, annot, "angle", [], frozenset(tokens)]
      stack[-1][1].append(node)
      stack.append((name, node[5]))
    pos = close + 1
  flush()
  if len(stack) != 1:
    raise GrammarError(line_no + max(0, len(raw_lines) - 1), f"<{stack[-1][0]}> is not closed at the end of the cue")
  return _finish(root)


_REGION_SETTINGS = ("id", "width", "lines", "regionanchor", "viewportanchor", "scroll")


def parse_vtt(text: str) -> VttFile:
  if text.startswith("\ufeff"):
    text = text[1:]
  lines = split_lines(text)
  if not lines:
    raise GrammarError(1, "empty file: the WEBVTT signature is missing")
  m = re.fullmatch(r"WEBVTT(?:[ \t](.*))?", lines[0])
  if m is None:
    raise GrammarError(1, "the first line is not a WEBVTT signature")
  out = VttFile(header=m.group(1) or "", styles=[], regions=[], notes=[], cues=[])
  if len(lines) == 1:
    return out
  if lines[1] != "":
    raise GrammarError(2, "the signature line must be followed by a blank line")
  i = 1
  n = len(lines)
  for k in range(1, n):
    if _is_ws_only(lines[k]):
      raise GrammarError(k + 1, "line of only white space (neither a blank line nor a payload line)")
  while i < n:
    if lines[i] == "":
      i += 1
      continue
    j = i
    while j < n and lines[j] != "":
      j += 1
    block = lines[i:j]
    first = block[0]
    ln = i + 1
    if "-->" in first:
      out.cues.append(_vtt_cue(None, block, ln))
    elif first == "NOTE" or first.startswith("NOTE ") or first.startswith("NOTE\t"):
      if any("-->" in b for b in block):
        raise GrammarError(ln, "'-->' inside a comment block")
      out.notes.append("\n".join([first[5:]] + block[1:]) if len(first) > 4 else "\n".join(block[1:]))
    elif first.rstrip(" \t") == "STYLE":
      if out.cues:
        raise GrammarError(ln, "STYLE block after the first cue")
      if any("-->" in b for b in block):
        raise GrammarError(ln, "'-->' inside a STYLE block")
      out.styles.append("\n".join(block[1:]))
    elif first.rstrip(" \t") == "REGION":
      if out.cues:
        raise GrammarError(ln, "REGION block after the first cue")
      reg = {}
      for k, b in enumerate(block[1:]):
        for tok in b.split():
          if ":" not in tok or tok.split(":", 1)[0] not in _REGION_SETTINGS or "-->" in tok:
            raise GrammarError(ln + 1 + k, f"bad region setting {tok!r}")
          reg[tok.split(":", 1)[0]] = tok.split(":", 1)[1]
      out.regions.append(reg)
    else:
      if len(block) < 2 or "-->" not in block[1]:
        raise GrammarError(ln, "a cue identifier must be followed by the cue timings")
      out.cues.append(_vtt_cue(first, block[1:], ln + 1))
    i = j
  return out


def _vtt_cue(ident, block, ln):
  m = _VTT_TIMING_RE.fullmatch(block[0])
  if m is None:
    raise GrammarError(ln, f"bad cue timings {block[0]!r}")
  bt, et = m.group(1), m.group(6)
  begin, end = vtt_time(bt), vtt_time(et)
  if not begin < end:
    raise GrammarError(ln, "cue does not end after it begins")
  raw_set, geo = parse_vtt_settings(m.group(11), ln)
  raw = block[1:]
  for k, b in enumerate(raw):
    if "-->" in b:
      raise GrammarError(ln + 1 + k, "'-->' inside a payload")
  if raw:
    tree, runs, ts, plain = parse_vtt_payload(raw, begin, end, ln + 1)
  else:
    tree, runs, ts, plain = [], [], [], []
  return Cue(ident=ident, begin=begin, end=end, begin_text=bt, end_text=et, settings=raw_set, geometry=geo,
             raw_lines=raw, lines=plain, runs=runs, ts=ts, tree=tree, line_no=ln)

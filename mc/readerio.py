"""Shared helpers of the SRT / WebVTT reader checks (C10, C11).

* `read_file_like_tt(reader, data)` hands `data` (bytes) to a reader exactly the way `tt convert` does
  (ttconv/tt.py: `open(inputfile, "r", encoding="utf-8")`, i.e. text mode, UTF-8, universal newlines) by writing a
  real file first.  CR LF input is therefore judged on the documented path, not on a StringIO that keeps the CR.
* `LogTap` collects the records the library logs while a reader runs (the console never sees them).
* `INTERNAL` is the set of exception types the properties treat as internal errors of a reader.
"""
from __future__ import annotations

import logging
import os

_DIR = None
_PID = None


def _path():
  global _DIR, _PID
  pid = os.getpid()
  if _PID != pid:
    base = "/dev/shm" if os.path.isdir("/dev/shm") and os.access("/dev/shm", os.W_OK) else "/tmp"
    _DIR = os.path.join(base, "verif-readerio")
    os.makedirs(_DIR, exist_ok=True)
    _PID = pid
  return os.path.join(_DIR, f"in-{pid}.txt")


def read_file_like_tt(reader, data: bytes):
  """reader(file) on a file opened the way tt.py opens SRT and VTT inputs"""
  p = _path()
  with open(p, "wb") as f:
    f.write(data)
  try:
    with open(p, "r", encoding="utf-8") as f:
      return reader(f, None, lambda _: None)
  finally:
    try:
      os.unlink(p)
    except OSError:
      pass


class LogTap(logging.Handler):
  """with LogTap() as tap: ...; tap.records -> [(levelno, message)]"""

  def __init__(self, name="ttconv"):
    super().__init__(level=logging.DEBUG)
    self.records = []
    self._logger = logging.getLogger(name)

  def emit(self, record):
    try:
      self.records.append((record.levelno, record.getMessage()))
    except Exception:  # pylint: disable=broad-except
      self.records.append((record.levelno, str(record.msg)))

  def __enter__(self):
    self._logger.addHandler(self)
    return self

  def __exit__(self, *a):
    self._logger.removeHandler(self)
    return False

  def worst(self):
    return max((lv for lv, _ in self.records), default=0)


# exception types that can only come from a programming slip inside a reader, never from a documented rejection
INTERNAL = (AttributeError, TypeError, IndexError, KeyError, UnboundLocalError, NameError, AssertionError, RuntimeError,
            ZeroDivisionError, RecursionError)

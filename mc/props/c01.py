"""C01 — a snapshot at time t shows exactly the content TTML makes active at t (DESIGN.md section 3, C01).

Bounded-exhaustive: every document of each family x every critical time, midpoint and outside time;
oracle: abstract(ISD.from_model(build(spec), t)) == R_isd(spec, t), region by region.
"""
from __future__ import annotations

import copy
from fractions import Fraction as F

from mc import env  # noqa
from mc.kernel import Family
from mc import docgen
from mc.docgen import Product, NONE, AUTO
from mc.spec import build, node, text, doc_spec, walk
from mc.ref_isd import r_isd, abstract_isd, probe_times

from ttconv.isd import ISD

ID = "C01"
LEVEL = "exploration"
RULE = ("cases are (document spec, probe time) pairs; documents enumerated completely per family by mixed-radix index, "
        "probe times = closure of offset sums + midpoints + outside; a document is non-trivial when its reference "
        "snapshots over the probe times take >= 2 distinct values and one is non-empty; distinct by document key")
BOUNDS = {
  "quick": "F-time: chain region?/body/div/p/span, begin in {-,1,3/2} x end in {-,0,1,2,7/2} on the seed-selected pair of "
           "levels and {-,1}x{-,2} on the others, with and without region; F-tree: all untimed trees <= 6 nodes; "
           "F-region: all region assignments {-,r1,r2} on all trees <= 5 nodes with 0/2 declared regions (timed or not); "
           "F-display: display {-,auto,none} on 5 levels x initial x one animated level; F-ruby; F-cross",
  "thorough": "F-time: all 10 level pairs; F-tree <= 7 nodes; F-region <= 6 nodes; the rest as quick",
}
ASSUMPTIONS = [
  "between two neighbouring critical times (sums of sub-multisets of the offsets of a chain) neither the reference nor "
  "the implementation can change: the implementation only compares t with sums of these offsets (structural assumption)",
  "containers that end up without leaves and regions without content are not compared (C13 owns them)",
  "every probe is taken twice: ISD.from_model(doc, t) and ISD.from_model(doc, t, ISD.significant_times(doc)); both must hold the reference's leaves",
]


def _leafsets(spec, times):
  return [r_isd(spec, t) for t in times]


def check_doc(case, acc):
  spec = case["spec"]
  times = case.get("times") or probe_times(spec)
  try:
    doc = build(spec)
  except Exception:  # pylint: disable=broad-except
    acc.case("invalid-spec")      # only reachable from the shrinker: not a document of the model
    return
  refs = []
  nonempty = False
  sig = ISD.significant_times(doc)
  for t in times:
    want = r_isd(spec, t)
    refs.append(want)
    isd = ISD.from_model(doc, t)
    got = abstract_isd(isd)
    acc.count("probes")
    # the snapshot taken with the precomputed significant times must hold the same leaves (it may omit regions without any)
    got_accel = abstract_isd(ISD.from_model(doc, t, sig))
    for rid in dict.fromkeys(list(want.keys()) + list(got_accel.keys())):
      w, g = want.get(rid, []), got_accel.get(rid, [])
      if w != g:
        clause, disc = _classify(w, g)
        acc.violation(clause.replace("C01.", "C01.accel."), disc, {"spec": spec, "times": [t]}, observed={rid: g}, expected={rid: w},
                      note=f"region {rid} at t={t}, snapshot taken with the SignificantTimes object")
        break
    # regions the reference shows content in must be there with exactly those leaves; others must be leafless
    keys = list(dict.fromkeys(list(want.keys()) + list(got.keys())))
    for rid in keys:
      w = want.get(rid, [])
      g = got.get(rid, [])
      if w:
        nonempty = True
      if w != g:
        clause, disc = _classify(w, g)
        acc.violation(clause, disc, {"spec": spec, "times": [t]}, observed={rid: g}, expected={rid: w},
                      note=f"region {rid} at t={t}")
        break
    # region order = declaration order
    order = [r for r in got.keys()]
    decl = [r["id"] for r in spec.get("regions") or []] or ["default_region"]
    if order != [r for r in decl if r in got]:
      acc.violation("C01.region-order", "order", {"spec": spec, "times": [t]}, observed=order, expected=decl)
  distinct = len({repr(sorted(r.items())) for r in refs})
  nt = distinct >= 2 and nonempty
  acc.case("changing" if nt else ("static-nonempty" if nonempty else "always-empty"), nontrivial=nt, key=case.get("key") or repr(spec))


def _classify(want, got):
  ws = [(k, t) for k, t, _c in want]
  gs = [(k, t) for k, t, _c in got]
  if sorted(map(repr, ws)) == sorted(map(repr, gs)):
    if ws == gs:
      return "C01.chain", "ancestors"
    return "C01.order", "order"
  missing = [x for x in ws if x not in gs]
  extra = [x for x in gs if x not in ws]
  if len(gs) != len(set(map(repr, gs))) and not extra:
    return "C01.duplicate", "dup"
  if missing and not extra:
    return "C01.missing", "leaf-missing"
  if extra and not missing:
    return "C01.extra", "leaf-extra"
  return "C01.content", "mixed"


def shrink_doc(case):
  """one-step reductions: drop a time, drop a child, drop an attribute"""
  spec = case["spec"]
  # drop attributes / children
  paths = []
  if spec.get("body") is not None:
    for n, anc in walk(spec["body"]):
      paths.append(n)
  for idx, n in enumerate(paths):
    for key in ("b", "e", "r", "an", "st"):
      if n.get(key):
        s2 = copy.deepcopy(spec)
        m = [x for x, _ in walk(s2["body"])][idx]
        del m[key]
        yield {"spec": s2, "times": case.get("times")}
    for ci in range(len(n.get("c") or [])):
      s2 = copy.deepcopy(spec)
      m = [x for x, _ in walk(s2["body"])][idx]
      del m["c"][ci]
      yield {"spec": s2, "times": case.get("times")}
  for ri, r in enumerate(spec.get("regions") or []):
    for key in ("b", "e", "an", "st"):
      if r.get(key):
        s2 = copy.deepcopy(spec)
        del s2["regions"][ri][key]
        yield {"spec": s2, "times": case.get("times")}
  if spec.get("init"):
    s2 = copy.deepcopy(spec)
    s2["init"] = []
    yield {"spec": s2, "times": case.get("times")}


def _fam(name, n, decode_spec, note=""):
  def decode(i):
    return {"spec": decode_spec(i), "key": f"{name}#{i}"}
  return Family(name, n, decode, check_doc, shrink=shrink_doc, timeout=30, note=note)


# ---------------------------------------------------------------------------------------------------
# families


def fam_time(pair, with_region):
  n, dec = docgen.f_time(pair, with_region)
  return _fam(f"F-time[{'+'.join(pair)}{',region' if with_region else ''}]", n, dec,
              "timing chain, full domain on the named pair of levels")


def fam_time_two_regions(pair):
  """the timing chain in a document that declares a second region with content of its own: snapshots taken with the
  SignificantTimes object then go through the per-region clones of the document"""
  full = [(b, e) for b in docgen.BEGINS_FULL for e in docgen.ENDS_FULL]
  prod = Product([full if lv in pair else ([(None, None), (F(1), F(2))] if lv == "region" else [(None, None)]) for lv in docgen.LEVELS])
  n = prod.n

  def dec(i):
    spec = docgen.chain_doc(dict(zip(docgen.LEVELS, prod.decode(i))), True)
    spec["regions"].append({"id": "r2"})
    spec["body"]["c"][0]["c"].append(node("p", [node("span", [text("z")], id="s9")], id="p9", r="r2", b=F(1, 2), e=F(5, 2)))
    return spec
  return _fam(f"F-time-2regions[{'+'.join(pair)}]", n, dec, "timing chain, full domain on the named pair of levels, two declared regions")


def fam_tree(max_nodes):
  trees = [t for t in docgen.all_trees(max_nodes) if docgen.has_leaf(t)]
  return _fam(f"F-tree[<={max_nodes}]", len(trees), lambda i: doc_spec(copy.deepcopy(trees[i])), "all untimed trees with a leaf")


REGION_SETS = {
  "none": [],
  "two": [{"id": "r1"}, {"id": "r2"}],
  "two-timed": [{"id": "r1", "b": F(1), "e": F(3)}, {"id": "r2", "e": F(2)}],
}


def fam_region(max_nodes, regset):
  trees = [t for t in docgen.all_trees(max_nodes) if docgen.has_leaf(t)]
  # per tree: 3^(#elements) assignments; build an index table (tree, count)
  table = []
  total = 0
  for t in trees:
    ne = len(docgen.elements(t))
    cnt = 3 ** ne if regset != "none" else 1
    table.append((total, cnt, t, ne))
    total += cnt
  import bisect
  starts = [x[0] for x in table]

  def dec(i):
    j = bisect.bisect_right(starts, i) - 1
    st, cnt, t, ne = table[j]
    a = i - st
    tt = copy.deepcopy(t)
    els = docgen.elements(tt)
    for e in els:
      a, r = divmod(a, 3)
      if r and regset != "none":
        e["r"] = f"r{r}"
    # timing on the deepest p so that region timing and content timing interact
    return doc_spec(tt, copy.deepcopy(REGION_SETS[regset]))
  return _fam(f"F-region[<={max_nodes},{regset}]", total, dec, "every assignment of {-,r1,r2} to every element")


def fam_display():
  levels = ["region", "body", "div", "p", "span"]
  prod = Product([[None, "auto", "none"]] * 5 + [[None, "auto", "none"]] + [[None] + [(lv, v) for lv in levels for v in ("none", "auto")]])

  def dec(i):
    ch = prod.decode(i)
    spec = docgen.chain_doc({"p": (F(1), F(5))}, True)
    nodes = {"region": spec["regions"][0], "body": spec["body"], "div": spec["body"]["c"][0], "p": spec["body"]["c"][0]["c"][0],
             "span": spec["body"]["c"][0]["c"][0]["c"][0]}
    for lv, v in zip(levels, ch[:5]):
      if v is not None:
        nodes[lv].setdefault("st", {})["Display"] = ["E", "DisplayType", v]
    if ch[5] is not None:
      spec["init"] = [["Display", ["E", "DisplayType", ch[5]]]]
    if ch[6] is not None:
      lv, v = ch[6]
      nodes[lv]["an"] = [["Display", F(1), F(2), ["E", "DisplayType", v]]]
    return spec
  return _fam("F-display", prod.n, dec, "display on every level x initial x one animated level")


def fam_display_anim2():
  """two animation steps on one element, overlapping or not, element itself offset"""
  steps = [(None, F(2)), (F(1), F(3)), (F(2), None), (F(1), F(2)), (None, F(0))]
  prod = Product([["p", "span", "div", "region"], [None, F(1)], steps, steps, ["none", "auto"], ["none", "auto"], [None, "none"]])

  def dec(i):
    lv, eb, s1, s2, v1, v2, spec_v = prod.decode(i)
    spec = docgen.chain_doc({lv: (eb, F(6))}, True)
    nodes = {"region": spec["regions"][0], "div": spec["body"]["c"][0], "p": spec["body"]["c"][0]["c"][0],
             "span": spec["body"]["c"][0]["c"][0]["c"][0]}
    nodes[lv]["an"] = [["Display", s1[0], s1[1], ["E", "DisplayType", v1]], ["Display", s2[0], s2[1], ["E", "DisplayType", v2]]]
    if spec_v:
      nodes[lv].setdefault("st", {})["Display"] = ["E", "DisplayType", spec_v]
    return spec
  return _fam("F-display-anim2", prod.n, dec, "two display steps on an offset element")


def fam_display_on():
  """an element (or region) that is specified display=none and switched on by a set step, with a descendant that has its own
  timing or its own animation step: the descendant's times matter only while the step is in effect"""
  levels = ["region", "body", "div", "p", "span"]
  pairs = [(a, d) for i, a in enumerate(levels[:-1]) for d in levels[i + 1:]]
  steps = [(F(1), F(4)), (None, F(3)), (F(2), None), (None, None)]
  dmodes = [("t", F(2), F(3)), ("t", None, F(2)), ("t", F(3), None), ("t", F(5, 2), F(7, 2)), ("a", F(2), F(3)), ("a", None, F(2))]
  prod = Product([pairs, steps, dmodes, ["none", None], [None, "none"]])

  def dec(i):
    (lv, dl), st, dm, spec_v, init_v = prod.decode(i)
    tim = {dl: (dm[1], dm[2])} if dm[0] == "t" else {}
    spec = docgen.chain_doc(tim, True)
    nodes = {"region": spec["regions"][0], "body": spec["body"], "div": spec["body"]["c"][0], "p": spec["body"]["c"][0]["c"][0],
             "span": spec["body"]["c"][0]["c"][0]["c"][0]}
    nodes[lv]["an"] = [["Display", st[0], st[1], ["E", "DisplayType", "auto"]]]
    if spec_v:
      nodes[lv].setdefault("st", {})["Display"] = ["E", "DisplayType", spec_v]
    if init_v:
      spec["init"] = [["Display", ["E", "DisplayType", init_v]]]
    if dm[0] == "a":
      nodes[dl].setdefault("an", []).append(["Display", dm[1], dm[2], ["E", "DisplayType", "none"]])
    return spec
  return _fam("F-display-on", prod.n, dec, "display=none (specified or initial) switched on by a set step x a descendant with its own timing / display step")


def fam_hull():
  """content whose activity is not covered by the hull of the span intervals (a br directly below a p, an untimed p next to
  timed spans) in a region that does not always paint a background: where the content-interval short cut of the snapshot
  taken with the SignificantTimes object decides whether the region is visited at all"""
  region_styles = [
    {}, {"ShowBackground": ["E", "ShowBackgroundType", "whenActive"]}, {"BackgroundColor": ["C", 0, 0, 0, 0]},
    {"BackgroundColor": ["C", 255, 0, 0, 255]}, {"Opacity": 0.0}, {"Visibility": ["E", "VisibilityType", "hidden"]},
  ]
  region_tim = [(None, None), (F(1), F(9))]
  p_tim = [(None, None), (None, F(10)), (F(1), F(9))]

  def sp(i, b, e, kids=None):
    return node("span", kids or [text("ab"[i])], id=f"s{i}", b=b, e=e)
  patterns = [
    lambda: [sp(0, F(2), F(4)), node("br", id="br0"), sp(1, F(6), F(8))],
    lambda: [node("br", id="br0"), sp(0, F(2), F(4))],
    lambda: [sp(0, F(2), F(4)), node("br", id="br0")],
    lambda: [sp(0, F(2), F(4), [text("a"), node("br", id="br0")])],
    lambda: [node("br", id="br0")],
    lambda: [sp(0, None, None), sp(1, F(2), F(4))],
    lambda: [sp(0, F(2), F(4)), sp(1, F(3), None)],
    lambda: [sp(0, F(2), None), sp(1, F(3), F(4))],
  ]
  prod = Product([region_styles, region_tim, p_tim, list(range(len(patterns))), [0, 1]])

  def dec(i):
    rst, rt, pt, pi, second = prod.decode(i)
    p = node("p", patterns[pi](), id="p", b=pt[0], e=pt[1], r="r1")
    kids = [p]
    if second:
      kids.append(node("p", [node("span", [text("z")], id="s9", b=F(5), e=F(7))], id="p2", r="r1"))
    reg = {"id": "r1"}
    if rst:
      reg["st"] = copy.deepcopy(rst)
    if rt[0] is not None:
      reg["b"], reg["e"] = rt
    return doc_spec(node("body", [node("div", kids, id="d")], id="b"), [reg])
  return _fam("F-hull", prod.n, dec, "br / untimed / open-ended content outside the hull of the span intervals x region background variants")


RUBY_PATTERNS = [["rb", "rt"], ["rb", "rp", "rt", "rp"], ["rbc", "rtc"], ["rbc", "rtc", "rtc"]]


def ruby_node(pattern, tim):
  """tim: {kind-index: (b, e)}"""
  kids = []
  cnt = [0]

  def leafspan(s):
    cnt[0] += 1
    return node("span", [text(s)], id=f"x{cnt[0]}")
  for i, k in enumerate(pattern):
    b, e = tim.get(i, (None, None))
    if k in ("rb", "rt", "rp"):
      kids.append(node(k, [leafspan("abcdefg"[i])], id=f"{k}{i}", b=b, e=e))
    elif k == "rbc":
      kids.append(node("rbc", [node("rb", [leafspan("B")], id=f"rb{i}")], id=f"rbc{i}", b=b, e=e))
    else:
      kids.append(node("rtc", [node("rt", [leafspan("T" + str(i))], id=f"rt{i}")], id=f"rtc{i}", b=b, e=e))
  return node("ruby", kids, id="ruby")


def fam_ruby(include_partial):
  tims = [(None, None), (F(1), F(3)), (None, F(2))]
  cases = []
  for pat in RUBY_PATTERNS:
    prod = Product([tims] * len(pat))
    for i in range(prod.n):
      ch = prod.decode(i)
      if not include_partial and len(set(ch)) > 1:
        continue
      cases.append((pat, ch))

  def dec(i):
    pat, ch = cases[i]
    rb = ruby_node(pat, dict(enumerate(ch)))
    p = node("p", [node("span", [text("x")], id="s0"), rb], id="p")
    return doc_spec(node("body", [node("div", [p], id="d")], id="b"), [])
  return _fam("F-ruby" + ("-partial" if include_partial else ""), len(cases), dec,
              "the four ruby patterns, children timed " + ("independently" if include_partial else "together"))


def fam_ruby_presence():
  """each child of the ruby container independently: timing x {as is, display=none, no content}; for the container
  patterns the same on the inner rb / rt: every way in which only a part of a ruby container is presentable"""
  tims = [(None, None), (F(1), F(3)), (None, F(2))]
  modes = ["asis", "none", "empty"]
  opts = [(t, m) for t in tims for m in modes]
  cases = []
  for pat in RUBY_PATTERNS:
    prod = Product([opts] * len(pat))
    for i in range(prod.n):
      cases.append((pat, prod.decode(i), False, 0))
  for pat in RUBY_PATTERNS[2:]:                      # containers: the options applied to the inner rb / rt instead
    prod = Product([opts] * len(pat))
    for i in range(prod.n):
      cases.append((pat, prod.decode(i), True, 0))
  # documents with two declared regions (the significant times are then computed on one clone of the document per region):
  # 1 = the paragraph with the ruby is in no region, 2 = it is assigned to the first region
  for pat, inner in ((RUBY_PATTERNS[0], False), (RUBY_PATTERNS[2], False), (RUBY_PATTERNS[2], True)):
    prod = Product([opts] * len(pat))
    for i in range(prod.n):
      for regmode in (1, 2):
        cases.append((pat, prod.decode(i), inner, regmode))

  def dec(i):
    pat, ch, inner, regmode = cases[i]
    rb = ruby_node(pat, {} if inner else {j: t for j, (t, _m) in enumerate(ch)})
    for j, (t, m) in enumerate(ch):
      tgt = rb["c"][j]
      if inner:
        tgt = tgt["c"][0]
        tgt["b"], tgt["e"] = t
      if m == "none":
        tgt.setdefault("st", {})["Display"] = ["E", "DisplayType", "none"]
      elif m == "empty":
        tgt["c"] = []
    p = node("p", [node("span", [text("x")], id="s0"), rb], id="p")
    if regmode:
      if regmode == 2:
        p["r"] = "r1"
      p2 = node("p", [node("span", [text("y")], id="s8")], id="p2", r="r2")
      return doc_spec(node("body", [node("div", [p, p2], id="d")], id="b"), [{"id": "r1"}, {"id": "r2"}])
    return doc_spec(node("body", [node("div", [p], id="d")], id="b"), [])
  return _fam("F-ruby-presence", len(cases), dec,
              "the four ruby patterns, every child independently timed / display=none / without content (also on the rb and rt inside rbc and rtc)")


def fam_cross():
  levels = ["region", "body", "div", "p", "span"]
  prod = Product([[(None, None), (F(1), F(3))]] * 5 + [[None, "r2"]] * 3 + [[None] + levels] + [[None, "p", "region"]] + [[0, 2]])

  def dec(i):
    ch = prod.decode(i)
    tim = dict(zip(levels, ch[:5]))
    spec = docgen.chain_doc(tim, True, region_on="body")
    spec["regions"].append({"id": "r2", "b": F(1, 2)})
    d = spec["body"]["c"][0]
    p = d["c"][0]
    s = p["c"][0]
    # second paragraph so that the tree branches
    p2 = node("p", [node("span", [text("b")], id="s2"), {"k": "br", "id": "br1"}], id="p2")
    d["c"].append(p2)
    for nd, r in zip((d, p, p2), ch[5:8]):
      if r:
        nd["r"] = r
    nodes = {"region": spec["regions"][0], "body": spec["body"], "div": d, "p": p, "span": s}
    if ch[8]:
      nodes[ch[8]].setdefault("st", {})["Display"] = NONE
    if ch[9]:
      nodes[ch[9]]["an"] = [["Display", F(1, 2), F(2), NONE]]
    if ch[10] == 2:
      pass
    else:
      spec["regions"] = spec["regions"]
    return spec
  return _fam("F-cross", prod.n, dec, "product of 2-valued features on a branching 7-node tree")


PAIRS = [(a, b) for i, a in enumerate(docgen.LEVELS) for b in docgen.LEVELS[i + 1:]]


def plan(tier, seed):
  fams = []
  if tier == "quick":
    for j in range(3):
      fams.append(fam_time(PAIRS[(3 * seed + j) % len(PAIRS)], True))
    nr = [p for p in PAIRS if "region" not in p]
    for j in range(2):
      fams.append(fam_time(nr[(2 * seed + j) % 6], False))
    nr2 = [p for p in PAIRS if "region" not in p]
    fams.append(fam_time_two_regions(nr2[seed % len(nr2)]))
    fams.append(fam_tree(8))
    fams.append(fam_region(6, "two"))
    fams.append(fam_region(6, "two-timed"))
    fams.append(fam_region(7, "none"))
  else:
    for pr in PAIRS:
      fams.append(fam_time(pr, True))
    for pr in [p for p in PAIRS if "region" not in p]:
      fams.append(fam_time(pr, False))
    for pr in [p for p in PAIRS if "region" not in p]:
      fams.append(fam_time_two_regions(pr))
    fams.append(fam_tree(7))
    fams.append(fam_region(6, "two"))
    fams.append(fam_region(5, "two-timed"))
    fams.append(fam_region(6, "none"))
  fams.append(fam_display())
  fams.append(fam_display_anim2())
  fams.append(fam_display_on())
  fams.append(fam_hull())
  fams.append(fam_ruby(False))
  fams.append(fam_ruby(True))
  fams.append(fam_ruby_presence())
  fams.append(fam_cross())
  return fams

"""C06 — SRT/WebVTT cues carry exactly the visible text over exactly its intervals (DESIGN.md 3, C06/C07).

For every document x writer configuration the real writer's output is parsed by the independent strict parser and
compared, as a function of time, with the reference timeline computed from R_isd (never from the implementation):
at every admissible probe time the lines of the cues covering it equal the expected visible lines.
"""
from __future__ import annotations

from fractions import Fraction as F

from mc import env  # noqa
from mc.kernel import Family, exc_disc
from mc import writers_common as wc
from mc.spec import build
from mc.ref_isd import critical_times
from mc import strictparse

import re
from mc.spec import walk as _walk
_SRT_MARKUP = re.compile(r"</?[A-Za-z]|\{/?[A-Za-z]")

ID = "C06"
LEVEL = "exploration"
RULE = ("cases are (document spec, writer configuration) pairs from complete families; non-trivial when the reference "
        "timeline shows non-blank text in at least one interval; distinct by family index")
BOUNDS = {
  "quick": "F-struct: 5 region layouts x 7 div layouts x 4 br patterns x 4 timings; F-style: 11^3 nested span styles x 3 "
           "paragraph styles; F-text: 16 markup-significant tokens x space x repetition; F-time: begin/end over {0, 1/2 ms, 1 ms, "
           "3/2 ms, 1, 1+1/3 ms, 2, 2.0004, 2.0012, unbounded} for one and two paragraphs; F-ruby; each x SRT {text_formatting} and VTT "
           "{line_position, text_align, cue_id}^3",
  "thorough": "F-style with every style of the menu on the paragraph as well (11^4 documents); the rest as quick (complete products)",
}
ASSUMPTIONS = [
  "the reference timeline comes from R_isd (mc/ref_isd.py); lines are compared after white-space normalisation",
  "a time that is not a whole millisecond may round either way at an exact half; probes closer than 1 ms to such a "
  "boundary are not evaluated; an interval whose rounded begin equals its rounded end may be absent",
  "ruby: base text must be present; annotation (rt/rp) text may be present or absent",
]


def admissible_probes(K):
  """times at which output and reference can be compared without depending on sub-millisecond rounding"""
  P = []
  allms = all((k * 1000).denominator == 1 for k in K)
  for k in K:
    if (k * 1000).denominator == 1 and all(abs(k - o) >= F(1, 1000) or o == k for o in K):
      P.append(k)
  for a, b in zip(K, K[1:]):
    if b - a > F(2, 1000):
      P.append((a + b) / 2)
  if K:
    P.append(K[-1] + 1)
    P.append(K[-1] + 9)
    P.append(K[-1] + 11)
    if K[0] > F(1, 1000):
      P.append(K[0] / 2)
  return sorted(set(P)), allms


def check(case, acc):
  spec, cfg = case["spec"], tuple(case["cfg"])
  cc = {"spec": spec, "cfg": list(cfg)}
  try:
    doc = build(spec)
  except Exception:  # pylint: disable=broad-except
    acc.case("invalid-spec")
    return
  K = critical_times(spec)
  idx = wc.kind_index(spec)
  has_ruby = any(k == "ruby" for k in idx.values())
  try:
    out = wc.run_writer(doc, cfg)
  except Exception as e:  # pylint: disable=broad-except
    acc.violation("C06.writer-raises", f"{cfg[0]}:{exc_disc(e)}", cc, observed=repr(e)[:200], note="no cue list was produced")
    acc.case("writer-raises")
    return
  try:
    cues, _classes = wc.parse_output(out, cfg)
  except strictparse.GrammarError as e:
    # C07 owns the grammar.  Here it matters that text which cannot be attributed to a cue is lost for the viewer: reported
    # unless the document's own text looks like markup (SubRip cannot represent that, see below)
    acc.case("ungrammatical")
    acc.count("ungrammatical-output")
    if not any(_SRT_MARKUP.search(n.get("t", "")) or "-->" in n.get("t", "") for n, _ in _walk(spec["body"]) if n["k"] == "text"):
      acc.violation("C06.text", f"{cfg[0]}:unparseable-output", cc, observed=str(e)[:200],
                    expected="output in which every line of text belongs to a cue", note="the output cannot be split into cues")
    return
  # the payload with tags removed is a function of the document: it must not depend on the text_formatting option
  if cfg == ("srt", False):
    try:
      other, _ = wc.parse_output(wc.run_writer(build(spec), ("srt", True)), ("srt", True))
      a = [(c.begin, c.end, [wc.norm_ws(ln) for ln in c.lines]) for c in cues]
      b = [(c.begin, c.end, [wc.norm_ws(ln) for ln in c.lines]) for c in other]
      if a != b:
        acc.violation("C06.text", "srt:payload-depends-on-text_formatting", cc, observed=str(a)[:300], expected=str(b)[:300],
                      note="cue list with text_formatting=False differs from the tag-free payloads written with text_formatting=True")
    except Exception:  # pylint: disable=broad-except
      pass      # failures of the formatted rendition are reported by its own case
  probes, _allms = admissible_probes(K)
  nonblank = False
  if cfg[0] == "srt" and any(_SRT_MARKUP.search(n.get("t", "")) for n, _ in _walk(spec["body"]) if n["k"] == "text"):
    # SubRip has no escape mechanism: the payload of such text is not compared, but the cue itself must be there
    for t in probes:
      if t > K[-1]:
        continue
      if wc.flat_lines(wc.expected_at(spec, t, idx)) and not wc.cues_at(cues, t):
        acc.violation("C06.cue-present", "srt:markup-like-text", dict(cc, t=t), observed=[str((c.begin, c.end)) for c in cues][:6],
                      expected="a cue covering t", note="non-blank text that looks like SubRip markup is visible at t but no cue covers t")
        break
    acc.case("srt:text-looks-like-markup")
    return
  # where does the last visible interval end in the reference?
  for t in probes:
    exp = wc.flat_lines(wc.expected_at(spec, t, idx))
    alt = wc.flat_lines(wc.expected_at(spec, t, idx, with_ruby_text=False)) if has_ruby else exp
    unbounded_tail = t > K[-1]
    got_cues = wc.cues_at(cues, t)
    got = [wc.norm_ws(ln) for c in got_cues for ln in c.lines]
    got = [g for g in got if g]
    if exp:
      nonblank = True
    if unbounded_tail:
      # after the last critical time the reference is constant (unbounded): the last cue ends at begin + 10 s
      last_visible = wc.flat_lines(wc.expected_at(spec, K[-1], idx))
      if last_visible:
        begin = max((c.begin for c in cues), default=None)
        lastc = [c for c in cues if c.begin == begin]
        if not lastc:
          acc.violation("C06.text", f"{cfg[0]}:unbounded-interval-missing", dict(cc, t=t), observed=[], expected=last_visible)
          break
        if any(c.end != c.begin + 10 for c in lastc):
          acc.violation("C06.default-end", f"{cfg[0]}", cc, observed=[str(c.end - c.begin) for c in lastc], expected="begin + 10 s")
          break
        want = exp if t < begin + 10 else []
        alt_want = alt if t < begin + 10 else []
      else:
        want, alt_want = [], []
    else:
      want, alt_want = exp, alt
    if got != want and got != alt_want:
      acc.violation("C06.text", f"{cfg[0]}:{_text_disc(want, got, spec, cfg)}", dict(cc, t=t), observed=got, expected=want,
                    note=f"lines of the cues covering t={t} differ from the visible text")
      break
  # every interval between neighbouring critical times that shows text and whose ends round (unambiguously) to different
  # milliseconds is covered by a cue carrying that text, however short it is
  for a, b in zip(K, K[1:]):
    ra, rb = wc.ms_round_candidates(a), wc.ms_round_candidates(b)
    if len(ra) != 1 or len(rb) != 1:
      continue
    ra, rb = next(iter(ra)), next(iter(rb))
    if not ra < rb:
      continue
    want = wc.flat_lines(wc.expected_at(spec, (a + b) / 2, idx))
    if not want or has_ruby:
      continue
    cover = [c for c in cues if c.begin <= ra and c.end >= rb]
    got = [g for g in (wc.norm_ws(ln) for c in cover for ln in c.lines) if g]
    if got != want:
      acc.violation("C06.cue-present", f"{cfg[0]}:{'sub-ms' if b - a < F(1, 1000) else 'interval'}", dict(cc, interval=[a, b]), observed=got, expected=want,
                    note=f"no cue covers [{ra}, {rb}) with the text visible during [{a}, {b})")
      break
  # cue boundaries are rounded critical times (or +10 s)
  cand = set()
  for k in K:
    cand |= wc.ms_round_candidates(k)
  for c in cues:
    if c.begin not in cand:
      acc.violation("C06.boundary", f"{cfg[0]}:begin", cc, observed=str(c.begin), expected="a significant time rounded to the millisecond")
      break
    if c.end not in cand and c.end != c.begin + 10:
      acc.violation("C06.boundary", f"{cfg[0]}:end", cc, observed=str(c.end), expected="a significant time rounded to the millisecond")
      break
  acc.case(f"{cfg[0]}:{'text' if nonblank else 'blank'}", nontrivial=nonblank, key=case.get("key") or repr(cc))


def _text_disc(want, got, spec, cfg):
  """feature vector: what was lost, from which structure"""
  w, g = " ".join(want), " ".join(got)
  feats = []
  if len(got) < len(want) or len(g) < len(w):
    feats.append("lost")
  elif len(g) > len(w):
    feats.append("extra")
  elif sorted(w.replace(" ", "")) == sorted(g.replace(" ", "")):
    feats.append("line-structure" if w.replace(" ", "") == g.replace(" ", "") else "order")
  else:
    feats.append("changed")
  idx = wc.kind_index(spec)
  kinds = list(idx.values())
  if "ruby" in kinds:
    feats.append("ruby")
  # nested div?
  def nested(n, depth=0):
    if n["k"] == "div" and depth > 0:
      return True
    return any(nested(c, depth + (1 if n["k"] == "div" else 0)) for c in n.get("c") or [])
  if spec.get("body") and nested(spec["body"]):
    feats.append("nested-div")
  ndiv = sum(1 for n in (spec["body"].get("c") or []) if n["k"] == "div") if spec.get("body") else 0
  if ndiv > 1:
    feats.append("multi-div")
  if len(spec.get("regions") or []) > 1:
    feats.append("multi-region")
  if cfg[0] == "vtt" and cfg[1]:
    feats.append("line_position")
  return ",".join(feats)


def _mkfam(name, n, mkspec, configs, note):
  nc = len(configs)

  def dec(i):
    di, ci = divmod(i, nc)
    return {"spec": mkspec(di), "cfg": list(configs[ci]), "key": f"{name}#{i}"}
  return Family(name, n * nc, dec, check, timeout=30, note=note)


def families(check_fn, configs=None, thorough=False):
  """the document x configuration families (shared with C07 through `check_fn`)"""
  cfgs = configs or wc.ALL_CONFIGS
  fams = []
  ps = wc.fam_struct_items()
  fams.append(("F-struct", ps.n, lambda i: wc.struct_doc(*ps.decode(i)), cfgs, "regions x div layouts x br patterns x timings"))
  st = wc.fam_style_items(thorough)
  fams.append(("F-style", st.n, lambda i: wc.style_doc(*st.decode(i)), [c for c in cfgs if c in (("srt", True), ("srt", False), ("vtt", False, False, True), ("vtt", True, True, False))],
               "nested span styles (set/reset) x paragraph style"))
  tx = wc.fam_text_items()
  fams.append(("F-text", tx.n, lambda i: wc.text_doc(*tx.decode(i)), cfgs, "markup-significant tokens x xml:space"))
  sp = wc.fam_split_items()
  fams.append(("F-text-split", len(sp) * 2, lambda i: wc.split_doc(sp[i // 2], ["default", "preserve"][i % 2]), [c for c in cfgs if c[0] == "vtt"],
               "markup-significant strings cut into 2-3 adjacent spans at every position (WebVTT)"))
  fams.append(("F-blank", len(wc.STYLE_MENU) * 2, lambda i: wc.blank_doc(i // 2, i % 2), cfgs,
               "a paragraph whose only text is preserved white space in a styled span: no cue, whatever tags the style would need"))
  wm = wc.fam_wsmix_items()
  fams.append(("F-ws-mixed", wm.n, lambda i: wc.wsmix_doc(*wm.decode(i)), [c for c in cfgs if c in (("srt", True), ("vtt", False, False, True))],
               "three adjacent spans with leading / trailing / only spaces x xml:space default or preserve on each span and on the paragraph"))
  tm = wc.fam_time_items()
  fams.append(("F-time", len(tm), lambda i: wc.time_doc(*tm[i]), [c for c in cfgs if c in (("srt", True), ("vtt", False, False, True), ("vtt", True, False, True))],
               "millisecond / sub-millisecond / unbounded intervals"))
  fams.append(("F-ruby", 8, lambda i: wc.ruby_doc(i % 4, i // 4), cfgs, "ruby patterns"))
  al = wc.fam_align_items()
  fams.append(("F-hiding", len(wc.HIDING_MODES), lambda i: wc.hiding_doc(wc.HIDING_MODES[i]), cfgs,
               "text that is presented but not visible: tts:visibility hidden on span / p / region / as initial value, re-shown by an inner 'visible', "
               "switched by animation steps; tts:opacity 0 and 0.5 on the region"))
  ge = wc.fam_geom_items()
  fams.append(("F-geometry", ge.n, lambda i: wc.geom_doc(*ge.decode(i)), [c for c in cfgs if c[0] == "vtt"],
               "region origin / height with fractional percentages and regions reaching beyond the root container x display alignment"))
  fams.append(("F-align", al.n, lambda i: wc.align_doc(*al.decode(i)), [c for c in cfgs if c[0] == "vtt"], "text alignment / direction / display alignment"))
  out = []
  for name, n, mk, cf, note in fams:
    nc = len(cf)

    def dec(i, mk=mk, cf=cf, nc=nc, name=name):
      di, ci = divmod(i, nc)
      return {"spec": mk(di), "cfg": list(cf[ci]), "key": f"{name}#{i}"}
    out.append(Family(name, n * nc, dec, check_fn, timeout=30, note=note))
  return out


def plan(tier, seed):
  return families(check, thorough=tier == "thorough")

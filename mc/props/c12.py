"""C12 — time-code arithmetic is exact, monotone and invertible.

Whole-domain enumeration: every frame count of [0, 24 h) for the rates 24, 25, 30, 50, 60, 30000/1001,
60000/1001 (thorough), a seed-selected contiguous third of the hour range plus +-2 s around every minute
boundary of the 24 h (quick); 24000/1001 separately with the self-consistency clauses only; ClockTime on every
millisecond of [0, 2 h) and around every hour up to 100 h with sub-millisecond offsets, as Fraction and float.

Reference: SMPTE 12M drop-frame formulas written here (DESIGN.md appendix C), independent of time_code.py.
"""
from fractions import Fraction
import math

from mc import env  # noqa
from mc.kernel import Family, HarnessError

from ttconv.time_code import SmpteTimeCode, ClockTime
import ttconv.imsc.attributes as imsc_attr

ID = "C12"
LEVEL = "exploration"
RULE = ("every frame count k of the stated ranges is executed for every rate (index = k, distinct by construction); "
        "a case is non-trivial when its label is a roll-over (frames field 0) or lies within 2 labels of a "
        "dropped-label position, i.e. where carry/drop logic is exercised; ClockTime: every millisecond x 5 "
        "sub-millisecond offsets x {Fraction,float}; non-trivial when the offset is non-zero (rounding exercised)")
BOUNDS = {
  "quick": "rates 24,25,30,50,60,30000/1001,60000/1001: hours [8s,8s+8) (s=seed%3) every frame + +-2s around "
           "every minute of 24h; 24000/1001 same ranges self-consistency only; ClockTime every ms of [0,20min) + "
           "+-2s around every hour <100h, 5 offsets, Fraction and float",
  "thorough": "all frames of [0,24h) for the 7 rates (2.6e7 counts), 24000/1001 self-consistency; ClockTime every "
              "ms of [0,2h) + +-2 s around every hour <100h",
}
ASSUMPTIONS = [
  "SMPTE 12M drop-frame label formula as restated in DESIGN.md appendix C is the reference",
  "exact half-millisecond ties may round either way (property statement: error at most 0.5 ms)",
  "for float arguments the frame-boundary clause is not evaluated (floats cannot represent most boundaries exactly)",
]

RATES = [Fraction(24), Fraction(25), Fraction(30), Fraction(50), Fraction(60), Fraction(30000, 1001), Fraction(60000, 1001)]
R2398 = Fraction(24000, 1001)


# ---------------------------------------------------------------------------------------------------
# reference


def ref_label(k: int, rate: Fraction):
  """(h, m, s, f) of frame count k; SMPTE 12M drop-frame for 30000/1001 and 60000/1001."""
  R = math.ceil(rate)
  if rate.denominator == 1001:
    d = 2 * R // 30
    ten = 600 * R - 9 * d          # frames in ten minutes = 17982 * R / 30
    one = 60 * R - d               # frames in a dropped minute
    D, M = divmod(k, ten)
    k = k + 9 * d * D + (d * ((M - d) // one) if M >= d else 0)
  f = k % R
  s = (k // R) % 60
  m = (k // (60 * R)) % 60
  h = k // (3600 * R)
  return (h, m, s, f)


def ref_is_dropped(label, rate):
  if rate.denominator != 1001:
    return False
  d = 2 * math.ceil(rate) // 30
  h, m, s, f = label
  return s == 0 and f < d and m % 10 != 0


def frames_in_24h(rate):
  return int(24 * 3600 * rate) if rate.denominator == 1 else math.floor(Fraction(24 * 3600) * rate)


def gates():
  """Hand-computed SMPTE 12M examples (and the repository's own unit-test literals)."""
  R = Fraction(30000, 1001)
  ex = [
    (0, R, (0, 0, 0, 0)), (1799, R, (0, 0, 59, 29)), (1800, R, (0, 1, 0, 2)), (1801, R, (0, 1, 0, 3)),
    (17981, R, (0, 9, 59, 29)), (17982, R, (0, 10, 0, 0)), (17983, R, (0, 10, 0, 1)), (19781, R, (0, 10, 59, 29)), (19782, R, (0, 11, 0, 2)),
    (107892, R, (1, 0, 0, 0)), (3598, Fraction(60000, 1001), (0, 0, 59, 58)), (3600, Fraction(60000, 1001), (0, 1, 0, 4)),
    (35964, Fraction(60000, 1001), (0, 10, 0, 0)),
    (1800, Fraction(30), (0, 1, 0, 0)), (90000, Fraction(25), (1, 0, 0, 0)), (86399 * 24 + 23, Fraction(24), (23, 59, 59, 23)),
  ]
  for k, r, lab in ex:
    got = ref_label(k, r)
    if got != lab:
      raise HarnessError(f"reference SMPTE label gate failed: k={k} rate={r} got {got} want {lab}")
  # labels that SMPTE 12M skips must never be produced by the reference, and the reference must be a bijection
  for r in (R, Fraction(60000, 1001)):
    prev = None
    for k in range(0, 40000):
      lab = ref_label(k, r)
      if ref_is_dropped(lab, r) or (prev is not None and lab <= prev):
        raise HarnessError("reference drop-frame sequence gate failed")
      prev = lab
  return {"hand_examples": len(ex), "sequence_gate_frames": 80000}


# ---------------------------------------------------------------------------------------------------
# frame families

def _label_of(tc):
  return (tc.get_hours(), tc.get_minutes(), tc.get_seconds(), tc.get_frames())


def _viol(acc, clause, disc, case, observed, expected, fam, idx, note=""):
  acc.violation(clause, disc, case, observed=observed, expected=expected, note=note, family=fam, index=idx)


def check_frame(case, acc, full=True):
  """case: {"k": int, "rate": [num, den]}"""
  k = int(case["k"])
  rate = Fraction(int(case["rate"][0]), int(case["rate"][1]))
  rs = f"{rate.numerator}/{rate.denominator}"
  R = math.ceil(rate)
  selfcons_only = rate == R2398
  tc = SmpteTimeCode.from_frames(k, rate)
  lab = _label_of(tc)
  h, m, s, f = lab
  nontrivial = f == 0 or (rate.denominator == 1001 and s == 0 and f < 8)
  acc.case("rollover" if nontrivial else "plain", nontrivial=nontrivial)
  fam = case.get("_fam")
  idx = case.get("_idx")
  c = {"k": k, "rate": [rate.numerator, rate.denominator]}
  if not (0 <= f < R and 0 <= s < 60 and 0 <= m < 60 and h >= 0 and all(isinstance(x, int) for x in lab)):
    _viol(acc, "C12.fields", f"rate={rs}", c, lab, "0<=f<ceil(rate), s<60, m<60, ints", fam, idx)
  if not selfcons_only:
    want = ref_label(k, rate)
    if lab != want:
      _viol(acc, "C12.label", f"rate={rs}", c, lab, want, fam, idx, "from_frames label differs from SMPTE 12M")
    if ref_is_dropped(lab, rate):
      _viol(acc, "C12.dropped-label", f"rate={rs}", c, lab, "a label SMPTE 12M skips", fam, idx)
  back = tc.to_frames()
  if back != k:
    _viol(acc, "C12.identity", f"rate={rs}", c, back, k, fam, idx, "from_frames(k).to_frames() != k")
  nxt = _label_of(SmpteTimeCode.from_frames(k + 1, rate))
  if not nxt > lab:
    _viol(acc, "C12.monotone", f"rate={rs}", c, [lab, nxt], "label(k+1) > label(k)", fam, idx)
  # parse/print
  txt = str(tc)
  try:
    p = SmpteTimeCode.parse(txt, rate)
    if _label_of(p) != lab or p.is_drop_frame() != tc.is_drop_frame() or p.get_frame_rate() != rate:
      _viol(acc, "C12.parse", f"rate={rs}", c, [txt, _label_of(p), str(p.get_frame_rate())], [lab, rs], fam, idx)
  except Exception as e:  # pylint: disable=broad-except
    _viol(acc, "C12.parse", f"rate={rs},exc={type(e).__name__}", c, repr(e), lab, fam, idx)
  # exact offset
  off = tc.to_temporal_offset()
  if not isinstance(off, Fraction) or off != Fraction(k) / rate:
    _viol(acc, "C12.offset", f"rate={rs}", c, repr(off), repr(Fraction(k) / rate), fam, idx)
  if not full:
    return
  # add_frames(n) == n single additions (both must land on frame k+n)
  drop = rate.denominator == 1001 and R in (30, 60)
  hour = 3600 * R - (108 * R // 30 if drop else 0)         # frames in one hour of labels
  for n, nm in ((1, "1"), (2, "2"), (R, "sec"), (60 * R, "min"), (hour, "hour"), (hour // 6, "10min")):
    t2 = SmpteTimeCode.from_frames(k, rate)
    _pre2 = (t2.to_frames(), t2.to_temporal_offset())      # the object has answered queries before it is advanced
    t2.add_frames(n)
    if t2.to_frames() != k + n or _label_of(t2) != _label_of(SmpteTimeCode.from_frames(k + n, rate)):
      _viol(acc, "C12.add", f"rate={rs},n={nm}", c, [_label_of(t2), t2.to_frames()], k + n, fam, idx)
    elif nm in ("hour", "10min", "min"):
      # ... and is advanced again: n additions followed by one more equal n + 1 single additions
      t2.add_frames(1)
      if t2.to_frames() != k + n + 1 or _label_of(t2) != _label_of(SmpteTimeCode.from_frames(k + n + 1, rate)) \
         or t2.to_temporal_offset() != Fraction(k + n + 1) / rate:
        _viol(acc, "C12.add.requery", f"rate={rs},n={nm}+1", c, [_label_of(t2), t2.to_frames()], k + n + 1, fam, idx,
              "state kept from before a large add_frames must not influence later answers")
  t3 = SmpteTimeCode.from_frames(k, rate)
  t3.add_frames()
  t3.add_frames()
  if _label_of(t3) != _label_of(SmpteTimeCode.from_frames(k + 2, rate)):
    _viol(acc, "C12.add", f"rate={rs},n=1+1", c, _label_of(t3), k + 2, fam, idx)
  # an object that has answered every query and is then advanced answers for its new position (no stale state)
  t4 = SmpteTimeCode.from_frames(k, rate)
  _pre = (t4.to_temporal_offset(), t4.to_frames(), str(t4), t4.is_drop_frame())
  t4.add_frames(1)
  t5 = SmpteTimeCode.from_frames(k + 1, rate)
  got4 = [repr(t4.to_temporal_offset()), t4.to_frames(), str(t4)]
  want4 = [repr(Fraction(k + 1) / rate), k + 1, str(t5)]
  if got4 != want4:
    _viol(acc, "C12.add.requery", f"rate={rs}", c, got4, want4, fam, idx, "queries before add_frames(1) must not influence the answers after it")
  # a time exactly on the frame boundary converts to that frame
  t = Fraction(k) / rate
  fs = SmpteTimeCode.from_seconds(t, rate)
  if fs.to_frames() != k:
    _viol(acc, "C12.boundary", f"rate={rs},d={fs.to_frames() - k}", c, [_label_of(fs), fs.to_frames()], k, fam, idx,
          "from_seconds(k/rate) is not frame k")
  if not selfcons_only:
    ctx = imsc_attr.TemporalAttributeWritingContext(frame_rate=rate, time_expression_syntax=imsc_attr.TimeExpressionSyntaxEnum.frames)
    w = imsc_attr.to_time_format(ctx, t)
    if w != f"{k}f":
      _viol(acc, "C12.imsc.frames", f"rate={rs}", c, w, f"{k}f", fam, idx)
    ctx = imsc_attr.TemporalAttributeWritingContext(frame_rate=rate, time_expression_syntax=imsc_attr.TimeExpressionSyntaxEnum.clock_time_with_frames)
    w = imsc_attr.to_time_format(ctx, t)
    wl = ref_label(k, rate)
    sep = ";" if rate.denominator == 1001 else ":"
    want = f"{wl[0]:02}:{wl[1]:02}:{wl[2]:02}{sep}{wl[3]:02}"
    if w != want:
      _viol(acc, "C12.imsc.smpte", f"rate={rs}", c, w, want, fam, idx, "clock_time_with_frames does not name frame k")


def _ranges(tier, seed, rate):
  """List of (lo, hi) frame-count ranges that are walked completely."""
  total = frames_in_24h(rate)
  if tier == "thorough":
    return [(0, total)]
  out = []
  third = seed % 3
  lo = math.ceil(Fraction(third * 8 * 3600) * rate)
  hi = math.ceil(Fraction((third * 8 + 8) * 3600) * rate)
  # quick: the selected 8-hour third is walked with the cheap clauses; the expensive clauses on the first hour of it
  out.append((lo, min(hi, total)))
  return out


def _minute_edges(rate):
  """+-2 s around every minute boundary of the 24 h."""
  total = frames_in_24h(rate)
  w = 2 * math.ceil(rate)
  for minute in range(0, 24 * 60 + 1):
    c = math.ceil(Fraction(minute * 60) * rate)
    yield max(0, c - w), min(total, c + w)


def _mk_frame_family(name, rate, lo, hi, full, note=""):
  rt = [rate.numerator, rate.denominator]

  def decode(i):
    return {"k": lo + i, "rate": rt}

  def run_range(a, b, acc):
    for i in range(a, b):
      case = {"k": lo + i, "rate": rt, "_fam": name, "_idx": i}
      if i == a and a == 0:
        acc.sample({"family": name, "k": lo + i, "rate": rt, "label": str(SmpteTimeCode.from_frames(lo + i, rate))})
      check_frame(case, acc, full)

  def check(case, acc):
    check_frame(case, acc, True)

  return Family(name, hi - lo, decode, check, timeout=0, chunk=20000, note=note, run_range=run_range)


# ---------------------------------------------------------------------------------------------------
# ClockTime

OFFS = [Fraction(0), Fraction(1, 4000), Fraction(-1, 4000), Fraction(1, 2000), Fraction(-1, 2000), Fraction(499, 1000000), Fraction(-499, 1000000)]


def _ct_fields_ok(ct):
  return (isinstance(ct.get_hours(), int) and isinstance(ct.get_minutes(), int) and isinstance(ct.get_seconds(), int)
          and isinstance(ct.get_milliseconds(), int)
          and 0 <= ct.get_minutes() < 60 and 0 <= ct.get_seconds() < 60 and 0 <= ct.get_milliseconds() < 1000 and ct.get_hours() >= 0)


def _ct_ms(ct):
  return ((ct.get_hours() * 60 + ct.get_minutes()) * 60 + ct.get_seconds()) * 1000 + ct.get_milliseconds()


def check_clock(case, acc):
  """case: {"ms": int} -- evaluates the millisecond with every offset, as Fraction and as float."""
  ms = int(case["ms"])
  fam, idx = case.get("_fam"), case.get("_idx")
  for kind in ("fraction", "float"):
    prev = None
    for off in sorted(OFFS):
      t = Fraction(ms, 1000) + off
      if t < 0:
        continue
      arg = t if kind == "fraction" else float(t)
      exact = t if kind == "fraction" else Fraction(arg)
      acc.case(f"clock-{kind}", nontrivial=off != 0)
      c = {"ms": ms, "offset": off, "kind": kind}
      ct = ClockTime.from_seconds(arg)
      if not _ct_fields_ok(ct):
        _viol(acc, "C12.clock.fields", f"kind={kind}", c, str(ct), "fields in range", fam, idx)
        continue
      got = _ct_ms(ct)
      err = abs(Fraction(got, 1000) - exact)
      if err > Fraction(1, 2000):
        _viol(acc, "C12.clock.nearest", f"kind={kind}", c, str(ct), f"within 0.5 ms of {float(exact)!r}", fam, idx)
      if prev is not None and got < prev:
        _viol(acc, "C12.clock.monotone", f"kind={kind}", c, [prev, got], "non-decreasing", fam, idx)
      prev = got
      txt = str(ct)
      p = ClockTime.parse(txt)
      if p != ct or str(p) != txt:
        _viol(acc, "C12.clock.parse", f"kind={kind}", c, [txt, str(p)], "parse(str(x)) == x", fam, idx)


def _mk_clock_family(name, ms_list_fn, n, note=""):
  def decode(i):
    return {"ms": ms_list_fn(i)}

  def run_range(a, b, acc):
    for i in range(a, b):
      if i == a and a == 0:
        acc.sample({"family": name, "ms": ms_list_fn(i), "offsets": [str(o) for o in OFFS]})
      check_clock({"ms": ms_list_fn(i), "_fam": name, "_idx": i}, acc)

  return Family(name, n, decode, check_clock, timeout=0, chunk=20000, note=note, run_range=run_range)


def plan(tier, seed):
  fams = []
  for rate in RATES + [R2398]:
    rs = f"{rate.numerator}_{rate.denominator}"
    total = frames_in_24h(rate)
    if tier == "thorough":
      fams.append(_mk_frame_family(f"frames-all-{rs}", rate, 0, total, True, "every frame count of [0,24h), all clauses"))
    else:
      third = seed % 3
      lo = math.ceil(Fraction(third * 8 * 3600) * rate)
      hi = min(total, math.ceil(Fraction((third * 8 + 8) * 3600) * rate))
      # the cheap clauses on the whole third; all clauses on its first 40 minutes and on every minute edge of 24 h
      mid = min(hi, lo + math.ceil(Fraction(40 * 60) * rate))
      fams.append(_mk_frame_family(f"frames-third{third}-cheap-{rs}", rate, mid, hi, False,
                                   "label/identity/monotone/parse/offset clauses on every frame of the third"))
      fams.append(_mk_frame_family(f"frames-third{third}-full-{rs}", rate, lo, mid, True, "all clauses, first 40 min of the third"))
      edges = []
      for a, b in _minute_edges(rate):
        if edges and a <= edges[-1][1]:
          edges[-1] = (edges[-1][0], max(b, edges[-1][1]))
        else:
          edges.append((a, b))
      ks = [k for a, b in edges for k in range(a, b) if not lo <= k < mid]
      fams.append(_mk_list_family(f"frames-minute-edges-{rs}", rate, ks))
    # beyond 24 h: labels do not wrap (+-2 s around 24 h, 25 h 30 min, 48 h and 99 h 59 min 59 s)
    w = 2 * math.ceil(rate)
    far = []
    for secs in (24 * 3600, 25 * 3600 + 1800, 48 * 3600, 99 * 3600 + 59 * 60 + 59):
      c = math.ceil(Fraction(secs) * rate)
      far.extend(range(c - w, c + w if secs < 99 * 3600 else c))
    fams.append(_mk_list_family(f"frames-beyond-24h-{rs}", rate, far))
  # ClockTime
  span = 2 * 3600 * 1000 if tier == "thorough" else 5 * 60 * 1000
  fams.append(_mk_clock_family("clock-every-ms", lambda i: i, span, "every millisecond from 0"))
  hours = [h * 3600 * 1000 + d for h in range(1, 100) for d in range(-2000, 2001)]
  fams.append(_mk_clock_family("clock-hour-edges", lambda i, hours=hours: hours[i], len(hours), "+-2 s around every hour < 100 h"))
  return fams


def _mk_list_family(name, rate, ks):
  rt = [rate.numerator, rate.denominator]

  def decode(i):
    return {"k": ks[i], "rate": rt}

  def run_range(a, b, acc):
    for i in range(a, b):
      check_frame({"k": ks[i], "rate": rt, "_fam": name, "_idx": i}, acc, True)

  return Family(name, len(ks), decode, lambda case, acc: check_frame(case, acc, True), timeout=0, chunk=20000,
                note="+-2 s around every minute boundary of 24 h, all clauses", run_range=run_range)

"""C07 — SRT/WebVTT outputs are grammatical and tags reflect the computed styles (DESIGN.md 3, C06/C07).

Same document x configuration families as C06.  Oracle: the output parses under the strict grammar of the statement
(independent parser mc/strictparse.py); cue numbers consecutive from 1; cues ordered and non-overlapping (or sharing
their interval when several regions are written with line_position); per character the set of enclosing tags equals the
styles R_style computes; no tag with text_formatting disabled; line/align settings agree with the reference region
geometry and paragraph alignment; the writer raises on none of the documents.
"""
from __future__ import annotations

import re
from fractions import Fraction as F

from mc import env  # noqa
from mc.kernel import Family, exc_disc
from mc import writers_common as wc
from mc.spec import build
from mc.ref_isd import critical_times
from mc.ref_style import r_style
from mc import strictparse
from mc.props import c06

ID = "C07"
LEVEL = "exploration"
RULE = ("cases are (document spec, writer configuration) pairs from the C06 families; non-trivial when the output contains "
        "at least one cue; distinct by family index")
BOUNDS = c06.BOUNDS
ASSUMPTIONS = [
  "the grammar is the one of the property statement as restated in mc/strictparse.py (DESIGN.md appendix C)",
  "computed styles come from R_style (mc/ref_style.py); fontStyle oblique is not generated (neither default nor a tag)",
  "text alignment of a cue is only compared when its region holds exactly one paragraph at that time (merged paragraphs "
  "have no single alignment); line position is compared to within the rounding to a whole percent",
  "SubRip has no escape mechanism: text that itself looks like SRT markup is not generated for the SRT tag clauses",
]

_SRT_MARKUP = re.compile(r"</?[A-Za-z]|\{/?[A-Za-z]")


def _texts(spec):
  from mc.spec import walk
  return [n.get("t", "") for n, _ in walk(spec["body"]) if n["k"] == "text"] if spec.get("body") else []


def _css_color(v):
  v = (v or "").strip()
  m = re.fullmatch(r"#([0-9a-fA-F]{2})([0-9a-fA-F]{2})([0-9a-fA-F]{2})([0-9a-fA-F]{2})?", v)
  if m:
    return tuple(int(x, 16) for x in m.groups(default="ff"))
  m = re.fullmatch(r"rgba?\(([^)]*)\)", v)
  if m:
    parts = [p.strip() for p in m.group(1).split(",")]
    rgb = tuple(int(float(p)) for p in parts[:3])
    a = 255 if len(parts) < 4 else (int(round(float(parts[3]) * 255)) if float(parts[3]) <= 1 else int(float(parts[3])))
    return rgb + (a,)
  return strictparse.NAMED_COLORS.get(v.lower())


_VTT_DEFAULT_CLASSES = {"white": ("color", (255, 255, 255, 255)), "lime": ("color", (0, 255, 0, 255)), "cyan": ("color", (0, 255, 255, 255)),
                        "red": ("color", (255, 0, 0, 255)), "yellow": ("color", (255, 255, 0, 255)), "magenta": ("color", (255, 0, 255, 255)),
                        "blue": ("color", (0, 0, 255, 255)), "black": ("color", (0, 0, 0, 255))}
for _k, (_p, _v) in list(_VTT_DEFAULT_CLASSES.items()):
  _VTT_DEFAULT_CLASSES["bg_" + _k] = ("background-color", _v)


def expected_attrs(cfg, spec, styles, rid, span, idx, parents):
  """effective presentation attributes of a character whose innermost span is `span`:
  bold / italic / underline from the computed styles, colour = computed colour, background (WebVTT) = the nearest
  enclosing span (self first) that paints a non-transparent background (a span's background lies behind all of its
  inline content, nested spans included)"""
  st = styles.get(rid, {}).get(span)
  if st is None:
    return None
  st = st[1]
  out = {"b": st["FontWeight"][2] == "bold", "i": st["FontStyle"][2] == "italic", "u": st["TextDecoration"][1] is True,
         "color": tuple(st["Color"][1:])}
  if cfg[0] == "vtt":
    bg = (0, 0, 0, 0)
    cur = span
    while cur is not None and idx.get(cur) == "span":
      v = styles[rid].get(cur)
      if v is not None and v[1]["BackgroundColor"][4] != 0:
        bg = tuple(v[1]["BackgroundColor"][1:])
        break
      cur = parents.get(cur)
    out["bg"] = bg
  return out


def observed_attrs(cfg, tree, classes):
  """-> list of (char, attrs) from the cue text tree; nested colour tags: the innermost one is in effect"""
  out = []

  def rec(nodes, cur):
    for n in nodes:
      if n[0] == "text":
        for ch in n[1]:
          out.append((ch, {k: v for k, v in cur.items() if not k.startswith("_")}))
      elif n[0] == "tag":
        nxt = dict(cur)
        name = n[1]
        if name in ("b", "i", "u"):
          nxt[name] = True
        elif name == "font":
          nxt["color"] = _css_color(n[3] or "") or ("unparsed", n[3])
          if nxt["color"] == cur.get("color") and not cur.get("_colour_tag_open"):
            nxt.setdefault("redundant-colour-tag", name)      # default colour stated again where no colour tag is open
          nxt["_colour_tag_open"] = True
        elif name == "c":
          for cl in n[2]:
            d = classes.get(cl) or ((_VTT_DEFAULT_CLASSES[cl][0], None) if cl in _VTT_DEFAULT_CLASSES else None)
            if d is None:
              nxt.setdefault("undefined-class", cl)
              continue
            prop = d[0]
            val = _css_color(d[1]) if d[1] is not None else _VTT_DEFAULT_CLASSES[cl][1]
            if prop == "color":
              nxt["color"] = val
              if val == cur.get("color") and not cur.get("_colour_tag_open"):
                nxt.setdefault("redundant-colour-tag", cl)
              nxt["_colour_tag_open"] = True
            elif prop == "background-color":
              nxt["bg"] = val
        else:
          nxt.setdefault("other-tag", name)
        rec(n[5], nxt)
  base = {"b": False, "i": False, "u": False, "color": (255, 255, 255, 255)}
  if cfg[0] == "vtt":
    base["bg"] = (0, 0, 0, 0)
  rec(tree, base)
  return out


def check(case, acc):
  spec, cfg = case["spec"], tuple(case["cfg"])
  cc = {"spec": spec, "cfg": list(cfg)}
  try:
    doc = build(spec)
  except Exception:  # pylint: disable=broad-except
    acc.case("invalid-spec")
    return
  try:
    out = wc.run_writer(doc, cfg)
  except Exception as e:  # pylint: disable=broad-except
    acc.violation("C07.writer-raises", f"{cfg[0]}:{exc_disc(e)}", cc, observed=repr(e)[:200], note="the writers must not fail on a document a reader can produce")
    acc.case("writer-raises")
    return
  try:
    cues, classes = wc.parse_output(out, cfg)
  except strictparse.GrammarError as e:
    acc.violation("C07.grammar", f"{cfg[0]}:{_gram_disc(e.msg)}", cc, observed={"error": str(e), "output": out[:600]}, note="output does not parse under the format's grammar")
    acc.case("ungrammatical")
    return
  # numbering
  if cfg[0] == "srt" or (cfg[0] == "vtt" and cfg[3]):
    ids = [c.ident for c in cues]
    if ids != [str(i + 1) for i in range(len(cues))]:
      acc.violation("C07.numbering", cfg[0], cc, observed=ids, expected="1..n consecutive")
  elif any(c.ident is not None for c in cues):
    acc.violation("C07.numbering", "vtt:cue_id-disabled", cc, observed=[c.ident for c in cues], expected="no identifiers")
  # order / overlap
  for a, b in zip(cues, cues[1:]):
    same = (a.begin, a.end) == (b.begin, b.end)
    if not (a.end <= b.begin or (same and cfg[0] == "vtt" and cfg[1])):
      acc.violation("C07.order", f"{cfg[0]}:{'same-interval' if same else 'overlap'}", cc, observed=[[str(a.begin), str(a.end)], [str(b.begin), str(b.end)]],
                    expected="non-decreasing, non-overlapping cues")
      break
  # tags
  K = critical_times(spec)
  idx = wc.kind_index(spec)
  probes, _ = c06.admissible_probes(K)
  srt_ambiguous = cfg[0] == "srt" and any(_SRT_MARKUP.search(t) for t in _texts(spec))
  has_ruby = any(k == "ruby" for k in idx.values())
  formatting = cfg[0] == "vtt" or cfg[1]
  parents = {}
  if spec.get("body"):
    from mc.spec import walk
    for n, anc in walk(spec["body"]):
      if n.get("id") is not None and anc:
        parents[n["id"]] = anc[-1].get("id")
  for t in probes:
    if t > K[-1]:
      continue
    got_cues = wc.cues_at(cues, t)
    if not got_cues:
      continue
    exp = wc.expected_at(spec, t, idx)
    styles = r_style(spec, t)
    if not formatting:
      if srt_ambiguous:
        continue
      for c in got_cues:
        if any(st for _ch, st in c.runs):
          acc.violation("C07.tags.disabled", "srt:text_formatting=false", dict(cc, t=t), observed=c.raw_lines, expected="no tags")
          break
      continue
    if srt_ambiguous or has_ruby:
      continue
    want = []
    for rid, lines in exp:
      for ln in lines:
        for ch, span, _p in ln:
          if ch.strip():
            want.append((ch, expected_attrs(cfg, spec, styles, rid, span, idx, parents)))
    got = []
    for c in got_cues:
      got.extend((ch, a) for ch, a in observed_attrs(cfg, c.tree, classes) if ch.strip())
    if [c for c, _ in want] != [c for c, _ in got]:
      continue          # text differences belong to C06
    for (ch, w), (_c2, g) in zip(want, got):
      if w is None:
        continue
      extra_keys = sorted(set(g) - set(w))
      if extra_keys:
        acc.violation("C07.tags.unknown", f"{cfg[0]}:{extra_keys[0]}", dict(cc, t=t), observed=str(g), expected=str(w))
        break
      diff = [k for k in ("b", "i", "u", "color", "bg") if k in w and w[k] != g.get(k)]
      if diff:
        k = diff[0]
        how = ("extra" if g.get(k) else "missing") if k in ("b", "i", "u") else "differs"
        acc.violation(f"C07.tags.{k}", f"{cfg[0]}:{how}{_reset_disc(spec, k)}", dict(cc, t=t), observed={x: str(g.get(x)) for x in diff}, expected={x: str(w[x]) for x in diff},
                      note=f"character {ch!r}: tags do not reflect the computed style")
        break
    # cue settings
    if cfg[0] == "vtt":
      _check_settings(spec, cfg, t, exp, styles, got_cues, acc, cc, idx)
  acc.case(f"{cfg[0]}:{'cues' if cues else 'no-cues'}", nontrivial=bool(cues), key=case.get("key") or repr(cc))


def _check_settings(spec, cfg, t, exp, styles, got_cues, acc, cc, idx):
  lp, ta = cfg[1], cfg[2]
  for c in got_cues:
    g = c.geometry
    if not lp and "line" in g:
      acc.violation("C07.settings.line", "line-without-line_position", dict(cc, t=t), observed=c.settings)
    if not ta and "align" in g:
      acc.violation("C07.settings.align", "align-without-text_align", dict(cc, t=t), observed=c.settings)
  nonblank = [(rid, lines) for rid, lines in exp if lines]
  if lp and len(nonblank) == len(got_cues):
    for (rid, lines), c in zip(nonblank, got_cues):
      rs = styles[rid][rid][1]
      y = F(rs["Origin"][2][1])
      h = F(rs["Extent"][1][1])
      da = rs["DisplayAlign"][2]
      want_line, want_align = {"before": (y, "start"), "center": (y + h / 2, "center"), "after": (y + h, "end")}[da]
      line = c.geometry.get("line")
      if line is None or line[0] != "pct":
        acc.violation("C07.settings.line", "missing", dict(cc, t=t), observed=c.settings, expected=f"line:{float(want_line)}%,{want_align}")
        continue
      if not 0 <= F(line[1]) <= 100:
        # the WebVTT grammar has percentages in 0..100 only: a region edge outside the root container is written as the nearest edge
        acc.violation("C07.settings.line", "percentage-out-of-range", dict(cc, t=t), observed=c.settings,
                      expected=f"line:{float(min(max(want_line, F(0)), F(100)))}%")
      elif abs(F(line[1]) - min(max(want_line, F(0)), F(100))) > F(1, 2):
        acc.violation("C07.settings.line", f"value,displayAlign={da}", dict(cc, t=t), observed=c.settings, expected=f"line:{float(want_line)}%")
      if (line[2] or "start") != want_align:
        acc.violation("C07.settings.line", f"alignment,displayAlign={da}", dict(cc, t=t), observed=c.settings, expected=want_align)
  # (merged paragraphs have no single alignment: with regions merged into one cue - line_position off - a paragraph that is
  # presented but hidden in another region still takes part in the merge, so the comparison is left out there as well)
  hidden_partner = not lp and len(exp) > 1 and wc._uses_hiding(spec)  # pylint: disable=protected-access
  if ta and len(nonblank) == len(got_cues) and not hidden_partner:
    for (rid, lines), c in zip(nonblank, got_cues):
      ps = {p for ln in lines for _ch, _s, p in ln}
      if len(ps) != 1:
        continue
      pst = styles[rid].get(next(iter(ps)))
      if pst is None:
        continue
      al, di = pst[1]["TextAlign"][2], pst[1]["Direction"][2]
      want = {"center": "center", "start": "right" if di == "rtl" else "left", "end": "left" if di == "rtl" else "right"}[al]
      if c.geometry.get("align") != want:
        acc.violation("C07.settings.align", f"textAlign={al},direction={di}", dict(cc, t=t), observed=c.settings, expected=f"align:{want}")


def _reset_disc(spec, k):
  """is the property reset to its default inside a span that sets it (not representable with start/end tags)?"""
  prop = {"b": "FontWeight", "i": "FontStyle", "u": "TextDecoration", "color": "Color", "bg": "BackgroundColor"}[k]
  from mc.spec import walk
  for n, anc in walk(spec["body"]):
    v = (n.get("st") or {}).get(prop)
    if v is None or n["k"] != "span":
      continue
    is_default = (k == "b" and v[2] == "normal") or (k == "i" and v[2] == "normal") or (k == "u" and v[1] is False)
    if is_default and any((a.get("st") or {}).get(prop) is not None for a in anc):
      return ",reset-inside-styled-span"
  return ""


def _gram_disc(msg):
  m = re.sub(r"[0-9]+", "N", msg)
  m = re.sub(r"'[^']*'|\"[^\"]*\"", "X", m)
  return m[:70]


def plan(tier, seed):
  return c06.families(check, thorough=tier == "thorough")

"""C09 -- the EBU STL reader reproduces every subtitle's time, text and attributes (DESIGN.md section 3, C09).

Bounded-exhaustive input enumeration: byte-level STL files are assembled by `mc.refstl` (GSI block + TTI blocks),
read by the real `ttconv.stl.reader.to_model` and interpreted by the independent reference interpreter of
`mc.refstl` (written from EBU Tech 3264); the two are compared clause by clause.

Families (every index of every family is executed):
  F-tf-*       every text field string up to the stated length over a byte-class alphabet, teletext and open
  F-charset-*  every byte 20h..FFh and every diacritic x letter pair under CCT 00, every byte under CCT 01..04
  F-chain      two-block extension chains over every pair of short text fields (block boundary, filler handling)
  F-ebn        block sequences over EBN x CF x same/next SN (extension chains, user data, comments)
  F-cs         subtitle sequences over the cumulative status x programme start (snapshots through ISD.from_model)
  F-attr       JC x VP x lines x double height x display standard x row-count configuration
  F-time-*     TCI/TCO label grid x programme start for every DFC
  F-config     the reader configuration product
  F-gsi-invalid  unusable TCP / MNR fields that the configuration refers to
"""
from __future__ import annotations

import io
import re
import shutil
import subprocess
from fractions import Fraction

from mc import env  # noqa  (first: puts the explored tree on sys.path)
from mc.kernel import Family, HarnessError, Acc, exc_disc
from mc.docgen import Product
from mc import refstl as R

import ttconv.stl.reader as stl_reader
from ttconv.stl.config import STLReaderConfiguration
import ttconv.model as model
import ttconv.style_properties as styles
from ttconv.isd import ISD

ID = "C09"
LEVEL = "exploration"
RULE = ("a case is one byte-level STL file (GSI + TTI blocks) plus a reader configuration, decoded from the family "
        "index by mixed radix (distinct by construction); it is executed on the real reader and on the reference "
        "interpreter. Non-trivial = the reference shows at least one subtitle with visible characters AND the case "
        "exercises the family's feature (text families: a control code, newline, space, filler or composed character "
        "in the field; sequence families: more than one block or a non-default block attribute; time families: a "
        "non-zero label or a programme start; configuration family: a non-default option)")
BOUNDS = {
  "quick": "text fields: all strings of length <= 4 over 15 (teletext) / 16 (open) byte classes, length <= 3 over the 21-class "
           "union alphabet and length <= 5 over a 9-class core alphabet, each in both modes; CCT 00: every byte 20h-FFh, every (C1h-CFh) x (A-Z a-z space) pair; CCT 01-04 "
           "every byte 20h-FFh; EBN sequences: 3 blocks over EBN {0,1,EF,F0,FE,FF} x CF {0,1} x SN {same,next}; two-block chains over all text field pairs of length <= 2 over 5 classes; cumulative: 3 "
           "subtitles over CS 0..3 x 2 schedules x 3 programme starts, ISD snapshots at every boundary and midpoint; "
           "JC 0..3 x VP {0,1,11,12,22,23} x lines 1..3 x double height x {teletext, open x rows {-,MNR,11}}; TCI/TCO: "
           "{h 0,1,23}x{m 0,1,9,10,59}x{s 0,59}x all frames x 5 DFC x 6 programme starts; configuration product",
  "thorough": "as quick with text fields of length <= 5 (length <= 4 over the union alphabet, <= 6 over the core alphabet), "
              "two-block chains over text field pairs of length <= 3, EBN sequences of 4 blocks, cumulative sequences of 4 subtitles",
}
ASSUMPTIONS = [
  "EBU Tech 3264-E (1991) as restated in mc/refstl.py is the reference; its Latin table is ISO 6937/2-1983, the 1992 "
  "edition is admitted as well where the two differ (24h, A0h, A4h, A6h, D6h, D7h, FFh)",
  "ISO 8859-5/6/7/8 tables are those of the Python standard library (positions that differ between the 1987/1988 and "
  "later editions are not asserted)",
  "STL30.01 is evaluated at 30000/1001 fps with drop-frame labels (the reader's documented choice); labels that "
  "drop-frame counting skips and labels with a field out of range are not asserted",
  "white-space normalisation: runs of space cells collapse to one space, leading/trailing space cells and empty rows "
  "are ignored; a teletext spacing attribute (00h-07h, 0Ah-0Dh, 1Ch, 1Dh) is a space cell; for codes of which the "
  "statement does not say whether they occupy a cell (80h-85h, and 00h-1Fh in open subtitles) a space is optional",
  "the background of open subtitles before any background code, the effect of the boxing-on code 84h on the background (boxing off, 85h, is taken to end any background), the "
  "alignment for JC 0, the region of cumulative sets and the region for a VP outside 1..rows are not asserted",
  "files the specification does not give a meaning to are executed (the reader must not raise) but nothing else is "
  "asserted: an unterminated extension chain followed by another subtitle, extension block numbers out of order, two "
  "last blocks with one SN, CS 2/3 without a preceding CS 1, a cumulative set of which only some members precede the "
  "programme start, TCO before TCI, labels with a field out of range",
  "attribution: in a file with a comment block (CF=1) or with an 8Fh that is followed by other bytes, a mismatch that "
  "disappears under the named deviant reading of the file (comment flag ignored / 8Fh stripped at both block ends) is "
  "reported under that reading's single signature, whatever clause it surfaced in",
  "a line break in open subtitles is asserted not to reset the pen (isolated as C09.style.*/open-newline-carry: the "
  "statement is silent; the reader's choice is taken)",
]

EPS = 1e-9

# ---------------------------------------------------------------------------------------------------
# running the real reader


def build_config(cfg: dict):
  """JSON-typed configuration dictionary -> STLReaderConfiguration (through the same parse() the command line uses)"""
  if not cfg:
    return None
  return STLReaderConfiguration.parse(dict(cfg))


def build_file(case) -> bytes:
  gsi = {k: (bytes(v) if isinstance(v, (bytes, bytearray, list)) else v) for k, v in (case.get("gsi") or {}).items()}
  ttis = []
  for t in case["ttis"]:
    t = dict(t)
    for k in ("tci", "tco"):
      if k in t:
        t[k] = tuple(int(x) for x in t[k])
    if "tf" in t:
      t["tf"] = bytes(t["tf"])
    ttis.append(t)
  return R.stl_file(gsi, ttis)


# ---------------------------------------------------------------------------------------------------
# observing the model


def _nearest_style(el, prop):
  e = el
  while e is not None:
    v = e.get_style(prop)
    if v is not None:
      return v
    e = e.parent()
  return None


def _text_style(text_el):
  par = text_el.parent()
  col = _nearest_style(par, styles.StyleProperties.Color)
  bg = _nearest_style(par, styles.StyleProperties.BackgroundColor)
  fs = _nearest_style(par, styles.StyleProperties.FontStyle)
  td = _nearest_style(par, styles.StyleProperties.TextDecoration)
  return (
    tuple(col.components) if col is not None else None,
    tuple(bg.components) if bg is not None else None,
    fs is not None and fs != styles.FontStyleType.normal,
    bool(td is not None and getattr(td, "underline", None)),
  )


def obs_lines(root):
  """rows of (char, style) under `root`, split at br"""
  lines = [[]]

  def rec(e):
    for c in e:
      if isinstance(c, model.Br):
        lines.append([])
      elif isinstance(c, model.Text):
        st = _text_style(c)
        lines[-1].extend((ch, st) for ch in c.get_text())
      else:
        rec(c)
  rec(root)
  return lines


def _abs_times(el):
  off = Fraction(0)
  e = el.parent()
  while e is not None:
    if e.get_begin() is not None:
      off += e.get_begin()
    e = e.parent()
  b = el.get_begin()
  en = el.get_end()
  return (off + (b if b is not None else 0), None if en is None else off + en)


def obs_paragraphs(doc):
  """[{el, members: [(el, begin, end)], align, region}] in document order"""
  out = []
  body = doc.get_body()
  if body is None:
    return out
  for e in body.dfs_iterator():
    if not isinstance(e, model.P):
      continue
    timed_kids = [c for c in e if isinstance(c, model.Span) and (c.get_begin() is not None or c.get_end() is not None)]
    if e.get_begin() is None and e.get_end() is None and timed_kids:
      members = [(c,) + _abs_times(c) for c in timed_kids]
    else:
      members = [(e,) + _abs_times(e)]
    out.append({"el": e, "members": members})
  return out


def obs_region(p):
  r = p.get_region()
  if r is None:
    return None
  o = r.get_style(styles.StyleProperties.Origin)
  x = r.get_style(styles.StyleProperties.Extent)
  da = r.get_style(styles.StyleProperties.DisplayAlign)
  pct = styles.LengthType.Units.pct
  if o is None or x is None or o.x.units != pct or o.y.units != pct or x.width.units != pct or x.height.units != pct:
    return {"raw": repr((o, x, da))}
  return {"x": float(o.x.value), "y": float(o.y.value), "w": float(x.width.value), "h": float(x.height.value),
          "align": da.name if da is not None else "before"}


# ---------------------------------------------------------------------------------------------------
# text and style comparison


def _plain(lines):
  return [R.normalise_ws("".join(ch for ch, _ in ln)) for ln in _obs_text_lines(lines)]


def _ref_text_lines(lines):
  return [ln for ln in lines if any(c[0] == "c" for c in ln)]


def _obs_text_lines(lines):
  return [ln for ln in lines if any(ch != " " for ch, _ in ln)]


def _alt(adm):
  xs = sorted(adm)
  return re.escape(xs[0]) if len(xs) == 1 else "(?:" + "|".join(re.escape(x) for x in xs) + ")"


def line_regex(ref_line, all_optional=False):
  parts = []
  for sep, cells in R.line_words(ref_line):
    if sep is not None:
      parts.append(" ?" if (sep == "s" or all_optional) else " ")
    for c in cells:
      parts.append("." if c[1] is None else _alt(c[1]))
  return "".join(parts)


def ref_line_str(ref_line):
  out = []
  for sep, cells in R.line_words(ref_line):
    if sep is not None:
      out.append(" " if sep == "h" else "[ ]")
    for c in cells:
      out.append("?" if c[1] is None else "|".join(sorted(c[1])))
  return "".join(out)


def _sep_runs(ref_line):
  """raw byte runs of the separators between the words of a reference line"""
  runs = []
  cur = None
  seen_char = False
  for cell in ref_line:
    if cell[0] == "c":
      if cur is not None and seen_char:
        runs.append(cur)
      cur = None
      seen_char = True
    else:
      if seen_char:
        cur = (cur or b"") + cell[3]
  return runs


def _byte_class(b):
  if b == 0x20:
    return "sp"
  return "ctl"


def text_disc(ref_lines, obs_strs, hints):
  """narrow discriminator of a text mismatch"""
  if len(ref_lines) != len(obs_strs):
    return f"rows:{'fewer' if len(obs_strs) < len(ref_lines) else 'more'}"
  for rl, os_ in zip(ref_lines, obs_strs):
    if re.fullmatch(line_regex(rl), os_, re.S):
      continue
    if re.fullmatch(line_regex(rl, all_optional=True), os_, re.S):
      # only separators differ: which hard separator vanished?
      words = R.line_words(rl)
      runs = _sep_runs(rl)
      # locate the first hard separator that the observed row lacks
      pos = 0
      for idx, (sep, cells) in enumerate(words):
        if sep is not None:
          has = pos < len(os_) and os_[pos] == " "
          if has:
            pos += 1
          elif sep == "h":
            run = runs[idx - 1] if idx - 1 < len(runs) else b""
            if len(run) >= 2:
              return "words-merged:run-of-space-cells"
            return f"words-merged:single-{_byte_class(run[0]) if run else '?'}"
        pos += len(cells)
      return "separator"
    if len(os_.replace(" ", "")) == sum(len(cells) for _s, cells in R.line_words(rl)):
      return "characters"
    return "characters:count"
  return "other"


def compare_text(acc, case, ref_lines_all, notes, obs_lines_all, hints, clause="C09.text"):
  """-> True when the visible text agrees (then styles are comparable)"""
  ref_lines = _ref_text_lines(ref_lines_all)
  obs = _obs_text_lines(obs_lines_all)
  obs_strs = [R.normalise_ws("".join(ch for ch, _ in ln)) for ln in obs]
  ok = len(ref_lines) == len(obs_strs) and all(re.fullmatch(line_regex(rl), os_, re.S) for rl, os_ in zip(ref_lines, obs_strs))
  if not ok:
    acc.violation(clause, text_disc(ref_lines, obs_strs, hints), case, observed=obs_strs,
                  expected=[ref_line_str(rl) for rl in ref_lines], note="visible text per row (white-space normalised)")
  return ok


STYLE_CLAUSES = ["C09.style.color", "C09.style.background", "C09.style.italic", "C09.style.underline"]


def compare_styles(acc, case, ref_lines_all, notes, obs_lines_all, teletext):
  ref_lines = _ref_text_lines(ref_lines_all)
  obs = _obs_text_lines(obs_lines_all)
  if len(ref_lines) != len(obs):
    return
  mode = "teletext" if teletext else "open"
  reported = set()
  # in open subtitles the statement does not say whether a line break resets the pen: isolate
  carry_from = None
  if not teletext:
    pen_dirty = False
    idx_text = -1
    for ln in ref_lines_all:
      has_c = any(c[0] == "c" for c in ln)
      if has_c:
        idx_text += 1
        if pen_dirty and carry_from is None:
          carry_from = idx_text
      if ln and ln[-1][2] != R.default_pen(False).snap():
        pen_dirty = True
      elif ln:
        pen_dirty = False
  for li, (rl, ol) in enumerate(zip(ref_lines, obs)):
    rc = [c for c in rl if c[0] == "c"]
    oc = [(ch, st) for ch, st in ol if ch != " "]
    if len(rc) != len(oc):
      continue
    where = "first-row" if rl is ref_lines_all[0] else "after-newline"
    if carry_from is not None and li >= carry_from:
      where = "open-newline-carry"
    for ci, (c, (ch, st)) in enumerate(zip(rc, oc)):
      fg, bg, it, ul = c[2]
      exp = (R.RGB[fg] + (255,), None if bg is None else (0, 0, 0, 0) if bg == "transparent" else R.RGB[bg] + (255,), it, ul)
      for k, clause in enumerate(STYLE_CLAUSES):
        if exp[k] is None:
          continue
        if st[k] != exp[k] and clause not in reported:
          reported.add(clause)
          acc.violation(clause, f"{mode},{where}", case, observed={"char": ch, "row": li, "index": ci, "value": st[k]},
                        expected=exp[k], note="pen of the character as set by the preceding control codes")


# ---------------------------------------------------------------------------------------------------
# region


def compare_region(acc, case, refdoc, m, p_el):
  """anchoring and containment, for a VP that is valid for the row count"""
  reg = obs_region(p_el)
  rows = refdoc.rows
  if rows is None or rows <= 0:
    return "rows-unspecified"
  span = R.row_span(m.tf)
  if span is None:
    return "layout-unspecified"
  nrows, _dh = span
  vp = m.vp
  if vp < 1 or vp + nrows - 1 > rows:
    return "vp-outside-rows"
  if reg is None or "raw" in reg:
    acc.violation("C09.region", "no-pct-region", case, observed=reg, expected="a region in % of the root container")
    return "checked"
  top = 10 + (vp - 1) * 80 / rows
  bottom = 10 + (vp + nrows - 1) * 80 / rows
  mode = "teletext" if refdoc.teletext else "open"
  inside = (reg["x"] >= 5 - EPS and reg["x"] + reg["w"] <= 95 + EPS and reg["y"] >= 10 - EPS and reg["y"] + reg["h"] <= 90 + EPS
            and reg["w"] > 0 and reg["h"] > 0)
  if not inside:
    acc.violation("C09.region", f"outside-safe-area,{mode}", case, observed=reg, expected="inside x 5..95, y 10..90",
                  note=f"VP={vp} rows={nrows} of {rows}")
  anchored = (reg["align"] == "before" and abs(reg["y"] - top) < 1e-6) or \
             (reg["align"] == "after" and abs(reg["y"] + reg["h"] - bottom) < 1e-6)
  if not anchored:
    acc.violation("C09.region", f"anchor,{mode},{reg['align']}", case, observed=reg,
                  expected={"top-anchored": {"y": top, "displayAlign": "before"}, "or bottom-anchored": {"y+h": bottom, "displayAlign": "after"}},
                  note=f"VP={vp} rows={nrows} of {rows}")
  return "checked"


# ---------------------------------------------------------------------------------------------------
# the generic check


UNSPEC_TEXT = {"undefined-char", "dangling-diacritic"}
UNSPEC_DOC = {"unknown-dfc", "unknown-cct", "bad-programme-start", "trailing-bytes", "dangling-chain", "duplicate-sn",
              "cumulative-without-first", "bad-cs"}


def check_case(case, acc):
  data = build_file(case)
  cfg = case.get("config") or {}
  conf = build_config(cfg)
  try:
    doc = stl_reader.to_model(io.BytesIO(data), conf)
  except Exception:
    acc.case("reader-exception", nontrivial=True)         # counted, then classified by the kernel as C09.crash
    raise
  has_comment = any(int(t.get("cf", 0)) == 1 and not 0xF0 <= int(t.get("ebn", 0xFF)) <= 0xFE for t in case["ttis"])
  has_inner_filler = any(b"\x8f" in bytes(t.get("tf", b"")).rstrip(b"\x8f") for t in case["ttis"])
  if not has_comment and not has_inner_filler:
    _evaluate(case, data, cfg, doc, acc, {})
    return
  # Attribution of a mismatch to ONE cause (one signature), whatever clause it surfaced in: when the reader disagrees
  # with the reference but agrees with a named deviant reading of the file, that reading is reported.
  strict = Acc()
  _evaluate(case, data, cfg, doc, strict, {})
  if strict.viol:
    readings = []
    if has_comment:
      readings.append(("C09.ebn", "comment-block-not-skipped", {"honour_cf": False},
                       "the document is what the reference gives when CF=1 (comment) blocks are read as subtitle data"))
    if has_inner_filler:
      readings.append(("C09.text", "filler:strip-instead-of-cut-at-first-8F", {"filler": "strip"},
                       "the document is what the reference gives when 8Fh is stripped at both ends of each block (text after a "
                       "leading 8Fh shown, text of later blocks lost after an inner 8Fh) instead of ending the block's text at its first 8Fh"))
    combos = [[r] for r in readings] + ([readings] if len(readings) > 1 else [])
    first = next(iter(strict.viol.values()))[1][0]
    chosen = None
    for combo in combos:
      kw = {}
      for r in combo:
        kw.update(r[2])
      alt = Acc()
      _evaluate(case, data, cfg, doc, alt, kw)
      if not alt.viol:
        chosen = (combo, alt)
        break
    if chosen is None:
      # no reading explains everything: if all readings together change the outcome, report them plus what remains
      # unexplained under them (a second, independent deviation in the same file)
      if set(alt.viol) != set(strict.viol):
        chosen = (combos[-1], alt)
    if chosen is not None:
      combo, alt = chosen
      strict.viol.clear()
      for clause, disc, _kw, note in combo:
        strict.violation(clause, disc, case, observed=first["observed"], expected=first["expected"],
                         note=f"{note}; surfaced in clause {first['clause']}")
      for (_c, _d), (n, recs) in alt.viol.items():
        for r in recs[:1]:
          strict.violation(r["clause"], r["disc"], case, observed=r["observed"], expected=r["expected"],
                           note=(r["note"] + " [expected value under the deviant reading(s) named by the accompanying signature]"))
  acc.merge(strict)


def _evaluate(case, data, cfg, doc, acc, reading):
  focus = case.get("focus", "tf")
  refdoc = R.interpret(data, cfg, **reading)

  hints = {}
  doc_unspec = refdoc.notes & UNSPEC_DOC

  # expected paragraphs: members that start before the programme start are dropped
  exp_pars = []
  n_dropped = 0
  partial = False
  for para in refdoc.paragraphs:
    keep = [m for m in para if not m.dropped]
    n_dropped += len(para) - len(keep)
    if keep and len(keep) != len(para):
      partial = True
    if keep:
      exp_pars.append(keep)
  member_unspec = any(("bad-label" in m.notes or "tco-before-tci" in m.notes or "ebn-order" in m.notes) for para in refdoc.paragraphs for m in para)

  features = []
  if partial and not doc_unspec and not member_unspec:
    # how the text of a dropped member accumulates is not fixed by the statement; that every *kept* member shows its own text
    # from its time code in to its time code out is: probed in the middle of that interval
    import re as _re
    from ttconv.isd import ISD as _ISD
    for para in refdoc.paragraphs:
      for m in para:
        if m.dropped or m.begin is None or m.end is None or not m.end > m.begin:
          continue
        letters = _re.sub(rb"[^A-Za-z]", b"", m.tf).decode("ascii")
        if not letters:
          continue
        t = (m.begin + m.end) / 2
        isd = _ISD.from_model(doc, t)
        shown = "".join(ch for reg in isd.iter_regions() for b in reg for e in b.dfs_iterator() if isinstance(e, model.Text) for ch in e.get_text() if ch.isalpha())
        if letters not in shown:
          acc.violation("C09.visible", "cumulative-set-partially-dropped:kept-member-not-visible", case, observed=shown, expected=letters,
                        note=f"subtitle SN={m.sn} (CS={m.cs}) begins after the programme start and is not visible at t={t} (middle of its interval)")
          acc.case("unspecified:cumulative-partially-dropped", nontrivial=True)
          return
  if doc_unspec or partial or member_unspec:
    # nothing that the statement fixes; the reader must still not crash (it did not)
    why = sorted(doc_unspec) or (["cumulative-partially-dropped"] if partial else ["label-or-chain-unspecified"])
    acc.case("unspecified:" + why[0], nontrivial=False)
    return

  obs_pars = obs_paragraphs(doc)
  if len(obs_pars) != len(exp_pars):
    if n_dropped:
      clause, disc = "C09.drop", ("kept" if len(obs_pars) > len(exp_pars) else "lost")
    elif refdoc.skipped_blocks:
      clause, disc = "C09.ebn", ("skipped-block-shown" if len(obs_pars) > len(exp_pars) else "subtitle-lost")
    else:
      clause, disc = "C09.count", ("more" if len(obs_pars) > len(exp_pars) else "fewer")
    acc.violation(clause, disc, case, observed=len(obs_pars), expected=len(exp_pars),
                  note="number of paragraphs (subtitles / cumulative sets) in the document")
    acc.case("count-mismatch", nontrivial=True)
    return

  visible_chars = 0
  all_text_ok = True
  for para, op in zip(exp_pars, obs_pars):
    cumulative = para[0].cs != 0
    if len(op["members"]) != len(para):
      acc.violation("C09.cumulative", "members", case, observed=len(op["members"]), expected=len(para),
                    note="members of the cumulative set inside the paragraph")
      all_text_ok = False
      continue
    for m, (el, b, e) in zip(para, op["members"]):
      # -- time
      if b != m.begin:
        acc.violation("C09.time.begin", f"rate={refdoc.rate},d={_dsign(b, m.begin)}", case, observed=b, expected=m.begin,
                      note=f"TCI={m.tci} start={refdoc.start}")
      if e != m.end:
        acc.violation("C09.time.end", f"rate={refdoc.rate},d={_dsign(e, m.end)}", case, observed=e, expected=m.end,
                      note=f"TCO={m.tco} start={refdoc.start}")
      # -- text, styles
      if m.notes & UNSPEC_TEXT:
        features.append("text-unspecified")
        continue
      ol = obs_lines(el)
      scratch = Acc()
      ok = compare_text(scratch, case, m.lines, m.notes, ol, hints)
      if not ok and m.blocks > 1 and len(m.tf) <= R.TF_SIZE:
        # is the mismatch one of the chain (C09.ebn) or of the text field interpretation (C09.text)?  A chain must read
        # like ONE block that holds the concatenated text; if it does, the mismatch belongs to the text clause.
        g1 = {k: (bytes(v) if isinstance(v, (bytes, bytearray, list)) else v) for k, v in (case.get("gsi") or {}).items()}
        one = stl_reader.to_model(io.BytesIO(R.stl_file(g1, [{"sn": 1, "tf": m.tf}])), None)
        one_pars = obs_paragraphs(one)
        same = len(one_pars) == 1 and _plain(obs_lines(one_pars[0]["el"])) == _plain(ol)
        if not same:
          for (_c, d), (_n, recs) in scratch.viol.items():
            acc.violation("C09.ebn", "chain-differs-from-single-block:" + d, case, observed=recs[0]["observed"], expected=recs[0]["expected"],
                          note="an extension chain does not read like one block holding the concatenated text fields")
          scratch.viol.clear()
      acc.merge(scratch)
      all_text_ok = all_text_ok and ok
      nchars = sum(1 for ln in m.lines for c in ln if c[0] == "c")
      visible_chars += nchars
      if nchars:
        # characters are aligned row by row, spaces ignored: possible whenever rows and per-row character counts agree
        compare_styles(acc, case, m.lines, m.notes, ol, refdoc.teletext)
    # -- alignment, region (first member describes the paragraph)
    m0 = para[0]
    jcs = {m.jc for m in para}
    if len(jcs) == 1 and m0.jc in R.JC_ALIGN:
      ta = op["el"].get_style(styles.StyleProperties.TextAlign)
      got = ta.name if ta is not None else None
      if got != R.JC_ALIGN[m0.jc]:
        acc.violation("C09.align", f"jc={m0.jc}", case, observed=got, expected=R.JC_ALIGN[m0.jc])
    if not cumulative and focus in ("attr", "config", "tf-region"):
      if any(c[0] == "c" for ln in m0.lines for c in ln):
        features.append("region:" + compare_region(acc, case, refdoc, m0, op["el"]))

  # -- configuration clauses (documented in README.md, pinned by test_stl_reader_config.py): isolated
  if focus == "config":
    body = doc.get_body()
    flg = body.get_style(styles.StyleProperties.FillLineGap)
    if bool(flg) != (not cfg.get("disable_fill_line_gap", False)):
      acc.violation("C09.config.fill-line-gap", f"disable={cfg.get('disable_fill_line_gap')}", case, observed=flg,
                    expected=not cfg.get("disable_fill_line_gap", False))
    lp = body.get_style(styles.StyleProperties.LinePadding)
    has_lp = lp is not None and lp.value != 0
    if has_lp != (not cfg.get("disable_line_padding", False)):
      acc.violation("C09.config.line-padding", f"disable={cfg.get('disable_line_padding')}", case, observed=repr(lp),
                    expected="padding" if not cfg.get("disable_line_padding", False) else "none")
    ff = body.get_style(styles.StyleProperties.FontFamily)
    want = ("Verdana", "Arial", "Tiresias", "sansSerif") if cfg.get("font_stack") is None else tuple(x.strip() for x in cfg["font_stack"].split(","))
    got = tuple((x.value if isinstance(x, styles.GenericFontFamilyType) else x) for x in (ff or ()))
    if got != want:
      acc.violation("C09.config.font-stack", "value", case, observed=got, expected=want)

  # -- snapshots: what is visible at t (C09.cumulative / C09.drop through the ISD)
  if case.get("probe"):
    probe_snapshots(acc, case, refdoc, exp_pars, doc)

  # -- bookkeeping
  nt = visible_chars > 0 and bool(case.get("nt", True))
  out = []
  if not exp_pars:
    out.append("no-subtitle" + ("/dropped" if n_dropped else "") + ("/skipped-blocks" if refdoc.skipped_blocks else ""))
  else:
    m_all = [m for para in exp_pars for m in para]
    rows = max(len(_ref_text_lines(m.lines)) for m in m_all)
    styled = any(c[2] != R.default_pen(refdoc.teletext).snap() for m in m_all for ln in m.lines for c in ln if c[0] == "c")
    out.append("empty-text" if visible_chars == 0 else ("rows=" + str(min(rows, 3))))
    if styled:
      out.append("styled")
    if any(len(p) > 1 for p in exp_pars):
      out.append("cumulative")
    if n_dropped:
      out.append("some-dropped")
    if refdoc.skipped_blocks:
      out.append("skipped-blocks")
    if any(m.blocks > 1 for m in m_all):
      out.append("chain")
    out.extend(sorted(set(features)))
  acc.case("/".join(out), nontrivial=nt)


def _dsign(a, b):
  if a is None or b is None:
    return "none"
  return "later" if a > b else "earlier"


def probe_snapshots(acc, case, refdoc, exp_pars, doc):
  times = set()
  for para in exp_pars:
    for m in para:
      times.add(m.begin)
      times.add(m.end)
  ts = sorted(times)
  probes = set(ts)
  for a, b in zip(ts, ts[1:]):
    probes.add((a + b) / 2)
  if ts:
    probes.add(ts[-1] + 1)
    if ts[0] > 0:
      probes.add(ts[0] / 2)
  for t in sorted(probes):
    want = []
    for para in exp_pars:
      rows = []
      for m in para:
        if m.begin <= t < m.end:
          rows.extend(ref_line_str(rl) for rl in _ref_text_lines(m.lines))
      if rows:
        want.append(tuple(rows))
    isd = ISD.from_model(doc, t)
    got = []
    for region in isd.iter_regions():
      for e in region.dfs_iterator():
        if isinstance(e, model.P):
          rows = [R.normalise_ws("".join(ch for ch, _ in ln)) for ln in _obs_text_lines(obs_lines(e))]
          if rows:
            got.append(tuple(rows))
    acc.count("isd_probes")
    if sorted(want) != sorted(got):
      cum = any(len(p) > 1 for p in exp_pars)
      clause = "C09.cumulative" if cum else "C09.visible"
      acc.violation(clause, "snapshot", dict(case), observed={"t": t, "paragraphs": sorted(got)},
                    expected={"t": t, "paragraphs": sorted(want)}, note="paragraphs visible at t (ISD.from_model)")
      return


# ---------------------------------------------------------------------------------------------------
# shrinking


def shrink_case(case):
  ttis = case["ttis"]
  # drop a block
  if len(ttis) > 1:
    for i in range(len(ttis)):
      c = dict(case)
      c["ttis"] = ttis[:i] + ttis[i + 1:]
      yield c
  # shorten a text field
  for i, t in enumerate(ttis):
    tf = bytes(t.get("tf", b""))
    for j in range(len(tf)):
      c = dict(case)
      t2 = dict(t)
      t2["tf"] = tf[:j] + tf[j + 1:]
      c["ttis"] = ttis[:i] + [t2] + ttis[i + 1:]
      yield c
  # default a block attribute
  for i, t in enumerate(ttis):
    for k, dv in (("cs", 0), ("jc", 2), ("vp", 20), ("cf", 0), ("tci", [0, 0, 0, 0])):
      if k not in t:
        continue
      cur = list(t[k]) if isinstance(dv, list) else t[k]
      if cur != dv:
        c = dict(case)
        t2 = dict(t)
        t2[k] = dv
        c["ttis"] = ttis[:i] + [t2] + ttis[i + 1:]
        yield c
  # drop a configuration option
  for k in list((case.get("config") or {}).keys()):
    c = dict(case)
    c["config"] = {kk: v for kk, v in case["config"].items() if kk != k}
    yield c


def _fam(name, n, decode, note="", timeout=20.0):
  return Family(name, n, decode, check_case, shrink=shrink_case, timeout=timeout, note=note)


# ---------------------------------------------------------------------------------------------------
# families: text field

A_COMMON = [b"A", b"b", b" ", b"\xc2e", b"\x8a", b"\x8f"]
A_TELETEXT = A_COMMON + [b"\x01", b"\x06", b"\x07", b"\x1d", b"\x1c", b"\x0b", b"\x0a", b"\x0d", b"\x00"]
A_OPEN = A_COMMON + [b"\x01", b"\x07", b"\x1d", b"\x1c", b"\x80", b"\x81", b"\x82", b"\x83", b"\x84", b"\x85"]
A_CORE = [b"A", b" ", b"\xc2e", b"\x8a", b"\x8f", b"\x01", b"\x1d", b"\x0d", b"\x80"]
A_UNION = A_COMMON + [b"\x01", b"\x06", b"\x07", b"\x1d", b"\x1c", b"\x0b", b"\x0a", b"\x0d", b"\x00",
                      b"\x80", b"\x81", b"\x82", b"\x83", b"\x84", b"\x85"]


def _strings_family(name, alphabet, max_len, dsc, note):
  """all strings of length 0..max_len: index -> (length, mixed radix digits)"""
  k = len(alphabet)
  starts = [0]
  for ln in range(0, max_len + 1):
    starts.append(starts[-1] + k ** ln)
  total = starts[-1]

  def decode(i):
    ln = 0
    while i >= starts[ln + 1]:
      ln += 1
    j = i - starts[ln]
    parts = []
    for _ in range(ln):
      j, r = divmod(j, k)
      parts.append(alphabet[r])
    parts.reverse()
    tf = b"".join(parts)
    trivial = all(p in (b"A", b"b") for p in parts)
    return {"focus": "tf", "gsi": {"dsc": dsc, "cct": b"00"}, "ttis": [{"sn": 1, "tf": tf, "vp": 20}], "nt": not trivial}
  return _fam(name, total, decode, note)


# ---------------------------------------------------------------------------------------------------
# families: character sets

LETTERS = "ABCDEFGHIJKLMNOPQRSTUVWXYZabcdefghijklmnopqrstuvwxyz "


def fam_charset_single(cct):
  def decode(i):
    b = 0x20 + i
    return {"focus": "charset", "gsi": {"dsc": b"1", "cct": cct.encode()}, "ttis": [{"sn": 1, "tf": b"x" + bytes([b]) + b"x"}],
            "byte": b}
  return Family(f"F-charset-{cct}-single", 0x100 - 0x20, decode, check_charset, shrink=None, timeout=20,
                note=f"every byte 20h..FFh between two letters under CCT {cct}")


def fam_charset_pairs():
  prod = Product([list(range(0xC1, 0xD0)), list(LETTERS)])

  def decode(i):
    d, letter = prod.decode(i)
    return {"focus": "charset", "gsi": {"dsc": b"1", "cct": b"00"},
            "ttis": [{"sn": 1, "tf": b"x" + bytes([d]) + letter.encode("ascii") + b"x"}], "pair": [d, letter]}
  return Family("F-charset-00-pairs", prod.n, decode, check_charset, shrink=None, timeout=20,
                note="every diacritic byte C1h..CFh followed by A-Z, a-z, space, between two letters")


def check_charset(case, acc):
  """x <byte(s)> x : the decoded character between the two x"""
  data = build_file(case)
  cct = bytes(case["gsi"]["cct"]).decode()
  doc = stl_reader.to_model(io.BytesIO(data), None)
  pars = obs_paragraphs(doc)
  if len(pars) != 1:
    acc.case("count-mismatch", nontrivial=True)
    acc.violation("C09.count", "fewer" if not pars else "more", case, observed=len(pars), expected=1,
                  note="number of paragraphs (subtitles / cumulative sets) in the document")
    return
  text = "".join(ch for p in pars for ln in obs_lines(p["el"]) for ch, _ in ln)
  tf = bytes(case["ttis"][0]["tf"])
  body = tf[1:-1]
  if "pair" in case:
    d, letter = case["pair"]
    want = R.iso6937_pair(int(d), letter)
    adm = None if want is None else {want}
    clause = "C09.charset.6937.pair"
    disc = f"{int(d):02X}+{letter if letter != ' ' else 'SP'}"
  else:
    b = int(case["byte"])
    if cct == "00" and 0xC1 <= b <= 0xCF:
      adm = None     # a diacritic followed by 'x': C?x pairs are covered by the pair family
    elif b == 0x20:
      adm = {" "}
    elif b < 0x20 or 0x80 <= b <= 0x9F:
      adm = None
    else:
      adm = R.decode_char(cct, b)
    clause = "C09.charset.6937.single" if cct == "00" else f"C09.charset.8859.cct{cct}"
    disc = f"byte={b:02X}"
  if adm is None:
    acc.case("unspecified-position", nontrivial=False)
    return
  ok = len(text) >= 2 and text[0] == "x" and text[-1] == "x" and text[1:-1] in adm
  nontrivial = not (len(body) == 1 and 0x20 <= body[0] <= 0x7E and body[0] != 0x24)
  acc.case("ascii" if not nontrivial else ("composed" if "pair" in case else "table"), nontrivial=nontrivial)
  if not ok:
    acc.violation(clause, disc, case, observed=text, expected=["x" + a + "x" for a in sorted(adm)],
                  note=f"CCT {cct}: decoding of {body.hex()} between two 'x'")


# ---------------------------------------------------------------------------------------------------
# families: block sequences


def fam_ebn(nblocks):
  per = Product([[0x00, 0x01, 0xEF, 0xF0, 0xFE, 0xFF], [0, 1], [0, 1]])      # EBN, CF, SN step (0 = same as previous, 1 = next)
  prod = Product([range(per.n)] * nblocks)
  texts = [b"Aa ", b"Bb ", b"Cc ", b"Dd "]

  def decode(i):
    ttis = []
    sn = 1
    for bi, code in enumerate(prod.decode(i)):
      ebn, cf, step = per.decode(code)
      if bi > 0:
        sn += step
      ttis.append({"sn": sn, "ebn": ebn, "cf": cf, "tf": texts[bi], "tci": [0, 0, 1 + bi, 0], "tco": [0, 0, 9, 0]})
    nt = len({t["sn"] for t in ttis}) < len(ttis) or any(t["ebn"] != 0xFF or t["cf"] for t in ttis)
    return {"focus": "ebn", "gsi": {"dsc": b"1"}, "ttis": ttis, "probe": True, "nt": nt}
  return _fam(f"F-ebn[{nblocks}]", prod.n, decode, "blocks over EBN {0,1,EF,F0,FE,FF} x CF {0,1} x SN {same,next}")


A_CHAIN = [b"A", b" ", b"\x8a", b"\x8f", b"\x06"]


def fam_chain(max_len):
  """an extension chain of two blocks: every pair of text fields of length <= max_len over a small alphabet"""
  strs = [b""]
  frontier = [b""]
  for _ in range(max_len):
    frontier = [x + a for x in frontier for a in A_CHAIN]
    strs.extend(frontier)
  prod = Product([strs, strs, [b"1", b"0"]])

  def decode(i):
    t1, t2, dsc = prod.decode(i)
    ttis = [{"sn": 7, "ebn": 0, "tf": b"x" + t1, "tci": [0, 0, 1, 0], "tco": [0, 0, 2, 0]},
            {"sn": 7, "ebn": 0xFF, "tf": t2 + b"y", "tci": [0, 0, 1, 0], "tco": [0, 0, 2, 0]}]
    return {"focus": "ebn", "gsi": {"dsc": dsc}, "ttis": ttis, "nt": True}
  return _fam(f"F-chain[<={max_len}]", prod.n, decode, "two-block extension chain: x<tf1> | <tf2>y over {A, space, newline, 8Fh, colour}")


def fam_full():
  """text fields that use (almost) all 112 bytes: with 2, 1 and 0 unused-space bytes at the end, alone and in extension chains"""
  def field(n, rows):
    # `rows` rows of distinct characters separated by newline codes, n bytes in total, the last byte is 'Z'
    body = []
    per = (n - (rows - 1)) // rows
    for r in range(rows):
      ln = per if r < rows - 1 else n - (rows - 1) - per * (rows - 1)
      body.append(bytes(0x41 + (r * 7 + k) % 25 for k in range(ln)))
    tf = b"\x8a".join(body)
    assert len(tf) == n
    return tf[:-1] + b"Z"
  items = []
  for n in (109, 110, 111, 112):
    for rows in (1, 2, 3):
      for dsc in (b"1", b"0"):
        for shape in ("single", "first-of-chain", "last-of-chain", "both"):
          items.append((n, rows, dsc, shape))

  def decode(i):
    n, rows, dsc, shape = items[i]
    tf = field(n, rows)
    if shape == "single":
      ttis = [{"sn": 3, "ebn": 0xFF, "tf": tf, "tci": [0, 0, 1, 0], "tco": [0, 0, 2, 0]}]
    elif shape == "first-of-chain":
      ttis = [{"sn": 3, "ebn": 0, "tf": tf, "tci": [0, 0, 1, 0], "tco": [0, 0, 2, 0]},
              {"sn": 3, "ebn": 0xFF, "tf": b"lmn", "tci": [0, 0, 1, 0], "tco": [0, 0, 2, 0]}]
    elif shape == "last-of-chain":
      ttis = [{"sn": 3, "ebn": 0, "tf": b"lmn", "tci": [0, 0, 1, 0], "tco": [0, 0, 2, 0]},
              {"sn": 3, "ebn": 0xFF, "tf": tf, "tci": [0, 0, 1, 0], "tco": [0, 0, 2, 0]}]
    else:
      ttis = [{"sn": 3, "ebn": 0, "tf": tf, "tci": [0, 0, 1, 0], "tco": [0, 0, 2, 0]},
              {"sn": 3, "ebn": 0xFF, "tf": field(n, 1), "tci": [0, 0, 1, 0], "tco": [0, 0, 2, 0]}]
    return {"focus": "ebn", "gsi": {"dsc": dsc}, "ttis": ttis, "nt": True}
  return _fam("F-full", len(items), decode, "text fields of 109..112 used bytes (112 = no unused-space byte at all) x 1-3 rows x single block / extension chains")


SCHEDULES = [
  # (tci seconds, tco seconds) per subtitle: common end / staggered
  [(1, 9), (2, 9), (3, 9), (4, 9)],
  [(1, 3), (2, 5), (4, 6), (5, 8)],
  # the second subtitle begins before the first (and before a programme start of 2 s, which the first reaches): a cumulative set
  # whose first member is dropped must not accumulate onto the subtitle in front of it
  [(3, 4), (1, 9), (4, 9), (5, 9)],
]


def fam_cs(nsub):
  prod = Product([[0, 1, 2, 3]] * nsub + [[0, 1, 2], [None, "00:00:00:00", "00:00:02:00"], [0, 255, 300, 65535 - nsub]])
  texts = [b"\x0b\x0bOne\x0a\x0a", b"\x0b\x0bTwo  \x0a\x0a", b"\x06Three", b"Four"]

  def decode(i):
    ch = prod.decode(i)
    cs_list, sched, pst, sn0 = ch[:nsub], SCHEDULES[ch[nsub]], ch[nsub + 1], ch[nsub + 2]
    ttis = []
    for k in range(nsub):
      ttis.append({"sn": sn0 + k, "cs": cs_list[k], "tf": texts[k], "tci": [0, 0, sched[k][0], 0], "tco": [0, 0, sched[k][1], 0],
                   "vp": 16 + 2 * k})
    cfg = {} if pst is None else {"program_start_tc": pst}
    return {"focus": "cs", "gsi": {"dsc": b"1"}, "ttis": ttis, "config": cfg, "probe": True,
            "nt": any(cs_list) or pst is not None}
  return _fam(f"F-cs[{nsub}]", prod.n, decode, "subtitles over CS 0..3 x {common end, staggered} x programme start {-,0,2s} x first SN {0,255,300,65535-n}")


LINES = {
  (1, False): b"One", (2, False): b"One\x8aTwo", (3, False): b"One\x8aTwo\x8a\x8aFour",
  (1, True): b"\x0dOne", (2, True): b"\x0dOne\x8a\x8a\x0dTwo", (3, True): b"\x0dOne\x8a\x8a\x0dTwo\x8a\x8a\x0dThree",
}


def fam_attr():
  modes = [(b"1", None), (b"2", "MNR"), (b"0", None), (b"0", "MNR"), (b"0", 11), (b" ", 11)]
  prod = Product([[0, 1, 2, 3], [0, 1, 11, 12, 22, 23], [1, 2, 3], [False, True], modes, [11, 23, 30]])

  def decode(i):
    jc, vp, nl, dh, (dsc, mrc), mnr = prod.decode(i)
    cfg = {} if mrc is None else {"max_row_count": mrc}
    return {"focus": "attr", "gsi": {"dsc": dsc, "mnr": mnr}, "ttis": [{"sn": 1, "jc": jc, "vp": vp, "tf": LINES[(nl, dh)]}],
            "config": cfg, "nt": True}
  return _fam("F-attr", prod.n, decode, "JC x VP x rows of text x double height x display standard/row-count configuration x MNR")


def fam_attr_pairs():
  """two subtitles in one file whose regions may coincide in geometry but differ in anchoring (VP 1 / top of the safe area
  versus a bottom subtitle ending on the last row), in both orders"""
  shapes = [(1, 1), (1, 2), (2, 1), (11, 1), (12, 2), (21, 3), (22, 2), (23, 1), (22, 1)]
  prod = Product([shapes, shapes, [0, 2], [(b"1", None), (b"0", 11)]])

  def decode(i):
    (vp1, n1), (vp2, n2), jc, (dsc, mrc) = prod.decode(i)
    cfg = {} if mrc is None else {"max_row_count": mrc}
    if mrc == 11:
      vp1, vp2 = min(vp1, 11), min(vp2, 11)
    ttis = [{"sn": 1, "jc": jc, "vp": vp1, "tf": LINES[(n1, False)], "tci": [0, 0, 1, 0], "tco": [0, 0, 2, 0]},
            {"sn": 2, "jc": jc, "vp": vp2, "tf": LINES[(n2, False)], "tci": [0, 0, 3, 0], "tco": [0, 0, 4, 0]}]
    return {"focus": "attr", "gsi": {"dsc": dsc, "mnr": 23}, "ttis": ttis, "config": cfg, "nt": True}
  return _fam("F-attr-pairs", prod.n, decode, "two subtitles: (VP, rows) x (VP, rows) x JC x display standard")


def fam_attr_pairs_fine():
  """open subtitles on a fine row grid (99 rows: one row is less than 1 % of the height): two subtitles whose vertical
  positions differ by one row must not share a region"""
  shapes = [(3, 1), (4, 1), (5, 1), (50, 2), (51, 2), (65, 1), (66, 1), (98, 1), (99, 1)]
  prod = Product([shapes, shapes, [99, "MNR"]])

  def decode(i):
    (vp1, n1), (vp2, n2), mrc = prod.decode(i)
    ttis = [{"sn": 1, "jc": 2, "vp": vp1, "tf": LINES[(n1, False)], "tci": [0, 0, 1, 0], "tco": [0, 0, 2, 0]},
            {"sn": 2, "jc": 2, "vp": vp2, "tf": LINES[(n2, False)], "tci": [0, 0, 3, 0], "tco": [0, 0, 4, 0]}]
    return {"focus": "attr", "gsi": {"dsc": b"0", "mnr": 99}, "ttis": ttis, "config": {"max_row_count": mrc}, "nt": True}
  return _fam("F-attr-pairs-fine", prod.n, decode, "two open subtitles on a 99-row grid: (VP, rows) x (VP, rows) incl. neighbouring rows x row count from configuration / MNR")


def fam_dropped_chain():
  """a subtitle made of an extension chain that is dropped (starts before the programme start, or TCO < TCI), followed by
  ordinary subtitles: nothing of the dropped one may leak into the following ones"""
  prod = Product([[1, 2], ["before-start", "tco<tci"], [None, "00:00:05:00"], [0, 1], [1, 2]])

  def decode(i):
    next_blocks, why, pst, cs, follow = prod.decode(i)
    tci, tco = ([0, 0, 1, 0], [0, 0, 2, 0]) if why == "before-start" else ([0, 0, 9, 0], [0, 0, 8, 0])
    ttis = []
    for k in range(next_blocks):
      ttis.append({"sn": 1, "ebn": k, "tf": b"EARLY%d " % k, "tci": tci, "tco": tco})
    ttis.append({"sn": 1, "ebn": 0xFF, "tf": b"LAST", "tci": tci, "tco": tco})
    for k in range(follow):
      ttis.append({"sn": 2 + k, "cs": cs if k == 0 and follow == 1 else 0, "tf": b"FIRST" if k == 0 else b"SECOND", "tci": [0, 0, 10 + 2 * k, 0], "tco": [0, 0, 11 + 2 * k, 0]})
    cfg = {} if pst is None else {"program_start_tc": pst}
    return {"focus": "ebn", "gsi": {"dsc": b"1"}, "ttis": ttis, "config": cfg, "probe": True, "nt": True}
  return _fam("F-dropped-chain", prod.n, decode, "multi-block subtitle that is dropped, followed by ordinary subtitles")


# ---------------------------------------------------------------------------------------------------
# families: time codes

DFCS = ["STL23.01", "STL24.01", "STL25.01", "STL30.01", "STL50.01"]


def _grid(dfc):
  n = R.nominal(R.DFC_RATE[dfc])
  return [(h, m, s, f) for h in (0, 1, 23) for m in (0, 1, 9, 10, 59) for s in (0, 59) for f in range(n)]


def _succ(label, n):
  h, m, s, f = label
  f += 1
  if f >= n:
    f = 0
    s += 1
    if s >= 60:
      s = 0
      m += 1
      if m >= 60:
        m = 0
        h += 1
  return (h, m, s, f)


def _l8(label):
  return ("%02d%02d%02d%02d" % tuple(label)).encode()


def _ltxt(label, sep=":"):
  return "%02d:%02d:%02d%s%02d" % (label[0], label[1], label[2], sep, label[3])


STARTS = ["none", "tcp=label", "tcp=next", "literal=label", "literal=zero", "tcp=00:01:00:02"]


def fam_time(dfc):
  grid = _grid(dfc)
  n = R.nominal(R.DFC_RATE[dfc])
  prod = Product([range(len(grid)), STARTS])
  last = (23, 59, 59, n - 1)

  def decode(i):
    gi, st = prod.decode(i)
    lab = grid[gi]
    gsi = {"dfc": dfc.encode(), "dsc": b"1"}
    cfg = {}
    if st == "tcp=label":
      gsi["tcp"] = _l8(lab)
      cfg["program_start_tc"] = "TCP"
    elif st == "tcp=next":
      gsi["tcp"] = _l8(_succ(lab, n)) if lab != last else _l8(lab)
      cfg["program_start_tc"] = "TCP"
    elif st == "literal=label":
      cfg["program_start_tc"] = _ltxt(lab, ";" if (dfc == "STL30.01" and gi % 2) else ":")
    elif st == "literal=zero":
      cfg["program_start_tc"] = "00:00:00:00"
    elif st == "tcp=00:01:00:02":
      gsi["tcp"] = b"00010002"
      cfg["program_start_tc"] = "TCP"
    ttis = [
      {"sn": 1, "tci": list(lab), "tco": list(lab), "tf": b"One"},
      {"sn": 2, "tci": list(lab), "tco": list(last), "tf": b"Two"},
      {"sn": 3, "tci": [0, 0, 0, 0], "tco": list(lab), "tf": b"Three"},
    ]
    return {"focus": "time", "gsi": gsi, "ttis": ttis, "config": cfg, "nt": lab != (0, 0, 0, 0) or st != "none"}
  return _fam(f"F-time-{dfc}", prod.n, decode, "TCI/TCO label grid x programme start")


# ---------------------------------------------------------------------------------------------------
# families: configuration

def fam_config():
  prod = Product([
    [None, "TCP", "00:00:01:00"],           # program_start_tc
    [None, "MNR", 11],                      # max_row_count
    [None, False, True],                    # disable_fill_line_gap
    [None, False, True],                    # disable_line_padding
    [None, "Times New Roman, serif"],       # font_stack
    [b"1", b"0"],                           # DSC
    [2, 9, 20],                             # VP
  ])

  def decode(i):
    pst, mrc, dflg, dlp, fs, dsc, vp = prod.decode(i)
    cfg = {}
    for k, v in (("program_start_tc", pst), ("max_row_count", mrc), ("disable_fill_line_gap", dflg), ("disable_line_padding", dlp),
                 ("font_stack", fs)):
      if v is not None:
        cfg[k] = v
    ttis = [
      {"sn": 1, "tci": [0, 0, 0, 10], "tco": [0, 0, 2, 0], "tf": b"Early", "vp": vp},
      {"sn": 2, "tci": [0, 0, 1, 0], "tco": [0, 0, 3, 0], "tf": b"\x01At\x8aStart", "vp": vp, "jc": 1},
      {"sn": 3, "tci": [0, 0, 4, 0], "tco": [0, 0, 5, 0], "tf": b"Late\x8aTwo\x8aRows", "vp": vp, "jc": 3},
    ]
    return {"focus": "config", "gsi": {"dsc": dsc, "tcp": b"00000100", "mnr": 14}, "ttis": ttis, "config": cfg, "probe": True,
            "nt": bool(cfg)}
  return _fam("F-config", prod.n, decode, "the reader configuration product x display standard x VP")


def fam_gsi_invalid():
  cases = []
  for dsc in (b"1", b"0"):
    for tci in ([0, 0, 1, 0], [0, 0, 30, 0]):
      for tcp in (b"        ", b"0000000x"):
        cases.append({"gsi": {"dsc": dsc, "tcp": tcp}, "config": {"program_start_tc": "TCP"}, "field": "tcp", "tci": tci})
      for mnr in (b"  ", b"xx"):
        cases.append({"gsi": {"dsc": dsc, "mnr": mnr}, "config": {"max_row_count": "MNR"}, "field": "mnr", "tci": tci})

  def decode(i):
    c = dict(cases[i])
    tci = c.pop("tci")
    c.update({"focus": "gsi", "ttis": [{"sn": 1, "tf": b"One", "tci": tci, "tco": [0, 1, 0, 0]}], "nt": True})
    return c

  def check(case, acc):
    # a TCP / MNR field that is not a number leaves the offset / the row count unspecified (the reader logs an error
    # and means to fall back to no offset / 23 rows); the subtitles must still be read
    data = build_file(case)
    acc.case("invalid-gsi-field", nontrivial=True)
    try:
      doc = stl_reader.to_model(io.BytesIO(data), build_config(case.get("config")))
    except Exception as e:  # pylint: disable=broad-except
      acc.violation("C09.gsi-invalid", f"{case['field']}:{exc_disc(e)}", case, observed=repr(e), expected="the subtitle 'One'",
                    note="exception while reading a file whose GSI field is not a number")
      return
    pars = obs_paragraphs(doc)
    txt = ["".join(ch for ln in obs_lines(p["el"]) for ch, _ in ln) for p in pars]
    if txt != ["One"]:
      acc.violation("C09.gsi-invalid", f"{case['field']}:subtitles-lost", case, observed=txt, expected=["One"],
                    note="no programme start is configured / the field only concerns the row count, yet the subtitle is dropped")
  return Family("F-gsi-invalid", len(cases), decode, check, shrink=None, timeout=20,
                note="TCP / MNR fields that are not numbers while the configuration refers to them")


# ---------------------------------------------------------------------------------------------------
# plan


def plan(tier, seed):
  fams = []
  if tier == "quick":
    fams.append(_strings_family("F-tf-teletext[<=4]", A_TELETEXT, 4, b"1", "all strings over the teletext alphabet"))
    fams.append(_strings_family("F-tf-open[<=4]", A_OPEN, 4, b"0", "all strings over the open-subtitle alphabet"))
    fams.append(_strings_family("F-tf-union-teletext[<=3]", A_UNION, 3, b"2", "all strings over the union alphabet, teletext level 2"))
    fams.append(_strings_family("F-tf-union-open[<=3]", A_UNION, 3, b" ", "all strings over the union alphabet, DSC undefined"))
    fams.append(_strings_family("F-tf-core-teletext[<=5]", A_CORE, 5, b"1", "all strings over the 9-class core alphabet"))
    fams.append(_strings_family("F-tf-core-open[<=5]", A_CORE, 5, b"0", "all strings over the 9-class core alphabet"))
    fams.append(fam_chain(2))
    fams.append(fam_full())
    fams.append(fam_ebn(3))
    fams.append(fam_cs(3))
  else:
    fams.append(_strings_family("F-tf-teletext[<=5]", A_TELETEXT, 5, b"1", "all strings over the teletext alphabet"))
    fams.append(_strings_family("F-tf-open[<=5]", A_OPEN, 5, b"0", "all strings over the open-subtitle alphabet"))
    fams.append(_strings_family("F-tf-union-teletext[<=4]", A_UNION, 4, b"2", "all strings over the union alphabet, teletext level 2"))
    fams.append(_strings_family("F-tf-union-open[<=4]", A_UNION, 4, b" ", "all strings over the union alphabet, DSC undefined"))
    fams.append(_strings_family("F-tf-core-teletext[<=6]", A_CORE, 6, b"1", "all strings over the 9-class core alphabet"))
    fams.append(_strings_family("F-tf-core-open[<=6]", A_CORE, 6, b"0", "all strings over the 9-class core alphabet"))
    fams.append(fam_chain(3))
    fams.append(fam_full())
    fams.append(fam_ebn(4))
    fams.append(fam_cs(4))
  for cct in ("00", "01", "02", "03", "04"):
    fams.append(fam_charset_single(cct))
  fams.append(fam_charset_pairs())
  fams.append(fam_attr())
  fams.append(fam_attr_pairs())
  fams.append(fam_attr_pairs_fine())
  fams.append(fam_dropped_chain())
  for dfc in DFCS:
    fams.append(fam_time(dfc))
  fams.append(fam_config())
  fams.append(fam_gsi_invalid())
  return fams


# ---------------------------------------------------------------------------------------------------
# gates (DESIGN 2.8)


def _ref_text(tf, dsc=b"1", cct=b"00"):
  """text rows of a single-block subtitle as the reference reads them (hard space = ' ', soft = '')"""
  data = R.stl_file({"dsc": dsc, "cct": cct}, [{"sn": 1, "tf": tf}])
  d = R.interpret(data)
  m = d.paragraphs[0][0]
  return [ref_line_str(rl) for rl in _ref_text_lines(m.lines)], m


def gates():
  import os
  info = {}
  # (a) hand examples from EBU Tech 3264 / ISO 6937
  hand = [
    (b"\xc2e", "é"), (b"\xc8u", "ü"), (b"\xc1a", "à"), (b"\xc3o", "ô"), (b"\xc4n", "ñ"),
    (b"\xcbc", "ç"), (b"\xcfs", "š"), (b"\xcaA", "Å"), (b"\xcdo", "ő"), (b"\xcea", "ą"),
    (b"\xc7Z", "Ż"), (b"\xc6g", "ğ"), (b"\xc5e", "ē"), (b"\xc8 ", "¨"), (b"\xc2 ", "´"),
    (b"\xe1", "Æ"), (b"\xf1", "æ"), (b"\xe9", "Ø"), (b"\xfb", "ß"), (b"\xea", "Œ"), (b"\xa3", "£"),
    (b"\xbf", "¿"), (b"\xd3", "©"), (b"\xa8", "¤"), (b"\xab", "«"), (b"\xe8", "Ł"), (b"\xf5", "ı"),
    (b"A", "A"), (b"~", "~"),
  ]
  n = 0
  for raw, want in hand:
    if len(raw) == 2:
      got = R.iso6937_pair(raw[0], chr(raw[1]))
      ok = got == want
    else:
      got = R.latin_single(raw[0])
      ok = got == {want}
    if not ok:
      raise HarnessError(f"reference character gate failed: {raw!r} -> {got!r}, want {want!r}")
    n += 1
  # edition-dependent positions: Tech 3264 (ISO 6937/2-1983) has '$' at A4h, '#' at A6h
  if "$" not in R.latin_single(0xA4) or "#" not in R.latin_single(0xA6) or "¤" in R.latin_single(0xA4):
    raise HarnessError("reference character gate failed at A4h/A6h")
  n += 2
  if len([k for k in R.all_iso6937_pairs() if k[1] != " "]) != 156:
    raise HarnessError(f"reference repertoire gate failed: {len([k for k in R.all_iso6937_pairs() if k[1] != ' '])} pairs")
  info["hand_examples"] = n

  # time codes
  tex = [
    ((0, 0, 1, 0), "STL25.01", Fraction(1)), ((10, 0, 0, 0), "STL25.01", Fraction(36000)), ((0, 0, 0, 24), "STL25.01", Fraction(24, 25)),
    ((0, 1, 0, 2), "STL30.01", Fraction(1800 * 1001, 30000)), ((0, 10, 0, 0), "STL30.01", Fraction(17982 * 1001, 30000)),
    ((1, 0, 0, 0), "STL30.01", Fraction(107892 * 1001, 30000)), ((0, 0, 1, 0), "STL23.01", Fraction(1001, 1000)),
    ((0, 0, 0, 49), "STL50.01", Fraction(49, 50)), ((0, 1, 0, 0), "STL24.01", Fraction(60)),
  ]
  for lab, dfc, want in tex:
    got = R.label_time(lab, R.DFC_RATE[dfc])
    if got != want:
      raise HarnessError(f"reference time gate failed: {lab} {dfc} -> {got}, want {want}")
  info["hand_examples"] += len(tex)

  # text-field examples
  tfx = [
    (b"A\x8aB", b"1", ["A", "B"]), (b"Hello\x06World", b"1", ["Hello World"]), (b"A  B", b"1", ["A B"]), (b"AB\x8f\x8fCD", b"1", ["AB"]),
    (b"\x0b\x0bHi\x0a\x0a", b"1", ["Hi"]), (b"A\x80B", b"0", ["A[ ]B"]), (b"\x8fA", b"1", []),
  ]
  for tf, dsc, want in tfx:
    got, _m = _ref_text(tf, dsc)
    if got != want:
      raise HarnessError(f"reference text-field gate failed: {tf!r} -> {got}, want {want}")
  _rows, m = _ref_text(b"A\x01B\x1d\x06C\x8aD", b"1")
  pens = [c[2] for ln in m.lines for c in ln if c[0] == "c"]
  if pens != [("white", "black", False, False), ("red", "black", False, False), ("cyan", "red", False, False), ("white", "black", False, False)]:
    raise HarnessError(f"reference pen gate failed: {pens}")
  info["hand_examples"] += len(tfx) + 1

  # optional cross-check of the hand-written tables against glibc's independent ISO_6937-2 (1983) / ISO_6937 (1992) converters
  if shutil.which("iconv"):
    checked = 0
    for cs, edition in (("ISO_6937-2", 0), ("ISO_6937", 1)):
      for b in range(0x20, 0x100):
        if 0xC1 <= b <= 0xCF or 0x7F <= b <= 0x9F:
          continue
        cp = subprocess.run(["iconv", "-f", cs, "-t", "UTF-8"], input=bytes([b]), capture_output=True)
        ext = cp.stdout.decode("utf-8") if cp.returncode == 0 else None
        mine = R.latin_single(b)
        if b in R._LATIN_EDITIONS:
          v = R._LATIN_EDITIONS[b][edition]
          if v != ext:
            raise HarnessError(f"table cross-check failed at {b:#x} ({cs}): mine {v!r} iconv {ext!r}")
        elif mine is None:
          if ext is not None and b != 0x7F:
            raise HarnessError(f"table cross-check failed at {b:#x} ({cs}): reference has no entry, iconv {ext!r}")
        elif ext is None or ext not in mine:
          raise HarnessError(f"table cross-check failed at {b:#x} ({cs}): mine {mine!r} iconv {ext!r}")
        checked += 1
      blob = b"".join(bytes([d, ord(letter)]) + b"\n" for (d, letter) in sorted(R.all_iso6937_pairs()) if (d, letter) != (0xC2, "g"))
      cp = subprocess.run(["iconv", "-f", cs, "-t", "UTF-8"], input=blob, capture_output=True)
      if cp.returncode != 0:
        raise HarnessError(f"table cross-check: iconv {cs} rejects a pair of the reference repertoire: {cp.stderr[:200]!r}")
      got = cp.stdout.decode("utf-8").split("\n")[:-1]
      want = [v for k, v in sorted(R.all_iso6937_pairs().items()) if k != (0xC2, "g")]
      if got != want:
        bad = [(a, b_) for a, b_ in zip(got, want) if a != b_][:5]
        raise HarnessError(f"table cross-check failed for pairs ({cs}): {bad}")
      checked += len(want)
    info["iconv_cross_checked_positions"] = checked

  # (b) the repository's own pinned expectations (test_stl_reader.py, test_stl_reader_config.py) replayed through the reference
  res = os.path.join(env.RES, "stl")
  pinned = 0

  def ref_file(rel, cfg=None):
    with open(os.path.join(res, rel), "rb") as f:
      return R.interpret(f.read(), cfg or {})

  def rows_of(m):
    return [ref_line_str(rl) for rl in _ref_text_lines(m.lines)]

  def expect(cond, what):
    nonlocal pinned
    if not cond:
      raise HarnessError(f"pinned-expectation gate failed: {what}")
    pinned += 1

  d = ref_file("irt/requirement-0056-001_modified.stl")
  expect([rows_of(p[0]) for p in d.paragraphs] == [["Subtitle 1 Group 1"], ["Subtitle 2 Group 1"], ["Subtitle 3 Group 2"], ["Subtitle 4 Group 3"]], "0056-001 texts")
  expect(len({p[0].sgn for p in d.paragraphs}) == 3, "0056-001 groups")
  r25 = Fraction(25)
  expect(ref_file("irt/requirement-0061-001.stl").paragraphs[0][0].begin == 0, "0061-001 begin")
  expect(ref_file("irt/requirement-0061-004_modified.stl").paragraphs[0][0].begin == R.label_time((23, 59, 59, 24), r25), "0061-004 begin")
  expect(ref_file("irt/requirement-0062-001.stl").paragraphs[0][0].end == 0, "0062-001 end")
  expect(ref_file("irt/requirement-0062-002_modified.stl").paragraphs[0][0].end == Fraction(24 * 3600 * 25 - 1, 25), "0062-002 end")
  for name, al in (("0067-001", "start"), ("0068-001", "center"), ("0069-001", "end")):
    expect(R.JC_ALIGN[ref_file(f"irt/requirement-{name}.stl").paragraphs[0][0].jc] == al, f"{name} align")
  expect(rows_of(ref_file("irt/requirement-0071-002.stl").paragraphs[0][0]) == ["Test1 Test2"], "0071-002 text")
  expect(len(rows_of(ref_file("irt/requirement-0074-001.stl").paragraphs[0][0])) == 2, "0074-001 two rows")

  colors = {"001": "black", "002": "white", "003": "red", "004": "lime", "005": "yellow", "006": "blue", "007": "magenta", "008": "cyan"}
  for k, col in colors.items():
    m = ref_file(f"irt/requirement-0076-{k}.stl").paragraphs[0][0]
    cs = [c[2] for ln in m.lines for c in ln if c[0] == "c"]
    expect(cs[-1][0] == col, f"0076-{k} second span colour")
  m = ref_file("irt/requirement-0076-009.stl").paragraphs[0][0]
  cs = [c[2] for ln in m.lines for c in ln if c[0] == "c"]
  expect(cs[0][1] == "white" and cs[-1][1] == "black", "0076-009 backgrounds")
  for k in ("001", "002"):
    m = ref_file(f"irt/requirement-0077-{k}.stl").paragraphs[0][0]
    cs = [c[2] for ln in m.lines for c in ln if c[0] == "c"]
    expect(cs[0][1] == "black", f"0077-{k} default background")
  for k in ("0086-001", "0087-001"):
    m = ref_file(f"irt/requirement-{k}.stl").paragraphs[0][0]
    expect(rows_of(m) == ["Test Text Test Text Test Text"] or len("".join(rows_of(m)).split("Test Text")) == 4, f"{k} three texts")
  m = ref_file("irt/requirement-0087-001.stl").paragraphs[0][0]
  cs = [c[2] for ln in m.lines for c in ln if c[0] == "c"]
  expect(cs[0][:2] == ("white", "black"), "0087-001 first span colours")
  fg90 = {"001": "black", "002": "blue", "003": "cyan", "004": "lime", "005": "magenta", "006": "red", "007": "white", "008": "yellow", "009": "white"}
  for k, col in fg90.items():
    m = ref_file(f"irt/requirement-0090-{k}.stl").paragraphs[0][0]
    cs = [c[2] for ln in m.lines for c in ln if c[0] == "c"]
    expect(cs[-1][1] == "black" and cs[-1][0] == col, f"0090-{k} second span")
  bg91 = {"001": "black", "002": "blue", "003": "cyan", "004": "lime", "005": "magenta", "006": "red", "007": "white", "008": "yellow", "009": "lime"}
  for k, col in bg91.items():
    m = ref_file(f"irt/requirement-0091-{k}.stl").paragraphs[0][0]
    cs = [c[2] for ln in m.lines for c in ln if c[0] == "c"]
    expect(cs[-1][1] == col and cs[-1][0] == "black", f"0091-{k} second span")
  m = ref_file("irt/requirement-0091-002.stl").paragraphs[0][0]
  cs = [c[2] for ln in m.lines for c in ln if c[0] == "c"]
  expect(cs[0][1] == "black", "0091-002 first span background")
  m = ref_file("sandflow/setting_background_before_startbox.stl").paragraphs[0][0]
  cs = [c[2] for ln in m.lines for c in ln if c[0] == "c"]
  expect(cs[0][1] == "yellow", "background before start box")
  expect(rows_of(ref_file("sandflow/multi_tti_subtitle.stl").paragraphs[0][0]) == ["Foo Bar Baz"], "multi TTI text")
  d = ref_file("sandflow/cumulative_set.stl")
  expect(rows_of(d.paragraphs[0][0]) == ["Not part of cumulative set."] and [rows_of(m) for m in d.paragraphs[1]] == [["1"], ["2"], ["3"], ["4"]],
         "cumulative set")
  m = ref_file("sandflow/vp20_2_newlines.stl").paragraphs[0][0]
  expect(R.row_span(m.tf) == (4, True) and abs((m.vp + 4 - 1) * 80 / 23 - 80) < 1e-9, "vp20 two double-height rows end at row 23")
  for name, fg, bg in (("br_style_reset", "white", "black"), ("br_new_colors", "yellow", "blue"), ("br_same_colors", "yellow", "magenta")):
    m = ref_file(f"sandflow/{name}.stl").paragraphs[0][0]
    cs = [c[2] for c in _ref_text_lines(m.lines)[1] if c[0] == "c"]
    expect(cs[0][:2] == (fg, bg), f"{name} second row pen")
  d = ref_file("sandflow/test_tcp_processing.stl", {"program_start_tc": "09:00:00:00"})
  m = [m for p in d.paragraphs for m in p if not m.dropped]
  expect(len(m) == 1 and m[0].begin == 3600 and m[0].end == R.label_time((1, 0, 1, 24), r25), "tcp override 001")
  d = ref_file("sandflow/test_tcp_processing.stl", {"program_start_tc": "00:00:00:00"})
  m = [m for p in d.paragraphs for m in p if not m.dropped]
  expect(len(m) == 2 and m[0].begin == 0 and m[0].end == 2 and m[1].begin == 36000 and m[1].end == R.label_time((10, 0, 1, 24), r25), "tcp override 002")
  d = ref_file("sandflow/test_tcp_processing.stl", {"program_start_tc": "TCP"})
  m = [m for p in d.paragraphs for m in p if not m.dropped]
  expect(len(m) == 1 and m[0].begin == 0 and m[0].end == R.label_time((0, 0, 1, 24), r25), "tcp override 003")
  info["pinned_expectations"] = pinned
  return info

"""C14 — snapshot acceleration and repeated use never change results or the source (DESIGN.md 3, C14).

Explicit-state search: a state is the history of operations applied to ONE document object (and one shared
SignificantTimes object).  Every transition executes the real operation on a fresh replay of the history and checks
  * source unchanged   : deep fingerprint of the document equals that of a freshly built one,
  * history independent: the result equals the result of the same operation on a pristine document,
  * cached == uncached : in every state that holds a SignificantTimes object, ISD.from_model(doc, t, sig) renders
                         identically to ISD.from_model(fresh doc, t) for every probe time t (critical times, midpoints, outside).
"""
from __future__ import annotations

import os
import io
from fractions import Fraction as F

from mc import env  # noqa
from mc.kernel import StateFamily, HarnessError
from mc import stylegen
from mc.spec import build, fp_doc, fp_isd, fp_isd_render, node, text, doc_spec, E, L
from mc.ref_isd import probe_times
from mc.props import c01

import ttconv.model as model
from ttconv.isd import ISD
import ttconv.srt.writer as srt_writer
import ttconv.vtt.writer as vtt_writer
import ttconv.imsc.writer as imsc_writer
from ttconv.srt.config import SRTWriterConfiguration
from ttconv.vtt.config import VTTWriterConfiguration
from ttconv.imsc.config import IMSCWriterConfiguration
from ttconv.imsc.attributes import TimeExpressionSyntaxEnum

ID = "C14"
LEVEL = "model_checking"
RULE = ("states = (seed document, fingerprint of the source document, canonical projection of the shared SignificantTimes "
        "cache, multiset of operation kinds executed so far capped at 2); transitions = one real operation each; a "
        "transition is non-trivial when the operation's result has content (non-empty snapshot / cue text / body)")
BOUNDS = {
  "quick": "16 seed documents x all histories of <= 3 operations over a menu of 12 (sig, 3x fm(t), 3x fmc(t), seq, srt, 2x vtt, 2x imsc)",
  "thorough": "same seeds, histories of <= 4 operations",
}
ASSUMPTIONS = [
  "two histories are merged when document fingerprint, SignificantTimes cache projection and the capped multiset of operation "
  "kinds (writer operations: kind and configuration) agree: hidden module/class state can only depend on which operations ran (and how often up to 2), which the multiset keeps",
  "render equivalence: regions without text/br leaf and without visible own background are dropped on both sides (as the statement allows)",
]

RED = stylegen.RED
TRANSP = stylegen.TRANSPARENT


def _p(pid, txt, b=None, e=None, r=None, **kw):
  return node("p", [node("span", [text(txt)], id=f"{pid}s")], id=pid, b=b, e=e, r=r, **kw)


def _body(*ps, **kw):
  return node("body", [node("div", list(ps), id="d")], id="b", **kw)


def seeds():
  S = []
  # 0 regions
  S.append(doc_spec(_body(_p("p1", "a", F(1), F(3))), []))
  # 1 region, visible background
  S.append(doc_spec(_body(_p("p1", "a", F(1), F(3), "r1")), [{"id": "r1", "st": {"BackgroundColor": RED}}]))
  # 2 regions alternating / overlapping
  S.append(doc_spec(_body(_p("p1", "a", None, F(2), "r1"), _p("p2", "b", F(1), F(3), "r2")), [{"id": "r1"}, {"id": "r2"}]))
  # 3 regions, one never used but painting
  S.append(doc_spec(_body(_p("p1", "a", F(1), F(2), "r1"), _p("p2", "b", F(3), F(4), "r2")),
                    [{"id": "r1"}, {"id": "r2"}, {"id": "r3", "st": {"BackgroundColor": RED}}]))
  # background made visible only by an animation step, outside the content interval
  S.append(doc_spec(_body(_p("p1", "a", F(3), F(4), "r1")),
                    [{"id": "r1", "st": {"BackgroundColor": TRANSP}, "an": [["BackgroundColor", F(1), F(2), RED]]}]))
  S.append(doc_spec(_body(_p("p1", "a", F(3), F(4), "r1"), _p("p2", "b", F(3), F(4), "r2")),
                    [{"id": "r1", "st": {"BackgroundColor": TRANSP}, "an": [["BackgroundColor", F(1), F(2), RED]]}, {"id": "r2"}]))
  # opacity 0 specified, animated to 1
  S.append(doc_spec(_body(_p("p1", "a", F(3), F(4), "r1")),
                    [{"id": "r1", "st": {"BackgroundColor": RED, "Opacity": 0}, "an": [["Opacity", F(1), F(2), 1.0]]}]))
  # showBackground whenActive specified, animated to always
  S.append(doc_spec(_body(_p("p1", "a", F(3), F(4), "r1")),
                    [{"id": "r1", "st": {"BackgroundColor": RED, "ShowBackground": E("ShowBackgroundType", "whenActive")},
                      "an": [["ShowBackground", F(1), F(2), E("ShowBackgroundType", "always")]]}]))
  # display none specified, animated to auto
  S.append(doc_spec(_body(_p("p1", "a", F(0), F(4), "r1")),
                    [{"id": "r1", "st": {"BackgroundColor": RED, "Display": E("DisplayType", "none")},
                      "an": [["Display", F(1), F(2), E("DisplayType", "auto")]]}]))
  # visibility hidden specified, animated to visible
  S.append(doc_spec(_body(_p("p1", "a", F(3), F(4), "r1")),
                    [{"id": "r1", "st": {"BackgroundColor": RED, "Visibility": E("VisibilityType", "hidden")},
                      "an": [["Visibility", F(1), F(2), E("VisibilityType", "visible")]]}]))
  # background through an initial value only
  S.append(doc_spec(_body(_p("p1", "a", F(3), F(4), "r1")), [{"id": "r1"}], init=[["BackgroundColor", RED]]))
  S.append(doc_spec(_body(_p("p1", "a", F(3), F(4), "r1"), _p("p2", "b", F(5), F(6), "r2")), [{"id": "r1"}, {"id": "r2"}],
                    init=[["BackgroundColor", RED], ["ShowBackground", E("ShowBackgroundType", "whenActive")]]))
  # timed regions and timed body
  S.append(doc_spec(_body(_p("p1", "a", None, F(10), "r2"), b=F(1)), [{"id": "r1", "st": {"BackgroundColor": RED}, "e": F(1, 2)}, {"id": "r2", "b": F(2), "e": F(5)}]))
  # ruby (all children timed together)
  rb = c01.ruby_node(c01.RUBY_PATTERNS[1], {})
  S.append(doc_spec(node("body", [node("div", [node("p", [node("span", [text("x")], id="s0"), rb], id="p", b=F(1), e=F(2))], id="d")], id="b"), []))
  # styled nested spans, br, two paragraphs in one region, white space
  sp = node("span", [text("bold "), node("span", [text("red")], id="s2", st={"Color": RED}), {"k": "br", "id": "br1"}, text(" tail")], id="s1",
            st={"FontWeight": E("FontWeightType", "bold"), "TextDecoration": ["td", True, None, None]})
  S.append(doc_spec(_body(node("p", [sp], id="p1", b=F(1), e=F(2), r="r1"), _p("p2", "b", F(3, 2), F(5, 2), "r1")), [{"id": "r1"}]))
  # animation on content
  S.append(doc_spec(_body(node("p", [node("span", [text("a")], id="s1", an=[["Color", F(1), F(2), RED]])], id="p1", b=F(1), e=F(4), r="r1")),
                    [{"id": "r1", "st": {"Origin": ["org", L(10, "%"), L(80, "%")], "Extent": ["ext", L(10, "%"), L(80, "%")]}}]))
  # two regions (the significant times are then computed on per-region clones of the document), an element that is never
  # active because its end is 0, open-ended content
  S.append(doc_spec(_body(_p("p1", "never", None, F(0), "r1"), _p("p2", "a", F(1), F(3), "r1"), _p("p3", "b", F(2), None, "r2"),
                          node("p", [node("span", [text("c")], id="p4s", e=F(0))], id="p4", r="r2")), [{"id": "r1"}, {"id": "r2"}]))
  # a paragraph that presents a line break and its own background but no span, outside the hull of the span intervals
  S.append(doc_spec(node("body", [node("div", [_p("p1", "a", F(0), F(2)),
                                                 node("p", [{"k": "br", "id": "br1"}], id="p2", b=F(5), e=F(7), st={"BackgroundColor": RED})], id="d")], id="b", r="r1"),
                    [{"id": "r1", "st": {"ShowBackground": E("ShowBackgroundType", "whenActive")}}]))
  # no declared region: the default region paints the background that an initial value of the document gives it
  S.append(doc_spec(_body(_p("p1", "a", F(2), F(4))), [], init=[["BackgroundColor", RED]]))
  # paragraphs with their own text alignment (what the WebVTT writer's text_align option writes out)
  S.append(doc_spec(_body(_p("p1", "a", F(1), F(2), "r1", st={"TextAlign": E("TextAlignType", "end")}),
                          _p("p2", "b", F(2), F(3), "r1", st={"TextAlign": E("TextAlignType", "center")})), [{"id": "r1"}]))
  # begin and end times that binary floating point cannot represent (3/10, 7/10, 11/10): snapshots taken exactly at them
  S.append(doc_spec(_body(_p("p1", "a", F(3, 10), F(7, 10), "r1"), _p("p2", "b", F(7, 10), F(11, 10), "r2")), [{"id": "r1", "st": {"ShowBackground": E("ShowBackgroundType", "whenActive")}}, {"id": "r2", "st": {"BackgroundColor": TRANSP}}]))
  return S


SEEDS = seeds()

KINDS = ["sig", "fm", "fmc", "seq", "srt", "vtt", "imsc"]
OPS = [["sig"], ["fm", 0], ["fm", 1], ["fm", 2], ["fmc", 0], ["fmc", 1], ["fmc", 2], ["seq"], ["srt"], ["vtt", 0], ["vtt", 1], ["vtt", 2], ["imsc", 0], ["imsc", 1]]


def _times(si):
  pr = probe_times(SEEDS[si])
  n = len(pr)
  return [pr[0], pr[n // 2], pr[-2] if n > 1 else pr[-1]]


def _apply(op, doc, st, si):
  """executes one operation on `doc` with shared state `st` (dict with 'sig'); returns a comparable result"""
  k = op[0]
  if k == "sig":
    st["sig"] = ISD.significant_times(doc)
    return ("sig", tuple(st["sig"]))
  if k == "fm":
    return ("isd", fp_isd(ISD.from_model(doc, _times(si)[op[1]])))
  if k == "fmc":
    return ("isd-render", fp_isd_render(ISD.from_model(doc, _times(si)[op[1]], st["sig"])))
  if k == "seq":
    return ("seq", tuple((t, fp_isd(i)) for t, i in ISD.generate_isd_sequence(doc)))
  if k == "srt":
    return ("srt", srt_writer.from_model(doc, SRTWriterConfiguration()))
  if k == "vtt":
    cfg = [VTTWriterConfiguration(), VTTWriterConfiguration(line_position=True, text_align=True, cue_id=False),
           VTTWriterConfiguration(text_align=True)][op[1]]      # 0 and 2 differ in text_align only
    return ("vtt", vtt_writer.from_model(doc, cfg))
  if k == "imsc":
    cfg = None if op[1] == 0 else IMSCWriterConfiguration(time_format=TimeExpressionSyntaxEnum.frames, fps=F(25))
    tree = imsc_writer.from_model(doc, cfg)
    buf = io.BytesIO()
    tree.write(buf, encoding="utf-8", xml_declaration=True)
    return ("imsc", buf.getvalue())
  raise ValueError(op)


def _enabled(st):
  return [op for op in OPS if op[0] != "fmc" or st.get("sig") is not None]


def _ekey(e):
  if isinstance(e, model.Text):
    p = e.parent()
    return ("Text", None if p is None else p.get_id(), e.get_text())
  return (type(e).__name__, e.get_id())


def _sig_canon(sig):
  if sig is None:
    return None
  out = []
  for c in sig.cache():
    out.append((c.content_interval, tuple(sorted(((_ekey(e), iv) for e, iv in c.interval_cache.items()), key=repr)), fp_doc(c.doc)))
  return (tuple(sig), tuple(out))


def _hidden_state():
  import xml.etree.ElementTree as et
  return (tuple(sorted(et._namespace_map.items())),  # pylint: disable=protected-access
          tuple(repr(sorted(vars(f).items(), key=repr)) if hasattr(f, "__dict__") else repr(f) for f in srt_writer.SrtContext.filters))


_PRISTINE = {}


def _fork_call(fn, *args):
  """runs fn(*args) in a forked child of this (pristine) process and returns its picklable result: every history, every
  pristine reference and every step is executed in a process in which nothing else has run, and that a fresh-process replay
  reproduces exactly"""
  import pickle
  r, w = os.pipe()
  pid = os.fork()
  if pid == 0:
    code = 0
    try:
      os.close(r)
      try:
        out = ("ok", fn(*args))
      except BaseException:  # pylint: disable=broad-except
        import traceback
        out = ("err", traceback.format_exc()[-3000:])
      with os.fdopen(w, "wb") as f:
        pickle.dump(out, f)
    except BaseException:  # pylint: disable=broad-except
      code = 1
    finally:
      os._exit(code)  # pylint: disable=protected-access
  os.close(w)
  with os.fdopen(r, "rb") as f:
    data = f.read()
  os.waitpid(pid, 0)
  if not data:
    raise HarnessError("forked evaluation produced no result")
  kind, val = pickle.loads(data)
  if kind == "err":
    raise HarnessError("forked evaluation failed:\n" + val)
  return val


def _pristine_compute(si, op):
  doc = build(SEEDS[si])
  st = {}
  if op[0] == "fmc":
    st["sig"] = ISD.significant_times(doc)
    # the uncached snapshot is the reference for the cached one (render equivalence)
    return ("isd-render", fp_isd_render(ISD.from_model(doc, _times(si)[op[1]])))
  return _safe(op, doc, st, si)


def _pristine(si, op):
  """the result of `op` as the very first thing that happens in a process"""
  key = (si, tuple(op))
  if key not in _PRISTINE:
    _PRISTINE[key] = _fork_call(_pristine_compute, si, op)
  return _PRISTINE[key]


def _safe(op, doc, st, si):
  try:
    return _apply(op, doc, st, si)
  except Exception as e:  # pylint: disable=broad-except
    from mc.kernel import exc_disc
    return ("raises", exc_disc(e))


def _content(res):
  k = res[0]
  if k == "raises":
    return False
  if k in ("srt", "vtt"):
    return "-->" in res[1]
  if k == "imsc":
    return b"<p" in res[1]
  return True


def _replay(history):
  si = history[0][1]
  doc = build(SEEDS[si])
  st = {}
  for op in history[1:]:
    _safe(op, doc, st, si)
  return si, doc, st


def _counts(history):
  c = {}
  for op in history[1:]:
    k = op[0] if op[0] in ("sig", "fm", "fmc", "seq") else f"{op[0]}{op[1] if len(op) > 1 else ''}"      # writers: per configuration
    c[k] = min(2, c.get(k, 0) + 1)
  return tuple(sorted(c.items()))


def _state_check(history):
  """in a forked child: replays the history, returns (violations, probes, enabled ops)"""
  si, doc, st = _replay(history)
  spec = SEEDS[si]
  pristine_fp = fp_doc(build(spec))
  case = {"history": history, "seed_spec": spec}
  viol = []
  probes = 0
  # invariant: source unchanged in the reached state
  if fp_doc(doc) != pristine_fp:
    viol.append(("C14.source-unchanged", f"after={history[-1][0]}", case, None, None, "document fingerprint changed after the history"))
  # invariant: cached snapshots render like uncached ones at EVERY probe time
  if st.get("sig") is not None:
    fresh = build(spec)
    for t in probe_times(spec):
      try:
        a = fp_isd_render(ISD.from_model(doc, t, st["sig"]))
        b = fp_isd_render(ISD.from_model(fresh, t))
      except ValueError as e:
        if "ruby" in str(e).lower():
          continue
        raise
      probes += 1
      if a != b:
        viol.append(("C14.cached-equals-uncached", _cache_disc(a, b), dict(case, t=t), _summ(a), _summ(b),
                     f"ISD.from_model(doc, {t}, sig) does not render like ISD.from_model(doc, {t})"))
        break
      # the same significant times wrapped in an object built with the public constructor (its document cache is optional)
      from ttconv.isd import SignificantTimes
      c = fp_isd_render(ISD.from_model(doc, t, SignificantTimes(list(st["sig"]))))
      if c != b:
        viol.append(("C14.cached-equals-uncached", "hand-built-significant-times," + _cache_disc(c, b), dict(case, t=t), _summ(c), _summ(b),
                     f"ISD.from_model(doc, {t}, SignificantTimes(offsets)) does not render like ISD.from_model(doc, {t})"))
        break
  return viol, probes, _enabled(st)


def _step(history, op):
  """in a forked child: replays the history, applies `op`, returns what the parent needs"""
  si2, doc2, st2 = _replay(history)
  res = _safe(op, doc2, st2, si2)
  return res, fp_doc(doc2), _sig_canon(st2.get("sig")), _hidden_state()


def expand(history, acc):
  # this process never executes an operation itself: the pristine references, the state check and every step run in forked
  # children, so that each is the only thing that happened in its process (hidden module/class state cannot leak between them,
  # and a replay in a fresh interpreter sees exactly the same sequence)
  si = history[0][1]
  spec = SEEDS[si]
  pristine_fp = _pristine_fp(si)
  viol, probes, enabled = _fork_call(_state_check, history)
  for clause, disc, case, obs, exp, note in viol:
    acc.violation(clause, disc, case, observed=obs, expected=exp, note=note)
  if probes:
    acc.count("cached-vs-uncached-probes", probes)
  succ = []
  for op in enabled:
    res, fp2, sig2, hidden = _fork_call(_step, history, op)
    want = _pristine(si, op)
    nt = _content(res)
    acc.case(f"{op[0]}:{'content' if nt else 'empty'}" if res[0] != "raises" else f"{op[0]}:raises", nontrivial=nt,
             key=(si, tuple(map(tuple, history[1:])), tuple(op)))
    h2 = history + [op]
    if res != want:
      if res[0] == "raises" or want[0] == "raises":
        acc.violation("C14.history-independent", f"op={op[0]},raises={res[1] if res[0] == 'raises' else want[1]}", {"history": history, "op": op, "seed_spec": spec},
                      observed=str(res)[:300], expected=str(want)[:300])
      elif op[0] == "fmc":
        acc.violation("C14.cached-equals-uncached", _cache_disc(res[1], want[1]), {"history": history, "op": op, "seed_spec": spec, "t": _times(si)[op[1]]},
                      observed=_summ(res[1]), expected=_summ(want[1]))
      else:
        acc.violation("C14.history-independent", f"op={op[0]}",
                      {"history": history, "op": op, "seed_spec": spec}, observed=str(res)[:600], expected=str(want)[:600],
                      note="result differs from the same operation as the first thing that happens in a process")
    if fp2 != pristine_fp:
      acc.violation("C14.source-unchanged", f"op={op[0]}", {"history": history, "op": op, "seed_spec": spec}, note="operation changed the source document")
    succ.append((op, (si, fp2, sig2, _counts(h2), hidden)))
  return succ


_PFP = {}


def _pristine_fp(si):
  if si not in _PFP:
    _PFP[si] = fp_doc(build(SEEDS[si]))
  return _PFP[si]


def _summ(fp):
  """region ids present in a render fingerprint"""
  try:
    return [r[1] for r in fp[1]]
  except Exception:  # pylint: disable=broad-except
    return str(fp)[:200]


def _cache_disc(a, b):
  ra, rb = set(_summ(a)), set(_summ(b))
  if ra != rb:
    return "region-" + ("missing" if rb - ra else "extra") + "-with-sig-times"
  return "content-differs"


def plan(tier, seed):
  depth = 3 if tier == "quick" else 4
  initial = [[["doc", i]] for i in range(len(SEEDS))]
  return [StateFamily("histories", initial, expand, depth, canon0=lambda h: ("init", h[0][1]), timeout=60,
                      note=f"{len(SEEDS)} seed documents, operations {OPS}")]

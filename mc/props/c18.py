"""C18 — readers and writers fail only in documented ways, on any input (DESIGN.md section 3, C18; engine E-dev).

Deviation-bounded exploration: grammar-generated valid seed files of the five input formats and the bundled corpus;
a finite menu of deviations per token (delete, duplicate, swap-with-next, truncate here / mid-token, replace by each
boundary value of the token's type, replace by junk); ALL executions with 0 deviations, then with 1, then (small
seeds) with 2; plus all token strings of length <= k over each format's token alphabets.

Every case feeds the reader exactly as tt.py does (text mode UTF-8 for SRT/VTT/SCC, binary for STL, ElementTree.parse
for TTML).  Every distinct returned document shape (fp_doc with text nodes reduced to their class, see RULE) goes once
per worker through the downstream stage: snapshots at all significant times and midpoints, the LCD filter under two
configurations, the SRT (2), WebVTT (4 quick / 8 thorough) and IMSC (4) writer configurations, and the
read -> LCD -> write pipeline.

Oracle clauses: C18.reader.<format> (exception type outside {ParseError, ValueError, struct.error}, or None without an
error record), C18.isd, C18.lcd, C18.writer.{srt,vtt,imsc}, C18.filtered.writer.{srt,vtt,imsc} (any exception);
termination is the kernel's C18.timeout.  Generators (seeds, tokenisers, menus, alphabets) live in mc/c18gen.py;
tools/c18_repro.py reproduces the listed findings without the kernel, tools/c18_make_known.py writes the list.
"""
from __future__ import annotations

import bisect
import io
import logging
import struct
import xml.etree.ElementTree as et
from fractions import Fraction

from mc import env  # noqa  (FIRST: puts the explored tree on sys.path)
from mc import kernel
from mc.kernel import Family, h64, exc_disc
from mc.spec import fp_doc, fp_doc_params, fp_styles, fp_anims, enc_val, PROP_NAME, KIND_OF
from mc import c18gen as g

import ttconv.model as model
import ttconv.imsc.reader as imsc_reader
import ttconv.imsc.writer as imsc_writer
import ttconv.scc.reader as scc_reader
import ttconv.srt.reader as srt_reader
import ttconv.srt.writer as srt_writer
import ttconv.stl.reader as stl_reader
import ttconv.vtt.reader as vtt_reader
import ttconv.vtt.writer as vtt_writer
from ttconv.filters.doc.lcd import LCDDocFilter, LCDDocFilterConfig
from ttconv.imsc.attributes import TimeExpressionSyntaxEnum
from ttconv.imsc.config import IMSCWriterConfiguration
from ttconv.isd import ISD
from ttconv.scc.config import SccReaderConfiguration, TextAlignment
from ttconv.srt.config import SRTWriterConfiguration
from ttconv.stl.config import STLReaderConfiguration
from ttconv.style_properties import NamedColors, GenericFontFamilyType
from ttconv.vtt.config import VTTWriterConfiguration

ID = "C18"
LEVEL = "fault_enumeration"
RULE = ("cases are input files: every seed with 0, 1 and (small seeds) 2 deviations from the per-token menu (delete, duplicate, "
        "swap-with-next, truncate here / mid-token, each boundary value of the token's type, junk), addressed by mixed-radix index, "
        "plus every token string of length <= k over the format's alphabets; every index is executed through the reader. A case is "
        "non-trivial when the reader returned a document; distinct = distinct deep document fingerprints (fp_doc). The downstream "
        "stage (snapshots at all significant times and midpoints with and without the significant-times cache, LCD filter x2, SRT x2, "
        "WebVTT x4 (quick) / x8 (thorough), IMSC x4, read->LCD->write x3) runs once per worker for every distinct document SHAPE = "
        "fp_doc with each text node replaced by its class (empty / white space only / white space at the edges / doubled space or tab / "
        "line feed / carriage return / control character / mark-up character / non-ASCII / longer than 1000); counters report reader "
        "executions, downstream executions and documents skipped as duplicates")
BOUNDS = {
  "quick": "grammar seeds 3 SRT, 3 WebVTT, 4 SCC (+ text_align=right on line tokens), 3 EBU STL (reader cfg none: all tokens; cfg TCP+MNR: GSI fields and "
           "blocks), 5 TTML: 0 and 1 deviation at every token (line and word tokenisations; GSI/TTI fields, TF bytes, blocks, cuts; elements, "
           "attributes, text positions, lexical tokens); TTML attribute values from the boundary values + the VERIF_SEED-selected quarter of the "
           "199 typed pool values; 2 deviations: line tokenisations of <= 4 lines and the smallest TTML seed (light menu). Token strings of length "
           "<= 3: SRT / WebVTT line alphabets (with and without final EOL) and inline alphabets inside a cue, SCC line and CEA-608 word alphabets, "
           "STL TTI-block alphabet (2 GSI/cfg contexts), TTML element chains in 6 contexts; TTML host x attribute x value product: 52 attribute "
           "names x (tt host: all 206 pool values; 11 other hosts: the VERIF_SEED-selected third of the pool). Corpus (3 SCC, 50 STL, 4 TTML, 132 VTT files), "
           "0 and 1 deviation, CAPPED as stated in the family notes (evidence.coverage.families[].note): large files get reduced menus, wpt-tests "
           "VTT files and STL files get full menus on VERIF_SEED-selected slices, every file is read unchanged. WebVTT writer: the 4 configurations "
           "lp0ta0id1 lp1ta1id1 lp1ta0id0 lp0ta1id0 (every pair of option values)",
  "thorough": "as quick with: whole TTML value pool; 2 deviations for every text tokenisation of <= 12 tokens, ttml-min and ttml-seq (light menu) and "
              "the field tokens of the smallest STL seed; reader cfgs on all tokens; token strings of length <= 4; the whole host x attribute x value "
              "product; corpus: every line token of every file, every word token of SCC files, the 4 ttconv VTT files and the VERIF_SEED-selected "
              "eighth of the wpt-tests files, every GSI/TTI field and TF byte of every STL file; all 8 WebVTT writer configurations",
}
ASSUMPTIONS = [
  "'terminates' is checked as 'finishes within the per-case time limit' (120 s wall clock; the slowest explored case needs about 2 s of CPU)",
  "a reader outcome is documented iff it is a document, None after a record of level >= ERROR on the ttconv logger, or an exception "
  "whose type is xml.etree.ElementTree.ParseError, ValueError (incl. UnicodeDecodeError) or struct.error; every other exception type "
  "(including deliberate RuntimeError raises) is reported under C18.reader.<format>",
  "the downstream stage runs once per distinct document shape per worker process; documents that differ only in the characters of their "
  "text nodes within one text class (see RULE) are assumed to fail or pass the downstream stages alike (writers and filters inspect text "
  "only for white space, line breaks and emptiness); readers return fresh documents and writers / ISD do not mutate them, the LCD filter "
  "does and gets a fresh reading of the same input",
  "the read->filter->write pipeline uses the default LCD configuration and the default writer configurations (what tt convert --filter lcd runs)",
  "text inputs are fed through io.TextIOWrapper(encoding='utf-8') which is what open(path, 'r', encoding='utf-8') gives the readers; the SCC file is "
  "read whole with the same decoding (tt.py uses Path.read_text, i.e. the locale's encoding, assumed UTF-8)",
  "exception discriminators use the qualified name of the innermost ttconv function (kernel.exc_disc uses the bare name, which merges the many "
  "extract / compute / push_child methods of one file); RecursionError: most frequent frame for readers, one discriminator per clause downstream",
]

ALLOWED = (et.ParseError, ValueError, struct.error)      # UnicodeDecodeError is a ValueError

# ------------------------------------------------------------------------------------------------------
# configurations

STL_CFGS = [
  None,
  dict(disable_fill_line_gap=True, program_start_tc="TCP", disable_line_padding=True, font_stack=("Arial", GenericFontFamilyType.sansSerif), max_row_count="MNR"),
  dict(program_start_tc="10:00:00:00", max_row_count=11),
]
SCC_CFGS = [None, TextAlignment.RIGHT, TextAlignment.CENTER]

SRT_CFGS = [("fmt", SRTWriterConfiguration(text_formatting=True)), ("plain", SRTWriterConfiguration(text_formatting=False))]
VTT_CFGS = [(f"lp{int(a)}ta{int(b)}id{int(c)}", VTTWriterConfiguration(line_position=a, text_align=b, cue_id=c))
            for a in (False, True) for b in (False, True) for c in (False, True)]
IMSC_CFGS = [
  ("none", None),
  ("clock", IMSCWriterConfiguration(time_format=TimeExpressionSyntaxEnum.clock_time)),
  ("frames", IMSCWriterConfiguration(time_format=TimeExpressionSyntaxEnum.frames, fps=Fraction(30000, 1001))),
  ("smpte", IMSCWriterConfiguration(time_format=TimeExpressionSyntaxEnum.clock_time_with_frames, fps=Fraction(25))),
  # a frame rate below one frame per second ("fps": "<num>/<denom>" admits it): the rate rounds to zero
  ("frames-slow", IMSCWriterConfiguration(time_format=TimeExpressionSyntaxEnum.frames, fps=Fraction(1, 3))),
]
LCD_CFGS = [
  ("default", lambda: LCDDocFilterConfig()),
  ("override", lambda: LCDDocFilterConfig(safe_area=0, preserve_text_align=True, color=NamedColors.yellow.value, bg_color=NamedColors.black.value)),
]

# quick tier: a pairwise-covering half of the 8 WebVTT configurations (every pair of option values occurs); thorough: all 8
VTT_QUICK = [c for c in VTT_CFGS if c[0] in ("lp0ta0id1", "lp1ta1id1", "lp1ta0id0", "lp0ta1id0")]
_TIER = "quick"

TIME_LIMIT = 120.0        # seconds of wall clock per case; the slowest legitimate case takes about 2 s of CPU on an idle core
MAX_PROBES = 400           # cap on snapshot times per document (reported by the counter isd_probe_cap_hits when it binds)


class _Rec(logging.Handler):
  def __init__(self):
    super().__init__(level=logging.ERROR)
    self.n = 0

  def emit(self, record):
    self.n += 1


# ------------------------------------------------------------------------------------------------------
# feeding the readers the way tt.py does


def _payload(case):
  if case.get("data") is not None:
    return bytes(case["data"])
  return case["text"].encode("utf-8", "surrogatepass")


def read_doc(case):
  """-> (kind, value): ('doc', document) | ('none', n_error_records) | ('exc', exception)"""
  fmt = case["fmt"]
  raw = _payload(case)
  lg = logging.getLogger("ttconv")
  h = _Rec()
  lg.addHandler(h)
  try:
    try:
      if fmt == "ttml":
        tree = et.parse(io.BytesIO(raw))
        doc = imsc_reader.to_model(tree)
      elif fmt == "scc":
        text = io.TextIOWrapper(io.BytesIO(raw), encoding="utf-8").read()
        cfg = SCC_CFGS[case.get("cfg") or 0]
        doc = scc_reader.to_model(text, None if cfg is None else SccReaderConfiguration(text_align=cfg))
      elif fmt == "stl":
        cfg = STL_CFGS[case.get("cfg") or 0]
        doc = stl_reader.to_model(io.BytesIO(raw), None if cfg is None else STLReaderConfiguration(**cfg))
      elif fmt == "srt":
        doc = srt_reader.to_model(io.TextIOWrapper(io.BytesIO(raw), encoding="utf-8"), None)
      elif fmt == "vtt":
        doc = vtt_reader.to_model(io.TextIOWrapper(io.BytesIO(raw), encoding="utf-8"), None)
      else:
        raise kernel.HarnessError(f"unknown format {fmt}")
    except kernel.CaseTimeout:
      raise
    except kernel.HarnessError:
      raise
    except BaseException as e:  # pylint: disable=broad-except
      if isinstance(e, (KeyboardInterrupt, SystemExit)):
        raise
      return "exc", e
  finally:
    lg.removeHandler(h)
  if doc is None:
    return "none", h.n
  return "doc", doc


# ------------------------------------------------------------------------------------------------------
# downstream stage


def _probe_times(sig):
  ts = list(sig)
  out = []
  for i, t in enumerate(ts):
    out.append(t)
    if i + 1 < len(ts):
      out.append((t + ts[i + 1]) / 2)
  if ts:
    out.append(ts[-1] + 1)
    if ts[0] > 0:
      out.insert(0, ts[0] / 2)
  return out


def _ttconv_frames(e):
  out = []
  tb = e.__traceback__
  while tb is not None:
    code = tb.tb_frame.f_code
    fn = code.co_filename.replace("\\", "/")
    if "/ttconv/" in fn and "/verif/" not in fn:
      out.append(f"{fn.split('/ttconv/', 1)[1]}:{code.co_qualname}")
    tb = tb.tb_next
  return out


def disc_of(e):
  """Type@file:QualifiedName of the innermost ttconv frame.  This is kernel.exc_disc with the function's qualified name instead of
  its bare name: the code under test has dozens of methods called extract / compute / push_child / from_model in one file, and the
  bare name would merge e.g. a ZeroDivisionError in FrameRateAttribute.extract with one in AspectRatioAttribute.extract (a listed
  finding would then hide a new defect).  For RecursionError the innermost frame is wherever the stack happened to run out, so the
  most frequent ttconv frame (file:bare function name, i.e. the function that recurses) is used."""
  frames = _ttconv_frames(e)
  if not frames:
    return exc_disc(e)
  if isinstance(e, RecursionError):
    bare = [f.rsplit(".", 1)[-1] if "." in f.split(":", 1)[1] else f.split(":", 1)[1] for f in frames]
    bare = [f"{f.split(':', 1)[0]}:{b}" for f, b in zip(frames, bare)]
    return "RecursionError@" + max(sorted(set(bare)), key=bare.count)
  return f"{type(e).__name__}@{frames[-1]}"


def _report(acc, case, clause, e, seen, note=""):
  """one report per distinct failure site per document: a failure already attributed to an earlier stage of the same document
  (the snapshot stage runs first, then the writers, then filter and pipeline) is not reported again under a later clause"""
  if isinstance(e, RecursionError):
    # every recursive tree walk of the downstream stages overflows on a deeply nested document; which walk is met first depends on
    # the depth and the stage, the defect (no depth limit anywhere) is one: one discriminator per clause
    d = "RecursionError(deeply nested document)"
  else:
    d = disc_of(e)
  if d in seen:
    return
  seen.add(d)
  acc.violation(clause, d, _witness(case), observed=repr(e)[:300], expected="completes without an exception", note=note)


def _witness(case):
  return {k: v for k, v in case.items() if k in ("fmt", "text", "data", "cfg", "src")}


def downstream(case, doc, acc):
  seen = set()
  # snapshots
  try:
    sig = ISD.significant_times(doc)
    times = _probe_times(sig)
  except kernel.CaseTimeout:
    raise
  except (Exception, RecursionError) as e:  # pylint: disable=broad-except
    _report(acc, case, "C18.isd", e, seen, "ISD.significant_times")
    sig, times = None, [0, Fraction(1, 2), 1]
  if len(times) > MAX_PROBES:
    acc.count("isd_probe_cap_hits")
    step = len(times) / MAX_PROBES
    times = [times[int(i * step)] for i in range(MAX_PROBES)]
  for t in times:
    for st in ((sig, None) if sig is not None else (None,)):
      try:
        ISD.from_model(doc, t, st)
        acc.count("isd_snapshots")
      except kernel.CaseTimeout:
        raise
      except (Exception, RecursionError) as e:  # pylint: disable=broad-except
        _report(acc, case, "C18.isd", e, seen, f"ISD.from_model at t={t} {'with' if st is not None else 'without'} significant-times cache")
  # writers on the document as read
  for name, cfg in SRT_CFGS:
    try:
      srt_writer.from_model(doc, cfg)
    except kernel.CaseTimeout:
      raise
    except (Exception, RecursionError) as e:  # pylint: disable=broad-except
      _report(acc, case, "C18.writer.srt", e, seen, f"config {name}")
  vtt_cfgs = VTT_CFGS if _TIER == "thorough" else VTT_QUICK
  for name, cfg in vtt_cfgs:
    try:
      vtt_writer.from_model(doc, cfg)
    except kernel.CaseTimeout:
      raise
    except (Exception, RecursionError) as e:  # pylint: disable=broad-except
      _report(acc, case, "C18.writer.vtt", e, seen, f"config {name}")
  for name, cfg in IMSC_CFGS:
    try:
      tree = imsc_writer.from_model(doc, cfg)
      tree.write(io.BytesIO(), encoding="utf-8")
    except kernel.CaseTimeout:
      raise
    except (Exception, RecursionError) as e:  # pylint: disable=broad-except
      _report(acc, case, "C18.writer.imsc", e, seen, f"config {name}")
  acc.count("writer_runs", len(SRT_CFGS) + len(vtt_cfgs) + len(IMSC_CFGS))
  # LCD filter (mutates the document: each configuration gets a fresh reading of the same input)
  for name, mk in LCD_CFGS:
    kind, d2 = read_doc(case)
    if kind != "doc":
      raise kernel.HarnessError(f"reader not deterministic: second reading gave {kind}")
    try:
      LCDDocFilter(mk()).process(d2)
      acc.count("lcd_runs")
    except kernel.CaseTimeout:
      raise
    except (Exception, RecursionError) as e:  # pylint: disable=broad-except
      _report(acc, case, "C18.lcd", e, seen, f"config {name}")
      continue
    if name != "default":
      continue
    # read -> filter -> write, default configurations
    for clause, fn in (("C18.filtered.writer.srt", lambda d: srt_writer.from_model(d, None)),
                       ("C18.filtered.writer.vtt", lambda d: vtt_writer.from_model(d, None)),
                       ("C18.filtered.writer.imsc", lambda d: imsc_writer.from_model(d, None).write(io.BytesIO(), encoding="utf-8"))):
      try:
        fn(d2)
        acc.count("pipeline_runs")
      except kernel.CaseTimeout:
        raise
      except (Exception, RecursionError) as e:  # pylint: disable=broad-except
        _report(acc, case, clause, e, seen, "after LCD(default)")
  return seen


# ------------------------------------------------------------------------------------------------------
# fingerprints: exact (fp_doc) for counting distinct documents, shape (texts replaced by their class) for de-duplication


def text_class(t):
  """what the downstream stages can distinguish about a text node: emptiness, white space at the edges / only / doubled,
  line breaks, control characters, mark-up characters, non-ASCII, very long"""
  return (len(t) == 0, t.isspace(), t[:1].isspace(), t[-1:].isspace(), "  " in t or "\t" in t, "\n" in t, "\r" in t,
          any(ord(c) < 32 and c not in "\t\n\r" for c in t), any(c in "<>&" for c in t), any(ord(c) > 127 for c in t), len(t) > 1000)


def _shape_el(e):
  if isinstance(e, model.Text):
    return ("text", text_class(e.get_text()), fp_styles(e))
  kind = "region" if isinstance(e, model.Region) else KIND_OF.get(type(e), type(e).__name__)
  reg = e.get_region()
  return (kind, e.get_id(), e.get_lang(), e.get_space().value, e.get_begin(), e.get_end(), None if reg is None else reg.get_id(),
          fp_anims(e), fp_styles(e), tuple(_shape_el(c) for c in e))


def fp_shape(doc):
  return (fp_doc_params(doc), tuple(sorted((PROP_NAME[p], enc_val(v)) for p, v in doc.iter_initial_values())),
          tuple(_shape_el(r) for r in doc.iter_regions()), None if doc.get_body() is None else _shape_el(doc.get_body()))


# ------------------------------------------------------------------------------------------------------
# check

_DEDUP = None          # per-worker set of document fingerprints; None outside run_range (replay / shrink: no de-duplication)


def check(case, acc):
  fmt = case["fmt"]
  kind, val = read_doc(case)
  acc.count("reader_runs")
  if kind == "exc":
    e = val
    if isinstance(e, ALLOWED):
      acc.case(f"{fmt}:raises {_exc_class(e)}")
      return
    acc.violation(f"C18.reader.{fmt}", disc_of(e), _witness(case), observed=repr(e)[:300],
                  expected="a document, None after a fatal/error log record, or ParseError / ValueError / struct.error")
    acc.case(f"{fmt}:raises-internal")
    return
  if kind == "none":
    if val == 0:
      acc.violation(f"C18.reader.{fmt}", "returns-None-without-log", _witness(case), observed="None, no record of level >= ERROR",
                    expected="nothing is returned only after logging a fatal message")
    acc.case(f"{fmt}:none-after-fatal-log")
    return
  doc = val
  try:
    key = h64(fp_doc(doc))
    skey = h64(fp_shape(doc))
  except (Exception, RecursionError):  # pylint: disable=broad-except
    key = skey = h64(("unfingerprintable", fmt, bytes(_payload(case))))
    acc.count("unfingerprintable_documents")
  if _DEDUP is not None:
    if skey in _DEDUP:
      acc.count("documents_skipped_as_duplicates")
      acc.case(f"{fmt}:document(duplicate shape)", nontrivial=True, key=key)
      return
    _DEDUP.add(skey)
  acc.count("documents_sent_downstream")
  bad = downstream(case, doc, acc)
  acc.case(f"{fmt}:document(downstream {'fails' if bad else 'ok'})", nontrivial=True, key=key)


def _exc_class(e):
  if isinstance(e, et.ParseError):
    return "ParseError"
  if isinstance(e, UnicodeDecodeError):
    return "UnicodeDecodeError"
  if isinstance(e, struct.error):
    return "struct.error"
  return "ValueError"


# ------------------------------------------------------------------------------------------------------
# shrinking: one-step reductions of the input


def shrink(case):
  base = {k: v for k, v in case.items() if k in ("fmt", "cfg")}
  base["src"] = "shrunk:" + str(case.get("src", ""))
  fmt = case["fmt"]
  if case.get("data") is not None:
    d = bytes(case["data"])
    if fmt == "stl":
      nb = max(0, (len(d) - 1024 + 127) // 128)
      for b in range(nb):
        yield dict(base, data=d[:1024 + 128 * b] + d[1024 + 128 * (b + 1):])
      if case.get("cfg"):
        yield dict(base, data=d, cfg=0)
      # neutralise TF bytes and GSI fields one at a time
      ref = g.STL_SEEDS["stl-1tti"]
      pos = 0
      for nm, ln in g.GSI_FIELDS:
        if len(d) >= 1024 and d[pos:pos + ln] != ref[pos:pos + ln]:
          yield dict(base, data=d[:pos] + ref[pos:pos + ln] + d[pos + ln:])
        pos += ln
      for b in range(nb):
        o = 1024 + 128 * b + 16
        tf = d[o:o + 112]
        used = tf.rstrip(b"\x8f")
        for j in range(len(used)):
          t2 = (used[:j] + used[j + 1:]).ljust(112, b"\x8f")
          if len(tf) == 112:
            yield dict(base, data=d[:o] + t2 + d[o + 112:])
      return
    for cut in (len(d) // 2, len(d) - 1):
      if 0 < cut < len(d):
        yield dict(base, data=d[:cut])
    return
  text = case["text"]
  if case.get("cfg"):
    yield dict(base, text=text, cfg=0)
  if fmt == "ttml":
    yield from _shrink_xml(base, text)
    return
  lines = text.splitlines(keepends=True)
  # halves first (fast on corpus files), then single lines, then single words
  if len(lines) > 8:
    h = len(lines) // 2
    yield dict(base, text="".join(lines[h:]))
    yield dict(base, text="".join(lines[:h]))
    q = len(lines) // 4
    for k in range(0, len(lines), q or 1):
      yield dict(base, text="".join(lines[:k] + lines[k + (q or 1):]))
  for i in range(len(lines)):
    yield dict(base, text="".join(lines[:i] + lines[i + 1:]))
  toks = g.tok_words(fmt, text)
  if len(toks) <= 400:
    for i in range(len(toks)):
      t2 = toks[:i] + toks[i + 1:]
      if "\n" in toks[i][1] and i > 0 and "\n" not in t2[i - 1][1]:
        t2[i - 1] = [t2[i - 1][0], toks[i][1], t2[i - 1][2]]
      yield dict(base, text=g.join_tokens(t2))
  for i, t in enumerate(toks[:400]):
    if len(t[0]) > 40:
      yield dict(base, text=g.join_tokens(toks[:i] + [[t[0][:20], t[1], t[2]]] + toks[i + 1:]))


def _shrink_xml(base, text):
  try:
    root = et.fromstring(text.encode("utf-8", "surrogatepass"))
  except Exception:  # pylint: disable=broad-except
    lines = text.splitlines(keepends=True)
    for i in range(len(lines)):
      yield dict(base, text="".join(lines[:i] + lines[i + 1:]))
    toks = g.tok_xml_lex(text)
    if len(toks) <= 300:
      for i in range(len(toks)):
        yield dict(base, text=g.join_tokens(toks[:i] + toks[i + 1:]))
    return
  try:
    tree = g.from_et(root)
    g.ser(tree)
  except RecursionError:
    return          # deeply nested witness: the depth is the point, nothing to reduce structurally
  nodes = list(g._walk(tree))  # pylint: disable=protected-access
  for path, nd in nodes:
    if path:
      t2 = g._copy(tree)  # pylint: disable=protected-access
      par = g._at(t2, path[:-1])  # pylint: disable=protected-access
      del par[2][path[-1]]
      yield dict(base, text=g.ser(t2))
  for path, nd in nodes:
    if path and nd[2]:
      t2 = g._copy(tree)  # pylint: disable=protected-access
      par = g._at(t2, path[:-1])  # pylint: disable=protected-access
      par[2][path[-1]:path[-1] + 1] = g._at(t2, path)[2]  # pylint: disable=protected-access
      yield dict(base, text=g.ser(t2))
  for path, nd in nodes:
    for an in list(nd[1]):
      t2 = g._copy(tree)  # pylint: disable=protected-access
      del g._at(t2, path)[1][an]  # pylint: disable=protected-access
      yield dict(base, text=g.ser(t2))
    for i, k in enumerate(nd[2]):
      if isinstance(k, str):
        t2 = g._copy(tree)  # pylint: disable=protected-access
        del g._at(t2, path)[2][i]  # pylint: disable=protected-access
        yield dict(base, text=g.ser(t2))
  for path, nd in nodes:
    for an, av in nd[1].items():
      if len(av) > 40:
        t2 = g._copy(tree)  # pylint: disable=protected-access
        g._at(t2, path)[1][an] = av[:20]  # pylint: disable=protected-access
        yield dict(base, text=g.ser(t2))


# ------------------------------------------------------------------------------------------------------
# families


def _run_range_factory(fam_ref):
  def run_range(lo, hi, acc):
    global _DEDUP
    if _DEDUP is None:
      _DEDUP = set()
    fam = fam_ref[0]
    for i in range(lo, hi):
      case = fam.decode(i)
      if i == lo and lo % 5 == 0:
        acc.sample({"family": fam.name, "index": i, "src": case.get("src"), "fmt": case["fmt"],
                    "input": (case.get("text") if case.get("text") is not None else bytes(case["data"]).hex())[:300]})
      kernel.run_case(fam, case, acc, index=i)
  return run_range


def _family(name, n, decode, note, timeout=TIME_LIMIT, chunk=None):
  ref = []
  fam = Family(name, n, decode, check, shrink=shrink, timeout=timeout, chunk=chunk, note=note, run_range=_run_range_factory(ref))
  ref.append(fam)
  return fam


def _union(name, spaces, note, chunk=None):
  """one family over several index spaces (objects with .n and .decode)"""
  starts = []
  tot = 0
  for s in spaces:
    starts.append(tot)
    tot += s.n

  def decode(i):
    j = bisect.bisect_right(starts, i) - 1
    return spaces[j].decode(i - starts[j])
  return _family(name, tot, decode, note, chunk=chunk)


class _Fn:
  def __init__(self, n, decode):
    self.n, self.decode = n, decode


def _with_cfg(space, cfg):
  """the same index space under another reader configuration"""
  def decode(i):
    case = space.decode(i)
    case["cfg"] = cfg
    if cfg:
      case["src"] = f"{case['src']}@cfg{cfg}"
    return case
  return _Fn(space.n, decode)


def _text_decode(b):
  try:
    return b.decode("utf-8")
  except UnicodeDecodeError:
    return None


def _pool(tier, seed):
  """value pool used for attribute-value replacement on the TTML seeds: whole pool (thorough), or the boundary values plus the
  VERIF_SEED-selected quarter of the typed values (quick)"""
  if tier == "thorough":
    return g.VALUE_POOL, "whole value pool"
  keep = len(g.GENERIC) + len(g.ALWAYS_VALUES)
  rest = g.VALUE_POOL[keep:]
  return g.VALUE_POOL[:keep] + rest[seed % 4::4], f"boundary values + quarter {seed % 4} of 4 of the typed value pool (VERIF_SEED selects)"


def seed_families(tier, seed):
  thorough = tier == "thorough"
  pairs_tok = 12 if thorough else 4
  fams = []
  for fmt, seeds in (("srt", g.SRT_SEEDS), ("vtt", g.VTT_SEEDS), ("scc", g.SCC_SEEDS)):
    spaces = g.text_spaces(fmt, seeds, pairs_tok)
    note = (f"{len(seeds)} grammar seeds x (line, word) tokenisations: 0 and 1 deviation at every token; 2 deviations for tokenisations "
            f"of <= {pairs_tok} tokens ({sum(1 for s in spaces if s.n2)} of {len(spaces)})")
    if fmt == "scc":
      # reader configuration text_align=right: line tokenisations (quick), all (thorough)
      extra = [_with_cfg(g.DevSpace(s.name, fmt, s.toks, pairs=False), 1) for s in spaces if thorough or s.name.endswith("/lines")]
      spaces = spaces + extra
      note += "; reader cfg text_align=right on " + ("all tokenisations" if thorough else "the line tokenisations")
    fams.append(_union(f"dev[{fmt} seeds]", spaces, note))
  # STL
  stl_spaces = []
  for nm, data in g.STL_SEEDS.items():
    stl_spaces.append(g.StlSpace(nm, data, 0))
    stl_spaces.append(g.StlSpace(nm, data, 1, only=None if thorough else "gsi"))
    if thorough:
      stl_spaces.append(g.StlSpace(nm, data, 2, only="fields"))
  if thorough:
    stl_spaces.append(g.StlSpace("stl-1tti/fields", g.STL_SEEDS["stl-1tti"], 0, pairs=True, tf_bytes=False))
  fams.append(_union("dev[stl seeds]", stl_spaces,
                     "GSI fields, TTI fields, TF bytes, 128-byte blocks, cuts at every block boundary / +1 / +64; reader cfg none (all tokens), "
                     "cfg TCP+MNR (" + ("all tokens" if thorough else "GSI fields and blocks") + ")"
                     + ("; cfg start 10:00:00:00 + 11 rows (fields); 2 deviations over the fields of the smallest seed" if thorough else "")))
  # TTML structural
  pool, pool_note = _pool(tier, seed)
  xs = []
  for nm, tree in g.TTML_SEEDS.items():
    xs.append(g.XmlSpace(nm, tree, pairs=(nm == "ttml-min" or (thorough and nm == "ttml-seq")), value_pool=pool, rename_attrs=(thorough or nm != "ttml-full")))
  fams.append(_union("dev[ttml seeds]", xs,
                     "elements: remove / duplicate / swap / unwrap / truncate / rename / nest 60 and 1500 deep / insert text; attributes: delete / rename to every "
                     f"other attribute name{'' if thorough else ' (not on ttml-full in the quick tier)'} / replace by every value of: {pool_note} ({len(pool)} values) / add; 2 deviations over the light menu for "
                     + ("ttml-min and ttml-seq" if thorough else "ttml-min")))
  lex = []
  for nm, tree in g.TTML_SEEDS.items():
    if thorough or nm in ("ttml-min", "ttml-ruby"):
      lex.append(g.DevSpace(nm + "/lex", "ttml", g.tok_xml_lex(g.ser(tree)), values=g.XML_LEX_VALUES, pairs=False))
  fams.append(_union("dev[ttml lexical]", lex, "tags and text runs of the serialised seed: delete / duplicate / swap / truncate / replace (DOCTYPE, CDATA, entities, NUL)"))
  return fams


def corpus_families(tier, seed):
  thorough = tier == "thorough"
  files = g.corpus_files(env.RES)
  by = {}
  for fmt, rel, data in files:
    by.setdefault(fmt, []).append((rel, data))
  fams = []
  for fmt in ("scc", "vtt"):
    spaces = []
    caps = []
    nfull = 0
    for k, (rel, data) in enumerate(by.get(fmt, [])):
      text = _text_decode(data)
      if text is None:
        # not UTF-8: explored as bytes (whole, half, one byte); the reader has to answer with UnicodeDecodeError
        spaces.append(_Fn(3, (lambda d, r: (lambda i: {"fmt": fmt, "data": [d, d[:len(d) // 2], d[:1]][i], "src": f"{r}:bytes{i}"}))(data, rel)))
        continue
      lt, wt = g.tok_lines(text), g.tok_words(fmt, text)
      wpt = "wpt-tests" in rel
      big = len(wt) > 100
      if wpt:
        sel = k % 8 == seed % 8 if thorough else k % 64 == seed % 64
        if thorough or sel:
          spaces.append(g.DevSpace(rel + "/lines", fmt, lt))
          nfull += 1
        else:
          spaces.append(g.DevSpace(rel + "/lines", fmt, lt, positions=[]))       # the file itself (0 deviations)
        if thorough and sel:
          spaces.append(g.DevSpace(rel + "/words", fmt, wt))
      elif big and not thorough:
        spaces.append(g.DevSpace(rel + "/lines", fmt, lt, values={"line": []}))
        caps.append(f"{rel} ({len(lt)} lines, {len(wt)} words): line tokens with the structural menu only (delete, duplicate, swap, truncate), "
                    "word tokens not deviated")
      elif not thorough:
        spaces.append(g.DevSpace(rel + "/lines", fmt, lt))
        sel_pos = [i for i in range(len(wt)) if i % 8 == seed % 8]
        spaces.append(g.DevSpace(rel + "/words", fmt, wt, positions=sel_pos))
        caps.append(f"{rel}: the VERIF_SEED-selected eighth of the word tokens ({len(sel_pos)} of {len(wt)})")
      else:
        spaces.append(g.DevSpace(rel + "/lines", fmt, lt))
        spaces.append(g.DevSpace(rel + "/words", fmt, wt))
    note = f"{len(by.get(fmt, []))} bundled files; 0 and 1 deviation; "
    if fmt == "vtt" and thorough:
      note += ("every line and word token of the 4 ttconv files; every line token of the 128 wpt-tests files; CAP: word tokens of the "
               "VERIF_SEED-selected eighth of the wpt-tests files")
    elif fmt == "vtt":
      note += (f"every line token of the 4 ttconv files; CAP: of the 128 wpt-tests files the VERIF_SEED-selected 1/64 ({nfull} files) gets every line "
               "token deviated, the others are read unchanged, their word tokens only in the thorough tier; " + "; ".join(caps))
    else:
      note += "every line token of every file" + ("; every word token of every file" if thorough else "; CAP: " + "; ".join(caps))
    if spaces:
      fams.append(_union(f"dev[{fmt} corpus]", spaces, note))
  if by.get("stl"):
    spaces = []
    nfull = 0
    for k, (rel, data) in enumerate(by["stl"]):
      if thorough:
        spaces.append(g.StlSpace(rel, data, 0, tf_bytes=True))
        continue
      full = k % 16 == seed % 16
      nfull += full
      spaces.append(g.StlSpace(rel, data, 0, tf_bytes=False, only=None if full else "none"))
    note = f"{len(by['stl'])} bundled files; 0 and 1 deviation; every block-level deviation and cut (block boundary, +1, +64) of every file; "
    note += ("every GSI field, TTI field and TF byte of every file" if thorough else
             f"CAP: GSI and TTI fields on the VERIF_SEED-selected sixteenth ({nfull} files), TF fields deviated as a whole; byte by byte and all files "
             "only in the thorough tier")
    fams.append(_union("dev[stl corpus]", spaces, note))
  if by.get("ttml"):
    spaces = []
    pool, pool_note = _pool(tier, seed)
    for rel, data in by["ttml"]:
      tree = g.from_et(et.fromstring(data))
      spaces.append(g.XmlSpace(rel, tree, pairs=False, rename_attrs=thorough, value_pool=pool))
    fams.append(_union("dev[ttml corpus]", spaces, f"{len(by['ttml'])} bundled files, structural deviations, 0 and 1; attribute values: {pool_note}"
                       + ("" if thorough else "; CAP: attribute renaming only in the thorough tier")))
  return fams


def _wrap_srt(inner):
  return "1\n00:00:01,000 --> 00:00:02,000\n" + inner + "\n\n2\n00:00:03,000 --> 00:00:04,000\nnext\n"


def _wrap_vtt(inner):
  return "WEBVTT\n\n00:00:01.000 --> 00:00:02.000\n" + inner + "\n\n00:00:03.000 --> 00:00:04.000\nnext\n"


ATTR_PRODUCT_NAMES = list(dict.fromkeys(
  g.STYLE_ATTRS + ["begin", "end", "dur", "timeContainer", "xml:space", "xml:lang", "xml:id", "region", "style"] +
  ["ttp:cellResolution", "ttp:frameRate", "ttp:frameRateMultiplier", "ttp:tickRate", "tts:extent", "ittp:activeArea", "ittp:aspectRatio", "ttp:displayAspectRatio"]))


def string_families(tier, seed):
  thorough = tier == "thorough"
  k = 4 if thorough else 3
  fams = []
  sp = [
    g.Strings("srt-lines", g.SRT_LINE_ALPHABET, k, lambda s: {"fmt": "srt", "text": "".join(s)}),
    g.Strings("srt-lines-noeol", g.SRT_LINE_ALPHABET, k, lambda s: {"fmt": "srt", "text": "".join(s).rstrip("\n")}),
    g.Strings("srt-inline", g.SRT_TEXT_ALPHABET, k, lambda s: {"fmt": "srt", "text": _wrap_srt("".join(s))}),
  ]
  fams.append(_union("strings[srt]", sp, f"all strings of <= {k} symbols: {len(g.SRT_LINE_ALPHABET)} line symbols (with and without final EOL), "
                     f"{len(g.SRT_TEXT_ALPHABET)} inline symbols inside a cue"))
  sp = [
    g.Strings("vtt-lines", g.VTT_LINE_ALPHABET, k, lambda s: {"fmt": "vtt", "text": "".join(s)}),
    g.Strings("vtt-lines-noeol", g.VTT_LINE_ALPHABET, k, lambda s: {"fmt": "vtt", "text": "".join(s).rstrip("\n")}),
    g.Strings("vtt-inline", g.VTT_TEXT_ALPHABET, k, lambda s: {"fmt": "vtt", "text": _wrap_vtt("".join(s))}),
  ]
  fams.append(_union("strings[vtt]", sp, f"all strings of <= {k} symbols: {len(g.VTT_LINE_ALPHABET)} line symbols (with and without final EOL), "
                     f"{len(g.VTT_TEXT_ALPHABET)} inline symbols inside a cue"))
  sp = [
    g.Strings("scc-lines", g.SCC_LINE_ALPHABET, k, lambda s: {"fmt": "scc", "text": "".join(s)}),
    g.Strings("scc-words", g.SCC_WORD_ALPHABET, k, lambda s: {"fmt": "scc", "text": g.SCC_HEADER + "00:00:01:00\t" + " ".join(s) + "\n\n00:00:02:00\t942c 942c\n"}),
    g.Strings("scc-words-after-rollup", g.SCC_WORD_ALPHABET, k - 1,
              lambda s: {"fmt": "scc", "text": g.SCC_HEADER + "00:00:00:00\t9425 9425 94ad 94ad 9470 9470 c1c2\n\n00:00:01:00\t" + " ".join(s) + "\n"}),
    g.Strings("scc-words-after-painton", g.SCC_WORD_ALPHABET, k - 1,
              lambda s: {"fmt": "scc", "text": g.SCC_HEADER + "00:00:00:00\t9429 9429 94d2 94d2 c1c2\n\n00:00:01:00\t" + " ".join(s) + "\n"}),
  ]
  fams.append(_union("strings[scc]", sp, f"all strings of <= {k} symbols: {len(g.SCC_LINE_ALPHABET)} line symbols; {len(g.SCC_WORD_ALPHABET)} CEA-608 words on one line "
                     f"(and <= {k - 1} after a roll-up / paint-on context)"))
  blocks = g.stl_block_alphabet()
  gsis = [g.stl_gsi(), g.stl_gsi(DSC="0", MNR="02", TCP="00000030")]

  def stl_render(cfg, gi):
    return lambda s: {"fmt": "stl", "data": gsis[gi] + b"".join(s), "cfg": cfg}
  sp = [g.Strings(f"stl-blocks[gsi{gi},cfg{cfg}]", blocks, k, stl_render(cfg, gi)) for gi, cfg in ((0, 0), (1, 1))]
  fams.append(_union("strings[stl]", sp, f"all strings of <= {k} TTI blocks from {len(blocks)} block symbols after a GSI block; teletext/cfg none and open/cfg TCP+MNR"))

  def chain_render(ctx):
    return lambda s: {"fmt": "ttml", "text": g.ser(g.chain_tree(s, ctx))}
  sp = [g.Strings(f"ttml-chain[{ctx}]", g.CHAIN_ALPHABET, kk, chain_render(ctx))
        for ctx, kk in (("tt", k), ("body", k), ("p", k), ("layout", k - 1), ("styling", k - 1), ("bare", k - 1))]
  fams.append(_union("strings[ttml elements]", sp, f"all nesting chains of <= {k} element symbols ({len(g.CHAIN_ALPHABET)} symbols) placed in tt, body and p; <= {k - 1} "
                     "in layout, styling and as the document root"))
  note = f"every host element ({len(g.ATTR_HOSTS)}) x every attribute name ({len(ATTR_PRODUCT_NAMES)}) x every pool value ({len(g.VALUE_POOL)})"
  if thorough:
    parts = [_Fn(*g.attr_product(names=ATTR_PRODUCT_NAMES))]
  else:
    pool = g.VALUE_POOL[seed % 3::3]
    note += (f"; quick: the tt host (document parameters) with the whole pool, the other hosts with third {seed % 3} of 3 of the pool values "
             f"({len(pool)} values, VERIF_SEED selects)")
    parts = [_Fn(*g.attr_product(hosts=["tt"], names=ATTR_PRODUCT_NAMES)),
             _Fn(*g.attr_product(hosts=[h for h in g.ATTR_HOSTS if h != "tt"], names=ATTR_PRODUCT_NAMES, pool=pool))]
  fams.append(_union("strings[ttml host.attribute=value]", parts, note))
  return fams


# ------------------------------------------------------------------------------------------------------
# E-states: the inline-markup machines of the WebVTT and SRT cue-text parsers.  A state is the token history; two
# histories are merged when the parser they drive is in the same state (stack of open element kinds + ruby bookkeeping),
# which is everything the parser's future behaviour reads.  Every transition runs the real reader on the cue text and
# sends the resulting document downstream like any other C18 case.

VTT_INLINE = ["x", "\n", "<b>", "</b>", "<ruby>", "</ruby>", "<rt>", "</rt>", "<00:00:01.500>", "<v A>", "</v>", "<c.red>", "</c>", "&amp;"]
SRT_INLINE = ["x", "\n", "<b>", "</b>", "<i>", "</i>", "{u}", "{/u}", "<font color=\"red\">", "</font>", "<font>", "</x>"]


def _vtt_machine_state(tokens):
  """canonical parser state after `tokens` (uses the private parser class only to merge states; on any failure the
  history itself is the state, i.e. nothing is merged)"""
  try:
    from ttconv.vtt.tokenizer import CueTextTokenizer
    doc = model.ContentDocument()
    p = model.P(doc)
    parser = vtt_reader._TextCueParser(p, 0)   # pylint: disable=protected-access
    try:
      for tok in CueTextTokenizer("".join(tokens).strip("\r\n")):
        parser.handle_token(tok)
    except Exception as e:  # pylint: disable=broad-except
      return ("raised", type(e).__name__, tuple(tokens[-2:]))
    chain = []
    el = parser.parent
    n = 0
    while el is not None and n < 64:
      chain.append(type(el).__name__)
      el = el.parent()
      n += 1
    return ("ok", tuple(chain), parser.ruby_rbc is None, parser.ruby_rtc is None, tokens[-1:] == ["\n"])
  except Exception:  # pylint: disable=broad-except
    return ("history", tuple(tokens))


def _srt_machine_state(tokens):
  try:
    doc = model.ContentDocument()
    p = model.P(doc)
    parser = srt_reader._TextParser(p, 0)   # pylint: disable=protected-access
    try:
      parser.feed("".join(tokens))
      parser.close()
    except Exception as e:  # pylint: disable=broad-except
      return ("raised", type(e).__name__, tuple(tokens[-2:]))
    chain = []
    el = parser.parent
    n = 0
    while el is not None and n < 64:
      chain.append(type(el).__name__)
      el = el.parent()
      n += 1
    return ("ok", tuple(chain), tokens[-1:] == ["\n"])
  except Exception:  # pylint: disable=broad-except
    return ("history", tuple(tokens))


def _machine_family(name, fmt, alphabet, wrap, state_fn, depth):
  from mc.kernel import StateFamily

  def expand(history, acc):
    global _DEDUP
    if _DEDUP is None:
      _DEDUP = set()
    succ = []
    for tok in alphabet:
      h2 = list(history) + [tok]
      case = {"fmt": fmt, "text": wrap("".join(h2)), "src": f"{name}:{len(h2)} tokens"}
      check(case, acc)
      succ.append((tok, state_fn(h2)))
    return succ

  def replay_check(case, acc):
    h = case["history"]
    for tok in alphabet:
      check({"fmt": fmt, "text": wrap("".join(list(h) + [tok])), "src": name}, acc)
  fam = StateFamily(name, [[]], expand, depth, canon0=lambda h: ("init",), timeout=TIME_LIMIT,
                    check=lambda case, acc: replay_check(case, acc) if "history" in case else check(case, acc),
                    note=f"all cue-text token histories over {len(alphabet)} inline tokens, merged on the parser state, depth {depth}")
  return fam


def machine_families(tier, seed):
  d = 8 if tier == "quick" else 10
  return [_machine_family("vtt-inline-machine", "vtt", VTT_INLINE, _wrap_vtt, _vtt_machine_state, d),
          _machine_family("srt-inline-machine", "srt", SRT_INLINE, _wrap_srt, _srt_machine_state, d)]


def plan(tier, seed):
  global _TIER
  _TIER = tier
  return seed_families(tier, seed) + string_families(tier, seed) + corpus_families(tier, seed) + machine_families(tier, seed)

"""C03 — every snapshot element carries the style values TTML style resolution prescribes (DESIGN.md 3, C03).

Oracle: for every element of every snapshot and every property applicable to its kind (independent IMSC 1.1 table),
get_style(p) ~ R_style(spec, t)[element][p] (relative tolerance 1e-9: the implementation divides in binary floats).
"""
from __future__ import annotations

import copy
from fractions import Fraction as F

from mc import env  # noqa
from mc.kernel import Family
from mc import docgen, stylegen
from mc.docgen import Product
from mc.spec import build, node, text, doc_spec, enc_val, PROPS, walk, L, E
from mc.ref_isd import probe_times
from mc.ref_style import r_style, approx_eq, specified, tup
from mc.tables import APPLICABLE, INHERITED
from mc.props import c01

import ttconv.model as model
from ttconv.isd import ISD

ID = "C03"
LEVEL = "exploration"
RULE = ("cases are documents (complete mixed-radix families) x probe times; every element of every snapshot is compared on "
        "every applicable property; a document is non-trivial when the compared values include at least one that is "
        "not the TTML default (something was specified, animated, inherited or overridden); distinct by family index")
BOUNDS = {
  "quick": "precedence lattice {unspecified, specified, animated}^5 levels x {no initial, initial} for the seed-selected "
           "third of the 36 properties; fontSize unit chains {-,%,em,c,px,rh,rw}^3 x 3 cell x 2 px resolutions; scalar "
           "length properties x font-size chains; extent x origin|position x padding x 4 writing modes x 2 resolutions; "
           "textDecoration 27^3; ruby font-size shapes; textEmphasis auto x writing mode; direction x writing mode; "
           "style grid of C13 (all properties, all values, all levels)",
  "thorough": "precedence lattice for all 36 properties; the rest as quick",
}
ASSUMPTIONS = [
  "R_style (mc/ref_style.py) restates TTML2 section 10 / IMSC 1.1 section 8; position follows CSS background-position "
  "(offset from the named edge, percentages of container minus extent)",
  "a textDecoration component that is None is treated as 'not set' == False when comparing",
  "scalar lengths in c resolve against the cell height (rows), as IMSC 1.1 / imscJS do",
]


def _kind(e):
  if isinstance(e, model.Region):
    return "region"
  from mc.spec import KIND_OF
  return KIND_OF.get(type(e))


def _units(v, acc=None):
  if acc is None:
    acc = []
  if isinstance(v, (list, tuple)):
    if v and v[0] == "L":
      acc.append(v[2])
    else:
      for x in v:
        _units(x, acc)
  return acc


def _provenance(spec, rid, eid, prop, t):
  """(source, governing encoded value) of property `prop` on element `eid` (walks up for inherited values)"""
  from mc.ref_isd import _interval
  # locate chain region -> ... -> element
  chain = []
  regs = {r["id"]: r for r in spec.get("regions") or []}
  chain.append(("region", regs.get(rid, {"id": rid}), F(0), None))
  if eid != rid and spec.get("body") is not None:
    path = None
    for n, anc in walk(spec["body"]):
      if n.get("id") == eid:
        path = list(anc) + [n]
        break
    pb, pe = F(0), None
    for n in path or []:
      b, e = _interval(n, pb, pe)
      chain.append((n["k"], n, b, e))
      pb, pe = b, e
  if chain[0][1].get("b") is not None or chain[0][1].get("e") is not None:
    b, e = _interval(chain[0][1], F(0), None)
    chain[0] = ("region", chain[0][1], b, e)
  for i in range(len(chain) - 1, -1, -1):
    k, n, b, e = chain[i]
    has_anim = any(p == prop for p, *_ in n.get("an") or [])
    v = specified(n, b, e, t, prop)
    if v is not None:
      st = (n.get("st") or {}).get(prop)
      src = "specified" if (st is not None and tup(st) == v and not has_anim) else "animated"
      return (src if i == len(chain) - 1 else f"inherited-{src}"), v
    if prop not in INHERITED:
      break
  for p, v in spec.get("init") or []:
    if p == prop:
      return "initial", tup(v)
  return "default", None


def check_doc(case, acc):
  spec = case["spec"]
  try:
    doc = build(spec)
  except Exception:  # pylint: disable=broad-except
    acc.case("invalid-spec")
    return
  times = case.get("times") or probe_times(spec)
  nontrivial = False
  sig = ISD.significant_times(doc)
  # every snapshot is taken twice: plainly and with the precomputed SignificantTimes object (whose caches must not change a value)
  for t, accel in [(t, a) for t in times for a in (False, True)]:
    try:
      isd = ISD.from_model(doc, t, sig) if accel else ISD.from_model(doc, t)
    except ValueError as e:
      if "ruby" in str(e).lower():
        acc.count("ruby-snapshot-raises")
        continue
      raise
    ref = r_style(spec, t)
    acc.count("snapshots")
    for reg in isd.iter_regions():
      rmap = ref.get(reg.get_id())
      if rmap is None:
        acc.violation("C03.region-presence", "region-not-active-in-reference", {"spec": spec, "times": [t]}, observed=reg.get_id())
        continue
      for e in [reg] + [x for b in reg for x in b.dfs_iterator()]:
        k = _kind(e)
        if k in ("br", "text") or k is None:
          continue
        want_entry = rmap.get(e.get_id())
        if want_entry is None:
          continue      # element without id (not generated) or not active in the reference: C01 owns presence
        wk, want = want_entry
        for p in APPLICABLE[k]:
          if p == "Direction" and _direction_variant(spec, reg.get_id()):
            acc.count("skipped-direction-implied-variant")
            continue
          acc.count("values")
          got = enc_val(e.get_style(PROPS[p]))
          w = want[p]
          if not approx_eq(w, got):
            src, gov = _provenance(spec, reg.get_id(), e.get_id(), p, t)
            clause, disc = _signature(p, k, src, gov, spec, reg.get_id(), t)
            if accel:
              clause = clause.replace("C03.", "C03.accel.", 1)
            acc.violation(clause, disc, {"spec": spec, "times": [t]}, observed=got, expected=w,
                          note=f"{p} of {k} '{e.get_id()}' in region {reg.get_id()} at t={t}; source={src}")
          elif w != ref_default(p):
            nontrivial = True
  acc.case("styled" if nontrivial else "defaults-only", nontrivial=nontrivial, key=case.get("key") or repr(spec))


def _direction_variant(spec, rid):
  """TTML2 10.2.10 'direction implied by writing mode' is only unambiguous when the writing mode is specified on the
  region and the direction comes from the region's own specified value (or is absent): every other combination
  (writing mode or direction supplied by an initial value or by an animation step) is not compared."""
  reg = next((r for r in spec.get("regions") or [] if r["id"] == rid), {})
  # (since wave 9) a direction given by an animation step on the region is compared: an active step is a value of its own
  # and wins over the implied direction; a writing mode that is itself animated or initial, and a direction that is an
  # initial value (does it count as 'specified'?), stay outside the comparison
  if any(a[0] == "WritingMode" for a in reg.get("an") or []):
    return True
  if any(i[0] in ("WritingMode", "Direction") for i in spec.get("init") or []):
    return True
  return False


def ref_default(p):
  from mc.ref_style import DEFAULTS
  return DEFAULTS[p]


def _signature(p, kind, src, gov, spec, rid, t):
  """narrow discriminator: property, element kind, value source, units / edges of the governing value"""
  clause = f"C03.{p}"
  parts = [f"kind={kind}", f"src={src}"]
  if gov is not None:
    u = _units(gov)
    if u:
      parts.append("units=" + "/".join(dict.fromkeys(u)))
    if isinstance(gov, tuple) and gov and gov[0] == "pos":
      parts.append(f"edges={gov[3]}/{gov[4]}")
    if isinstance(gov, tuple) and gov and gov[0] == "S":
      parts.append(f"special={gov[1]}")
  if p == "TextEmphasis" and gov is not None and gov[0] == "te":
    from mc.ref_style import r_style as _rs
    rootwm = _rs(spec, t)[rid][rid][1]["WritingMode"][2]
    parts = [f"kind={kind}", f"style={gov[1]}", f"computed-region-wm={'vertical' if rootwm in ('tbrl', 'tblr') else 'horizontal'}"]
  if p in ("Origin", "Position"):
    # the governing value of a computed origin may be the position
    reg = next((r for r in spec.get("regions") or [] if r["id"] == rid), {})
    psv = (reg.get("st") or {}).get("Position") or next((a[3] for a in reg.get("an") or [] if a[0] == "Position"), None) \
        or next((i[1] for i in spec.get("init") or [] if i[0] == "Position"), None)
    if psv is not None:
      parts.append(f"position-edges={psv[3]}/{psv[4]},position-units={'/'.join(dict.fromkeys(_units(psv)))}")
  return clause, ",".join(parts)


def _fam(name, n, dec, note=""):
  def decode(i):
    return {"spec": dec(i), "key": f"{name}#{i}"}
  return Family(name, n, decode, check_doc, shrink=c01.shrink_doc, timeout=30, note=note)


def _chain(extra_span=False):
  # the paragraph begins at 1/2: animation steps on p and span are then relative to an element with a begin of its own
  spec = docgen.chain_doc({"p": (F(1, 2), None)}, True, region_on="body")
  d = spec["body"]["c"][0]
  p = d["c"][0]
  s = p["c"][0]
  nodes = {"region": spec["regions"][0], "body": spec["body"], "div": d, "p": p, "span": s}
  if extra_span:
    s2 = node("span", [text("b")], id="s2")
    s["c"].append(s2)
    nodes["span2"] = s2
  return spec, nodes


# --- (1) precedence lattice -------------------------------------------------------------------------

def _three_values(pname):
  vals = stylegen.VALUES[pname]
  return vals[0], vals[1 % len(vals)], vals[2 % len(vals)]


def fam_lattice(props):
  levels = ["region", "body", "div", "p", "span"]
  prod = Product([props] + [[0, 1, 2]] * 5 + [[0, 1]])

  def dec(i):
    ch = prod.decode(i)
    pname, states, init = ch[0], ch[1:6], ch[6]
    v1, v2, v3 = _three_values(pname)
    spec, nodes = _chain()
    for lv, st in zip(levels, states):
      if st == 1:
        nodes[lv].setdefault("st", {})[pname] = v1
      elif st == 2:
        nodes[lv]["an"] = [[pname, F(1), F(2), v2]]
    if init:
      spec["init"] = [[pname, v3]]
    return spec
  return _fam(f"F-lattice[{len(props)} props]", prod.n, dec, "{unspecified, specified, animated [1,2)}^5 levels x initial")


def fam_anim_pairs():
  """two animation steps on one element: every combination of present / absent begin and end on each, same or different property"""
  # (None, 0) and (0, 0): a step that ends at 0 is never active (an end of exactly 0 is not 'no end')
  iv = [(None, None), (F(1), None), (None, F(2)), (F(1), F(2)), (F(3), None), (F(2), F(4)), (None, F(0)), (F(0), F(0))]
  prod = Product([["region", "p", "span", "div"], iv, iv, [0, 1], [0, 1]])

  def dec(i):
    lv, (b1, e1), (b2, e2), same, with_end = prod.decode(i)
    spec, nodes = _chain()
    c1, c2, _c3 = _three_values("Color")
    if same:
      steps = [["Color", b1, e1, c1], ["Color", b2, e2, c2]]
    else:
      p2 = "Opacity" if lv == "region" else "FontStyle"      # (the div begins at 0: an end of 0 is an absolute end of 0 there)
      steps = [["Color", b1, e1, c1], [p2, b2, e2, _three_values(p2)[1]]]
    nodes[lv]["an"] = steps
    if with_end and lv != "region":
      nodes[lv]["e"] = F(7, 2)
    return spec
  return _fam("F-anim-pairs", prod.n, dec, "two animation steps on region / p (begins at 1/2) / span x begin and end present or absent on each x same or different property x element end")


# --- (2) font size unit chains ---------------------------------------------------------------------

FS = [None, L(150, "%"), L(2, "em"), L(2, "c"), L(54, "px"), L(10, "rh"), L(5, "rw")]
CELLS = [None, [19, 40], [10, 20]]
PXS = [None, [640, 480]]


def fam_fontsize():
  prod = Product([FS, FS, FS, FS, CELLS, PXS])

  def dec(i):
    r, p, s, s2, cell, px = prod.decode(i)
    spec, nodes = _chain(True)
    for lv, v in (("region", r), ("p", p), ("span", s), ("span2", s2)):
      if v is not None:
        nodes[lv].setdefault("st", {})["FontSize"] = v
    if cell:
      spec["cell"] = cell
    if px:
      spec["px"] = px
    return spec
  return _fam("F-fontsize-chains", prod.n, dec, "fontSize in every unit on region/p/span/nested span x cell x px resolutions")


# --- (3) scalar lengths x font size ----------------------------------------------------------------

SCALAR = [("LineHeight", "p"), ("LinePadding", "p"), ("RubyReserve", "p"), ("TextOutline", "span"), ("TextShadow", "span"), ("TextEmphasis", "span")]


def fam_scalar():
  items = [(pn, lv, vi) for pn, lv in SCALAR for vi in range(len(stylegen.VALUES[pn]))]
  fs = [None, L(150, "%"), L(2, "c"), L(40, "px")]
  prod = Product([items, fs, fs, CELLS, PXS, [None, stylegen.RED], [0, 1]])

  def dec(i):
    (pn, lv, vi), fp, fsn, cell, px, col, on_parent = prod.decode(i)
    spec, nodes = _chain(True)
    target = lv if not on_parent else {"p": "div", "span": "p"}[lv]      # specified above and inherited down
    nodes[target].setdefault("st", {})[pn] = stylegen.VALUES[pn][vi]
    if fp is not None:
      nodes["p"].setdefault("st", {})["FontSize"] = fp
    if fsn is not None:
      nodes["span"].setdefault("st", {})["FontSize"] = fsn
    if col is not None:
      nodes["span"].setdefault("st", {})["Color"] = col
    if cell:
      spec["cell"] = cell
    if px:
      spec["px"] = px
    return spec
  return _fam("F-scalar-lengths", prod.n, dec, "lineHeight/linePadding/rubyReserve/textOutline/textShadow/textEmphasis x font-size chains")


# --- (4) region geometry ----------------------------------------------------------------------------

def fam_geometry():
  EXT = [None] + stylegen.VALUES["Extent"]
  ORG = [None] + stylegen.VALUES["Origin"]
  POS = [None] + stylegen.VALUES["Position"]
  PAD = [None] + stylegen.VALUES["Padding"]
  WM = [None] + stylegen.VALUES["WritingMode"][1:]
  prod = Product([EXT, ORG, POS, PAD, WM, [0, 1], [None, L(2, "c")]])

  def dec(i):
    ex, og, ps, pd, wm, res, fs = prod.decode(i)
    spec, nodes = _chain()
    st = nodes["region"].setdefault("st", {})
    for k, v in (("Extent", ex), ("Origin", og), ("Position", ps), ("Padding", pd), ("WritingMode", wm), ("FontSize", fs)):
      if v is not None:
        st[k] = v
    if res:
      spec["cell"], spec["px"] = [10, 20], [640, 480]
    return spec
  return _fam("F-geometry", prod.n, dec, "extent x origin x position x padding x writing mode x resolution x region font size")


def fam_geometry_sources():
  """position / extent coming from initial values or animation rather than specified"""
  POS = stylegen.VALUES["Position"]
  EXT = stylegen.VALUES["Extent"][:4]
  prod = Product([POS, EXT, ["spec", "init", "anim"], ["spec", "init", "anim"]])

  def dec(i):
    ps, ex, psrc, esrc = prod.decode(i)
    spec, nodes = _chain()
    for name, v, src in (("Position", ps, psrc), ("Extent", ex, esrc)):
      if src == "spec":
        nodes["region"].setdefault("st", {})[name] = v
      elif src == "init":
        spec.setdefault("init", []).append([name, v])
      else:
        nodes["region"].setdefault("an", []).append([name, None, F(2), v])
    return spec
  return _fam("F-geometry-sources", prod.n, dec, "position/extent from specified, initial and animated sources")


# --- (5) text decoration ---------------------------------------------------------------------------

def fam_textdecoration():
  comps = [None, True, False]
  vals = [None] + [["td", a, b, c] for a in comps for b in comps for c in comps if not (a is None and b is None and c is None)]
  prod = Product([vals, vals, vals])

  def dec(i):
    a, b, c = prod.decode(i)
    spec, nodes = _chain(True)
    for lv, v in (("div", a), ("span", b), ("span2", c)):
      if v is not None:
        nodes[lv].setdefault("st", {})["TextDecoration"] = v
    return spec
  return _fam("F-textdecoration", prod.n, dec, "component triples on div / span / nested span")


def fam_textdecoration_root():
  comps = [None, True, False]
  vals = [None] + [["td", a, b, c] for a in comps for b in comps for c in comps]
  inits = [None, ["td", None, None, True], ["td", None, None, None], ["td", True, False, None]]
  prod = Product([vals, inits, [None, ["td", None, True, None]]])

  def dec(i):
    r, init, sp_ = prod.decode(i)
    spec, nodes = _chain()
    if r is not None:
      nodes["region"].setdefault("st", {})["TextDecoration"] = r
    if sp_ is not None:
      nodes["span"].setdefault("st", {})["TextDecoration"] = sp_
    if init is not None:
      spec["init"] = [["TextDecoration", init]]
    return spec
  return _fam("F-textdecoration-root", prod.n, dec, "component triples (incl. all unspecified) on the region x initial value with unspecified components x span")


# --- (6) ruby font size ------------------------------------------------------------------------------

def fam_ruby():
  fs = [None, L(200, "%"), L(2, "c")]
  prod = Product([c01.RUBY_PATTERNS, fs, fs, fs])

  def dec(i):
    pat, fp, f1, f2 = prod.decode(i)
    rb = c01.ruby_node(pat, {})
    if f1 is not None:
      rb["c"][1].setdefault("st", {})["FontSize"] = f1          # rt or rtc
    if f2 is not None and rb["c"][1].get("c") and rb["c"][1]["k"] == "rtc":
      rb["c"][1]["c"][0].setdefault("st", {})["FontSize"] = f2  # rt inside rtc
    p = node("p", [node("span", [text("x")], id="s0"), rb], id="p")
    if fp is not None:
      p["st"] = {"FontSize": fp}
    return doc_spec(node("body", [node("div", [p], id="d")], id="b"), [])
  return _fam("F-ruby-fontsize", prod.n, dec, "ruby container shapes x font size on p / rt|rtc / rt-in-rtc")


# --- (7) text emphasis auto x writing mode, (8) direction x writing mode ----------------------------

def fam_emphasis_direction():
  WM = [None] + stylegen.VALUES["WritingMode"]
  DIR = [None] + stylegen.VALUES["Direction"]
  # a writing mode specified on a content element does not apply to it and must not reach its descendants either
  CWM = [None, ("div", "tbrl"), ("p", "tbrl"), ("p", "lrtb"), ("body", "tblr")]
  prod = Product([WM, ["spec", "init", "anim"], DIR, ["spec", "init", "anim"], [None, stylegen.VALUES["TextEmphasis"][1], stylegen.VALUES["TextEmphasis"][4]], CWM])

  def dec(i):
    wm, wsrc, dr, dsrc, te, cwm = prod.decode(i)
    spec, nodes = _chain()
    if cwm is not None:
      nodes[cwm[0]].setdefault("st", {})["WritingMode"] = ["E", "WritingModeType", cwm[1]]
    for name, v, src in (("WritingMode", wm, wsrc), ("Direction", dr, dsrc)):
      if v is None:
        continue
      if src == "spec":
        nodes["region"].setdefault("st", {})[name] = v
      elif src == "init":
        spec.setdefault("init", []).append([name, v])
      else:
        nodes["region"].setdefault("an", []).append([name, None, F(2), v])
    if te is not None:
      nodes["span"].setdefault("st", {})["TextEmphasis"] = te
    return spec
  return _fam("F-emphasis-direction", prod.n, dec, "writing mode / direction from specified, initial, animated sources x textEmphasis auto x a writing mode specified on a content element")


def plan(tier, seed):
  from mc.props import c13
  fams = []
  props = stylegen.ALL_PROPS
  if tier == "quick":
    third = seed % 3
    props = [p for i, p in enumerate(props) if i % 3 == third]
  fams.append(fam_lattice(props))
  fams.append(fam_anim_pairs())
  fams.append(fam_fontsize())
  fams.append(fam_scalar())
  fams.append(fam_geometry())
  fams.append(fam_geometry_sources())
  fams.append(fam_textdecoration())
  fams.append(fam_textdecoration_root())
  fams.append(fam_ruby())
  fams.append(fam_emphasis_direction())
  g = c13.fam_grid()
  fams.append(Family(g.name, g.n, g.decode, check_doc, shrink=c01.shrink_doc, timeout=30, note=g.note))
  return fams

"""C08 -- the SCC reader shows what a CEA-608 decoder displays, when it displays it (DESIGN.md section 3, C08).

Explicit-state search (E-states).  A state is a history of protocol *tokens* (RCL, PAC, a text pair, CR, a line
break ...) accepted by the pop-on / roll-up / paint-on protocol automata (class Proto).  For every explored history
the SCC text is rendered (our own SMPTE labels, odd parity on even word positions, parity bits cleared on odd ones),
`ttconv.scc.reader.to_model` is run on it, the displayed screen D(t) is derived from the document for every frame
and compared with the reference CEA-608 decoder of mc/ref608dec.py fed the same words.

Oracle.  With R_g the reference screen after the g-th word of the file, word g being transmitted during
[s_g, s_g + 1 frame), s_g = its line's time code + its index in the line:
  at every probe time t (every frame of every line's transmission window, every instant at which the document
  changes, one frame before the first line and one second after the last change) D(t) must equal R_g for some
  g in [lo(t), hi(t)], g non-decreasing in t, where
    hi(t) = last word of the line whose time code is the latest one <= t   (never ahead of a *later* line; inside
            a line the reader is line-granular: it shows a row as soon as the CR/PAC that opens it arrives and does
            not advance its clock on redundant control codes -- the statement's second sentence grants that slack),
    lo(t) = last word whose transmission ended one frame or more before t (CEA-608 decoders act "within one
            frame"; the reader's EDM convention, pinned by its unit tests, uses that frame).
  In a quiet gap lo = hi, hence D = R exactly (clause `stable`); during a line it is clause `transit`.
  Screens are compared row by row: the characters from the first to the last non-blank cell with runs of blanks
  collapsed to one blank (the model's default white-space handling collapses them: their number is not observable),
  the row number (+-0.3 row; roll-up up to a common vertical translation, absolute rows under `rollup.baserow`),
  colour / italics / underline of the non-blank characters.
Clauses: `stable`, `transit` (text), `gap` (a blank between two characters missing or extra), `rows`, `rollup.baserow`,
  `style`, `window` (roll-up shows more rows than the selected depth), `backspace`, `extended`, `dup`, `chan2` (text
  disagreement whose culprit token is a BS / an extended character / a doubled code / a channel-2 or null word),
  `timing` (begin / end / span begin off the frame grid of 30 or 30000/1001, end < begin; text shown before its line),
  `painton.overwrite`, `config.align` (pop-on paragraphs carry the configured textAlign; the content does not depend on
  it), and the isolated `timing.convention` (the reader's own clock: time code + number of words that are not redundant
  copies, +1 for EDM -- pinned by the unit tests, not demanded by the statement).
Signatures.  A disagreement is first explained, if possible, by the smallest set of *named departures* (reference
  decoder variants of ref608dec / oracle variant "row shown with text of later lines"); each departure is reported as
  (clause, dev=<name>).  What remains is reported with the feature vector of the culprit token (first prefix that
  fails; pop-on loads are judged with an EOC appended): kind, mode, token class, state of the cursor's row
  (empty / append / gap / over), display erased since the style was entered.
Not demanded: columns, textAlign under `auto`, region ids, leading / trailing blanks, number of blanks in a run,
  attributes of blanks, absolute rows of roll-up captions (own clause).
"""
from __future__ import annotations

from fractions import Fraction as F

from mc import env  # noqa  (first: puts the explored tree on sys.path)
from mc.kernel import StateFamily, HarnessError, CaseTimeout, h64, exc_disc, innermost_ttconv_frame
from mc import ref608dec as R6

import ttconv.scc.reader as scc_reader
from ttconv.scc.context import SccContext
from ttconv.scc.config import SccReaderConfiguration, TextAlignment
from ttconv.model import P, Span, Br, Text
from ttconv.style_properties import StyleProperties, FontStyleType, DisplayAlignType
from ttconv.isd import ISD

ID = "C08"
LEVEL = "model_checking"
RULE = ("a case is one transition: a token history accepted by the pop-on / roll-up / paint-on protocol automata, "
        "rendered to SCC text and read by ttconv.scc.reader.to_model; every enabled token is executed in every reached "
        "state, breadth first, states de-duplicated on (protocol state, reference decoder state, projection of the real "
        "SccContext captured by a recording subclass: style, depth, cursors, pen, previous word, channel, rows / texts / "
        "styles of buffered and active caption, and the regions created so far); a case is non-trivial when the reference "
        "decoder displays at least one non-blank screen for it; distinct by rendered SCC text")
BOUNDS = {
  "quick": "9 families, control codes doubled unless stated: popon-layout (all 12 PACs rows {1,14,15} x {indent 0, indent 8, "
           "white underline, cyan}, texts 'ab' / 'c'+null, optional ENM / EDM, depth 7), popon-pen (3 PACs, TO1-3, mid-row "
           "{italics, white, green underline}, BS, special, extended, depth 6), popon-reuse (rows addressed twice, depth 7), "
           "rollup (RU2/3/4, 6 PACs, 2 mid-row codes, BS, extended, EDM, depth 7), painton (6 PACs, mid-row, BS, DER, "
           "extended, EDM, depth 6), painton-words (pairs with blanks, depth 7), mix (alternations of the three styles, depth 9), "
           "deco-n / deco-d (single and doubled codes x null / channel-2 code / channel-2 PAC+text x line breaks with gap "
           "0 / 1 / 40 frames, NDF resp. DF time codes across 00:01:00, depth 5 resp. 6; deco-d2 / deco-d10: the DF family without characters and backspace across 00:02:00 and 00:10:00, depth 5); text_align auto on every history, "
           "left / center / right on every history that ends with EOC; odd VERIF_SEED swaps DF and NDF",
  "thorough": "popon-layout 9, popon-pen 7, popon-reuse 8, rollup 8, painton 7, painton-words 8, mix 10, deco-n 7, deco-d 7, deco-d2 6, deco-d10 6",
}
ASSUMPTIONS = [
  "mc/ref608dec.py is CEA-608 / 47 CFR 15.119 (bound by gates(): PAC row table, hand examples, the literals asserted by "
  "test_scc_reader.py and the three bundled SCC files)",
  "a decoder may take one frame to act on a control code: lo(t) only counts words whose transmission ended >= 1 frame "
  "before t (this admits the reader's pinned EDM convention: end = frame after the EDM + 1)",
  "caption style changes happen only while both reference memories are blank (DESIGN appendix B), the roll-up depth only "
  "grows while rows are displayed, rows never reach column 32, BS / DER follow text: the CEA-608 rules for the other cases "
  "are not exercised",
  "the displayed screen is derived from p / span begin and end, region origin / extent / displayAlign and br counts; this "
  "derivation is itself compared with ISD.from_model on every history of length <= 4 and on 1/32 of the longer ones "
  "(a disagreement is a harness error)",
  "words are transmitted one per frame from the line's time code, at 30 fps (':') or 30000/1001 fps drop-frame (';')",
  "states that differ only in absolute time (number of null / redundant words so far, gaps) are merged: the reader keeps no "
  "time across lines except in paragraphs already begun, whose times are judged in the history that produced them",
]

# ------------------------------------------------------------------------------------------------------
# tokens

ROWS_USED = (1, 14, 15)
PAC_VARIANTS = {"i0": dict(indent=0), "i8": dict(indent=8), "wu": dict(colour=R6.WHITE, underline=True), "cy": dict(colour=R6.CYAN)}
MID_VARIANTS = {"it": dict(italic=True), "wh": dict(colour=R6.WHITE), "gu": dict(colour=R6.GREEN, underline=True)}

TOK = {}
for _n in ("RCL", "ENM", "EDM", "EOC", "RDC", "RU2", "RU3", "RU4", "CR", "BS", "DER", "TO1", "TO2", "TO3"):
  TOK[_n] = ("ctl", [R6.ctrl(_n)])
for _r in ROWS_USED:
  for _v, _kw in PAC_VARIANTS.items():
    TOK[f"P{_r}{_v}"] = ("ctl", [R6.pac(_r, **_kw)])
for _v, _kw in MID_VARIANTS.items():
  TOK[f"M{_v}"] = ("ctl", [R6.midrow(**_kw)])
TOK["Tab"] = ("txt", [(0x61, 0x62)])
TOK["Tc"] = ("txt", [(0x63, 0x00)])
TOK["Td_"] = ("txt", [(0x64, 0x20)])        # "d " (the reader's paint-on logic keys on blanks)
TOK["T_e"] = ("txt", [(0x20, 0x65)])        # " e"
TOK["S"] = ("ctl", [(0x11, 0x37)])          # special character: musical note
TOK["X"] = ("ctl", [(0x41, 0x00), (0x12, 0x20)])   # extended character A acute, preceded by its fall-back 'A' which it replaces
TOK["C2"] = ("c2", [R6.ctrl("EDM", channel=2)])                        # a channel-2 control code
TOK["C2P"] = ("c2", [R6.pac(14, indent=0, channel=2), (0x7A, 0x7A)])   # a channel-2 PAC followed by its text
TOK["F2"] = ("c2", [(0x15, 0x2C)])                                     # the field-2 form of a control code (EDM): belongs to no field-1 channel
TOK["N"] = ("nul", [(0x00, 0x00)])
NL_TOKENS = ("NL0", "NL1", "NL40")          # line break: next time code = end of line + 0 / 1 / 40 frames

TEXT_TOKENS = ("Tab", "Tc", "Td_", "T_e")
STYLE_START = {"RCL": "pop", "RU2": "roll", "RU3": "roll", "RU4": "roll", "RDC": "paint"}


def base_tok(t):
  return t[:-1] if t.endswith("+") else t


def tok_words(t):
  """[(b1, b2), ...] of a token; a trailing '+' doubles its control word"""
  kind, ws = TOK[base_tok(t)]
  if t.endswith("+"):
    i = next(j for j, w in enumerate(ws) if 0x10 <= w[0] <= 0x1F)
    return list(ws[:i + 1]) + [ws[i]] + list(ws[i + 1:])
  return list(ws)


def tok_kind(t):
  b = base_tok(t)
  if b.startswith("NL"):
    return "NL"
  if b.startswith("P"):
    return "PAC"
  if b.startswith("M"):
    return "MID"
  if b.startswith("TO"):
    return "TO"
  if b in TEXT_TOKENS:
    return "TEXT"
  if b in ("RU2", "RU3", "RU4"):
    return "RU"
  return b


# ------------------------------------------------------------------------------------------------------
# family profiles (alphabets)

ALL_PACS = tuple(f"P{r}{v}" for r in ROWS_USED for v in PAC_VARIANTS)
PROFILES = {
  # pop-on, rows: every PAC of the alphabet, 1-3 rows per caption, successive captions with / without ENM and EDM
  "popon-layout": dict(styles=("RCL",), pacs=ALL_PACS, tos=(), mids=(), texts=("Tab", "Tc"), chars=(), bs=False, der=False,
                       enm=True, edm=True, neutral=(), nl=False, doubling="always", rate="n", reuse=False),
  # pop-on, cursor and pen: tab offsets, mid-row codes, backspace, special and extended characters
  "popon-pen": dict(styles=("RCL",), pacs=("P15i0", "P14cy", "P1i8"), tos=("TO1", "TO2", "TO3"), mids=("Mit", "Mwh", "Mgu"),
                    texts=("Tab", "Tc"), chars=("S", "X"), bs=True, der=False, enm=False, edm=False, neutral=(), nl=False,
                    doubling="always", rate="d", reuse=False, midmid=True),
  # pop-on, a row addressed again by a second PAC (overwriting, gaps)
  "popon-reuse": dict(styles=("RCL",), pacs=("P15i0", "P15i8", "P15cy", "P14i0"), tos=(), mids=(), texts=("Tab", "Tc"),
                      chars=("X",), bs=False, der=False, enm=False, edm=False, neutral=(), nl=False, doubling="always",
                      rate="n", reuse=True),
  # pop-on, three and more successive captions over a minimal alphabet: the flip (EOC) swaps the two memories, so what a
  # caption leaves in the non-displayed memory comes back two flips later unless ENM cleared it
  "popon-swap": dict(styles=("RCL",), pacs=("P15i0", "P14i0", "P1i0"), tos=(), mids=(), texts=("Tab",), chars=(), bs=False, der=False,
                     enm=True, edm=False, neutral=(), nl=False, doubling="always", rate="n", reuse=False),
  "rollup": dict(styles=("RU2", "RU3", "RU4"), pacs=("P15i0", "P15i8", "P15cy", "P14i0", "P14wu", "P1i0"), tos=(), mids=("Mit", "Mgu"),
                 texts=("Tab", "Tc"), chars=("X",), bs=True, der=False, enm=False, edm=True, neutral=(), nl=False,
                 doubling="always", rate="d", reuse=True),
  "painton": dict(styles=("RDC",), pacs=("P15i0", "P15i8", "P15cy", "P14i0", "P14wu", "P1i8"), tos=(), mids=("Mit", "Mgu"),
                  texts=("Tab", "Tc"), chars=("X",), bs=True, der=True, enm=False, edm=True, neutral=(), nl=False,
                  doubling="always", rate="n", reuse=True),
  # paint-on, words: the reader starts a new timed span at every blank
  "painton-words": dict(styles=("RDC",), pacs=("P15i0", "P14cy"), tos=(), mids=(), texts=("Tab", "Td_", "T_e"), chars=(),
                        bs=False, der=False, enm=False, edm=True, neutral=(), nl=False, doubling="always", rate="d", reuse=True),
  # alternations of the three styles (style changes only while both memories are blank)
  "mix": dict(styles=("RCL", "RU2", "RU3", "RDC"), pacs=("P15i0", "P14cy"), tos=(), mids=("Mit",), texts=("Tab",),
              chars=(), bs=False, der=False, enm=True, edm=True, neutral=(), nl=False, doubling="always", rate="n", reuse=False),
  # decorations: single / doubled control codes x null and channel-2 interleaving x line breaks, both time code kinds
  "deco-n": dict(styles=("RCL", "RU2", "RDC"), pacs=("P15i0",), tos=("TO1",), mids=("Mit",), texts=("Tab",),
                 chars=("S", "X"), bs=True, der=False, enm=False, edm=True, neutral=("N", "C2", "C2P", "F2"), nl=True,
                 doubling="both", rate="n", reuse=False),
  "deco-d": dict(styles=("RCL", "RU2", "RDC"), pacs=("P14i8",), tos=(), mids=(), texts=("Tab",),
                 chars=("S",), bs=True, der=False, enm=False, edm=True, neutral=("N", "C2"), nl=True,
                 doubling="both", rate="d", reuse=False),
}
# the drop-frame minute boundaries are of three kinds: minute 0 -> 1 of a ten-minute block (deco-d, first line at 00:00:59;20), a boundary
# between two minutes that both drop labels (first line at 00:01:59;26, so that four words reach it) and minute 9 -> 10, where nothing is dropped (00:09:59;26)
PROFILES["deco-d2"] = dict(PROFILES["deco-d"], k0=3594, chars=(), bs=False)
PROFILES["deco-d10"] = dict(PROFILES["deco-d"], k0=17978, chars=(), bs=False)
DEPTHS = {
  "quick": {"popon-swap": 12, "popon-layout": 7, "popon-pen": 6, "popon-reuse": 7, "rollup": 7, "painton": 6, "painton-words": 7, "mix": 9,
            "deco-n": 5, "deco-d": 6, "deco-d2": 5, "deco-d10": 5},
  "thorough": {"popon-swap": 15, "popon-layout": 9, "popon-pen": 7, "popon-reuse": 8, "rollup": 8, "painton": 7, "painton-words": 8, "mix": 10,
               "deco-n": 7, "deco-d": 7, "deco-d2": 6, "deco-d10": 6},
}

# ------------------------------------------------------------------------------------------------------
# protocol automata


class Proto:
  """Position in the protocol grammars.  Holds the reference decoder (strict CEA-608) it advances in step."""

  def __init__(self):
    self.style = None
    self.phase = "init"
    self.ch2 = False            # the last control pair was a channel-2 one: text belongs to channel 2
    self.depth = 0
    self.pending_nl = None
    self.dec = R6.Decoder()

  def key(self):
    return (self.style, self.phase, self.ch2, self.depth, self.pending_nl)

  def enabled(self, prof):
    ph = self.phase
    out = []
    both_blank = self.dec.blank("dm") and self.dec.blank("nm")

    def starts(exclude=None):
      return [s for s in prof["styles"] if s != exclude]

    texts = list(prof["texts"]) + list(prof["chars"])

    def pacs():
      """PACs of the alphabet; without `reuse`, only those that address a row still empty in the memory written to"""
      if prof.get("reuse", True) or self.style == "roll":
        return list(prof["pacs"])
      mem = self.dec.nm if self.style == "pop" else self.dec.dm
      return [t for t in prof["pacs"] if mem[int(t[1:-2]) - 1].count(None) == R6.COLS]

    if ph == "init":
      out += starts()
    elif ph == "pop.start":
      out += (["ENM"] if prof["enm"] else []) + pacs()
    elif ph == "pop.enm":
      out += pacs()
    elif ph == "paint.start":
      out += pacs()
    elif ph == "roll.start":
      out += ["CR"]
    elif ph == "roll.cr":
      out += pacs() + texts + list(prof["mids"])
    elif ph == "pac":
      out += (list(prof["tos"]) if self.style == "pop" else []) + list(prof["mids"]) + texts
    elif ph == "to":
      out += list(prof["mids"]) + texts
    elif ph == "mid":
      out += texts + (list(prof["mids"]) if prof.get("midmid") else [])     # a second mid-row code replaces the pen of the first
    elif ph == "text":
      out += texts + list(prof["mids"])
      if prof["bs"]:
        out.append("BS")
      if self.style == "pop":
        out += pacs() + (["EDM"] if prof["edm"] else []) + ["EOC"]
      elif self.style == "roll":
        out += ["CR"] + [s for s in prof["styles"] if s.startswith("RU") and int(s[2]) >= self.depth]
        if prof["edm"]:
          out.append("EDM")
      elif self.style == "paint":
        out += pacs() + (["DER"] if prof["der"] else []) + (["EDM"] if prof["edm"] else [])
    elif ph == "pop.preeoc":
      out += ["EOC"]
    elif ph == "pop.done":
      if "RCL" in prof["styles"]:
        out.append("RCL")
      if prof["edm"] and not self.dec.blank("dm"):
        out.append("EDM")
      if prof["enm"] and not self.dec.blank("nm"):
        out.append("ENM")
      if both_blank:
        out += starts("RCL")
    elif ph == "roll.erased":
      out += ["CR"] + [s for s in prof["styles"] if s.startswith("RU")]
      if both_blank:
        out += [s for s in prof["styles"] if not s.startswith("RU")]
    elif ph == "paint.erased":
      out += pacs()
      if both_blank:
        out += starts("RDC")
    # channel-2 text: printable pairs after a channel-2 control code belong to channel 2 (no protocol effect)
    if self.ch2:
      out = [t for t in out if tok_kind(t) != "TEXT"] + ["Tab"]
    res = []
    for t in dict.fromkeys(out):
      kind = TOK[t][0]
      if kind == "ctl" and prof["doubling"] in ("always", "both"):
        res.append(t + "+")
      if kind != "ctl" or prof["doubling"] in ("never", "both"):
        res.append(t)
    if ph != "init":
      for t in prof["neutral"]:
        res.append(t)
        if TOK[t][0] == "c2" and prof["doubling"] == "both":
          res.append(t + "+")
      if prof["nl"] and self.pending_nl is None:
        res += list(NL_TOKENS)
    return res

  def step(self, t):
    """advances the automaton and the reference decoder (the caller has checked `t in enabled`)"""
    b = base_tok(t)
    if b.startswith("NL"):
      self.pending_nl = b
      return
    self.pending_nl = None
    kind = TOK[b][0]
    for (b1, b2) in tok_words(t):
      self.dec.feed((b1 << 8) | b2)
    if kind == "nul":
      return
    if kind == "c2":
      self.ch2 = True
      return
    if kind == "txt":
      if self.ch2:
        return
      self.phase = "text"
      return
    # channel-1 control token
    self.ch2 = False
    k = tok_kind(b)
    if b in STYLE_START:
      self.style = STYLE_START[b]
      if self.style == "roll":
        self.depth = int(b[2])
      self.phase = {"pop": "pop.start", "roll": "roll.start", "paint": "paint.start"}[self.style]
    elif b == "ENM":
      self.phase = "pop.enm" if self.phase == "pop.start" else self.phase
    elif b == "EDM":
      if self.phase == "text":
        self.phase = {"pop": "pop.preeoc", "roll": "roll.erased", "paint": "paint.erased"}[self.style]
    elif b == "EOC":
      self.phase = "pop.done"
    elif b == "CR":
      self.phase = "roll.cr"
    elif k == "PAC":
      self.phase = "pac"
    elif k == "TO":
      self.phase = "to"
    elif k == "MID":
      self.phase = "mid"
    elif b in ("S", "X"):
      self.phase = "text"
    # BS, DER: phase unchanged


def accepts(history, prof):
  p = Proto()
  for t in history:
    if t not in p.enabled(prof):
      return False
    p.step(t)
  return True


# ------------------------------------------------------------------------------------------------------
# rendering a history to SCC text (time codes by our own SMPTE 12M arithmetic)

K0 = 1790             # frame count of the first line: 00:00:59:20 / 00:00:59;20 (a drop-frame minute boundary follows)
AUTO_NL_GAP = 40


def label(k: int, df: bool) -> str:
  if df:
    D, M = divmod(k, 17982)
    k = k + 18 * D + (2 * ((M - 2) // 1798) if M >= 2 else 0)
  f = k % 30
  s = (k // 30) % 60
  m = (k // 1800) % 60
  h = k // 108000
  return f"{h:02}:{m:02}:{s:02}{';' if df else ':'}{f:02}"


def rate_of(df):
  return F(30000, 1001) if df else F(30)


class Rendered:
  """lines: [(k0, [word, ...])]; words: global list of (line index, index in line, word int, token index)"""

  def __init__(self, history, prof):
    self.df = prof["rate"] == "d"
    self.rate = rate_of(self.df)
    self.lines = []
    self.words = []
    cur = None
    pending_gap = None
    for ti, t in enumerate(history):
      b = base_tok(t)
      if b.startswith("NL"):
        pending_gap = int(b[2:])
        continue
      new_line = cur is None or pending_gap is not None
      gap = pending_gap
      if not new_line and not prof["nl"] and b in STYLE_START:
        new_line, gap = True, AUTO_NL_GAP       # families without line-break tokens: each caption start opens a line
      if new_line:
        if cur is None:
          k = prof.get("k0", K0)
        else:
          k = cur[0] + len(cur[1]) + (gap if gap is not None else AUTO_NL_GAP)
        cur = (k, [])
        self.lines.append(cur)
        pending_gap = None
      for (b1, b2) in tok_words(t):
        i = len(cur[1])
        w = R6.word(b1, b2, parity=(i % 2 == 0))      # parity bits set on even positions, cleared on odd ones
        cur[1].append(w)
        self.words.append((len(self.lines) - 1, i, w, ti))

  def text(self):
    out = ["Scenarist_SCC V1.0", ""]
    for k, ws in self.lines:
      out.append(label(k, self.df) + "\t" + " ".join(R6.hex4(w) for w in ws))
      out.append("")
    return "\n".join(out)


# ------------------------------------------------------------------------------------------------------
# running the real reader with a recording context (no source hooks: the reader module's name is rebound)

_REC = {}


def _tc_flag(x):
  return x is not None


def _proj_text(t):
  return (t.get_text(), t.get_cursor(), tuple(sorted((k.__name__, repr(v)) for k, v in t.get_style_properties().items())),
          _tc_flag(t.get_begin()), _tc_flag(t.get_end()))


def _proj_line(ln):
  texts = ln.get_texts()
  cur = ln.get_current_text()
  ci = next((i for i, x in enumerate(texts) if x is cur), -1)
  return (ln.get_row(), ln.get_indent(), ln.get_cursor(), ci, tuple(_proj_text(x) for x in texts),
          _proj_text(cur) if ci < 0 else None)


def _proj_caption(c):
  if c is None:
    return None
  lines = c.get_lines()
  cl = c.get_current_line()
  in_dict = next((r for r, ln in lines.items() if ln is cl), None)
  return (c.get_caption_style().name, c.get_cursor(), _tc_flag(c.get_begin()), _tc_flag(c.get_end()), bool(c.get_id()),
          tuple(sorted((k.__name__, repr(v)) for k, v in c.get_style_properties().items())),
          tuple((r, _proj_line(ln)) for r, ln in sorted(lines.items())),
          in_dict, _proj_line(cl) if in_dict is None and cl is not None else None)


def _proj_context(ctx):
  doc = ctx.div.get_doc()
  regions = []
  for r in doc.iter_regions():
    o = r.get_style(StyleProperties.Origin)
    regions.append((r.get_id().rstrip("0123456789"), o.x.value, o.y.value))
  pw = ctx.previous_word
  return (ctx.current_style.name, ctx.roll_up_depth, ctx.active_cursor,
          (pw.value if pw is not None else None), getattr(ctx.previous_word_type, "__name__", None),
          getattr(ctx.current_channel, "name", None), repr(ctx.current_color), repr(ctx.current_font_style), repr(ctx.current_text_decoration),
          _proj_caption(ctx.buffered_caption), _proj_caption(ctx.active_caption), tuple(regions))


class _RecContext(SccContext):
  """SccContext that reports its state at the end of the stream, before flush() tears it down"""

  def flush(self, time_code=None):
    _REC["proj"] = _proj_context(self)
    return super().flush(time_code)


scc_reader.SccContext = _RecContext

CONFIGS = {"auto": TextAlignment.AUTO, "left": TextAlignment.LEFT, "center": TextAlignment.CENTER, "right": TextAlignment.RIGHT}


def run_reader(text, align="auto"):
  _REC.clear()
  cfg = SccReaderConfiguration(text_align=CONFIGS[align])
  doc = scc_reader.to_model(text, cfg)
  return doc, _REC.get("proj")


# ------------------------------------------------------------------------------------------------------
# the displayed screen as a function of time, from the document

ROOT_ROWS = 19          # ceil(15 / 0.8): the reader's root cell grid; the safe area starts 2 cells down
SAFE_TOP = 2
INF = 10 ** 12

_COLOUR_NAMES = {(255, 255, 255): R6.WHITE, (0, 128, 0): R6.GREEN, (0, 255, 0): R6.GREEN, (0, 0, 255): R6.BLUE,
                 (0, 255, 255): R6.CYAN, (255, 0, 0): R6.RED, (255, 255, 0): R6.YELLOW, (255, 0, 255): R6.MAGENTA}


def _colour_name(c):
  if c is None:
    return R6.WHITE                      # initial value of tts:color
  comps = tuple(c.components[:3]) if hasattr(c, "components") else None
  return _COLOUR_NAMES.get(comps, repr(c))


def _span_attrs(span):
  col = _colour_name(span.get_style(StyleProperties.Color))
  it = span.get_style(StyleProperties.FontStyle) in (FontStyleType.italic, FontStyleType.oblique)
  td = span.get_style(StyleProperties.TextDecoration)
  ul = bool(td is not None and getattr(td, "underline", None))
  return (col, it, ul)


def _pct_rows(v):
  return F(v) * ROOT_ROWS / 100


def _fr(t, rate):
  """seconds -> frames of the history's rate; an int when t lies on the frame grid"""
  x = F(t) * rate
  return x.numerator if x.denominator == 1 else x


class DocView:
  """paragraphs of the document as plain data, times in frames of the history's rate (ints when on the grid):
  begin, end, region geometry, lines of (begin, end, text, attrs)"""

  def __init__(self, doc, rate):
    self.paras = []
    body = doc.get_body()
    for div in body:
      for p in div:
        if not isinstance(p, P):
          continue
        b = p.get_begin()
        e = p.get_end()
        b = 0 if b is None else _fr(b, rate)
        e = INF if e is None else _fr(e, rate)
        reg = p.get_region()
        o = reg.get_style(StyleProperties.Origin)
        x = reg.get_style(StyleProperties.Extent)
        da = reg.get_style(StyleProperties.DisplayAlign)
        top = _pct_rows(o.y.value) - SAFE_TOP + 1                  # 1-based 608 row of the region's first line
        height = _pct_rows(x.height.value)
        lines = [[]]
        for ch in p:
          if isinstance(ch, Br):
            lines.append([])
          elif isinstance(ch, Span):
            sb = ch.get_begin()
            se = ch.get_end()
            txt = "".join(t.get_text() for t in ch if isinstance(t, Text))
            lines[-1].append((b + _fr(sb, rate) if sb is not None else b, b + _fr(se, rate) if se is not None else e, txt, _span_attrs(ch)))
        self.paras.append(dict(id=p.get_id(), begin=b, end=e, region=reg.get_id(), top=top, height=height,
                               after=(da == DisplayAlignType.after), lines=lines,
                               align=p.get_style(StyleProperties.TextAlign)))

  def instants(self):
    s = set()
    for p in self.paras:
      s.add(p["begin"])
      if p["end"] != INF:
        s.add(p["end"])
      for ln in p["lines"]:
        for (sb, se, _t, _a) in ln:
          s.add(max(sb, p["begin"]))
          if se != INF:
            s.add(min(se, p["end"]))
    return sorted(s)

  def screen(self, t):
    """[(row (Fraction), ((char, colour, italic, underline), ...))] at time t, rows with a non-blank character only,
    trimmed of leading and trailing blanks; paragraphs of one region flow one after the other"""
    by_region = {}
    for p in self.paras:
      if p["begin"] <= t < p["end"]:
        by_region.setdefault(p["region"], []).append(p)
    out = []
    for _rid, ps in by_region.items():
      flow = []
      for p in ps:
        for ln in p["lines"]:
          cells = []
          for (sb, se, txt, attrs) in ln:
            if sb <= t < se:
              cells += [(c,) + attrs for c in txt]
          flow.append(cells)
      p0 = ps[0]
      first = p0["top"] + p0["height"] - len(flow) if p0["after"] else p0["top"]
      for i, cells in enumerate(flow):
        idx = [j for j, c in enumerate(cells) if c[0] != " "]
        if idx:
          out.append((first + i, collapse(cells[idx[0]:idx[-1] + 1])))
    out.sort(key=lambda rc: rc[0])
    return out


def isd_screen(doc, t):
  """the same screen derived from ISD.from_model (cross-check of DocView on short histories)"""
  isd = ISD.from_model(doc, t)
  out = []
  if isd is None:
    return out
  for reg in isd.iter_regions():
    o = reg.get_style(StyleProperties.Origin)
    x = reg.get_style(StyleProperties.Extent)
    da = reg.get_style(StyleProperties.DisplayAlign)
    flow = []

    def walk(e):
      for ch in e:
        if isinstance(ch, Br):
          flow.append([])
        elif isinstance(ch, Text):
          attrs = _span_attrs(ch.parent())
          flow[-1] += [(c,) + attrs for c in ch.get_text()]
        elif isinstance(ch, P):
          flow.append([])
          walk(ch)
        else:
          walk(ch)

    walk(reg)
    top = _pct_rows(o.y.value) - SAFE_TOP + 1
    height = _pct_rows(x.height.value)
    first = top + height - len(flow) if da == DisplayAlignType.after else top
    for i, cells in enumerate(flow):
      idx = [j for j, c in enumerate(cells) if c[0] != " "]
      if idx:
        out.append((first + i, collapse(cells[idx[0]:idx[-1] + 1])))
  out.sort(key=lambda rc: rc[0])
  return out


# ------------------------------------------------------------------------------------------------------
# comparing a displayed screen with a reference screen

ROW_TOL = F(3, 10)


def collapse(cells):
  """runs of blanks -> one blank: the model's default white-space handling collapses them, so their number is not
  observable in a presentation; a missing / extra blank between two characters is (kind `gap`)"""
  out = []
  for c in cells:
    if c[0] == " " and out and out[-1][0] == " ":
      continue
    out.append(c)
  return tuple(out)


def ref_norm(screen):
  """reference screen -> [(row, ((char|' ', colour, italic, underline), ...))] (interior transparent cells = blanks)"""
  return [(row, collapse(tuple((" ", None, None, None) if c is None else c for c in cells))) for row, _c0, cells in screen]


def compare(dscr, rscr, roll):
  """(None, abs_ok) when equal under the main clauses, else (kind, abs_ok); kind in text|gap|rows|style.
  abs_ok: the absolute rows agree too (`rollup.baserow`)"""
  if len(dscr) != len(rscr):
    dt = [("".join(c[0] for c in cells)).replace(" ", "") for _r, cells in dscr]
    rt = [("".join(c[0] for c in cells)).replace(" ", "") for _r, cells in rscr]
    return ("gap" if dt == rt else "text"), True
  if not dscr:
    return None, True
  dt = ["".join(c[0] for c in cells) for _r, cells in dscr]
  rt = ["".join(c[0] for c in cells) for _r, cells in rscr]
  if dt != rt:
    if [x.replace(" ", "") for x in dt] == [x.replace(" ", "") for x in rt]:
      return "gap", True
    return "text", True
  abs_ok = all(abs(dr - rr) <= ROW_TOL for (dr, _), (rr, _) in zip(dscr, rscr))
  if roll:
    # roll-up: rows are compared up to a common vertical translation (absolute rows: clause rollup.baserow)
    d0, r0 = dscr[0][0], rscr[0][0]
    rel_ok = all(abs((dr - d0) - (rr - r0)) <= ROW_TOL for (dr, _), (rr, _) in zip(dscr, rscr))
  else:
    rel_ok = abs_ok
  if not rel_ok:
    return "rows", abs_ok
  for (_dr, dc), (_rr, rc) in zip(dscr, rscr):
    for a, b in zip(dc, rc):
      if b[0] != " " and a[1:] != b[1:]:
        return "style", abs_ok
  return None, abs_ok


def show(scr):
  return [[round(float(r), 2), "".join(c[0] for c in cells),
           " ".join("." if c[0] == " " else (c[1] or "?")[0] + ("i" if c[2] else "") + ("u" if c[3] else "") for c in cells)]
          for r, cells in scr]


SEVERITY = {"style": 0, "rows": 1, "gap": 2, "text": 3}

# ------------------------------------------------------------------------------------------------------
# the oracle for one history


def reference_run(rend, dev=frozenset()):
  """[(normalised screen, mode, depth, what the word did)] after each word; index 0 = before the first word"""
  d = R6.Decoder(frozenset(x for x in dev if x != DEV_ROW_ANTICIPATED))
  out = [([], None, 0, None)]
  last_raw = []
  last_norm = []
  for (_li, _i, w, _ti) in rend.words:
    d.feed(w)
    raw = d.screen()
    if raw != last_raw:
      last_raw, last_norm = raw, ref_norm(raw)
    out.append((last_norm, d.mode, d.depth, d.acted))
  return out


ROW_OPENERS = frozenset(("PAC", "CR", "RCL", "RDC", "RU2", "RU3", "RU4", "EOC", "EDM", "ENM"))


def judge(rend, view, refs, anticipate_rows=False):
  """Returns a list of findings [(kind, phase, info)] for the document view against the reference run `refs`
  (refs[g + 1] = state after global word g).  All times in frames.

  The displayed screens D(t) at the probe times must be matched, in order, by reference screens R_g with
  lo(t) <= g <= hi(t), g non-decreasing.  A greedy scan (smallest admissible g) decides whether such a matching
  exists.  If not, the disagreement is *classified* along a minimum-cost monotone alignment (dynamic programme:
  equal 0, style or rows 1, blanks 3, text 6), so that one wrong row is not reported as a cascade.

  anticipate_rows (naming a departure only): a row may be shown in the state that words of *later* lines give it,
  up to the next word that opens a row or a caption."""
  findings = []
  # timing: frame grid, end >= begin
  for p in view.paras:
    for what, t in (("begin", p["begin"]), ("end", p["end"])):
      if not isinstance(t, int):
        findings.append(("timing", "grid", dict(what=f"p {what}", frames=str(t))))
    if p["end"] < p["begin"]:
      findings.append(("timing", "order", dict(what="p end < begin", frames=f"{p['begin']}..{p['end']}")))
    for ln in p["lines"]:
      for (sb, _se, _txt, _a) in ln:
        if not isinstance(sb, int):
          findings.append(("timing", "grid", dict(what="span begin", frames=str(sb))))
        if sb < p["begin"]:
          findings.append(("timing", "order", dict(what="span begin < p begin", frames=str(sb))))
  if not rend.lines:
    return findings
  line_k = [k for k, _ws in rend.lines]
  line_last = []
  n = 0
  for _k, ws in rend.lines:
    n += len(ws)
    line_last.append(n - 1)
  slot_end = [line_k[li] + i + 1 for (li, i, _w, _ti) in rend.words]
  nw = len(slot_end)
  probes = set(view.instants())
  for li, (k, ws) in enumerate(rend.lines):
    nxt = line_k[li + 1] if li + 1 < len(line_k) else None
    for j in range(len(ws) + 2):
      if nxt is None or k + j < nxt:
        probes.add(k + j)
  probes.add(max(probes) + 30)
  probes.add(line_k[0] - 1)
  probes = sorted(t for t in probes if t >= 0)
  # windows
  win = []
  lo = -1
  li = -1
  nlines = len(line_k)
  for t in probes:
    # hi: last word of the latest line started at or before t; lo: last word whose slot ended a frame or more before t
    while li + 1 < nlines and line_k[li + 1] <= t:
      li += 1
    hi = line_last[li] if li >= 0 else -1
    if anticipate_rows and li >= 0:
      while hi + 1 < nw and refs[hi + 2][3] not in ROW_OPENERS:
        hi += 1
    while lo + 1 < nw and slot_end[lo + 1] + 1 <= t:
      lo += 1
    win.append((min(lo, hi), hi, li))
  screens = [view.screen(t) for t in probes]

  memo = {}

  def cmp(j, g):
    rscr, mode, _depth, _a = refs[g + 1]
    key = (j, id(rscr), mode == "roll")
    if key not in memo:
      memo[key] = compare(screens[j], rscr, mode == "roll")
    return memo[key]

  # greedy: does a monotone matching exist?
  path = []
  prev_g = -1
  ok = True
  for j, (lo_t, hi, _li) in enumerate(win):
    g = max(prev_g, lo_t)
    while g <= hi and cmp(j, g)[0] is not None:
      g += 1
    if g > hi:
      ok = False
      break
    path.append(g)
    prev_g = g
  if not ok:
    # minimum-cost monotone alignment
    INFTY = 10 ** 9
    cost_of = {None: 0, "style": 1, "rows": 1, "gap": 3, "text": 6}
    width = nw + 1                     # g = -1 .. nw - 1  ->  index g + 1
    prev = [0] * width
    back = []
    for j, (lo_t, hi, _li) in enumerate(win):
      cur = [INFTY] * width
      arg = [0] * width
      best, besti = INFTY, 0
      for gi in range(width):
        if prev[gi] <= best:           # prefix minimum, the latest index among equals
          best, besti = prev[gi], gi
        g = gi - 1
        if lo_t <= g <= hi and best < INFTY:
          cur[gi] = best + cost_of[cmp(j, g)[0]]
          arg[gi] = besti
      back.append(arg)
      prev = cur
    gi = max(range(width), key=lambda i: (-prev[i], i))
    path = [0] * len(win)
    for j in range(len(win) - 1, -1, -1):
      path[j] = gi - 1
      gi = back[j][gi]
  seen = set()
  for j, g in enumerate(path):
    lo_t, hi, li = win[j]
    # window: while every admissible reference state is roll-up, never more rows than the largest admissible depth
    cand = refs[lo_t + 1:hi + 2]
    if "window" not in seen and all(c[1] == "roll" for c in cand) and len(screens[j]) > max(c[2] for c in cand):
      seen.add("window")
      findings.append(("window", "stable" if lo_t == hi else "transit",
                       dict(t=probes[j], observed=show(screens[j]), depth=max(c[2] for c in cand), g=g)))
    res, abs_ok = cmp(j, g)
    quiet = lo_t == hi
    rscr, mode, depth, _a = refs[g + 1]
    if res is not None:
      phase = "stable" if quiet else "transit"
      if (res, phase) not in seen:
        seen.add((res, phase))
        findings.append((res, phase, dict(t=probes[j], line=li, word_range=[lo_t, hi], observed=show(screens[j]),
                                          expected=show(rscr), ref_mode=mode, g=g)))
      continue
    if mode == "roll":
      if not abs_ok and quiet and "baserow" not in seen:
        seen.add("baserow")
        findings.append(("baserow", "stable", dict(t=probes[j], observed=show(screens[j]), expected=show(rscr), g=g)))
  return findings


# known departures of the reader from CEA-608, used only to *name* a disagreement: (flag, clause)
DEV_ROW_ANTICIPATED = "row-shown-with-text-of-later-lines"      # an oracle variant (judge(anticipate_rows=True)), not a decoder one
DEVIATIONS = (
  (R6.DEV_DUP_KEEPS_ACROSS_SKIPPED, "C08.dup"),
  (R6.DEV_PAINT_PAC_CLEARS_ROW, "C08.painton.overwrite"),
  (R6.DEV_MIDROW_ITALICS_RESETS_COLOUR, "C08.style"),
  (DEV_ROW_ANTICIPATED, "C08.timing"),
)


def judge_dev(rend, view, dev):
  return judge(rend, view, reference_run(rend, dev), anticipate_rows=DEV_ROW_ANTICIPATED in dev)


def _subsets(items):
  n = len(items)
  for size in range(0, n + 1):
    def rec(start, cur):
      if len(cur) == size:
        yield tuple(cur)
        return
      for i in range(start, n):
        yield from rec(i + 1, cur + [items[i]])
    yield from rec(0, [])


def _main(findings):
  return [f for f in findings if f[0] in SEVERITY]


class Outcome:
  def __init__(self):
    self.violations = []     # (clause, disc, observed, expected, note)
    self.canon = None
    self.nontrivial = False
    self.klass = "ok"
    self.text = ""


def _proto_of(history):
  p = Proto()
  for t in history:
    p.step(t)
  return p


def evaluate(history, prof, deep=True):
  """Runs the real reader on the history and judges it.  Returns an Outcome."""
  out = Outcome()
  proto = _proto_of(history)
  rend = Rendered(history, prof)
  out.text = text = rend.text()
  doc, proj = run_reader(text)
  out.canon = (proto.key(), proto.dec.key(), proj)
  view = DocView(doc, rend.rate)
  refs = reference_run(rend)
  out.nontrivial = any(r[0] for r in refs)
  findings = judge(rend, view, refs)
  out.klass = _klass(history, proto, view)
  if rend.lines and (len(history) <= 4 or h64(text) % 32 == 0):
    _cross_check_isd(doc, view, rend)          # harness self-check: every short history and 1/32 of the others (by content hash)
  if findings and deep:
    _attribute(history, prof, rend, view, findings, out)
  if deep and rend.lines:
    bad = convention_breaks(rend, view, refs)
    if bad:
      dupdev = frozenset((R6.DEV_DUP_KEEPS_ACROSS_SKIPPED,))
      if not convention_breaks(rend, view, reference_run(rend, dupdev)):
        if not any(v[1] == f"dev={R6.DEV_DUP_KEEPS_ACROSS_SKIPPED}" for v in out.violations):
          out.violations.append(("C08.dup", f"dev={R6.DEV_DUP_KEEPS_ACROSS_SKIPPED}", [int(t) - rend.lines[0][0] for t in bad], None,
                                 "change instants are those of a reader that drops a control code as redundant although a null / "
                                 "other-channel word lies between it and its first copy"))
      else:
        out.violations.append(("C08.timing.convention", "instant-not-on-a-word-count", [str(t - rend.lines[0][0]) for t in bad],
                               "time code + count of non-redundant words (+1 for EDM)",
                               "frames relative to the first time code at which the document changes"))
  # configuration: the displayed screens do not depend on text_align; a configured alignment is applied
  if history and base_tok(history[-1]) == "EOC" and deep:
    _check_align(text, view, rend, out)
  return out


def failing_kinds(history, prof, dev=frozenset()):
  """kinds of the main findings of a history (no attribution): used for culprit search"""
  rend = Rendered(history, prof)
  doc, _ = run_reader(rend.text())
  return {f[0] for f in _main(judge_dev(rend, DocView(doc, rend.rate), dev))}


def _klass(history, proto, view):
  styles = []
  for t in history:
    b = base_tok(t)
    if b in STYLE_START and (not styles or styles[-1] != STYLE_START[b]):
      styles.append(STYLE_START[b])
  return f"{'>'.join(styles) or 'none'}|{proto.phase}|p={min(len(view.paras), 4)}"


def _cross_check_isd(doc, view, rend):
  ts = set(view.instants())
  ts.add(rend.lines[0][0])
  ts.add(max(ts) + 30)
  for t in sorted(ts):
    a = view.screen(t)
    b = isd_screen(doc, F(t) / rend.rate)
    if [(float(r), c) for r, c in a] != [(float(r), c) for r, c in b]:
      raise HarnessError(f"C08 harness: DocView and ISD.from_model disagree at frame {t}: {show(a)} vs {show(b)}\n{rend.text()}")


def _check_align(text, view, rend, out):
  base = [(p["begin"], p["end"], p["region"], p["lines"]) for p in view.paras]
  for name in ("left", "center", "right"):
    doc2, _ = run_reader(text, name)
    v2 = DocView(doc2, rend.rate)
    if [(p["begin"], p["end"], p["region"], p["lines"]) for p in v2.paras] != base:
      out.violations.append(("C08.config.align", f"content-depends-on-align={name}", None, None,
                             "paragraph times / rows / text differ from the text_align=auto run"))
    want = CONFIGS[name].text_align
    for p in v2.paras:
      if str(p["region"]).startswith("pop") and p["align"] != want:
        out.violations.append(("C08.config.align", f"configured={name},got={getattr(p['align'], 'name', p['align'])}",
                               repr(p["align"]), repr(want), f"pop-on paragraph {p['id']}"))
        break


def _culprit(history, prof, dev=frozenset(), kind=None):
  """index of the token whose addition makes a main finding appear.  Pop-on loading is invisible until the flip:
  prefixes that end while a pop-on caption is being loaded are judged with an EOC appended."""
  for n in range(1, len(history) + 1):
    h = history[:n]
    if base_tok(h[-1]).startswith("NL"):
      continue
    p = _proto_of(h)
    probe = h
    if p.style == "pop" and p.phase in ("pop.start", "pop.enm", "pac", "to", "mid", "text", "pop.preeoc") and not p.ch2:
      probe = h + ["EOC+"]
    ks = failing_kinds(probe, prof, dev)
    if (kind in ks) if kind is not None else ks:
      return n - 1
  return len(history) - 1


def _features(history, idx, dev=frozenset()):
  """context of the culprit token: protocol state before it, class of the token, whether the display was erased since the
  style was entered and which edits (mid-row code, backspace) the current row has seen, and the state of the cursor's row
  in the memory written to (empty / append: text ends at the cursor / gap: text ends before the cursor / over: there is
  text at or after the cursor; for a CR also whether text directly precedes the cursor)"""
  p = Proto()
  d = R6.Decoder(frozenset(x for x in dev if x != DEV_ROW_ANTICIPATED))
  for t in history[:idx]:
    p.step(t)
    if not base_tok(t).startswith("NL"):
      for (b1, b2) in tok_words(t):
        d.feed((b1 << 8) | b2)
  cul = history[idx]
  ck = tok_kind(cul)
  tokclass = {"Tab": "char", "Tc": "char", "Td_": "char+blank", "T_e": "blank+char", "S": "char", "X": "char"}.get(base_tok(cul), ck)
  erased = "n"                       # has the display been erased (EDM) since this caption style was entered?
  hist = set()                       # mid-row codes / backspaces on the current row since it was opened
  cur_style = None
  for t in history[:idx]:
    b = base_tok(t)
    k = tok_kind(t)
    if b in STYLE_START:
      if STYLE_START[b] != cur_style:
        erased = "n"
        hist.clear()
      cur_style = STYLE_START[b]
    elif b == "EDM":
      erased = "y"
    elif k in ("PAC", "CR", "EOC"):
      hist.clear()
    elif k in ("MID", "BS"):
      hist.add(k)
  erased += ",hist=" + ("+".join(sorted(hist)) or "-")
  rowstate = "none"
  if d.mode is not None:
    mem = d.nm if d.mode == "pop" else d.dm
    row, col = mem[d.row - 1], d.col
    if ck == "PAC":
      b1, b2 = tok_words(cul)[0]
      prow = R6._ROW_OF.get((b1 & 0x17, 1 if b2 & 0x20 else 0), d.row)
      if d.mode != "roll":
        row = mem[prow - 1]
      col = 0
    used = [i for i, c in enumerate(row) if c is not None]
    if not used:
      rowstate = "empty"
    elif used[-1] >= col:
      rowstate = "over"
    elif used[-1] == col - 1:
      rowstate = "append"
    else:
      rowstate = "gap"
  if ck == "CR" and d.mode == "roll":
    # is there text directly before the cursor (the reader's "current text element")?
    left = d.dm[d.row - 1][d.col - 1] if d.col > 0 else None
    rowstate += ",seg=" + ("text" if left is not None and left[0] != " " else "empty")
  return p, ck, tokclass, erased, rowstate


def convention_breaks(rend, view, refs):
  """`timing.convention` (isolated clause; the reader's own convention, pinned by its unit tests: a suppressed redundant
  control code does not advance the frame counter, an EDM erases at the following frame): every instant at which the
  document changes is  time code + number of words of that line, up to some word, that are not redundant copies
  (+1 for an EDM).  Returns the instants that are not."""
  allowed = set()
  g = 0
  for k, ws in rend.lines:
    cnt = 0
    for w in ws:
      acted = refs[g + 1][3]
      g += 1
      field2 = ((w >> 8) & 0x77) == 0x15 and 0x20 <= (w & 0x7F) <= 0x2F
      if acted == "ignored-dup" and not (w >> 8) & 0x08 and not field2:       # redundant copy of a channel-1 control code
        continue
      cnt += 1
      allowed.add(k + cnt)
      if acted == "EDM":
        allowed.add(k + cnt + 1)
  return [t for t in view.instants() if t not in allowed]


def _score(findings, sub):
  main = _main(findings)
  return (max((SEVERITY[f[0]] for f in main), default=-1), len(main), len(sub))


def _attribute(history, prof, rend, view, findings, out):
  """turns findings into violations with narrow signatures"""
  sub = ()
  if _main(findings):
    # is the reader's behaviour that of the reference with some named departures?  Take the smallest set of
    # departures that leaves the least severe residue; each departure of the set is reported under its own signature
    best = (_score(findings, ()), (), findings)
    for cand in _subsets([d for d, _c in DEVIATIONS]):
      if not cand:
        continue
      fs = judge_dev(rend, view, frozenset(cand))
      sc = _score(fs, cand)
      if sc < best[0]:
        best = (sc, cand, fs)
    strict_main = _main(findings)[0][2]
    _sc, sub, findings = best
    # drop departures that do not contribute
    for d in list(sub):
      rest = tuple(x for x in sub if x != d)
      fs = judge_dev(rend, view, frozenset(rest)) if rest else judge_dev(rend, view, frozenset())
      if _score(fs, rest)[:2] <= _sc[:2]:
        sub, findings = rest, fs
    for d in sub:
      out.violations.append((dict(DEVIATIONS)[d], f"dev={d}", strict_main.get("observed"), strict_main.get("expected"),
                             f"the reader behaves like the reference decoder with the departure(s) {'+'.join(sub)}"
                             f" (strict reference: frame {strict_main.get('t')}, words {strict_main.get('word_range')})"))
  for f in findings:
    if f[0] == "timing":
      out.violations.append(("C08.timing", f"{f[1]}:{f[2]['what']}", f[2], "frame multiple of the line's rate, begin <= end", ""))
    elif f[0] == "window":
      out.violations.append(("C08.window", f"depth={f[2]['depth']}", f[2]["observed"], f"at most {f[2]['depth']} rows", ""))
    elif f[0] == "baserow":
      out.violations.append(("C08.rollup.baserow", "absolute-rows", f[2]["observed"], f[2]["expected"],
                             "roll-up rows agree up to a vertical translation only"))
  main = _main(findings)
  if not main:
    return
  dev = frozenset(sub)
  # a disagreement that persists into a quiet period is reported as `stable`, a transient one as `transit`
  kind, phase, info = next((f for f in main if f[1] == "stable"), main[0])
  idx = _culprit(history, prof, dev, kind)
  culprit = history[idx]
  proto, ck, tokclass, erased, rowstate = _features(history, idx, dev)
  clause = {"text": f"C08.{phase}", "gap": "C08.gap", "rows": "C08.rows", "style": "C08.style"}[kind]
  if kind in ("text", "gap"):
    if ck == "BS":
      clause = "C08.backspace"
    elif ck == "X":
      clause = "C08.extended"
    elif ck in ("N", "C2", "C2P", "F2"):
      clause = "C08.chan2"
    elif culprit.endswith("+"):
      alt = history[:idx] + [base_tok(culprit)] + history[idx + 1:]
      if not failing_kinds(alt, prof, dev):
        clause = "C08.dup"
  if kind != "style" and tokclass in ("char+blank", "blank+char"):
    tokclass = "char"                 # where the blank of a pair sits only matters to the pen (paint-on word splitting)
  disc = f"kind={kind},mode={proto.style},tok={tokclass},row={rowstate},erased={erased}"
  out.violations.append((clause, disc, info.get("observed"), info.get("expected"),
                         f"{phase} at frame {info['t']} (line {info['line']}), reference words {info['word_range']}; "
                         f"culprit token #{idx} {culprit}" + (f"; judged against the reference with {'+'.join(sub)}" if sub else "")))


# ------------------------------------------------------------------------------------------------------
# families


def _in_worker():
  import multiprocessing
  return multiprocessing.current_process().name != "MainProcess"


def _mk_family(name, prof, depth):
  def report(acc, history, out):
    for (clause, disc, obs, exp, note) in out.violations:
      acc.violation(clause, disc, {"history": history, "scc": out.text}, observed=obs, expected=exp, note=note)

  def expand(history, acc):
    history = list(history)
    if not accepts(history, prof):
      return []
    if not _in_worker():
      # replay / shrinking (parent process): judge exactly this history
      if history:
        try:
          report(acc, history, evaluate(history, prof))
        except HarnessError:
          raise
        except Exception as e:  # pylint: disable=broad-except
          if innermost_ttconv_frame(e.__traceback__) is None:
            raise
          acc.violation("C08.crash", exc_disc(e), {"history": history, "scc": Rendered(history, prof).text()},
                        observed=repr(e)[:300], note="exception escaped from to_model for a protocol-conforming stream")
      return []
    # search (pool worker): the state itself was judged when it was generated as a successor
    if len(history) >= depth:
      return []
    proto = _proto_of(history)
    succ = []
    for t in proto.enabled(prof):
      h2 = history + [t]
      if base_tok(t).startswith("NL"):
        # a pending line break changes nothing until a word follows: no reader run needed
        p2 = _proto_of(h2)
        acc.case("line-break", nontrivial=False)
        succ.append((t, ("nl", p2.key(), p2.dec.key(), _parent_proj(history, prof))))
        continue
      try:
        out = evaluate(h2, prof)
      except (HarnessError, CaseTimeout):
        raise
      except Exception as e:  # pylint: disable=broad-except
        if innermost_ttconv_frame(e.__traceback__) is None:
          raise
        # the property allows no exception for a protocol-conforming stream; the successor cannot be explored further
        acc.violation("C08.crash", exc_disc(e), {"history": h2, "scc": Rendered(h2, prof).text()}, observed=repr(e)[:300],
                      note="exception escaped from to_model for a protocol-conforming stream")
        acc.case("crash", nontrivial=True, key=Rendered(h2, prof).text())
        continue
      report(acc, h2, out)
      acc.case(out.klass + ("|viol" if out.violations else ""), nontrivial=out.nontrivial, key=out.text)
      if len(h2) == 4 and t == "Tab":
        acc.sample({"family": name, "history": h2, "scc": out.text})
      succ.append((t, out.canon))
    return succ

  def shrink(case):
    h = list(case["history"])
    for i in range(len(h)):
      c = h[:i] + h[i + 1:]
      if c and accepts(c, prof):
        yield {"history": c}
    for i, t in enumerate(h):
      if t.endswith("+") and prof["doubling"] != "always":
        c = h[:i] + [t[:-1]] + h[i + 1:]
        if accepts(c, prof):
          yield {"history": c}

  return StateFamily(name, [[]], expand, depth, canon0=lambda h: ("init", name), timeout=60.0, shrink=shrink,
                     note=f"alphabet: {', '.join(f'{k}={v}' for k, v in prof.items())}")


_PROJ_CACHE = {}


def _parent_proj(history, prof):
  key = (tuple(history), prof["rate"])
  if key not in _PROJ_CACHE:
    if len(_PROJ_CACHE) > 2000:
      _PROJ_CACHE.clear()
    if history:
      _PROJ_CACHE[key] = run_reader(Rendered(history, prof).text())[1]
    else:
      _PROJ_CACHE[key] = None
  return _PROJ_CACHE[key]


def plan(tier, seed):
  """VERIF_SEED selects the slice: odd seeds swap the time code kind (drop-frame / non-drop-frame) of every family"""
  fams = []
  for name, prof in PROFILES.items():
    if seed % 2 == 1:
      prof = dict(prof, rate="d" if prof["rate"] == "n" else "n")
    fams.append(_mk_family(name, prof, DEPTHS[tier][name]))
  return fams


# ------------------------------------------------------------------------------------------------------
# gates: the reference decoder is bound before it is believed


def _words_of(line):
  return [int(w, 16) for w in line.split()]


def _run_ref(lines):
  d = R6.Decoder()
  shots = []
  for ln in lines:
    for w in _words_of(ln):
      d.feed(w)
    shots.append(R6.screen_text(d.screen()))
  return d, shots


def gates():
  n = 0
  # (a) hand examples from CEA-608: PAC row table, indents, attributes, parity
  pac_first = {1: 0x11, 2: 0x11, 3: 0x12, 4: 0x12, 5: 0x15, 6: 0x15, 7: 0x16, 8: 0x16, 9: 0x17, 10: 0x17, 11: 0x10, 12: 0x13,
               13: 0x13, 14: 0x14, 15: 0x14}
  for row, b1 in pac_first.items():
    got = R6.pac(row, indent=0)
    want2 = 0x50 if row in (1, 3, 5, 7, 9, 11, 12, 14) else 0x70
    if got != (b1, want2):
      raise HarnessError(f"C08 gate: PAC row {row}: {got} != {(b1, want2)}")
    d = R6.Decoder()
    d.feed(0x1429)
    d.feed((got[0] << 8) | got[1])
    d.feed(0x4141)
    if R6.screen_text(d.screen()) != [(row, "AA")]:
      raise HarnessError(f"C08 gate: PAC row {row} decoded to {d.screen()}")
    n += 1
  hand = [
    (R6.word(0x14, 0x20), 0x9420), (R6.word(0x14, 0x2C), 0x942C), (R6.word(0x14, 0x2F), 0x942F), (R6.word(0x14, 0x2D), 0x94AD),
    (R6.word(0x14, 0x25), 0x9425), (R6.word(0x14, 0x29), 0x9429), (R6.word(0x14, 0x2E), 0x94AE), (R6.word(0x17, 0x21), 0x97A1),
    (R6.word(*R6.pac(15, indent=0)), 0x9470), (R6.word(*R6.pac(14, indent=4)), 0x9452), (R6.word(*R6.pac(15, indent=4)), 0x94F2),
    (R6.word(*R6.pac(15, indent=20)), 0x947A), (R6.word(*R6.pac(14, indent=0)), 0x94D0), (R6.word(*R6.midrow(italic=True)), 0x91AE),
    (R6.word(*R6.midrow(colour=R6.WHITE)), 0x9120), (R6.word(0x00, 0x00), 0x8080), (R6.word(0x11, 0x37), 0x9137),
    (R6.word(*R6.pac(13, indent=0)), 0x1370), (R6.word(*R6.pac(7, colour=R6.RED)), 0x16C8), (R6.word(*R6.pac(6, indent=0)), 0x1570),
  ]
  for got, want in hand:
    if got != want:
      raise HarnessError(f"C08 gate: word {got:04x} != {want:04x}")
    n += 1
  # attributes: PAC cyan underline, mid-row italics keeps the colour, a colour mid-row code ends italics
  d = R6.Decoder()
  for w in (0x1429, R6.word(*R6.pac(15, colour=R6.CYAN, underline=True)), 0x4141, R6.word(*R6.midrow(italic=True)), 0x4242,
            R6.word(*R6.midrow(colour=R6.GREEN)), 0x4343):
    d.feed(w)
  cells = d.screen()[0][2]
  want = [("A", "cyan", False, True), ("A", "cyan", False, True), (" ", "cyan", False, True), ("B", "cyan", True, False),
          ("B", "cyan", True, False), (" ", "cyan", True, False), ("C", "green", False, False), ("C", "green", False, False)]
  if list(cells) != want:
    raise HarnessError(f"C08 gate: attribute example: {cells}")
  n += 1
  # roll-up window, backspace, extended character, DER, duplicate suppression, channel filter
  ex = [
    ("9425 94ad 4141 94ad 4242 94ad 4343", [(14, "BB"), (15, "CC")]),
    ("9427 94ad 4141 94ad 4242 94ad 4343 94ad 4444 94ad 4545", [(12, "BB"), (13, "CC"), (14, "DD"), (15, "EE")]),
    ("9426 94ad 9152 4141 94ad 4242", [(2, "AA"), (3, "BB")]),                       # PAC row 1 with depth 3: base row 3
    ("9429 9470 4142 4300 9421", [(15, "AB")]),
    ("9429 9470 4142 9421 9421 4300", [(15, "AC")]),                                 # BS BS = one backspace (redundant copy)
    ("9429 9470 4142 9421 8080 9421 4300", [(15, "C")]),                             # ... unless a frame lies between them
    ("9429 9470 4145 9221", [(15, "AÉ")]),
    ("9429 9470 4142 4344 9470 97a1 94a4", [(15, "A")]),                             # DER from column 2
    ("9429 9470 4142 1c29 4343 9470 4444", [(15, "DD")]),                            # channel-2 text ignored
    ("9420 9470 4141 942f", [(15, "AA")]),
    ("9420 9470 4141 942f 942f", [(15, "AA")]),
    ("9420 9470 4141 942f 9420 94d0 4242 942f", [(14, "BB")]),
    ("9420 9470 4141 942f 9420 94d0 4242 942f 942c", []),
    ("9420 9470 4141 942f 9420 94ae 942f", []),                                      # ENM: the flip shows an empty memory
    ("9420 9470 4141 942f 9420 94d0 4242 942f 9420 942f", [(15, "AA")]),             # no ENM: the old caption comes back
  ]
  for words, want in ex:
    d, shots = _run_ref([words])
    if shots[-1] != want:
      raise HarnessError(f"C08 gate: hand example {words!r}: {shots[-1]} != {want}")
    n += 1

  # (b) the repository's own pinned expectations (test_scc_reader.py literals; columns are not limited to 32 there)
  pinned = 0
  saved = R6.COLS
  R6.COLS = 64
  try:
    pop = [
      ("94ae 94ae 9420 9420 947a 947a 97a2 97a2 a820 68ef f26e 2068 ef6e 6be9 6e67 2029 942c 942c 8080 8080 942f 942f", [(15, "( horn honking )")]),
      ("942c 942c", []),
      ("94ae 94ae 9420 9420 94f2 94f2 c845 d92c 2054 c845 91b0 45ae 942c 942c 8080 8080 942f 942f", [(15, "HEY, THE®E.")]),
      ("9420 9420 9452 9452 97a1 97a1 54e5 73f4 2080 9132 2043 6170 f4e9 ef6e 2080 94f2 94f2 97a1 97a1 54e5 73f4 2080 91ae 91ae f4e5 73f4 "
       "9120 9120 2043 6170 f4e9 ef6e 7380 942c 942c 942f 942f", [(14, "Test ½ Caption"), (15, "Test  test  Captions")]),
      ("942c 942c", []),
      ("9420 9420 9570 9570 91ae 91ae 4c6f 7265 6d20 6970 7375 6d20 96c8 96c8 646f 6c6f 7220 7369 7420 616d 6574 2c80 9670 9670 91ae 91ae "
       "636f 6e73 6563 7465 7475 7220 6164 6970 6973 6369 6e67 2065 6c69 742e 942c 942c 942f 942f",
       [(6, "Lorem ipsum"), (7, "dolor sit amet,"), (8, "consectetur adipiscing elit.")]),
    ]
    _d, shots = _run_ref([w for w, _ in pop])
    for (w, want), got in zip(pop, shots):
      if got != want:
        raise HarnessError(f"C08 gate: test_scc_pop_on_content: {got} != {want}")
      pinned += 1
    lorem = ["Lorem ipsum dolor sit amet,", "consectetur adipiscing elit.", "Pellentesque interdum lacinia sollicitudin.",
             "Integer luctus et ligula ac sagittis."]
    ru = {
      2: ["9425 9425 94ad 94ad 9470 9470 4c6f 7265 6d20 6970 7375 6d20 646f 6c6f 7220 7369 7420 616d 6574 2c80",
          "9425 9425 94ad 94ad 9673 9673 636f 6e73 6563 7465 7475 7220 6164 6970 6973 6369 6e67 2065 6c69 742e",
          "9425 9425 94ad 94ad 9473 9473 5065 6c6c 656e 7465 7371 7565 2069 6e74 6572 6475 6d20 6c61 6369 6e69 6120 736f 6c6c 6963 6974 7564 696e 2e80",
          "9425 9425 94ad 94ad 9470 9470 496e 7465 6765 7220 6c75 6374 7573 2065 7420 6c69 6775 6c61 2061 6320 7361 6769 7474 6973 2e80"],
      3: ["9426 9426 94ad 94ad 9470 9470 4c6f 7265 6d20 6970 7375 6d20 646f 6c6f 7220 7369 7420 616d 6574 2c80",
          "9426 9426 94ad 94ad 9470 9470 636f 6e73 6563 7465 7475 7220 6164 6970 6973 6369 6e67 2065 6c69 742e",
          "9426 9426 94ad 94ad 9470 9470 5065 6c6c 656e 7465 7371 7565 2069 6e74 6572 6475 6d20 6c61 6369 6e69 6120 736f 6c6c 6963 6974 7564 696e 2e80",
          "9426 9426 94ad 94ad 9470 9470 496e 7465 6765 7220 6c75 6374 7573 2065 7420 6c69 6775 6c61 2061 6320 7361 6769 7474 6973 2e80"],
      4: ["94a7 94ad 9470 4c6f 7265 6d20 6970 7375 6d20 646f 6c6f 7220 7369 7420 616d 6574 2c80",
          "94a7 94ad 9470 636f 6e73 6563 7465 7475 7220 6164 6970 6973 6369 6e67 2065 6c69 742e",
          "94a7 94ad 9470 5065 6c6c 656e 7465 7371 7565 2069 6e74 6572 6475 6d20 6c61 6369 6e69 6120 736f 6c6c 6963 6974 7564 696e 2e80",
          "94a7 94ad 9470 496e 7465 6765 7220 6c75 6374 7573 2065 7420 6c69 6775 6c61 2061 6320 7361 6769 7474 6973 2e80"],
    }
    for depth, lines in ru.items():
      _d, shots = _run_ref(lines)
      for i, got in enumerate(shots):
        want = lorem[max(0, i - depth + 1):i + 1]
        # the unit tests assert the texts of the rows, oldest first (the reader pins the base row to 15: not asserted here)
        if [t for _r, t in got] != want:
          raise HarnessError(f"C08 gate: test_{depth}_rows_roll_up_content line {i}: {got} != {want}")
        pinned += 1
    paint = [
      ("9429 9429 94d2 94d2 4c6f 7265 6d20 6970 7375 6d20 646f 6c6f 7220 7369 7420 616d 6574 2c80 94f2 94f2 636f 6e73 6563 7465 7475 7220 "
       "6164 6970 6973 6369 6e67 2065 6c69 742e", [(14, lorem[0]), (15, lorem[1])]),
      ("9429 9429 94d2 94d2 5065 6c6c 656e 7465 7371 7565 2069 6e74 6572 6475 6d20 6c61 6369 6e69 6120 736f 6c6c 6963 6974 7564 696e 2e80",
       [(14, lorem[2]), (15, lorem[1])]),
      ("9429 9429 94f2 94f2 496e 7465 6765 7220 6c75 6374 7573 2065 7420 6c69 6775 6c61 2061 6320 7361 6769 7474 6973 2e80",
       [(14, lorem[2]), (15, lorem[3])]),
    ]
    _d, shots = _run_ref([w for w, _ in paint])
    for (w, want), got in zip(paint, shots):
      if got != want:
        raise HarnessError(f"C08 gate: test_scc_paint_on_content: {got} != {want}")
      pinned += 1
    # channel 2 is skipped (test_skipping_channel_2_content); doubled special characters (test_scc_double_word_in_content)
    _d, shots = _run_ref(["1c20 1cd0 a843 4332 2920 1c2c 94ae 94ae 9420 9420 94f2 94f2 c845 d92c 2054 c845 5245 ae80 942c 942c 8080 8080 942f 942f"])
    if shots[-1] != [(15, "HEY, THERE.")]:
      raise HarnessError(f"C08 gate: test_skipping_channel_2_content: {shots[-1]}")
    _d, shots = _run_ref(["9420 9420 94AE 94AE 9452 9452 97A1 97A1 20F2 E56D E56D 62E5 F220 9137 9137 9137 9137 942F 942F"])
    if shots[-1] != [(14, "remember ♪♪")]:
      raise HarnessError(f"C08 gate: test_scc_double_word_in_content: {shots[-1]}")
    _d, shots = _run_ref(["94AE 94AE 9420 9420 94F8 94F8 45E5 E5E3 68A1 94F4 94F4 D3E3 61F2 79A1 942C 942C 942F 942F"])
    if shots[-1] != [(15, "Scary!  Eeech!")]:
      raise HarnessError(f"C08 gate: test_scc_with_negative_cursor: {shots[-1]}")
    pinned += 3
    # the three bundled files: the final screens
    import os
    finals = {"pop-on.scc": [], "paint-on.scc": [(14, lorem[2]), (15, lorem[3])],
              "mix-rows-roll-up.scc": [(12, ">> IT WAS GOOD TO BE IN THE"), (13, "And restore Iowa's land, water"), (14, "And wildlife."),
                                       (15, ">> Bike Iowa, your source for")]}
    for fn, want in finals.items():
      with open(os.path.join(env.RES, "scc", fn), encoding="utf-8") as f:
        lines = [ln.split("\t")[1] for ln in f.read().splitlines() if "\t" in ln]
      _d, shots = _run_ref(lines)
      if shots[-1] != want:
        raise HarnessError(f"C08 gate: bundled {fn}: final screen {shots[-1]} != {want}")
      pinned += 1
  finally:
    R6.COLS = saved
  # times pinned by the unit tests: (words of the line, what triggers, which occurrence, asserted offset in frames from the
  # line's time code).  They must lie inside the window the oracle grants (0 .. index + 2) and obey the convention clause
  # (number of non-redundant words up to the trigger, +1 for EDM).
  pinned_times = [
    ("94ae 94ae 9420 9420 947a 947a 97a2 97a2 a820 68ef f26e 2068 ef6e 6be9 6e67 2029 942c 942c 8080 8080 942f 942f", "EOC", 0, 16),   # 01:02:53:14 -> 01:02:54:00
    ("942c 942c", "EDM", 0, 2),                                                                                                     # 01:02:55:14 -> :16
    ("94ae 94ae 9420 9420 94f2 94f2 c845 d92c 2054 c845 91b0 45ae 942c 942c 8080 8080 942f 942f", "EOC", 0, 13),                     # 01:03:27:29 -> 01:03:28:12
    ("9425 9425 94ad 94ad 9470 9470 4c6f 7265 6d20 6970 7375 6d20 646f 6c6f 7220 7369 7420 616d 6574 2c80", "CR", 0, 2),             # 00:00:00:22 -> :24
    ("94a7 94ad 9470 4c6f 7265 6d20 6970 7375 6d20 646f 6c6f 7220 7369 7420 616d 6574 2c80", "CR", 0, 2),                            # 00:00:34;27 -> ;29
    ("9429 9429 94d2 94d2 4c6f 7265 6d20 6970 7375 6d20 646f 6c6f 7220 7369 7420 616d 6574 2c80 94f2 94f2 636f 6e73", "PAC", 0, 2),  # 00:02:53:14 -> :16
    ("9429 9429 94d2 94d2 4c6f 7265 6d20 6970 7375 6d20 646f 6c6f 7220 7369 7420 616d 6574 2c80 94f2 94f2 636f 6e73", "PAC", 1, 17), # -> 00:02:54:01
    ("9420 9150 4c6f 7265 6d20 6970 7375 6d20 646f 6c6f 7220 7369 7420 616d 6574 2c80 942c 8080 8080 942f", "EOC", 0, 20),           # 00:00:00:00 -> :20
    ("9426 942c 94ad 9050 636f 6e73", "EDM", 0, 3),                                                                                 # 00:00:01:14 -> :17
  ]
  for words, trig, occ, want in pinned_times:
    d = R6.Decoder()
    cnt = 0
    seen = 0
    hit = None
    for i, w in enumerate(_words_of(words)):
      d.feed(w)
      if d.acted != "ignored-dup":
        cnt += 1
      if d.acted == trig:
        if seen == occ:
          hit = (i, cnt + (1 if trig == "EDM" else 0))
          break
        seen += 1
    if hit is None or not (0 <= want <= hit[0] + 2) or want != hit[1]:
      raise HarnessError(f"C08 gate: pinned time +{want} frames for {trig}#{occ} of {words[:30]}...: reference says {hit}")
    pinned += 1
  # our SMPTE labels
  for k, df, want in ((1790, False, "00:00:59:20"), (1790, True, "00:00:59;20"), (1800, True, "00:01:00;02"), (1799, True, "00:00:59;29"),
                      (17982, True, "00:10:00;00"), (1800, False, "00:01:00:00")):
    if label(k, df) != want:
      raise HarnessError(f"C08 gate: label({k},{df}) = {label(k, df)} != {want}")
    n += 1
  return {"hand_examples": n, "pinned_expectations_replayed": pinned}

"""C15 — the canonical model stays a well-formed tree under any sequence of API calls (DESIGN.md section 3, C15).

Explicit-state breadth-first search over histories of public mutator calls on REAL ttconv.model objects.
A state is the event history; every replay builds a fresh named world (mc/modelref.py).  The universe is split
into sub-universes that are each searched exhaustively with every argument tuple of their menu:

  structure   body/div1/div2/p1/span1/span2/br1/text1, two documents: push_child, push_children, remove,
              remove_child, remove_children, set_doc (valid, ill-typed, cross-document arguments)
  structure-deep[upper|middle|lower]  the same world, calls restricted to 4-5 of its elements, searched until no new
              state appears (quick: the slice selected by VERIF_SEED % 3, lower only to depth 4; thorough: all three)
  registry    body/div1/p1 + regions r1, r1b (same id, same document), rB (same id, other document), r2:
              put_region, remove_region, set_region, set_body, set_doc, push_child, remove
  ruby        ruby/rb/rb2/rt/rt2/rp1/rp2/rbc/rbc2/rtc1/rtc2/span1 + rtA (an Rt of another document): push_children
              patterns, push_child, remove, remove_child, remove_children
  ruby-lists  depth 1: EVERY list of <= 4 distinct ruby-kind elements handed to Ruby.push_children and
              Rtc.push_children, from four pre-built states
  style       span1/p1/text1/br1/r1 + two documents: set_style, add_animation_step, put_initial_value, copy_to with
              valid and invalid values of three properties (each item of a font-family tuple)
  style-table depth 1: all 36 properties x all named values x the three sinks (+ Text and copy_to propagation)

In every reached state the invariant (one clause each: C15.links, C15.acyclic, C15.single-parent, C15.one-doc,
C15.content-model, C15.ruby-pattern, C15.rtc-pattern, C15.region-ref, C15.style-valid) is evaluated on the
successor right where the transition is executed, and attributed to the transition that newly broke it
(a violation inherited from the predecessor is not reported again).  Step oracle on every transition:
C15.atomic (a raising single-element call leaves the complete projection unchanged), C15.atomic.subtree
(set_doc on an element with children), C15.atomic.multi (push_children / remove_children), C15.step (an accepted
call changes the abstract state exactly as the boring reference model says), C15.nontermination.
"""
from __future__ import annotations

import itertools
from fractions import Fraction

from mc import env  # noqa: F401
from mc.kernel import StateFamily, HarnessError
from mc import modelref as R

ID = "C15"
LEVEL = "model_checking"
RULE = ("states = canonical projections (every instance attribute of every object + every public getter) of worlds of "
        "real model objects reached by replaying event histories; from every state of level < depth EVERY event of the "
        "sub-universe's menu (all argument tuples: valid, ill-typed, cross-document) is executed on the real objects; "
        "a transition is non-trivial when it changes the canonical state; transitions are distinct by construction "
        "(distinct (state, event) pairs)")
BOUNDS = {
  "quick": "structure depth 3 (2 initial states, 448 events/state); structure-deep: the seed-selected slice -- upper (body/div1/div2/p1) "
           "or middle (div1/p1/span1/span2) searched to closure (no new state after level 9-10, bound 12), or lower "
           "(p1/span1/span2/br1/text1) depth 4; registry depth 4 (2 initial states, 97 events); ruby depth 4 (4 initial states, 151 events); "
           "ruby-lists depth 1 (every list of <= 4 distinct elements, 10132 events, 4 initial states); style depth 3 (3 properties with 4-7 near values each, 196 events); "
           "style-table depth 1 (36 properties x 49 values x 3 sinks + region and text targets, 7164 events)",
  "thorough": "structure depth 4; structure-deep all three slices to closure (bound 12); registry depth 5; ruby depth 5; ruby-lists depth 1; "
              "style depth 4 (3-4 near values per property); style-table depth 1",
}
ASSUMPTIONS = [
  "the complete state of the model objects is their instance attributes (unexpected attributes are part of the projection); "
  "public getters are pure",
  "after an event that left the complete private projection unchanged the same world is reused for the next event "
  "(otherwise every event runs on a fresh replay of the history)",
  "projections, abstract state and invariant of a successor are functions of its complete private projection and are "
  "computed once per distinct successor within one expansion",
  "replays of a history run without the per-call alarm: every event of a history returned when it was first executed "
  "under the alarm (a call that does not return produces no successor)",
  "structurally broken states (links/acyclic/single-parent) are terminal: they are reported and not expanded",
  "value validity is judged by mc/modelref.my_valid (top-level type per property, documented units of extent/origin/"
  "position, each item of a font-family tuple); values the documentation does not decide are not judged",
  "content model = doc/data_model.md, restated by hand in mc/modelref.py",
]

F = Fraction

# ------------------------------------------------------------------------------------------------------
# universes (plain data) and presets (set-up events, must all be accepted)

UNIVERSES = {
  "structure": {
    "docs": ["A", "B"], "ids": [],
    "elems": [["body", "Body", None], ["div1", "Div", None], ["div2", "Div", None], ["p1", "P", None],
              ["span1", "Span", None], ["span2", "Span", None], ["br1", "Br", None], ["text1", "Text", None]],
    "presets": {
      "detached": [],
      "mixed": [["set_doc", "body", "A"], ["set_doc", "div1", "A"], ["set_doc", "p1", "A"], ["set_doc", "span1", "A"],
                ["set_doc", "br1", "A"], ["set_doc", "text1", "A"], ["set_doc", "div2", "B"]],
    },
  },
  # three nestable elements of the same kind: trees of depth 2, so that an ancestor that is not the parent exists
  "chain": {
    "docs": ["A", "B"], "ids": [],
    "elems": [["div1", "Div", None], ["div2", "Div", None], ["div3", "Div", None], ["span1", "Span", None], ["span2", "Span", None], ["span3", "Span", None]],
    "presets": {"detached": []},
  },
  "registry": {
    "docs": ["A", "B"], "ids": ["r1", "r2", "zz"],
    "elems": [["body", "Body", "A"], ["div1", "Div", "A"], ["p1", "P", "A"],
              ["r1", "Region", "A", "r1"], ["r1b", "Region", "A", "r1"], ["rB", "Region", "B", "r1"], ["r2", "Region", "A", "r2"]],
    "presets": {
      "flat": [],
      "tree": [["push_child", "body", "div1"], ["push_child", "div1", "p1"], ["set_body", "A", "body"]],
    },
  },
  "ruby": {
    "docs": ["A"], "ids": [],
    "elems": [["ruby", "Ruby", None], ["rb", "Rb", None], ["rb2", "Rb", None], ["rt", "Rt", None], ["rt2", "Rt", None],
              ["rp1", "Rp", None], ["rp2", "Rp", None], ["rbc", "Rbc", None], ["rbc2", "Rbc", None], ["rtc1", "Rtc", None],
              ["rtc2", "Rtc", None], ["span1", "Span", None], ["rtA", "Rt", "A"], ["rpA", "Rp", "A"]],
    "presets": {
      "empty": [],
      "rtc-rt": [["push_child", "rtc1", "rt"]],
      "rtc-rp-rt-rp": [["push_children", "rtc1", ["rp1", "rt", "rp2"]]],
      "ruby-rb-rt": [["push_children", "ruby", ["rb", "rt"]]],
    },
  },
  "style": {
    "docs": ["A", "B"], "ids": ["r1"],
    "elems": [["span1", "Span", "A"], ["p1", "P", "A"], ["text1", "Text", "A"], ["br1", "Br", "A"], ["r1", "Region", "A", "r1"]],
    "presets": {
      "plain": [["call", "span1", "set_begin", F(1)], ["call", "span1", "set_end", F(2)], ["call", "span1", "set_id", "s1"],
                ["call", "span1", "set_lang", "fr"], ["call", "br1", "set_id", "b1"], ["call", "r1", "set_begin", F(3)]],
    },
  },
}

# ------------------------------------------------------------------------------------------------------
# event menus


def menu_structure(subset=None, uname="structure"):
  """every call of the structure universe; with `subset` only calls whose target and arguments lie in the subset
  (the other elements stay in the world, untouched)"""
  u = UNIVERSES[uname]
  els = [e[0] for e in u["elems"] if subset is None or e[0] in subset]
  kind = {e[0]: e[1] for e in u["elems"]}
  ev = []
  for p in els:
    for c in els + ["NONE", "JUNK"]:
      ev.append(["push_child", p, c])
  for p in els:
    ev.append(["push_children", p, []])
    ev.append(["push_children", p, "NONE"])
    for c in els + ["NONE"]:
      ev.append(["push_children", p, [c]])
    for x in els:
      if kind[x] in R.ALLOWED[kind[p]]:
        for y in els:
          ev.append(["push_children", p, [x, y]])
  for e in els:
    ev.append(["remove", e])
    ev.append(["remove_children", e])
  for p in els:
    for c in els + ["NONE", "JUNK"]:
      ev.append(["remove_child", p, c])
  for e in els:
    for d in ("A", "B", "NONE", "JUNK"):
      ev.append(["set_doc", e, d])
  return ev


STRUCTURE_SLICES = [
  ("upper", ["body", "div1", "div2", "p1"]),
  ("middle", ["div1", "p1", "span1", "span2"]),
  ("lower", ["p1", "span1", "span2", "br1", "text1"]),
]


def menu_registry():
  ev = []
  regs = ["r1", "r1b", "rB", "r2"]
  for d in ("A", "B"):
    for r in regs + ["NONE", "JUNK", "body"]:
      ev.append(["put_region", d, r])
    for rid in ("r1", "r2", "zz", "NONE"):
      ev.append(["remove_region", d, rid])
    for b in ("body", "div1", "NONE", "JUNK"):
      ev.append(["set_body", d, b])
  for e in ("body", "div1", "p1", "r2"):
    for r in regs + ["NONE", "JUNK", "div1"]:
      ev.append(["set_region", e, r])
  for x in ("body", "div1", "p1") + tuple(regs):
    for d in ("A", "B", "NONE"):
      ev.append(["set_doc", x, d])
  for p in ("body", "div1", "p1"):
    for c in ("body", "div1", "p1", "r1"):
      ev.append(["push_child", p, c])
    ev.append(["remove", p])
    ev.append(["remove_children", p])
  return ev


RUBY_LISTS = [
  ["rb", "rt"], ["rb", "rp1", "rt", "rp2"], ["rbc", "rtc1"], ["rbc", "rtc1", "rtc2"],
  ["rb", "rtA"], ["rb", "rp1", "rtA", "rp2"], ["rbc", "rtc1", "rtc1"], ["rb", "rt2"],
  [], ["rb"], ["rt"], ["rp1", "rp2"], ["rb", "rp1", "rp2"], ["rp1", "rt", "rp2"],
  ["rt", "rb"], ["rbc"], ["rtc1"], ["rbc", "rb"], ["rb", "rt", "rt2"], ["rb", "rb"], ["rb", "rt", "rp1"], ["span1"],
  ["rb", "rb2"], ["rb2", "rt"], ["rbc", "rbc2"], ["rbc2", "rtc2"], ["rtc1", "rtc2"], ["rt", "rt2"], ["rbc", "rtc1", "rtc2", "rbc2"],
  ["NONE"], "NONE",
]
RTC_LISTS = [
  ["rt"], ["rt", "rt2"], ["rp1", "rt", "rp2"], ["rp1", "rt", "rt2", "rp2"], ["rp1", "rp2"], ["rp1"], ["rp1", "rt"],
  ["rt", "rp1"], ["rt", "rp1", "rt2"], ["rb"], ["rp1", "rb", "rp2"], [], ["rt", "rt"], ["rp1", "rtA", "rp2"], ["rt", "rtA"],
  ["rt2"], ["rp1", "rt2", "rp2"], "NONE",
  # delimited form whose closing delimiter is unusable: the same object as the opening one, or an Rp of another document
  ["rp1", "rt", "rp1"], ["rp1", "rt", "rt2", "rp1"], ["rp1", "rt", "rpA"], ["rpA", "rt", "rp1"],
]


def menu_ruby():
  u = UNIVERSES["ruby"]
  els = [e[0] for e in u["elems"]]
  ev = []
  for lst in RUBY_LISTS:
    ev.append(["push_children", "ruby", lst])
  for lst in RTC_LISTS:
    ev.append(["push_children", "rtc1", lst])
  for c in els + ["NONE"]:
    ev.append(["push_child", "ruby", c])
    ev.append(["push_child", "rtc1", c])
    ev.append(["push_child", "rbc", c])
    ev.append(["push_child", "rb", c])
  for c in ("span1", "rt", "rb", "ruby"):
    ev.append(["push_child", "rt", c])
    ev.append(["push_child", "rp1", c])
    ev.append(["push_child", "span1", c])
  for c in ("rt", "rb", "rp1", "NONE"):
    ev.append(["push_child", "rtc2", c])
  ev.append(["push_children", "rbc", ["rb"]])
  ev.append(["push_children", "rb", ["span1"]])
  for c in els:
    ev.append(["remove", c])
  for p in ("ruby", "rtc1", "rbc", "rb", "rtc2"):
    ev.append(["remove_children", p])
  for p, cs in (("ruby", ("rb", "rt", "rbc", "rtc1", "rp1")), ("rtc1", ("rt", "rp1", "rt2")), ("rbc", ("rb",)), ("rb", ("span1",))):
    for c in cs:
      ev.append(["remove_child", p, c])
  return ev


def menu_ruby_lists():
  pool_ruby = ["rb", "rb2", "rt", "rt2", "rp1", "rp2", "rbc", "rbc2", "rtc1", "rtc2", "rtA"]
  pool_rtc = ["rt", "rt2", "rp1", "rp2", "rb", "rtA", "rtc2"]
  ev = []
  for n in range(0, 5):
    for lst in itertools.permutations(pool_ruby, n):
      ev.append(["push_children", "ruby", list(lst)])
  for n in range(0, 5):
    for lst in itertools.permutations(pool_rtc, n):
      ev.append(["push_children", "rtc1", list(lst)])
  return ev


STYLE_ELEMS = ["span1", "p1", "text1", "br1", "r1"]
# deep style family: per property the values that are near it (valid, near misses, a foreign type, removal); the full
# property x value cross product is the style-table family
STYLE_MENU = {
  "FontFamily": ["ff_ok", "ff_one", "ff_bad_int", "ff_bad_mixed", "ff_empty", "ff_empty_name", "ff_list", "junkstr", "NONE"],
  "Padding": ["padding", "padding_bad_member", "NONE"],
  "Color": ["color", "color2", "junkstr", "NONE"],
  "LineHeight": ["special_normal", "special_none", "len_pct", "junkstr", "NONE"],
  "NOPROP": ["color", "NONE"],
}
STYLE_MENU_SMALL = {
  "FontFamily": ["ff_ok", "ff_bad_int", "ff_list", "NONE"],
  "Color": ["color", "junkstr", "NONE"],
  "LineHeight": ["special_normal", "special_none", "NONE"],
  "NOPROP": ["color"],
}


def menu_style(table):
  ev = []
  pv = [(p, v) for p, vs in table.items() for v in vs]
  for e in ("span1", "p1", "text1"):
    for p, v in pv:
      ev.append(["set_style", e, p, v])
  for e in ("span1", "br1", "r1"):
    for p, v in pv:
      ev.append(["add_animation_step", e, p, v])
    ev.append(["add_animation_step", e, "JUNK"])
    ev.append(["add_animation_step", e, "NONE"])
  for d in ("A", "B"):
    for p, v in pv:
      ev.append(["put_initial_value", d, p, v])
  for s in STYLE_ELEMS:
    for d in STYLE_ELEMS + ["NONE", "JUNK"]:
      ev.append(["copy_to", s, d])
  for s, d in (("A", "B"), ("B", "A"), ("A", "A"), ("A", "NONE"), ("A", "span1")):
    ev.append(["copy_to", s, d])
  ev += [["set_style", "span1", "NONE", "color"], ["set_style", "span1", "JUNK", "color"], ["set_style", "span1", "UNHASHABLE", "color"],
         ["put_initial_value", "A", "NONE", "color"], ["put_initial_value", "A", "UNHASHABLE", "color"],
         ["add_animation_step", "span1", "NONE", "color"]]
  return ev


def menu_style_table():
  ev = []
  vals = list(R.VALUES) + ["NONE"]
  for p in R.PROP_NAMES:
    for v in vals:
      ev.append(["set_style", "span1", p, v])
      ev.append(["add_animation_step", "span1", p, v])
      ev.append(["put_initial_value", "A", p, v])
      ev.append(["set_style", "r1", p, v])
  for p in R.PROP_NAMES:
    ev.append(["set_style", "text1", p, "NONE"])
    ev.append(["set_style", "text1", p, "color"])
    ev.append(["add_animation_step", "text1", p, "color"])
  return ev


# ------------------------------------------------------------------------------------------------------
# replay


def build_world(init_event):
  _tag, uname, preset = init_event
  u = UNIVERSES[uname]
  w = R.World(u)
  for ev in u["presets"][preset]:
    res, _w = R.run_event(w, ev, guard=False)
    if res != "ok":
      raise HarnessError(f"preset {uname}/{preset}: set-up event {ev} was not accepted ({res})")
  return w


def replay(history):
  """fresh real objects, the history applied in order; rejected calls are part of the history"""
  w = build_world(history[0])
  for ev in history[1:]:
    R.run_event(w, ev, guard=False)
  return w


# ------------------------------------------------------------------------------------------------------
# expansion of one state


def _report_inv(acc, inv_new, disc_prefix, case, keep_where=True):
  for (clause, inst), (what, obs) in sorted(inv_new.items(), key=lambda kv: (kv[0][0], str(kv[0][1]))):
    if clause == "C15.region-ref" and not keep_where:
      what = what.split(",")[0]          # in-body / outside-body only matters where the library has to find the elements
    acc.violation(clause, f"{disc_prefix}|{what}", case, observed={"instance": inst, "detail": obs},
                  expected="invariant clause holds in the state reached", note="clause newly broken by the last event")


def make_expand(uname, menu, depth):
  def expand(history, acc):
    if not history or history[0][0] != "init" or history[0][1] != uname:
      raise HarnessError(f"history does not start with an init event of {uname}: {history[:1]}")
    level = len(history) - 1
    w = replay(history)
    if level >= depth and level > 0:
      # deepest level: the history is replayed, the state is not expanded; its invariant was evaluated when the
      # transition that produced it was executed (below, in the expansion of its predecessor)
      return []
    snap = R.snapshot(w)
    inv = R.invariant(w, snap)
    if level == 0 and inv:
      _report_inv(acc, inv, "initial-state", {"history": history})
    if R.is_broken(inv):
      acc.count("broken-states-not-expanded")
      return []
    if level >= depth:
      return []
    a0 = R.abstract(w, snap)
    succ = []
    memo = {}
    fresh = True
    for ev in menu:
      if not fresh:
        w = replay(history)
      case = {"history": history, "event": ev}
      res, w2 = R.run_event(w, ev, retry_world=lambda: replay(history))
      op = ev[0]
      if res == "hang":
        fresh = False
        acc.case(f"{op}:hang", nontrivial=True)
        acc.violation("C15.nontermination", f"op={op},{R.arg_class(a0, ev, w)}", case,
                      observed="the call does not return (step budget exhausted)", expected="the call returns or raises")
        continue
      w = w2
      priv = R.priv_projection(w)
      changed = priv != snap.priv
      if changed:
        fresh = False
        hit = memo.get(priv)
        if hit is None:
          # projections, abstract state and invariant are functions of the complete private projection: computed once
          # per distinct successor state of this expansion (many events lead to the same successor)
          snap2 = R.snapshot(w, priv)
          hit = memo[priv] = (snap2, R.abstract(w, snap2), R.invariant(w, snap2))
        snap2, a1, inv2 = hit
        key = snap2.key
      else:
        fresh = True
        snap2, a1, inv2 = snap, a0, inv
        key = snap.key
      acc.case(f"{op}:{res}:{'changed' if changed else 'same'}", nontrivial=changed)
      succ.append((ev, key))
      if not changed and res != "ok":
        continue
      argc = None
      if res != "ok":
        # a rejected call changed the model
        clause, counter = R.atomic_clause(a0, ev, w)
        argc = R.arg_class(a0, ev, w)
        if clause is None:
          acc.count(counter)
        else:
          acc.violation(clause, f"op={op},{argc}", case,
                        observed={"raised": res, "changed": R.abs_diff(a0, a1) or ["private fields only"]},
                        expected="a call that raises leaves the model unchanged")
      else:
        want = R.ref_apply_safe(a0, ev, w)
        if want is None:
          acc.count("accepted-call-without-reference-effect")
        else:
          diff = R.abs_diff(want, a1)
          if diff:
            argc = R.arg_class(a0, ev, w)
            acc.violation("C15.step", f"op={op},{argc},diff={'+'.join(diff)}", case,
                          observed={k: a1[k] for k in diff}, expected={k: want[k] for k in diff},
                          note="an accepted call did not change the model as the reference model says")
      if changed:
        new = {k: v for k, v in inv2.items() if k not in inv}
        if new:
          if argc is None:
            argc = R.arg_class(a0, ev, w)
          dop, via = R.disc_op(ev, w)
          resl = "accepted" if (res == "ok" or via) else "rejected"
          _report_inv(acc, new, f"op={dop},{argc},{resl}", case, keep_where=op in ("remove_region", "put_region"))
    if level == 0:
      acc.sample({"family": uname, "initial": history[0], "events_per_state": len(menu), "first_events": menu[:3]})
    return succ
  return expand


def shrink_history(case):
  h = case["history"]
  for i in range(1, len(h)):
    yield {"history": h[:i] + h[i + 1:], "event": case.get("event")}


def family(name, uname, menu, depth, note=""):
  u = UNIVERSES[uname]
  initial = [[["init", uname, p]] for p in u["presets"]]
  expand = make_expand(uname, menu, depth)

  def canon0(h):
    return R.snapshot(replay(h)).key
  return StateFamily(name, initial, expand, depth, canon0=canon0, timeout=60.0, shrink=shrink_history,
                     note=f"{note}; {len(menu)} events per state, {len(initial)} initial state(s)")


# ------------------------------------------------------------------------------------------------------
# gates: the reference model and the validity notion are bound to hand-computed examples before they are believed


def gates():
  n = 0
  # content model of doc/data_model.md
  for ks, want in [((), True), (("Rb", "Rt"), True), (("Rb", "Rp", "Rt", "Rp"), True), (("Rbc", "Rtc"), True),
                   (("Rbc", "Rtc", "Rtc"), True), (("Rp", "Rp"), True), (("Rt", "Rb"), False), (("Rbc",), False),
                   (("Rb", "Rp"), False), (("Rbc", "Rtc", "Rtc", "Rtc"), False), (("Rb", "Rt", "Rt"), False)]:
    if R.ruby_ok(ks) != want:
      raise HarnessError(f"ruby pattern gate failed for {ks}")
    n += 1
  for ks, want in [((), True), (("Rt",), True), (("Rt", "Rt"), True), (("Rp", "Rp"), True), (("Rp", "Rt", "Rt", "Rp"), True),
                   (("Rp",), False), (("Rp", "Rt"), False), (("Rt", "Rp"), False), (("Rp", "Rt", "Rp", "Rt"), False), (("Rb",), False)]:
    if R.rtc_ok(ks) != want:
      raise HarnessError(f"rtc pattern gate failed for {ks}")
    n += 1
  # every property's own initial value is valid by my notion; a value of a foreign type is not
  import ttconv.style_properties as S
  for p in S.StyleProperties.ALL:
    if R.my_valid(p, p.make_initial_value()) is not True:
      raise HarnessError(f"validity gate: initial value of {p.__name__} judged invalid")
    if R.my_valid(p, object()) is not False or R.my_valid(p, None) is not False:
      raise HarnessError(f"validity gate: object()/None judged valid for {p.__name__}")
    n += 2
  SPp = S.StyleProperties
  for p, v, want in [(SPp.FontFamily, ("a", S.GenericFontFamilyType.serif), True), (SPp.FontFamily, (1,), False),
                     (SPp.FontFamily, ["a"], False), (SPp.FontFamily, "a", False), (SPp.FontFamily, ("a", None), False),
                     (SPp.Color, S.ColorType(), True), (SPp.Color, "red", False), (SPp.LineHeight, S.SpecialValues.none, False),
                     (SPp.LineHeight, S.SpecialValues.normal, True), (SPp.RubyReserve, S.SpecialValues.normal, False),
                     (SPp.Extent, R.VALUES["extent_em"], False), (SPp.Extent, R.VALUES["extent_pct"], True),
                     (SPp.FillLineGap, 1, False), (SPp.FillLineGap, True, True), (SPp.Opacity, "1", False), (SPp.Opacity, 0.5, True),
                     (R.NotAProperty, S.ColorType(), False)]:
    if R.my_valid(p, v) is not want:
      raise HarnessError(f"validity gate failed: {p.__name__} {v!r}")
    n += 1
  # the reference model on hand-computed histories (abstract state written out by hand), and the repository's own
  # pinned expectations (test_model_element.py: test_push_child, test_remove_child, test_remove; test_model_document.py:
  # test_add_dup_region, test_remove_region) replayed through the reference model
  w = build_world(["init", "structure", "detached"])
  a = R.abstract(w, R.snapshot(w))
  for ev in (["push_child", "div1", "div2"], ["push_child", "div1", "p1"], ["push_children", "p1", ["span1", "br1"]]):
    a = R.ref_apply(a, ev, w)
  if a["kids"]["div1"] != ["div2", "p1"] or a["parent"]["p1"] != "div1" or a["kids"]["p1"] != ["span1", "br1"]:
    raise HarnessError("reference gate: push")
  a = R.ref_apply(a, ["remove", "div2"], w)
  a = R.ref_apply(a, ["remove_child", "p1", "br1"], w)
  if a["kids"]["div1"] != ["p1"] or a["parent"]["div2"] is not None or a["kids"]["p1"] != ["span1"] or a["parent"]["br1"] is not None:
    raise HarnessError("reference gate: remove")
  a = R.ref_apply(a, ["set_doc", "div1", "A"], w)
  if [a["doc"][x] for x in ("div1", "p1", "span1", "div2", "br1")] != ["A", "A", "A", None, None]:
    raise HarnessError("reference gate: set_doc")
  a = R.ref_apply(a, ["remove_children", "div1"], w)
  if a["kids"]["div1"] != [] or a["parent"]["p1"] is not None or a["kids"]["p1"] != ["span1"]:
    raise HarnessError("reference gate: remove_children")
  n += 4
  w = build_world(["init", "registry", "tree"])
  a = R.abstract(w, R.snapshot(w))
  a = R.ref_apply(a, ["put_region", "A", "r1"], w)
  a = R.ref_apply(a, ["set_region", "p1", "r1"], w)
  a = R.ref_apply(a, ["put_region", "A", "r2"], w)
  a = R.ref_apply(a, ["set_region", "div1", "r2"], w)
  if a["registry"]["A"] != {"r1": "r1", "r2": "r2"} or a["region"]["p1"] != "r1":
    raise HarnessError("reference gate: put_region")
  b = R.ref_apply(a, ["put_region", "A", "r1b"], w)
  if b["registry"]["A"]["r1"] != "r1b":
    raise HarnessError("reference gate: replace region")
  a = R.ref_apply(a, ["remove_region", "A", "r1"], w)
  if a["registry"]["A"] != {"r2": "r2"} or a["region"]["p1"] is not None or a["region"]["div1"] != "r2":
    raise HarnessError("reference gate: remove_region")
  a = R.ref_apply(a, ["remove", "div1"], w)
  a = R.ref_apply(a, ["set_doc", "div1", "NONE"], w)
  if a["region"]["div1"] is not None or a["doc"]["p1"] is not None or a["kids"]["body"] != []:
    raise HarnessError("reference gate: detach")
  n += 4
  # style part of the reference model, expected values written out by hand.  (The gates never judge the
  # implementation: reference-vs-implementation comparison happens on every transition of the search.)
  w = build_world(["init", "style", "plain"])
  a = R.abstract(w, R.snapshot(w))
  for ev in (["set_style", "span1", "Color", "color"], ["add_animation_step", "span1", "Color", "color2"], ["copy_to", "span1", "p1"],
             ["set_style", "span1", "Color", "NONE"], ["put_initial_value", "A", "Color", "color"], ["copy_to", "A", "B"],
             ["set_style", "text1", "Color", "NONE"]):
    a = R.ref_apply(a, ev, w)
  if a["styles"]["span1"] != {} or a["styles"]["p1"] != {"Color": "color"} or a["sets"]["p1"] != (("Color", None, None, "color2"),) or \
     a["attrs"]["p1"]["id"] != "s1" or a["attrs"]["p1"]["begin"] != 1 or a["init"]["B"] != {"Color": "color"} or a["styles"]["text1"] != {}:
    raise HarnessError("reference gate: styles")
  n += 7
  return {"hand_examples": n}


# ------------------------------------------------------------------------------------------------------


def plan(tier, seed):
  thorough = tier == "thorough"
  fams = [
    family("structure", "structure", menu_structure(), 4 if thorough else 3,
           "push_child/push_children/remove/remove_child/remove_children/set_doc over body, 2 div, p, 2 span, br, text and two documents"),
  ]
  # deeper search of a sub-universe of the structure universe: VERIF_SEED selects which slice the quick tier
  # searches (exhaustively); the thorough tier takes all slices
  for i, (sname, subset) in enumerate(STRUCTURE_SLICES):
    if thorough or i == seed % len(STRUCTURE_SLICES):
      fams.append(family(f"structure-deep[{sname}]", "structure", menu_structure(subset), 4 if (sname == "lower" and not thorough) else 12,
                         f"all calls among {'/'.join(subset)} only, searched until no new state appears (depth bound 12 not reached)" if (thorough or sname != "lower") else f"all calls among {'/'.join(subset)} only"))
  for cname, subset in (("div", ["div1", "div2", "div3"]), ("span", ["span1", "span2", "span3"])):
    fams.append(family(f"structure-chain[{cname}]", "chain", menu_structure(subset, "chain"), 12,
                       f"all calls among three {cname} elements (trees of depth 2: grandparent / grandchild), searched until no new state appears"))
  fams += [
    family("registry", "registry", menu_registry(), 5 if thorough else 4,
           "put_region/remove_region/set_region/set_body/set_doc/push_child/remove with two regions sharing an id, a region of "
           "the other document with the same id, two documents"),
    family("ruby", "ruby", menu_ruby(), 5 if thorough else 4,
           "Ruby/Rb/Rt/Rp/Rbc/Rtc push_children patterns, push_child, remove*, with an Rt of another document"),
    family("ruby-lists", "ruby", menu_ruby_lists(), 1, "every list of <= 4 distinct elements to Ruby.push_children and Rtc.push_children"),
    family("style", "style", menu_style(STYLE_MENU_SMALL if thorough else STYLE_MENU), 4 if thorough else 3,
           "set_style/add_animation_step/put_initial_value/copy_to, valid and invalid values, font-family items"),
    family("style-table", "style", menu_style_table(), 1, "36 properties x every named value x 3 sinks"),
  ]
  return fams

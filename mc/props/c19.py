"""C19 — `tt convert` equals the library pipeline, honours options, is deterministic and history independent.

Four kinds of families, one named clause each (DESIGN.md section 3, C19):

(a) equivalence (Family, in-process): the file written by `ttconv.tt.main(argv)` is byte-identical to this module's own
    composition reader -> named filters in order -> writer with the module configurations parsed from the same JSON
    (`ref_convert`), over configurations (one key at a time + products of 2-valued domains), filter lists, type
    selection by extension (any case) or --itype/--otype, --config / --config_file / both.     clause C19.equiv
(b) rejection (Family, in-process): invalid value menus for every documented key, unsupported types/extensions,
    unknown sub-commands, malformed configuration documents: an error and no output file.
    clauses C19.reject.<module>.<key>, C19.null.<module>.<key>, C19.reject.type, C19.reject.shape, C19.reject.noout
(c) histories (StateFamily, one fresh interpreter per history): all sequences of <= depth jobs from a menu; the bytes
    of every job equal those of the same job run first in a fresh process.                       clause C19.history
(d) hash seeds (Family, sub-processes): jobs re-run under PYTHONHASHSEED 0..3: equal bytes.        clause C19.hashseed

A *job* is plain data describing one command line; `materialise` turns it into files + argv inside a fresh temporary
directory that is always removed.
"""
from __future__ import annotations

import contextlib
import copy
import io
import json
import logging
import os
import re
import shutil
import subprocess
import sys
import tempfile

from mc import env  # noqa  (first: puts the explored tree first on sys.path)
from mc.kernel import Family, StateFamily, HarnessError, exc_disc, h64, jenc, jdec
from mc.docgen import Product

ID = "C19"
LEVEL = "model_checking"
RULE = ("a case is one command line (job): input x output type x configuration x filter list x type selection x "
        "configuration delivery, enumerated completely per family by mixed-radix index; equivalence cases are "
        "non-trivial when an output file with content is produced and the options of the case change the bytes "
        "relative to the option-free conversion of the same input (config families) or the case selects types / "
        "delivers the configuration in a non-default way (option family); rejection cases are non-trivial when the "
        "configured module is on the executed pipeline; history transitions are non-trivial when the history is "
        "non-empty and the job writes a file; distinct by canonical job JSON / history")
BOUNDS = {
  "quick": "configuration sweep: 6 inputs (TTML, SCC, 2 STL, SRT, VTT) x 3 outputs x 157 configurations (none, {}, every "
           "documented key with its valid+boundary menu one at a time, per-module products of 2-valued domains, a "
           "cross-module product) x filters {[],[lcd]}; option sweep: 5 inputs x 3 outputs x 3 filter lists x 6 input-type "
           "selections x 5 output-type selections x {none, --config, --config_file, both, both with a file of one section, both with a file of one key per section, both with an empty file}; filter sweep: 5 inputs x 3 "
           "outputs x all 85 sequences of <= 3 names over {lcd, 2 probe filters, unknown} x {no, with configuration}; "
           "invalid menus (wrong JSON type, out of range, unknown keyword, malformed, null) for all 19 documented keys "
           "on every pipeline that parses the module x {--config, --config_file}; unsupported types/extensions/"
           "sub-commands; malformed configuration documents; histories: ALL sequences of <= 2 jobs from a menu of 9 "
           "(unmerged) + sequences of <= 3 jobs merged on the global-state fingerprint; configuration pairs in one interpreter (per documented key: Python-equal values of "
           "different JSON types, a valid then an invalid value, two valid values); hash seeds 0..3 on 30 jobs",
  "thorough": "as quick; histories: ALL sequences of <= 3 jobs (unmerged) + sequences of <= 4 jobs merged on the fingerprint",
}
ASSUMPTIONS = [
  "the reference composition uses the public reader/filter/writer/configuration functions of the explored tree; only the "
  "glue (type inference, configuration loading and precedence, document_lang, filter sequencing, file writing) is re-stated",
  "two probe document filters (c19a, c19b) are registered through the public DocumentFilter subclass mechanism so that "
  "filter order and repetition are observable (lcd is idempotent)",
  "an unknown filter name is outside the property statement: either an error without output or skipping it (what tt.py "
  "does, with an ERROR record) is accepted, the output must then equal the composition without that filter",
  "a configuration for a module that is not on the executed pipeline is not parsed and therefore never rejected",
  "JSON null for a key whose documentation does not mention null must be rejected or behave as if the key were absent",
  "process-global state is fingerprinted by known items (ElementTree namespace map, ttconv logger, progress handler, "
  "filter registry, SrtContext.filters) plus a generic digest of every module-level/class-level container of ttconv "
  "modules; histories merge only on equal fingerprints",
  "in-process families replace the stream of tt's progress handler by a sink and reset logger level / progress flag "
  "before each case (they are not about that state); the history and hash-seed families run untouched interpreters",
]

# ---------------------------------------------------------------------------------------------------
# inputs

TTML_RICH = """<?xml version="1.0" encoding="UTF-8"?>
<tt xml:lang="en" xmlns="http://www.w3.org/ns/ttml" xmlns:tts="http://www.w3.org/ns/ttml#styling"
    xmlns:ttp="http://www.w3.org/ns/ttml#parameter" ttp:frameRate="25">
  <head>
    <layout>
      <region xml:id="r1" tts:origin="10% 10%" tts:extent="80% 20%" tts:displayAlign="before"/>
      <region xml:id="r2" tts:origin="10% 70%" tts:extent="80% 20%" tts:displayAlign="after" tts:textAlign="end"/>
    </layout>
  </head>
  <body>
    <div>
      <p region="r1" begin="1s" end="2.5s"><span tts:fontWeight="bold">Bold</span> and <span tts:fontStyle="italic" tts:color="#FF0000">red italic</span></p>
      <p region="r2" begin="2s" end="4s" tts:textAlign="start">Second<br/>line <span tts:textDecoration="underline">under</span></p>
      <p region="r1" begin="00:00:05:10" end="6s" xml:lang="fr">Trois <span tts:color="lime" tts:backgroundColor="blue">quatre</span> <span tts:color="#FFFF00">cinq</span></p>
    </div>
  </body>
</tt>
"""

SRT_OWN = """1
00:00:01,000 --> 00:00:02,500
<b>Hello</b> <i>world</i>

2
00:00:03,000 --> 00:00:04,000
Second <font color="#00ff00">green</font>
line two

"""

VTT_OWN = """WEBVTT

id1
00:00:01.000 --> 00:00:02.000 line:10% align:start
<b>Hello</b> <i>there</i>

00:00:02.500 --> 00:00:04.000
Second cue
two lines
"""

INPUTS = {
  # name: (type, "text"/"res", payload)
  "ttml:rich": ("ttml", "text", TTML_RICH),
  "ttml:body_only": ("ttml", "res", "ttml/body_only.ttml"),
  "scc:pop-on": ("scc", "res", "scc/pop-on.scc"),
  "scc:paint-on": ("scc", "res", "scc/paint-on.scc"),
  "stl:bg": ("stl", "res", "stl/sandflow/setting_background_before_startbox.stl"),
  "stl:tcp": ("stl", "res", "stl/sandflow/test_tcp_processing.stl"),
  "srt:own": ("srt", "text", SRT_OWN),
  "vtt:own": ("vtt", "text", VTT_OWN),
}
INPUT_NAMES = list(INPUTS)
ONE_PER_TYPE = ["ttml:rich", "scc:pop-on", "stl:bg", "srt:own", "vtt:own"]
CONFIG_INPUTS = ONE_PER_TYPE + ["stl:tcp"]      # the configuration sweep; scc:paint-on / ttml:body_only only in histories / gates
IN_TYPES = ["ttml", "scc", "stl", "srt", "vtt"]
OUT_TYPES = ["ttml", "srt", "vtt"]

_INPUT_CACHE = {}


def input_bytes(name) -> bytes:
  if name not in _INPUT_CACHE:
    _typ, kind, payload = INPUTS[name]
    if kind == "text":
      _INPUT_CACHE[name] = payload.encode("utf-8")
    else:
      with open(os.path.join(env.RES, payload), "rb") as f:
        _INPUT_CACHE[name] = f.read()
  return _INPUT_CACHE[name]


# ---------------------------------------------------------------------------------------------------
# jobs

def mk_job(inp, out, config=None, filters=(), in_name=None, out_name=None, itype=None, otype=None,
           config_file=None, sub="convert", config_text=None, config_file_text=None):
  """A job is plain data.  `config` / `config_file` are JSON-able values (None = option absent); the *_text variants
  carry raw text (for malformed documents)."""
  return {
    "input": inp, "in_name": in_name or ("in." + INPUTS[inp][0]), "out_name": out_name or ("out." + out),
    "itype": itype, "otype": otype, "filters": list(filters), "config": config, "config_file": config_file,
    "config_text": config_text, "config_file_text": config_file_text, "sub": sub,
  }


def materialise(job, root, cfg_path=None):
  """Writes the input (and configuration file) under root/in, returns (argv, out_dir).  `cfg_path`: where the configuration file
  goes instead (the driver gives every job of a history the same path, rewritten before each job, as a batch script would)."""
  ind = os.path.join(root, "in")
  outd = os.path.join(root, "out")
  os.mkdir(ind)
  os.mkdir(outd)
  in_path = os.path.join(ind, job["in_name"])
  with open(in_path, "wb") as f:
    f.write(input_bytes(job["input"]))
  argv = []
  if job.get("sub") is not None:
    argv.append(job["sub"])
  argv += ["-i", in_path, "-o", os.path.join(outd, job["out_name"])]
  if job.get("itype") is not None:
    argv += ["--itype", job["itype"]]
  if job.get("otype") is not None:
    argv += ["--otype", job["otype"]]
  for fl in job.get("filters") or []:
    argv += ["--filter", fl]
  ctext = job.get("config_text")
  if ctext is None and job.get("config") is not None:
    ctext = json.dumps(job["config"])
  if ctext is not None:
    argv += ["--config", ctext]
  ftext = job.get("config_file_text")
  if ftext is None and job.get("config_file") is not None:
    ftext = json.dumps(job["config_file"])
  if ftext is not None:
    cpath = cfg_path or os.path.join(ind, "cfg.json")
    with open(cpath, "w", encoding="utf-8") as f:
      f.write(ftext)
    argv += ["--config_file", cpath]
  return argv, outd, in_path


def _read_outdir(outd):
  out = {}
  for dp, _dn, fns in os.walk(outd):
    for fn in fns:
      p = os.path.join(dp, fn)
      with open(p, "rb") as f:
        out[os.path.relpath(p, outd)] = f.read()
  return out


def call_tt(argv):
  """Calls ttconv.tt.main(argv) with stdout/stderr captured.  Returns (status, detail, exception-or-None)."""
  import ttconv.tt as tt
  so, se = io.StringIO(), io.StringIO()
  try:
    with contextlib.redirect_stdout(so), contextlib.redirect_stderr(se):
      tt.main(argv)
    return "ok", "", None
  except SystemExit as e:
    if e.code in (0, None):
      return "exit0", "", None
    return "error", f"SystemExit({e.code!r})"[:200], None
  except Exception as e:  # pylint: disable=broad-except
    return "error", f"{type(e).__name__}: {e}"[:200], e


@contextlib.contextmanager
def quiet_tt():
  """In-process families only: tt's progress handler writes to the stderr captured at import; give it a sink, and
  start every case from the logger level / progress flag that importing ttconv.tt establishes."""
  import ttconv.tt as tt
  old_stream = tt.progress.stream
  tt.progress.stream = io.StringIO()
  tt.LOGGER.setLevel(logging.INFO)
  tt.progress.display_progress_bar = True
  tt.progress.is_writing_progress_bar = False
  try:
    yield
  finally:
    tt.progress.stream = old_stream
    tt.LOGGER.setLevel(logging.INFO)
    tt.progress.display_progress_bar = True
    tt.progress.is_writing_progress_bar = False


def run_job_inprocess(job):
  """-> {"status": ok|exit0|error, "detail": str, "files": {relpath: bytes}, "ref": (status, bytes|msg)}"""
  root = tempfile.mkdtemp(prefix="c19-")
  try:
    argv, outd, in_path = materialise(job, root)
    with quiet_tt():
      status, detail, exc = call_tt(argv)
      files = _read_outdir(outd)
      ref = ref_convert(job, in_path)
    return {"status": status, "detail": detail, "files": files, "ref": ref, "exc": exc}
  finally:
    shutil.rmtree(root, ignore_errors=True)


# ---------------------------------------------------------------------------------------------------
# the reference composition (the module's own statement of what `tt convert` is)

class Rejected(Exception):
  """the reference decides that the command line must end with an error"""


# ---------------------------------------------------------------------------------------------------
# probe filters: two harness-defined document filters registered through the public extension mechanism
# (subclassing DocumentFilter), non-idempotent and order-sensitive, so that "the named filters in order" is observable
# (lcd, the only filter of the library, is idempotent)

PROBES = ("c19a", "c19b")


def _register_probe_filters():
  import dataclasses
  import typing
  from ttconv.filters.document_filter import DocumentFilter
  from ttconv.config import ModuleConfiguration
  import ttconv.model as model
  import ttconv.style_properties as styles
  if DocumentFilter.get_filter_by_name(PROBES[0]) is not None:
    return

  def make(fname):
    @dataclasses.dataclass
    class ProbeConfig(ModuleConfiguration):
      """suffix appended to the first text node"""
      suffix: typing.Optional[str] = fname[-1]

      @classmethod
      def name(cls):
        return fname

    class ProbeFilter(DocumentFilter):
      """appends '+<suffix>' to the first text node and sets tts:textAlign=end on the body"""

      @classmethod
      def get_config_class(cls):
        return ProbeConfig

      def process(self, doc):
        body = doc.get_body()
        if body is None:
          return
        for e in body.dfs_iterator():
          if isinstance(e, model.Text):
            e.set_text(e.get_text() + "+" + str(self.config.suffix))
            break
        body.set_style(styles.StyleProperties.TextAlign, styles.TextAlignType.end)
    ProbeFilter.__name__ = ProbeFilter.__qualname__ = f"ProbeFilter_{fname}"
    return ProbeFilter
  for fname in PROBES:
    make(fname)


_register_probe_filters()


def _ref_type(explicit, file_name):
  """--itype/--otype wins; otherwise the extension of the file name; case-insensitive."""
  if explicit is not None:
    return explicit.lower()
  ext = os.path.splitext(file_name)[1]
  if ext.startswith("."):
    ext = ext[1:]
  return ext.lower()


def effective_config(job):
  """a configuration file takes precedence over an inline configuration"""
  if job.get("config_file_text") is not None:
    return json.loads(job["config_file_text"])
  if job.get("config_file") is not None:
    return job["config_file"]
  if job.get("config_text") is not None:
    return json.loads(job["config_text"])
  return job.get("config")


def _module_config(cfg, config_class):
  if cfg is None:
    return None
  section = cfg.get(config_class.name())
  if section is None:
    return None
  # the reference pipeline parses a private copy of the section every time (a filter may be named twice): it does not depend on
  # whether parsing leaves its argument alone
  return config_class.parse(copy.deepcopy(section))


def ref_convert(job, in_path, skip_unknown_filters=True):
  """-> ("ok", bytes) | ("error", message).  Own composition of the public functions."""
  import xml.etree.ElementTree as et
  from pathlib import Path
  import ttconv.imsc.reader as imsc_reader
  import ttconv.imsc.writer as imsc_writer
  import ttconv.scc.reader as scc_reader
  import ttconv.stl.reader as stl_reader
  import ttconv.srt.reader as srt_reader
  import ttconv.vtt.reader as vtt_reader
  import ttconv.srt.writer as srt_writer
  import ttconv.vtt.writer as vtt_writer
  from ttconv.imsc.config import IMSCWriterConfiguration
  from ttconv.scc.config import SccReaderConfiguration
  from ttconv.stl.config import STLReaderConfiguration
  from ttconv.srt.config import SRTWriterConfiguration
  from ttconv.vtt.config import VTTWriterConfiguration
  from ttconv.filters.document_filter import DocumentFilter

  try:
    if job.get("sub") != "convert":
      raise Rejected(f"unknown sub-command {job.get('sub')!r}")
    cfg = effective_config(job)
    if cfg is not None and not isinstance(cfg, dict):
      raise Rejected("configuration is not a JSON object")
    general = None
    if cfg is not None and cfg.get("general") is not None:
      general = cfg["general"]
      if not isinstance(general, dict):
        raise Rejected("general is not a JSON object")
    itype = _ref_type(job.get("itype"), job["in_name"])
    otype = _ref_type(job.get("otype"), job["out_name"])
    if itype not in IN_TYPES:
      raise Rejected(f"unsupported input type {itype!r}")
    if otype not in OUT_TYPES:
      raise Rejected(f"unsupported output type {otype!r}")

    # reader
    if itype == "ttml":
      doc = imsc_reader.to_model(et.parse(in_path))
    elif itype == "scc":
      doc = scc_reader.to_model(Path(in_path).read_text(), _module_config(cfg, SccReaderConfiguration))
    elif itype == "stl":
      with open(in_path, "rb") as f:
        doc = stl_reader.to_model(f, _module_config(cfg, STLReaderConfiguration))
    elif itype == "srt":
      with open(in_path, "r", encoding="utf-8") as f:
        doc = srt_reader.to_model(f)
    else:
      with open(in_path, "r", encoding="utf-8") as f:
        doc = vtt_reader.to_model(f)

    # document_lang overrides the document language
    if general is not None and general.get("document_lang") is not None:
      doc.set_lang(general["document_lang"])

    # named filters, in order
    for name in job.get("filters") or []:
      fcls = DocumentFilter.get_filter_by_name(name)
      if fcls is None:
        if skip_unknown_filters:
          continue
        raise Rejected(f"unknown filter {name!r}")
      ccls = fcls.get_config_class()
      fcfg = _module_config(cfg, ccls)
      fcls(fcfg if fcfg is not None else ccls()).process(doc)

    # writer
    if otype == "ttml":
      tree = imsc_writer.from_model(doc, _module_config(cfg, IMSCWriterConfiguration))
      buf = io.BytesIO()
      tree.write(buf, encoding="utf-8")
      return "ok", buf.getvalue()
    if otype == "srt":
      return "ok", srt_writer.from_model(doc, _module_config(cfg, SRTWriterConfiguration)).encode("utf-8")
    return "ok", vtt_writer.from_model(doc, _module_config(cfg, VTTWriterConfiguration)).encode("utf-8")
  except Rejected as e:
    return "error", f"Rejected: {e}"
  except Exception as e:  # pylint: disable=broad-except
    return "error", f"{type(e).__name__}: {e}"[:200]


def _pair(job):
  return f"{INPUTS[job['input']][0]}->{_ref_type(job.get('otype'), job['out_name'])}"


# ---------------------------------------------------------------------------------------------------
# documented configuration keys (README.md "Documentation"): valid + boundary menus

VALID = {
  ("general", "progress_bar"): [True, False],
  ("general", "log_level"): ["INFO", "WARN", "ERROR"],
  ("general", "document_lang"): ["es-419", "en", "fr-CA", "zh-Hant-TW"],
  ("imsc_writer", "time_format"): ["frames", "clock_time", "clock_time_with_frames"],
  ("imsc_writer", "fps"): ["25/1", "30000/1001", "24000/1001", "1/1", "60/1", "50/2"],
  ("stl_reader", "disable_fill_line_gap"): [True, False],
  ("stl_reader", "disable_line_padding"): [True, False],
  ("stl_reader", "program_start_tc"): ["TCP", "00:00:00:00", "10:00:00:00", "00:00:01:24", "23:59:59:24"],
  ("stl_reader", "font_stack"): ["Times New Roman,serif", "monospace", "Verdana, Arial, Tiresias, sansSerif", "\"Foo Bar\""],
  ("stl_reader", "max_row_count"): ["MNR", 23, 11, 1, 99],
  ("srt_writer", "text_formatting"): [True, False],
  ("vtt_writer", "line_position"): [True, False],
  ("vtt_writer", "text_align"): [True, False],
  ("vtt_writer", "cue_id"): [True, False],
  ("scc_reader", "text_align"): ["auto", "left", "center", "right"],
  ("lcd", "safe_area"): [0, 1, 10, 29, 30],
  ("lcd", "color"): [None, "#FFFFFF", "white", "#ff000080", "rgb(0,255,0)", "rgba(0,0,255,128)"],
  ("lcd", "bg_color"): [None, "#FF0000", "transparent", "black", "#00000080"],
  ("lcd", "preserve_text_align"): [True, False],
}

# README.md line that documents each key (cited in findings)
DOC_LINE = {
  ("general", "progress_bar"): 'README.md:88 `"progress_bar": true | false`',
  ("general", "log_level"): 'README.md:96 `"log_level": "INFO" | "WARN" | "ERROR"`',
  ("general", "document_lang"): 'README.md:104 `"document_lang": <RFC 5646 language tag>`',
  ("imsc_writer", "time_format"): 'README.md:116 `"time_format": "frames" | "clock_time" | "clock_time_with_frames"`',
  ("imsc_writer", "fps"): 'README.md:124 `"fps": "<num>/<denom>"`',
  ("stl_reader", "disable_fill_line_gap"): 'README.md:138 `"disable_fill_line_gap" : true | false`',
  ("stl_reader", "disable_line_padding"): 'README.md:146 `"disable_line_padding" : true | false`',
  ("stl_reader", "program_start_tc"): 'README.md:154 `"program_start_tc" : "TCP" | "HH:MM:SS:FF"`',
  ("stl_reader", "font_stack"): 'README.md:162 `"font_stack" : <font-families>`',
  ("stl_reader", "max_row_count"): 'README.md:170 `"max_row_count" : "MNR" | integer`',
  ("srt_writer", "text_formatting"): 'README.md:180 `"text_formatting" : true | false`',
  ("vtt_writer", "line_position"): 'README.md:190 `"line_position" : true | false`',
  ("vtt_writer", "text_align"): 'README.md:198 `"text_align" : true | false`',
  ("vtt_writer", "cue_id"): 'README.md:206 `"cue_id" : true | false`',
  ("scc_reader", "text_align"): 'README.md:216 `"text_align" : "auto" | "left" | "center" | "right"`',
  ("lcd", "safe_area"): 'README.md:232 `"safe_area" : <integer between 0 and 30>`',
  ("lcd", "color"): 'README.md:240 `"color" : <TTML color> | null`',
  ("lcd", "bg_color"): 'README.md:251 `"bg_color" : <TTML color>` (null = no override, README.md:253)',
  ("lcd", "preserve_text_align"): 'README.md:262 `"preserve_text_align" : true | false`',
}

_BOOL_BAD = [("wrong-type", "false"), ("wrong-type", "true"), ("wrong-type", ""), ("wrong-type", 0), ("wrong-type", 1),
             ("wrong-type", 1.5), ("wrong-type", []), ("wrong-type", {}), ("wrong-type", ["false"])]
_COLOR_BAD = [("malformed", "#FFF"), ("malformed", "#GGGGGG"), ("malformed", "#FFFFFFF"), ("malformed", "FFFFFF"),
              ("malformed", "rgb(1,2)"), ("malformed", "rgba(1,2,3)"), ("malformed", "notacolor"), ("malformed", ""),
              ("wrong-type", 16777215), ("wrong-type", True), ("wrong-type", [255, 0, 0]), ("wrong-type", {})]

# kind: wrong-type (JSON type not documented), out-of-range, unknown-keyword, malformed (documented syntax violated)
INVALID = {
  ("general", "progress_bar"): _BOOL_BAD,
  ("general", "log_level"): [("unknown-keyword", "info"), ("unknown-keyword", "VERBOSE"), ("unknown-keyword", ""),
                             ("unknown-keyword", "DEBUG"), ("unknown-keyword", "WARNING"), ("unknown-keyword", "CRITICAL"), ("unknown-keyword", "NOTSET"),
                             ("wrong-type", 20), ("wrong-type", True), ("wrong-type", 1.5), ("wrong-type", []),
                             ("wrong-type", {}), ("wrong-type", ["INFO"])],
  ("general", "document_lang"): [("wrong-type", 5), ("wrong-type", True), ("wrong-type", []), ("wrong-type", {}),
                                 ("wrong-type", ["en"])],
  ("imsc_writer", "time_format"): [("unknown-keyword", "FRAMES"), ("unknown-keyword", "smpte"), ("unknown-keyword", ""),
                                   ("unknown-keyword", "clock_time "), ("wrong-type", 1), ("wrong-type", True),
                                   ("wrong-type", ["frames"]), ("wrong-type", {})],
  ("imsc_writer", "fps"): [("out-of-range", "0/1"), ("out-of-range", "-25/1"), ("malformed", " 25/1"), ("malformed", "25/1_0"), ("malformed", "\uff12\uff15/\uff11"), ("malformed", "25"), ("malformed", "25/"), ("malformed", "/1"), ("malformed", "25/1/1"),
                           ("malformed", "a/b"), ("malformed", "25.0/1"), ("malformed", ""), ("malformed", "25:1"),
                           ("malformed", "25/0"), ("wrong-type", 25), ("wrong-type", 25.0), ("wrong-type", True),
                           ("wrong-type", ["25/1"]), ("wrong-type", [25, 1]), ("wrong-type", {})],
  ("stl_reader", "disable_fill_line_gap"): _BOOL_BAD,
  ("stl_reader", "disable_line_padding"): _BOOL_BAD,
  ("stl_reader", "program_start_tc"): [("malformed", "1:00:00:00"), ("malformed", "00:00:00"), ("malformed", "00:00:00:00:00"),
                                       ("malformed", "00-00-00-00"), ("malformed", "aa:bb:cc:dd"), ("malformed", ""),
                                       ("unknown-keyword", "TCF"), ("wrong-type", 0), ("wrong-type", 10000000),
                                       ("wrong-type", True), ("wrong-type", []), ("wrong-type", {})],
  ("stl_reader", "font_stack"): [("malformed", ""), ("malformed", ","), ("malformed", "  "), ("wrong-type", 5),
                                 ("wrong-type", True), ("wrong-type", []), ("wrong-type", ["Arial"]), ("wrong-type", {})],
  ("stl_reader", "max_row_count"): [("out-of-range", 0), ("out-of-range", -1), ("unknown-keyword", "MAX"), ("unknown-keyword", ""), ("wrong-type", "23"),
                                    ("wrong-type", 2.5), ("wrong-type", True), ("wrong-type", []), ("wrong-type", {})],
  ("srt_writer", "text_formatting"): _BOOL_BAD,
  ("vtt_writer", "line_position"): _BOOL_BAD,
  ("vtt_writer", "text_align"): _BOOL_BAD,
  ("vtt_writer", "cue_id"): _BOOL_BAD,
  ("scc_reader", "text_align"): [("unknown-keyword", "middle"), ("unknown-keyword", "justify"), ("unknown-keyword", ""),
                                 ("unknown-keyword", "start"), ("wrong-type", 1), ("wrong-type", True), ("wrong-type", []),
                                 ("wrong-type", {})],
  ("lcd", "safe_area"): [("out-of-range", -1), ("out-of-range", 31), ("out-of-range", 50), ("out-of-range", 100),
                         ("out-of-range", -100), ("wrong-type", "10"), ("wrong-type", 10.5), ("wrong-type", True),
                         ("wrong-type", "abc"), ("wrong-type", []), ("wrong-type", {})],
  ("lcd", "color"): _COLOR_BAD,
  ("lcd", "bg_color"): _COLOR_BAD,
  ("lcd", "preserve_text_align"): _BOOL_BAD,
}
# keys whose documentation allows null
NULL_OK = {("lcd", "color"), ("lcd", "bg_color")}

MODULE_IN = {"scc_reader": "scc", "stl_reader": "stl"}
MODULE_OUT = {"imsc_writer": "ttml", "srt_writer": "srt", "vtt_writer": "vtt"}


def pipelines_for(module, inputs=None):
  """(input name, output type, filters) triples on which `module`'s configuration is parsed"""
  inputs = inputs or ONE_PER_TYPE
  out = []
  for inp in inputs:
    for o in OUT_TYPES:
      if module in MODULE_IN and INPUTS[inp][0] != MODULE_IN[module]:
        continue
      if module in MODULE_OUT and o != MODULE_OUT[module]:
        continue
      out.append((inp, o, ["lcd"] if module == "lcd" else []))
  return out


# ---------------------------------------------------------------------------------------------------
# configurations of the equivalence family

def _configs():
  out = [("none", None), ("empty", {})]
  for (mod, key), vals in VALID.items():
    for v in vals:
      out.append((f"{mod}.{key}", {mod: {key: v}}))
  for tf in VALID[("imsc_writer", "time_format")]:
    for fps in ["25/1", "30000/1001", "24/1"]:
      out.append(("imsc_writer.time_format*fps", {"imsc_writer": {"time_format": tf, "fps": fps}}))
  p = Product([[True, False]] * 3)
  for i in range(p.n):
    a, b, c = p.decode(i)
    out.append(("vtt_writer.*", {"vtt_writer": {"line_position": a, "text_align": b, "cue_id": c}}))
  p = Product([[True, False], [True, False], [None, "TCP"], [None, "serif"], [None, "MNR"]])
  for i in range(p.n):
    a, b, c, d, e = p.decode(i)
    s = {"disable_fill_line_gap": a, "disable_line_padding": b}
    if c is not None:
      s["program_start_tc"] = c
    if d is not None:
      s["font_stack"] = d
    if e is not None:
      s["max_row_count"] = e
    out.append(("stl_reader.*", {"stl_reader": s}))
  p = Product([[0, 30], [None, "red"], [None, "#0000FF80"], [True, False]])
  for i in range(p.n):
    a, b, c, d = p.decode(i)
    out.append(("lcd.*", {"lcd": {"safe_area": a, "color": b, "bg_color": c, "preserve_text_align": d}}))
  p = Product([[True, False], ["INFO", "ERROR"], [None, "es-419"]])
  for i in range(p.n):
    a, b, c = p.decode(i)
    s = {"progress_bar": a, "log_level": b}
    if c is not None:
      s["document_lang"] = c
    out.append(("general.*", {"general": s}))
  p = Product([[0, 1]] * 4)
  for i in range(p.n):
    g, w, r, l = p.decode(i)
    cfg = {}
    if g:
      cfg["general"] = {"document_lang": "de"}
    if w:
      cfg["imsc_writer"] = {"time_format": "frames", "fps": "30/1"}
      cfg["srt_writer"] = {"text_formatting": False}
      cfg["vtt_writer"] = {"line_position": True}
    if r:
      cfg["scc_reader"] = {"text_align": "right"}
      cfg["stl_reader"] = {"disable_fill_line_gap": True}
    if l:
      cfg["lcd"] = {"safe_area": 5, "color": "yellow"}
    out.append(("cross", cfg))
  return out


CONFIGS = _configs()

RICH = {
  "general": {"document_lang": "es-419", "progress_bar": False, "log_level": "WARN"},
  "imsc_writer": {"time_format": "frames", "fps": "30/1"},
  "srt_writer": {"text_formatting": False},
  "vtt_writer": {"line_position": True, "cue_id": False},
  "scc_reader": {"text_align": "right"},
  "stl_reader": {"disable_line_padding": True},
  "lcd": {"safe_area": 5, "color": "yellow", "bg_color": "#00000080", "preserve_text_align": True},
}
# same keys, different values: whatever "precedence" means in detail (replace or merge), the file's values win
DECOY = {
  "general": {"document_lang": "fr", "progress_bar": True, "log_level": "ERROR"},
  "imsc_writer": {"time_format": "clock_time", "fps": "25/1"},
  "srt_writer": {"text_formatting": True},
  "vtt_writer": {"line_position": False, "cue_id": True},
  "scc_reader": {"text_align": "left"},
  "stl_reader": {"disable_line_padding": False},
  "lcd": {"safe_area": 10, "color": "red", "bg_color": "blue", "preserve_text_align": False},
}

FILTER_LISTS = [[], ["lcd"], ["nosuch", "lcd"]]          # option family; the filter family takes all sequences
FILTER_NAMES = ["lcd", "c19a", "c19b", "nosuch"]


def _filter_sequences(maxlen):
  out = [[]]
  level = [[]]
  for _ in range(maxlen):
    level = [s_ + [n] for s_ in level for n in FILTER_NAMES]
    out += level
  return out


FILTER_SEQS = _filter_sequences(3)
FILTER_CFG = {"c19a": {"suffix": "A1"}, "lcd": {"safe_area": 5, "color": "yellow", "preserve_text_align": True},
              "vtt_writer": {"text_align": True}, "general": {"document_lang": "es-419"}}
IN_MODES = ["ext", "EXT", "Ext", "itype", "ITYPE+other-ext", "Itype+no-ext"]
OUT_MODES = ["ext", "EXT", "Ext", "otype+neutral-ext", "OTYPE+other-ext"]
# both-sections: the file holds one section only, the inline configuration all of them (a section-wise merge leaks the others);
# both-keys: the file holds one key of every section, the inline configuration all keys (a key-wise merge leaks the others)
# both-empty-file: the file is the empty object (the smallest configuration): it still replaces the inline configuration
DELIVERY = ["none", "inline", "file", "both", "both-sections", "both-keys", "both-empty-file"]


def _mixed(s):
  return s[0].upper() + s[1:].lower()


def _apply_in_mode(typ, mode):
  """-> (in_name, itype)"""
  other = IN_TYPES[(IN_TYPES.index(typ) + 1) % len(IN_TYPES)]
  return {
    "ext": ("in." + typ, None), "EXT": ("in." + typ.upper(), None), "Ext": ("in.v2." + _mixed(typ), None),
    "itype": ("in." + typ, typ), "ITYPE+other-ext": ("in." + other, typ.upper()), "Itype+no-ext": ("input", _mixed(typ)),
  }[mode]


def _apply_out_mode(typ, mode):
  other = OUT_TYPES[(OUT_TYPES.index(typ) + 1) % len(OUT_TYPES)]
  return {
    "ext": ("out." + typ, None), "EXT": ("out." + typ.upper(), None), "Ext": ("out.v2." + _mixed(typ), None),
    "otype+neutral-ext": ("out.dat", typ), "OTYPE+other-ext": ("out." + other, typ.upper()),
  }[mode]


def _deliver(job, mode, cfg, decoy):
  if mode == "inline":
    job["config"] = cfg
  elif mode == "file":
    job["config_file"] = cfg
  elif mode == "both":
    job["config_file"] = cfg
    job["config"] = decoy
  elif mode == "both-sections":
    job["config_file"] = {"general": decoy["general"]}
    job["config"] = cfg
  elif mode == "both-empty-file":
    job["config_file"] = {}
    job["config"] = cfg
  elif mode == "both-keys":
    job["config_file"] = {sec: dict(list(keys.items())[:1]) for sec, keys in cfg.items()}
    job["config"] = cfg
  return job


# ---------------------------------------------------------------------------------------------------
# (a) equivalence

def _config_key_of(job):
  try:
    cfg = effective_config(job)
  except Exception:  # pylint: disable=broad-except
    return "unparsable"
  if not isinstance(cfg, dict) or not cfg:
    return "-"
  keys = []
  for m in sorted(cfg):
    if isinstance(cfg[m], dict):
      keys += [f"{m}.{k}" for k in sorted(cfg[m])] or [m]
    else:
      keys.append(m)
  return "+".join(keys)


def job_features(job):
  """narrow discriminator of a (minimised) job: the pair and every option that is not at its default"""
  typ = INPUTS[job["input"]][0]
  parts = [_pair(job)]
  if job.get("itype") is not None:
    parts.append(f"itype={job['itype']}")
  if job["in_name"] != "in." + typ:
    parts.append(f"in={job['in_name']}")
  if job.get("otype") is not None:
    parts.append(f"otype={job['otype']}")
  otyp = _ref_type(job.get("otype"), job["out_name"])
  if job["out_name"] != "out." + otyp:
    parts.append(f"out={job['out_name']}")
  if job.get("filters"):
    parts.append("filters=" + "+".join(job["filters"]))
  has_file = job.get("config_file") is not None or job.get("config_file_text") is not None
  has_inline = job.get("config") is not None or job.get("config_text") is not None
  if has_file:
    parts.append("cfg=file+inline" if has_inline else "cfg=file")
  ck = _config_key_of(job)
  if ck != "-":
    parts.append(ck)
  return ",".join(parts)


def _first_diff(a: bytes, b: bytes):
  n = min(len(a), len(b))
  i = next((k for k in range(n) if a[k] != b[k]), n)
  return {"at": i, "observed": a[max(0, i - 40):i + 80].decode("utf-8", "replace"),
          "expected": b[max(0, i - 40):i + 80].decode("utf-8", "replace"), "len_observed": len(a), "len_expected": len(b)}


def equiv_verdict(job):
  """Runs tt.main and the reference on the job.
  -> dict(kind=None|'bytes'|'tt-error'|'tt-accepts'|'files'|'noout', observed, expected, note, ref=(status, value), tt_status)"""
  r = run_job_inprocess(job)
  ref_status, ref_val = r["ref"]
  files = r["files"]
  tt_ok = r["status"] in ("ok", "exit0")
  has_unknown = any(DocFilterNames.get(f) is None for f in job.get("filters") or [])
  v = {"kind": None, "ref": r["ref"], "tt_status": r["status"], "files": files, "unknown_refused": False}
  if ref_status == "ok":
    if has_unknown and not tt_ok:
      # outside the statement: an unknown filter may also be refused, then without output
      v["unknown_refused"] = True
      if files:
        v.update(kind="noout", observed=sorted(files), expected="no output file", note="unknown filter refused but a file was left")
      return v
    if not tt_ok:
      v.update(kind="tt-error", observed=r["detail"], expected=f"{len(ref_val)} bytes written",
               note="tt convert fails where the library composition succeeds")
    elif sorted(files) != [job["out_name"]]:
      v.update(kind="files", observed=sorted(files), expected=[job["out_name"]], note="files found in the output directory")
    elif files[job["out_name"]] != ref_val:
      v.update(kind="bytes", observed=_first_diff(files[job["out_name"]], ref_val), expected="byte-identical output",
               note="tt convert output differs from the reader -> filters -> writer composition")
  else:
    # the composition itself fails (e.g. frames without fps): tt convert must fail too and leave nothing behind
    if tt_ok:
      v.update(kind="tt-accepts", observed={"status": r["status"], "files": sorted(files)}, expected=f"error ({ref_val})",
               note="tt convert succeeds where the library composition raises")
    elif files:
      v.update(kind="noout", observed=sorted(files), expected="no output file", note="an error was raised but a file was left behind")
  return v


class _Names:
  """names of the registered document filters (looked up lazily in the explored tree)"""

  @staticmethod
  def get(name):
    from ttconv.filters.document_filter import DocumentFilter
    return DocumentFilter.get_filter_by_name(name)


DocFilterNames = _Names()


def job_reductions(job):
  """one-step reductions of a job, the ones many failing cases share first (so that minimisations converge and the
  verdict cache hits): plain file names, drop a filter, simpler configuration delivery, drop a configuration
  section / key, smaller input of the same type"""
  def variant(**kw):
    j = copy.deepcopy(job)
    j.update(kw)
    return j
  typ = INPUTS[job["input"]][0]
  if job.get("itype") is not None or job["in_name"] != "in." + typ:
    yield variant(itype=None, in_name="in." + typ)
  otyp = _ref_type(job.get("otype"), job["out_name"])
  if otyp in OUT_TYPES and (job.get("otype") is not None or job["out_name"] != "out." + otyp):
    yield variant(otype=None, out_name="out." + otyp)
  fl = job.get("filters") or []
  for i in range(len(fl)):
    yield variant(filters=fl[:i] + fl[i + 1:])
  if job.get("config_file") is not None and job.get("config") is not None:
    yield variant(config=None)
    yield variant(config_file=None)
  if job.get("config_file") is not None and job.get("config") is None:
    yield variant(config=job["config_file"], config_file=None)
  for which in ("config", "config_file"):
    cfg = job.get(which)
    if isinstance(cfg, dict):
      if not cfg:
        yield variant(**{which: None})
      for m in list(cfg):
        yield variant(**{which: {k: v for k, v in cfg.items() if k != m}})
      for m in list(cfg):
        if isinstance(cfg[m], dict) and len(cfg[m]) > 1:
          for k in list(cfg[m]):
            c3 = copy.deepcopy(cfg)
            del c3[m][k]
            yield variant(**{which: c3})
  for alt in ONE_PER_TYPE:
    if INPUTS[alt][0] == typ and alt != job["input"] and len(input_bytes(alt)) < len(input_bytes(job["input"])):
      yield variant(input=alt)
  # a simpler pair: the smallest input of another type / an earlier output type, names re-spelled in the same style
  for alt in sorted(ONE_PER_TYPE, key=lambda n_: len(input_bytes(n_))):
    atyp = INPUTS[alt][0]
    if atyp != typ and len(input_bytes(alt)) < len(input_bytes(job["input"])):
      yield variant(input=alt, in_name=_respell(job["in_name"], typ, atyp),
                    itype=None if job.get("itype") is None else _recase(job["itype"], atyp))
  if otyp in OUT_TYPES:
    for aot in PAIR_OUT_ORDER[:PAIR_OUT_ORDER.index(otyp)]:
      yield variant(out_name=_respell(job["out_name"], otyp, aot),
                    otype=None if job.get("otype") is None else _recase(job["otype"], aot))


PAIR_OUT_ORDER = ["srt", "vtt", "ttml"]


def _recase(old, new):
  if old.lower() != old and old.upper() == old:
    return new.upper()
  if old.lower() == old:
    return new.lower()
  return _mixed(new)


def _respell(name, old_typ, new_typ):
  """replaces the extension of `name` by new_typ in the same letter case if it spells old_typ; otherwise unchanged"""
  stem, ext = os.path.splitext(name)
  if ext[1:].lower() == old_typ:
    return stem + "." + _recase(ext[1:], new_typ)
  return name


_VERDICTS = {}      # per process: job key -> trimmed verdict, used by the minimiser only


def _cached_verdict(job):
  k = _jkey(job)
  v = _VERDICTS.get(k)
  if v is None:
    full = equiv_verdict(job)
    v = {x: full.get(x) for x in ("kind", "observed", "expected", "note")}
    if len(_VERDICTS) > 50000:
      _VERDICTS.clear()
    _VERDICTS[k] = v
  return v


def minimise(job, kind, verdict):
  """Greedy reduction of a failing job to a 1-minimal one with the same verdict kind, so that the discriminator
  names only the options that matter and is a function of the case alone."""
  improved = True
  while improved:
    improved = False
    for cand in job_reductions(job):
      v = _cached_verdict(cand)
      if v["kind"] == kind:
        job, verdict, improved = cand, v, True
        break
  return job, verdict


_BASELINE = {}


def _baseline(inp, otyp):
  """reference bytes of the option-free conversion (for the non-triviality rule)"""
  k = (inp, otyp)
  if k not in _BASELINE:
    _BASELINE[k] = _ref_of(mk_job(inp, otyp))
  return _BASELINE[k]


def check_equiv(case, acc):
  job = case["job"]
  v = equiv_verdict(job)
  has_unknown = any(DocFilterNames.get(f) is None for f in job.get("filters") or [])
  if v["kind"] is not None:
    mjob, mv = minimise(job, v["kind"], v)
    clause = "C19.reject.noout" if v["kind"] == "noout" else "C19.equiv"
    disc = job_features(mjob) + ("" if v["kind"] == "bytes" else f",{v['kind']}")
    acc.violation(clause, disc, {"job": mjob}, observed=mv["observed"], expected=mv["expected"], note=mv["note"])
    acc.case(f"violation:{v['kind']}", nontrivial=True, key=_jkey(job))
    return
  ref_status, ref_val = v["ref"]
  if v["unknown_refused"]:
    acc.case("unknown-filter-refused", nontrivial=True, key=_jkey(job))
  elif ref_status == "ok":
    # non-triviality: options change the bytes relative to the option-free conversion of the same input
    if not ref_val.strip():
      acc.case("ok-empty-output", nontrivial=False, key=_jkey(job))
      return
    b_status, b_val = _baseline(job["input"], _ref_type(job.get("otype"), job["out_name"]))
    changed = b_status != "ok" or b_val != ref_val
    acc.case(("ok-changed" if changed else "ok-same-as-default") + ("-unknown-filter-skipped" if has_unknown else ""),
             nontrivial=changed or bool(case.get("structural")), key=_jkey(job))
  else:
    if case.get("documented"):
      # the configuration holds documented values only: `tt convert` and the library agree, but on an error
      acc.violation("C19.accept", case["documented"], {"job": job, "documented": case["documented"]}, observed=ref_val[:200], expected="the conversion succeeds",
                    note="a configuration made of documented values is rejected (by the command and by the library's own parser alike)")
    acc.case("both-error:" + ref_val.split(":")[0], nontrivial=True, key=_jkey(job))


def _jkey(job):
  return json.dumps(jenc(job), sort_keys=True)


def fam_equiv_config(inputs):
  prod = Product([inputs, OUT_TYPES, list(range(len(CONFIGS))), [[], ["lcd"]]])

  def decode(i):
    inp, out, ci, fl = prod.decode(i)
    _label, cfg = CONFIGS[ci]
    # (time_format has documented dependencies on fps - frames need a rate, clock_time_with_frames an integer one -, so a
    # documented value of it alone may be rejected legitimately)
    return {"job": mk_job(inp, out, config=copy.deepcopy(cfg), filters=fl),
            "documented": None if _label.startswith("imsc_writer.time_format") else _label}
  return Family("equiv-config", prod.n, decode, check_equiv, timeout=60,
                note="inputs x outputs x configurations (one key at a time, per-module products, cross product) x {[],[lcd]}, --config")


def fam_equiv_filters(inputs):
  prod = Product([inputs, OUT_TYPES, list(range(len(FILTER_SEQS))), [None, FILTER_CFG]])

  def decode(i):
    inp, out, fi, cfg = prod.decode(i)
    return {"job": mk_job(inp, out, config=copy.deepcopy(cfg), filters=list(FILTER_SEQS[fi])), "structural": len(FILTER_SEQS[fi]) > 1}
  return Family("equiv-filters", prod.n, decode, check_equiv, timeout=60,
                note="inputs x outputs x every sequence of <= 3 filter names over {lcd, c19a, c19b (probe filters), nosuch} x "
                     "{no configuration, filter configuration}")


def fam_equiv_options(inputs):
  prod = Product([inputs, OUT_TYPES, FILTER_LISTS, IN_MODES, OUT_MODES, DELIVERY])

  def decode(i):
    inp, out, fl, im, om, dl = prod.decode(i)
    in_name, itype = _apply_in_mode(INPUTS[inp][0], im)
    out_name, otype = _apply_out_mode(out, om)
    job = mk_job(inp, out, filters=fl, in_name=in_name, out_name=out_name, itype=itype, otype=otype)
    _deliver(job, dl, copy.deepcopy(RICH), copy.deepcopy(DECOY))
    structural = not (im == "ext" and om == "ext" and dl in ("none", "inline"))
    return {"job": job, "structural": structural}
  return Family("equiv-options", prod.n, decode, check_equiv, timeout=60,
                note="inputs x outputs x filter lists x input type selection x output type selection x configuration delivery")


# ---------------------------------------------------------------------------------------------------
# (b) rejection

def _json_type(v):
  if v is None:
    return "null"
  if isinstance(v, bool):
    return "boolean"
  if isinstance(v, (int, float)):
    return "number"
  if isinstance(v, str):
    return "string"
  return "array" if isinstance(v, list) else "object"


def check_reject_config(case, acc):
  """case: {"job", "module", "key", "kind", "value"}: the module is on the pipeline; the value is not documented."""
  job = case["job"]
  mod, key, kind = case["module"], case["key"], case["kind"]
  r = run_job_inprocess(job)
  files = r["files"]
  pair = _pair(job)
  if r["status"] == "error":
    if files:
      acc.violation("C19.reject.noout", f"{pair},{mod}.{key}", case, observed=sorted(files), expected="no output file",
                    note="an error was raised but a file was left behind")
    acc.case(f"rejected:{kind}:{r['detail'].split(':')[0].split('(')[0]}", nontrivial=True, key=_jkey(job))
    return
  if kind == "null":
    # null where the documentation does not mention it: rejected, or the same as leaving the key out
    base = copy.deepcopy(job)
    for which in ("config", "config_file"):
      if isinstance(base.get(which), dict) and mod in base[which]:
        base[which][mod].pop(key, None)
    root = tempfile.mkdtemp(prefix="c19-")
    try:
      _argv, _outd, in_path = materialise(base, root)
      with quiet_tt():
        b_status, b_val = ref_convert(base, in_path)
    finally:
      shutil.rmtree(root, ignore_errors=True)
    got = files.get(job["out_name"])
    if b_status != "ok" or got != b_val:
      acc.violation(f"C19.null.{mod}.{key}", "null-differs-from-absent", case,
                    observed=_first_diff(got or b"", b_val if b_status == "ok" else b""),
                    expected="an error, or the output of the same command without the key",
                    note=f"{DOC_LINE[(mod, key)]} does not list null")
    acc.case("null-as-absent" if got == b_val else "null-changes-output", nontrivial=True, key=_jkey(job))
    return
  acc.violation(f"C19.reject.{mod}.{key}", kind, case,
                observed={"status": r["status"], "files": {k: len(v) for k, v in files.items()}},
                expected="an error (exception or non-zero exit) and no output file",
                note=f"undocumented value {json.dumps(case['value'])} accepted; documented: {DOC_LINE[(mod, key)]}")
  acc.case(f"accepted:{kind}", nontrivial=True, key=_jkey(job))


def shrink_reject(case):
  job = case["job"]
  if job.get("config_file") is not None:
    c = copy.deepcopy(case)
    c["job"]["config"] = c["job"]["config_file"]
    c["job"]["config_file"] = None
    yield c
  typ = INPUTS[job["input"]][0]
  for alt in ONE_PER_TYPE:
    if alt != job["input"] and (case["module"] not in MODULE_IN or INPUTS[alt][0] == typ) \
       and len(input_bytes(alt)) < len(input_bytes(job["input"])):
      c = copy.deepcopy(case)
      c["job"]["input"] = alt
      c["job"]["in_name"] = "in." + INPUTS[alt][0]
      yield c


def fam_reject_config():
  table = []
  for (mod, key), menu in INVALID.items():
    vals = list(menu)
    if (mod, key) not in NULL_OK:
      vals.append(("null", None))
    for kind, v in vals:
      for inp, out, fl in pipelines_for(mod):
        for dl in ("inline", "file"):
          table.append((mod, key, kind, v, inp, out, fl, dl))

  def decode(i):
    mod, key, kind, v, inp, out, fl, dl = table[i]
    job = mk_job(inp, out, filters=fl)
    _deliver(job, dl, {mod: {key: copy.deepcopy(v)}}, None)
    return {"job": job, "module": mod, "key": key, "kind": kind, "value": copy.deepcopy(v)}
  return Family("reject-config", len(table), decode, check_reject_config, shrink=shrink_reject, timeout=30,
                note="every documented key x invalid menu (wrong JSON type, out of range, unknown keyword, malformed, null) "
                     "x every pipeline that parses the module x {--config, --config_file}")


BAD_ITYPES = ["foo", "", "ttm", "ttml ", "imsc", "xml", "txt", "sub"]
BAD_IN_EXT = [".txt", "", ".xml", ".bak", ".", ".imsc", ".ttml2", ".ttml~"]
BAD_OTYPES = ["foo", "", "scc", "stl", "SCC", "STL", "json", "webvtt", "imsc"]
BAD_OUT_EXT = [".txt", "", ".scc", ".stl", ".SCC", ".xml", ".", ".srt~"]
BAD_SUBS = ["covert", "CONVERT", "validate", "", "convert2"]


def _reject_type_table():
  t = []
  for inp in ONE_PER_TYPE:
    typ = INPUTS[inp][0]
    for cfgmode in ("none", "inline"):
      for x in BAD_ITYPES:
        t.append(("itype", x, inp, dict(itype=x), cfgmode))
      for x in BAD_IN_EXT:
        t.append(("in-ext", x, inp, dict(in_name="in" + x), cfgmode))
      for x in BAD_OTYPES:
        t.append(("otype", x, inp, dict(otype=x), cfgmode))
      for x in BAD_OUT_EXT:
        t.append(("out-ext", x, inp, dict(out_name="out" + x), cfgmode))
      for x in BAD_SUBS:
        t.append(("sub", x, inp, dict(sub=x), cfgmode))
    # a supported type given explicitly does not rescue an unsupported one on the other side
    t.append(("otype", "scc", inp, dict(otype="scc", itype=typ), "none"))
    t.append(("itype", "foo", inp, dict(itype="foo", otype="ttml"), "none"))
  return t


def check_reject_type(case, acc):
  job = case["job"]
  r = run_job_inprocess(job)
  files = r["files"]
  what = case["what"]
  if r["ref"][0] != "error" or not r["ref"][1].startswith("Rejected"):
    raise HarnessError(f"reject-type case is not rejected by the reference: {case} -> {r['ref']}")
  if r["status"] != "error":
    acc.violation("C19.reject.type", f"{what}={case['value']!r}", case,
                  observed={"status": r["status"], "files": {k: len(v) for k, v in files.items()}},
                  expected="an error (exception or non-zero exit) and no output file")
    acc.case(f"accepted:{what}", nontrivial=True, key=_jkey(job))
    return
  if files:
    acc.violation("C19.reject.noout", f"{what}={case['value']!r}", case, observed=sorted(files), expected="no output file")
  acc.case(f"rejected:{what}:{r['detail'].split(':')[0].split('(')[0]}", nontrivial=True, key=_jkey(job))


def fam_reject_type():
  table = _reject_type_table()

  def decode(i):
    what, x, inp, kw, cfgmode = table[i]
    base = dict(in_name=None, out_name=None, itype=None, otype=None, sub="convert")
    base.update(kw)
    job = mk_job(inp, "ttml", **base)
    if cfgmode == "inline":
      job["config"] = {"general": {"log_level": "ERROR", "progress_bar": False}}
    return {"job": job, "what": what, "value": x}
  return Family("reject-type", len(table), decode, check_reject_type, timeout=30,
                note="unsupported --itype/--otype, unsupported or missing extensions, unknown sub-commands")


BAD_DOCS = [
  ("not-json", "{not json"), ("not-json", ""), ("not-json", "{'general': {}}"), ("not-json", "{\"general\": {\"progress_bar\": False}}"),
  ("top-level", "[]"), ("top-level", "5"), ("top-level", "\"x\""), ("top-level", "true"), ("top-level", "[{\"general\": {}}]"),
]
BAD_SECTIONS = [5, "x", True, [], ["a"], [{"safe_area": 5}]]


def _reject_shape_table():
  t = []
  for inp in ONE_PER_TYPE:
    for dl in ("inline", "file"):
      for kind, text in BAD_DOCS:
        t.append((kind, text, None, inp, "ttml", [], dl))
  for mod in ["general", "imsc_writer", "stl_reader", "srt_writer", "vtt_writer", "scc_reader", "lcd"]:
    for v in BAD_SECTIONS:
      for inp, out, fl in pipelines_for(mod):
        t.append(("section", None, {mod: v}, inp, out, fl, "inline"))
  return t


def check_reject_shape(case, acc):
  job = case["job"]
  r = run_job_inprocess(job)
  files = r["files"]
  if r["status"] != "error":
    acc.violation("C19.reject.shape", case["what"], case,
                  observed={"status": r["status"], "files": {k: len(v) for k, v in files.items()}},
                  expected="an error (exception or non-zero exit) and no output file",
                  note="the configuration is not a JSON object of JSON objects")
    acc.case("accepted:shape", nontrivial=True, key=_jkey(job))
    return
  if files:
    acc.violation("C19.reject.noout", f"shape:{case['what']}", case, observed=sorted(files), expected="no output file")
  acc.case(f"rejected:shape:{r['detail'].split(':')[0].split('(')[0]}", nontrivial=True, key=_jkey(job))


def fam_reject_shape():
  table = _reject_shape_table()

  def decode(i):
    kind, text, cfg, inp, out, fl, dl = table[i]
    job = mk_job(inp, out, filters=fl)
    if text is not None:
      job["config_text" if dl == "inline" else "config_file_text"] = text
      what = f"{kind}:{text[:12]}"
    else:
      job["config"] = copy.deepcopy(cfg)
      mod = next(iter(cfg))
      what = f"section:{mod}:{_json_type(cfg[mod])}"
    return {"job": job, "what": what}
  return Family("reject-shape", len(table), decode, check_reject_shape, timeout=30,
                note="configuration text that is not JSON / not an object; module sections that are not objects")


# ---------------------------------------------------------------------------------------------------
# sub-process driver (histories, hash seeds): an untouched interpreter runs a list of jobs and reports

_STRIP_ADDR = re.compile(r" at 0x[0-9a-fA-F]+")


def _stable(o, depth=0):
  """address-free, order-stable description of a value"""
  if depth > 6:
    return "<deep>"
  if isinstance(o, dict):
    return "{" + ",".join(sorted(f"{_stable(k, depth + 1)}:{_stable(v, depth + 1)}" for k, v in list(o.items()))) + "}"
  if isinstance(o, (set, frozenset)):
    return "set(" + ",".join(sorted(_stable(v, depth + 1) for v in list(o))) + ")"
  if isinstance(o, (list, tuple)):
    return type(o).__name__ + "(" + ",".join(_stable(v, depth + 1) for v in o) + ")"
  if isinstance(o, (str, bytes, int, float, bool)) or o is None:
    return repr(o)
  if isinstance(o, type):
    return f"<class {o.__module__}.{o.__qualname__}>"
  d = getattr(o, "__dict__", None)
  if d is not None and not callable(o) and depth < 4 and type(o).__module__.startswith("ttconv"):
    return f"<{type(o).__qualname__} " + _stable({k: v for k, v in d.items()}, depth + 1) + ">"
  return _STRIP_ADDR.sub("", repr(o))[:200]


def _digest_attr(items, name, v, mname, in_class):
  import types
  if isinstance(v, types.ModuleType):
    return
  f = getattr(v, "__func__", v)
  if isinstance(f, (types.FunctionType, types.BuiltinFunctionType, types.MethodType, property)) or hasattr(f, "cache_info"):
    if hasattr(f, "cache_info"):
      items.append((name + ".cache", f.cache_info().currsize))
    for dn in ("__defaults__", "__kwdefaults__"):
      d = getattr(f, dn, None)
      if d:
        items.append((name + "." + dn, h64(_stable(d))))
    return
  if isinstance(v, type):
    if v.__module__ == mname and not in_class:
      for cn, cv in sorted(vars(v).items()):
        if not cn.startswith("__"):
          _digest_attr(items, f"{name}.{cn}", cv, mname, True)
    return
  items.append((name, h64(_stable(v))))


def generic_digest():
  """digest of every module-level and class-level attribute value (containers, instances, scalars), functools cache
  sizes and function default values of the loaded ttconv modules: where a conversion could leave something behind"""
  items = []
  for mname in sorted(sys.modules):
    if not (mname == "ttconv" or mname.startswith("ttconv.")):
      continue
    mod = sys.modules[mname]
    if mod is None:
      continue
    for an, av in sorted(vars(mod).items()):
      if an.startswith("__"):
        continue
      _digest_attr(items, f"{mname}.{an}", av, mname, False)
  return items


def global_fp():
  """fingerprint of the process-global state that ttconv is known to touch + the generic digest"""
  import xml.etree.ElementTree as et
  import ttconv.tt as tt
  from ttconv.filters.document_filter import DocumentFilter
  from ttconv.srt.writer import SrtContext
  lg = logging.getLogger("ttconv")
  levels = sorted((n, l.level) for n, l in logging.Logger.manager.loggerDict.items()
                  if (n == "ttconv" or n.startswith("ttconv.")) and isinstance(l, logging.Logger) and l.level)
  gd = generic_digest()
  return {
    "ns": sorted(et._namespace_map.items()),  # pylint: disable=protected-access
    "logger": [lg.level, lg.propagate, lg.disabled, [f"{type(h).__name__}:{h.level}" for h in lg.handlers]],
    "levels": levels,
    "progress": [repr(tt.progress.display_progress_bar), repr(tt.progress.is_writing_progress_bar)],
    "filters": sorted((k, v.__qualname__) for k, v in DocumentFilter._all_filters.items()),  # pylint: disable=protected-access
    "srt_filters": h64(_stable(SrtContext.filters)),
    "modules": len([m for m in sys.modules if m.startswith("ttconv")]),
    "generic": h64(gd),
    "generic_items": len(gd),
  }


def _driver_main():
  """python -c 'import mc.props.c19 as m; m._driver_main()' <payload.json> <result.json>  (stdout/stderr untouched)"""
  with open(sys.argv[1], encoding="utf-8") as f:
    payload = jdec(json.load(f))
  import ttconv.tt as tt
  results = []
  root = tempfile.mkdtemp(prefix="c19-drv-", dir=payload["tmp"])
  try:
    for k, job in enumerate(payload["jobs"]):
      jr = os.path.join(root, f"j{k}")
      os.mkdir(jr)
      argv, outd, in_path = materialise(job, jr, cfg_path=os.path.join(root, "cfg.json"))
      if payload.get("mode") == "ref":
        st, val = ref_convert(job, in_path)
        results.append({"status": st, "value": val})
        shutil.rmtree(jr, ignore_errors=True)
        continue
      try:
        tt.main(argv)
        status, detail = "ok", ""
      except SystemExit as e:
        status, detail = ("exit0", "") if e.code in (0, None) else ("error", f"SystemExit({e.code!r})"[:200])
      except Exception as e:  # pylint: disable=broad-except
        status, detail = "error", f"{type(e).__name__}: {e}"[:200]
      results.append({"status": status, "detail": detail.replace(jr, "<tmp>"), "files": _read_outdir(outd)})
      shutil.rmtree(jr, ignore_errors=True)
    out = {"results": results, "fp": global_fp()}
  finally:
    shutil.rmtree(root, ignore_errors=True)
  with open(sys.argv[2], "w", encoding="utf-8") as f:
    json.dump(jenc(out), f)


def run_driver(jobs, hashseed=0, timeout=120, mode="tt"):
  """Runs `jobs` one after the other in ONE fresh interpreter of the explored tree (mode "tt": ttconv.tt.main;
  mode "ref": the reference composition, used by the gates)."""
  tmp = tempfile.mkdtemp(prefix="c19-sub-")
  try:
    pin = os.path.join(tmp, "payload.json")
    pout = os.path.join(tmp, "result.json")
    with open(pin, "w", encoding="utf-8") as f:
      json.dump(jenc({"jobs": jobs, "tmp": tmp, "mode": mode}), f)
    e = dict(os.environ)
    e["PYTHONPATH"] = env.SRC + os.pathsep + env.VERIF
    e["PYTHONHASHSEED"] = str(hashseed)
    e["PYTHONDONTWRITEBYTECODE"] = "1"
    e["TTCONV_REPO"] = env.REPO
    cp = subprocess.run([sys.executable, "-B", "-c", "import mc.props.c19 as m; m._driver_main()", pin, pout],
                        env=e, stdin=subprocess.DEVNULL, stdout=subprocess.PIPE, stderr=subprocess.PIPE, timeout=timeout,
                        cwd=tmp, check=False)
    if cp.returncode != 0 or not os.path.exists(pout):
      raise HarnessError(f"driver failed (exit {cp.returncode}): {cp.stderr.decode('utf-8', 'replace')[-1500:]}")
    with open(pout, encoding="utf-8") as f:
      return jdec(json.load(f))
  finally:
    shutil.rmtree(tmp, ignore_errors=True)


def _parallel(job_lists, threads=3):
  """run_driver on several job lists, a few sub-processes at a time; results in order"""
  from concurrent.futures import ThreadPoolExecutor
  with ThreadPoolExecutor(max_workers=threads) as ex:
    return list(ex.map(run_driver, job_lists))


def _result_sig(res):
  """what must be equal between two runs of the same job: status class and the files written"""
  return [res["status"], sorted((k, v) for k, v in res["files"].items())]


# ---------------------------------------------------------------------------------------------------
# (c) histories

MENU = {
  # plain conversions that touch different global state
  "ttml2ttml": mk_job("ttml:rich", "ttml"),
  "scc2srt-quiet": mk_job("scc:pop-on", "srt", config={"general": {"log_level": "ERROR", "progress_bar": False}}),
  "ttml2ttml-lcd": mk_job("ttml:rich", "ttml", filters=["lcd"],
                          config={"lcd": {"safe_area": 5, "color": "yellow", "bg_color": "black"}, "general": {"document_lang": "es-419"}}),
  "stl2vtt-pos": mk_job("stl:bg", "vtt", config={"vtt_writer": {"line_position": True, "text_align": True, "cue_id": False},
                                                 "general": {"log_level": "WARN"}}),
  "srt2ttml-frames": mk_job("srt:own", "ttml", config_file={"imsc_writer": {"time_format": "frames", "fps": "30000/1001"},
                                                             "general": {"document_lang": "fr", "progress_bar": True, "log_level": "INFO"}}),
  "vtt2srt-plain": mk_job("vtt:own", "srt", filters=["lcd"], config={"srt_writer": {"text_formatting": False}}),
  "scc2ttml-right": mk_job("scc:paint-on", "ttml", config={"scc_reader": {"text_align": "right"}}),
  # failing jobs: one fails after the log level / progress flag were changed, one in the middle of the pipeline
  "fail-otype": mk_job("ttml:rich", "ttml", otype="scc", config={"general": {"log_level": "WARN", "progress_bar": False}}),
  "fail-lcd-color": mk_job("stl:tcp", "ttml", filters=["lcd"], config={"lcd": {"color": "#GGGGGG"}}),
}
MENU_IDS = list(MENU)

_REF = {}


def fresh_ref(jid):
  if jid not in _REF:
    res = run_driver([MENU[jid]])
    _REF[jid] = res
  return _REF[jid]


def _fp_key(fp):
  return json.dumps(jenc(fp), sort_keys=True)


def make_expand(depth, merged):
  def expand(hist, acc):
    if len(hist) >= depth:
      return []
    succ = []
    # the successors are independent fresh interpreters: start a few at a time
    runs = _parallel([[MENU[j] for j in list(hist) + [jid]] for jid in MENU_IDS])
    for jid, res in zip(MENU_IDS, runs):
      h2 = list(hist) + [jid]
      for pos, (j, r) in enumerate(zip(h2, res["results"])):
        want = fresh_ref(j)["results"][0]
        if _result_sig(r) != _result_sig(want):
          got_b = next(iter(r["files"].values()), b"")
          want_b = next(iter(want["files"].values()), b"")
          acc.violation("C19.history", f"job={j}", {"history": h2[:pos], "then": j},
                        observed={"status": r["status"], "detail": r["detail"], "diff": _first_diff(got_b, want_b)},
                        expected={"status": want["status"], "files": {k: len(v) for k, v in want["files"].items()}},
                        note=f"job {j} run after {h2[:pos]} differs from the same job run first in a fresh process")
      last = res["results"][-1]
      changed = _fp_key(res["fp"]) != _fp_key(fresh_ref("__pristine__")["fp"]) if "__pristine__" in _REF else True
      acc.case(f"{last['status']}{'-state-changed' if changed else '-state-pristine'}",
               nontrivial=bool(hist) and bool(last["files"]), key=("hist", tuple(h2)))
      succ.append((jid, _fp_key(res["fp"]) if merged else ("history", tuple(h2))))
    return succ
  return expand


def shrink_history(case):
  h = list(case["history"])
  for i in range(len(h)):
    yield {"history": h[:i] + h[i + 1:], "then": case.get("then")}


def fam_histories(depth, merged):
  def canon0(h):
    if merged:
      return _fp_key(_REF["__pristine__"]["fp"]) if not h else ("init", repr(h))
    return ("history", tuple(h))
  if merged:
    return StateFamily("histories", [[]], make_expand(depth, True), depth, canon0=canon0, timeout=900, shrink=shrink_history,
                       note=f"sequences of <= {depth} jobs from a menu of {len(MENU_IDS)}, each history in its own fresh "
                            "interpreter; two histories merge only if the process-global state fingerprint agrees")
  return StateFamily("histories-all", [[]], make_expand(depth, False), depth, canon0=canon0, timeout=900, shrink=shrink_history,
                     note=f"ALL sequences of <= {depth} jobs from the menu of {len(MENU_IDS)} (no merging), each in its own "
                          "fresh interpreter")


# ---------------------------------------------------------------------------------------------------
# (c') pairs of configurations in one interpreter: a job must not depend on what an earlier job's configuration was

_FRESH = {}


def _fresh_result(job):
  k = _jkey(job)
  if k not in _FRESH:
    _FRESH[k] = run_driver([job])["results"][0]
  return _FRESH[k]


def _aliases(v):
  """values that compare equal to `v` in Python but are of another JSON type (True == 1 == 1.0, 10 == 10.0): a cache
  keyed by the value confuses them"""
  out = []
  if isinstance(v, bool):
    out += [int(v), float(v)]
  elif isinstance(v, int):
    out += [float(v)] + ([bool(v)] if v in (0, 1) else [])
  return out


def _pair_table(thorough):
  table = []
  for (mod, key), valid in VALID.items():
    inp, out, fl = pipelines_for(mod)[0]
    invalid = [v for _k, v in INVALID[(mod, key)]]
    pairs = []
    for v in valid:
      for a in _aliases(v):
        pairs += [(v, a), (a, v)]
    for i in (invalid if thorough else invalid[:3]):
      pairs.append((valid[0], i))
      if thorough:
        pairs += [(v, i) for v in valid[1:]] + [(i, valid[0])]
    for v2 in valid[1:2]:
      pairs += [(valid[0], v2), (v2, valid[0])]
    seen = set()
    for a, b in pairs:
      kk = json.dumps([jenc(a), jenc(b)], sort_keys=True)
      if kk not in seen:
        seen.add(kk)
        table.append((mod, key, a, b, inp, out, fl))
  return table


def check_config_pair(case, acc):
  a, b = case["first"], case["second"]
  both = run_driver([a, b])["results"]
  for pos, (job, got) in enumerate(zip((a, b), both)):
    want = _fresh_result(job)
    if _result_sig(got) != _result_sig(want):
      got_b = next(iter(got["files"].values()), b"")
      want_b = next(iter(want["files"].values()), b"")
      acc.violation("C19.history", f"config-pair:{case['module']}.{case['key']},job={pos + 1}", case,
                    observed={"status": got["status"], "detail": got["detail"], "diff": _first_diff(got_b, want_b)},
                    expected={"status": want["status"], "files": {k: len(v) for k, v in want["files"].items()}},
                    note=f"job {pos + 1} of the pair ({case['module']}.{case['key']} = {case['values'][0]!r} then {case['values'][1]!r}) "
                         "differs from the same job run alone in a fresh process")
  acc.case(f"{both[0]['status']}-then-{both[1]['status']}", nontrivial=True, key=("pair", _jkey(a), _jkey(b)))


def fam_config_pairs(thorough):
  table = _pair_table(thorough)

  def decode(i):
    mod, key, a, b, inp, out, fl = table[i]
    how = "config_file" if i % 2 else "config"   # every other pair passes both values through one, rewritten, configuration file
    return {"first": mk_job(inp, out, filters=fl, **{how: {mod: {key: copy.deepcopy(a)}}}),
            "second": mk_job(inp, out, filters=fl, **{how: {mod: {key: copy.deepcopy(b)}}}),
            "module": mod, "key": key, "values": [copy.deepcopy(a), copy.deepcopy(b)]}
  return Family("config-pairs", len(table), decode, check_config_pair, timeout=300, chunk=2,
                note="two jobs in one fresh interpreter that differ in one configuration value: every documented key x {a valid value "
                     "and a value that is equal to it in Python but of another JSON type (True/1/1.0, 10/10.0), both orders; a valid value "
                     "then an invalid one" + (" (all pairs, both orders)" if thorough else " (first valid x first 3 invalid)") +
                     "; two valid values, both orders}: each job must behave as when run alone in a fresh process")


# ---------------------------------------------------------------------------------------------------
# (d) hash seeds

SEEDS = [0, 1, 2, 3]


def _hs_jobs():
  jobs = []
  for inp in ONE_PER_TYPE:
    for out in OUT_TYPES:
      jobs.append(mk_job(inp, out))
      jobs.append(mk_job(inp, out, filters=["lcd"], config=copy.deepcopy(RICH)))
  return jobs


HS_JOBS = _hs_jobs()


def check_hashseed(case, acc):
  job = case["job"]
  runs = {s: run_driver([job], hashseed=s)["results"][0] for s in SEEDS}
  base = runs[SEEDS[0]]
  for s in SEEDS[1:]:
    if _result_sig(runs[s]) != _result_sig(base):
      a = next(iter(runs[s]["files"].values()), b"")
      b = next(iter(base["files"].values()), b"")
      acc.violation("C19.hashseed", f"{_pair(job)},filters={'+'.join(job['filters']) or '-'}", dict(case, seed=s),
                    observed={"status": runs[s]["status"], "diff": _first_diff(a, b)},
                    expected=f"the bytes written under PYTHONHASHSEED={SEEDS[0]}",
                    note=f"output under PYTHONHASHSEED={s} differs")
  acc.case(f"{base['status']}-seeds-agree" if all(_result_sig(runs[s]) == _result_sig(base) for s in SEEDS) else "seeds-differ",
           nontrivial=bool(base["files"]) and any(v.strip() for v in base["files"].values()), key=("hs", _jkey(job)))


def fam_hashseed():
  return Family("hash-seeds", len(HS_JOBS), lambda i: {"job": copy.deepcopy(HS_JOBS[i])}, check_hashseed, timeout=300, chunk=1,
                note="every input type x output type, plain and with lcd + configuration, in fresh interpreters under PYTHONHASHSEED 0..3")


# ---------------------------------------------------------------------------------------------------
# gates: hand-written expectations bind the reference composition before it is believed

def _ref_of(job):
  root = tempfile.mkdtemp(prefix="c19-")
  try:
    _argv, _outd, in_path = materialise(job, root)
    with quiet_tt():
      return ref_convert(job, in_path)
  finally:
    shutil.rmtree(root, ignore_errors=True)


def gates():
  """Hand-written expectations and the repository's own pinned command lines (test_tt.py), replayed through the
  reference composition -- each in its own fresh interpreter, so that a history dependence of the explored tree shows
  up as a C19.history violation and not as a failed gate."""
  ex = []

  def need(job, pred, what):
    ex.append((job, pred, what))

  def txt(b):
    return b.decode("utf-8") if isinstance(b, bytes) else ""

  need(mk_job("srt:own", "srt"),
       lambda st, b: st == "ok" and txt(b).startswith("1\n00:00:01,000 --> 00:00:02,500\n<b>") and "<i>" in txt(b)
       and "\n\n2\n00:00:03,000 --> 00:00:04,000\nSecond <font color=" in txt(b), "srt->srt on the hand-written input")
  need(mk_job("srt:own", "srt", config={"srt_writer": {"text_formatting": False}}),
       lambda st, b: st == "ok" and txt(b) == "1\n00:00:01,000 --> 00:00:02,500\nHello world\n\n2\n00:00:03,000 --> 00:00:04,000\nSecond green\nline two\n",
       "text_formatting=false removes the tags")
  need(mk_job("vtt:own", "vtt", config={"vtt_writer": {"cue_id": False}}),
       lambda st, b: st == "ok" and txt(b).startswith("WEBVTT\n") and "\n\n00:00:01.000 --> 00:00:02.000\n" in txt(b)
       and "\n1\n00:00:01.000" not in txt(b), "cue_id=false")
  need(mk_job("vtt:own", "vtt"),
       lambda st, b: st == "ok" and txt(b).startswith("WEBVTT\n") and "\n\n1\n00:00:01.000 --> 00:00:02.000\n" in txt(b),
       "cue identifiers by default")
  need(mk_job("ttml:body_only", "ttml", config={"general": {"document_lang": "es-419"}}),
       lambda st, b: st == "ok" and b'xml:lang="es-419"' in b and b'xml:lang="en"' not in b, "document_lang overrides the language")
  need(mk_job("ttml:body_only", "ttml"),
       lambda st, b: st == "ok" and b'xml:lang="en"' in b and b.startswith(b"<tt "), "plain ttml->ttml keeps xml:lang=en")
  need(mk_job("ttml:rich", "ttml", filters=["lcd"], config={"lcd": {"safe_area": 5}}),
       lambda st, b: st == "ok" and b'tts:origin="5% 5%"' in b and b'tts:extent="90% 90%"' in b, "lcd safe_area=5 repositions regions to 5%/90%")
  need(mk_job("ttml:rich", "ttml", config={"lcd": {"safe_area": 5}}),
       lambda st, b: st == "ok" and b'tts:origin="10% 10%"' in b, "an lcd section without --filter lcd has no effect")
  need(mk_job("ttml:rich", "ttml", config={"imsc_writer": {"fps": "25/1"}}),
       lambda st, b: st == "ok" and b'begin="25f"' in b and b'ttp:frameRate="25"' in b, "fps alone selects frames")
  need(mk_job("ttml:rich", "ttml", config={"imsc_writer": {"time_format": "frames"}}),
       lambda st, b: st == "error", "frames without fps is an error of the composition")
  need(mk_job("ttml:rich", "ttml", config_file={"general": {"document_lang": "de"}}, config={"general": {"document_lang": "it"}}),
       lambda st, b: st == "ok" and b'xml:lang="de"' in b and b'xml:lang="it"' not in b, "the configuration file wins over --config")
  need(mk_job("scc:pop-on", "ttml", in_name="in.TTML", itype="SCC", out_name="x.srt", otype="Ttml"),
       lambda st, b: st == "ok" and b.startswith(b"<tt ") and b"<p " in b, "--itype/--otype win over extensions, any case")
  need(mk_job("scc:pop-on", "ttml", in_name="in.Scc", out_name="o.TTML"),
       lambda st, b: st == "ok" and b.startswith(b"<tt ") and b"<p " in b, "extensions are matched case-insensitively")
  need(mk_job("ttml:rich", "srt", filters=["c19a", "c19b"], config={"srt_writer": {"text_formatting": False}}),
       lambda st, b: st == "ok" and txt(b).startswith("1\n00:00:01,000 --> 00:00:02,000\nBold+a+b and red italic\n"), "filters run in the order named (a, b)")
  need(mk_job("ttml:rich", "srt", filters=["c19b", "c19a", "c19a"], config={"srt_writer": {"text_formatting": False}, "c19a": {"suffix": "X"}}),
       lambda st, b: st == "ok" and txt(b).startswith("1\n00:00:01,000 --> 00:00:02,000\nBold+b+X+X and red italic\n"),
       "a filter named twice runs twice, with its own configuration section")
  need(mk_job("ttml:rich", "ttml", filters=["lcd", "c19a"]),
       lambda st, b: st == "ok" and b'<body end="00:00:06.000" tts:textAlign="end">' in b, "lcd then probe: the probe's textAlign=end stays on the body")
  need(mk_job("ttml:rich", "ttml", filters=["c19a", "lcd"]),
       lambda st, b: st == "ok" and b'<body end="00:00:06.000" tts:textAlign="center">' in b, "probe then lcd: lcd centres the body")
  for bad in (dict(otype="scc"), dict(in_name="in.txt"), dict(sub="covert"), dict(out_name="out")):
    need(mk_job("ttml:rich", "ttml", **bad), lambda st, b: st == "error" and str(b).startswith("Rejected"), f"reference rejects {bad}")
  # the repository's own pinned expectations (test_tt.py): these command lines do not raise, or raise as pinned
  for argv_job, ok in [(mk_job("ttml:body_only", "ttml", itype="TTML"), True), (mk_job("ttml:body_only", "ttml", otype="TTML"), True),
                       (mk_job("ttml:body_only", "ttml", itype="scc"), True),
                       (mk_job("ttml:body_only", "ttml", in_name="body_only.not_ttml"), False),
                       (mk_job("ttml:body_only", "ttml", otype="not_ttml", out_name="o.not_ttml"), False)]:
    need(argv_job, (lambda st, b, ok=ok: (st == "ok") == ok), f"test_tt.py expectation replayed through the reference ({'ok' if ok else 'raises'})")
  from concurrent.futures import ThreadPoolExecutor
  with ThreadPoolExecutor(max_workers=6) as pool:
    res = list(pool.map(lambda e: run_driver([e[0]], mode="ref")["results"][0], ex))
  for (job, pred, what), r in zip(ex, res):
    if not pred(r["status"], r["value"]):
      raise HarnessError(f"C19 reference composition gate failed: {what}: {job} -> {r['status']} {r['value']!r:.300}")
  return {"hand_examples": len(ex)}


# ---------------------------------------------------------------------------------------------------

def plan(tier, seed):
  depth = 2 if tier == "quick" else 3     # all sequences up to this length; the merged search goes one job deeper
  # fresh-process references are computed once here (before the workers fork) and inherited by them
  todo = [j for j in ["__pristine__"] + MENU_IDS if j not in _REF]
  for j, res in zip(todo, _parallel([[] if j == "__pristine__" else [MENU[j]] for j in todo], threads=5)):
    _REF[j] = res
  return [
    fam_histories(depth, False),
    fam_histories(depth + 1, True),
    fam_hashseed(),
    fam_config_pairs(tier != "quick"),
    fam_equiv_config(CONFIG_INPUTS),
    fam_equiv_options(ONE_PER_TYPE),
    fam_equiv_filters(ONE_PER_TYPE),
    fam_reject_config(),
    fam_reject_type(),
    fam_reject_shape(),
  ]

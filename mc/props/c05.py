"""C05 — writing a document as IMSC and reading it back presents identically (DESIGN.md 3, C05).

Round trip on the real writer and reader: build(spec) -> imsc.writer.from_model(doc, config) -> bytes -> ElementTree
-> imsc.reader.to_model.  Oracle clauses: writer.raises, parse, reread.error-log, params.*, shape, time.exact,
time.moved, time.order, snapshot.
"""
from __future__ import annotations

import copy
import io
import logging
import math
import xml.etree.ElementTree as et
from fractions import Fraction as F

from mc import env  # noqa
from mc.kernel import Family, exc_disc
from mc import docgen, stylegen
from mc.docgen import Product
from mc.spec import build, fp_isd, fp_doc_params, node, text, doc_spec, KIND_OF, walk, E, L
from mc.ref_isd import probe_times
from mc.props import c01

import ttconv.model as model
from ttconv.isd import ISD
import ttconv.imsc.writer as imsc_writer
import ttconv.imsc.reader as imsc_reader
from ttconv.imsc.config import IMSCWriterConfiguration
from ttconv.imsc.attributes import TimeExpressionSyntaxEnum

ID = "C05"
LEVEL = "exploration"
RULE = ("cases are (document spec, writer configuration) pairs, complete mixed-radix families; non-trivial when the writer "
        "accepted the configuration and the document has content in some snapshot; distinct by family index")
BOUNDS = {
  "quick": "style grid (36 properties x all menu values x {region,body,div,p,span,initial,animated}) x 4 configurations; "
           "element kinds (ruby patterns, br, nested div/span, xml:space/lang) x 4 configurations; time grid: begin/end/"
           "animation offsets over {k ms, k frames, between} x {none, clock_time, frames, clock_time_with_frames} x "
           "{24,25,30,50,60,24000/1001,30000/1001}; document parameters",
  "thorough": "the style grid under all 29 writer configurations (every syntax x every frame rate); the rest as quick",
}
ASSUMPTIONS = [
  "numbers are compared with relative tolerance 1e-5 (the writer prints 6 significant digits)",
  "pixel resolution is only compared when a px length occurs in the document (as the statement says)",
  "configurations the writer rejects with its documented ValueError (frame syntaxes without fps, HH:MM:SS:FF with a "
  "non-integer fps) are counted as rejected, not as failures",
]

FPS = [F(24), F(25), F(30), F(50), F(60), F(24000, 1001), F(30000, 1001)]
SYNTAX = [None, "clock_time", "frames", "clock_time_with_frames"]


def mkconfig(c):
  if c is None:
    return None
  syn, fps = c
  return IMSCWriterConfiguration(time_format=None if syn is None else TimeExpressionSyntaxEnum[syn],
                                 fps=None if fps is None else F(fps[0], fps[1]))


def config_unit(c):
  """(syntax actually used, unit in seconds) per imsc/writer.py documentation"""
  if c is None:
    return "clock_time", F(1, 1000)
  syn, fps = c
  fr = None if fps is None else F(fps[0], fps[1])
  if syn is None:
    syn = "frames" if fr is not None else "clock_time"
  if syn == "clock_time" or fr is None:
    return "clock_time", F(1, 1000)
  return syn, 1 / fr


class _Cap(logging.Handler):
  def __init__(self):
    super().__init__(logging.DEBUG)
    self.records = []

  def emit(self, record):
    if record.levelno >= logging.ERROR:
      self.records.append(f"{record.name}: {record.getMessage()}"[:160])


_GENERIC_DEFAULT = ("E", "GenericFontFamilyType", "default")
_GENERIC_MONOSERIF = ("E", "GenericFontFamilyType", "monospaceSerif")


_NO_SHADOW = ("S", "none")        # mc.spec.enc_val(SpecialValues.none)


def approx_same(a, b, rel=1e-5):
  if isinstance(a, tuple) and isinstance(b, tuple):
    # IMSC 1.1: the generic family 'default' is monospaceSerif; the reader maps it on purpose
    if a == _GENERIC_DEFAULT:
      a = _GENERIC_MONOSERIF
    if b == _GENERIC_DEFAULT:
      b = _GENERIC_MONOSERIF
    # a list of no text shadows is no shadow: TTML writes both as "none"
    if a == ("ts", ()):
      a = _NO_SHADOW
    if b == ("ts", ()):
      b = _NO_SHADOW
    return len(a) == len(b) and all(approx_same(x, y, rel) for x, y in zip(a, b))
  if isinstance(a, bool) or isinstance(b, bool) or a is None or b is None or isinstance(a, str) or isinstance(b, str):
    return a == b
  try:
    x, y = float(a), float(b)
  except (TypeError, ValueError):
    return a == b
  return abs(x - y) <= rel * max(1.0, abs(x), abs(y))


def shape(e):
  """(kind, None, children) with adjacent text nodes merged and containers without any text/br leaf dropped: the reader
  legitimately prunes empty containers and cannot tell adjacent text nodes apart (no presentation effect)"""
  if isinstance(e, model.Text):
    return ("text", e.get_text())
  kids = []
  for c in e:
    s = shape(c)
    if s is None:
      continue
    if s[0] == "text" and kids and kids[-1][0] == "text":
      kids[-1] = ("text", kids[-1][1] + s[1])
    elif s[0] == "text" and s[1] == "":
      continue
    else:
      kids.append(s)
  kind = "region" if isinstance(e, model.Region) else KIND_OF.get(type(e))
  if not kids and kind not in ("br", "region", "body"):
    return None
  if kind not in ("br", "region", "body") and e.get_end() is not None and e.get_end() <= (e.get_begin() or 0):
    return None      # never active: the reader legitimately prunes elements without temporal extent
  # xml:id of content elements is written but not read back (the reader keeps ids of regions only)
  return (kind, None, tuple(kids))


def doc_shape(doc):
  return (tuple(sorted(r.get_id() for r in doc.iter_regions())), None if doc.get_body() is None else shape(doc.get_body()))


def _has_px(spec):
  def vals():
    for r in spec.get("regions") or []:
      yield from (r.get("st") or {}).values()
      yield from (a[3] for a in r.get("an") or [])
    if spec.get("body"):
      for n, _ in walk(spec["body"]):
        yield from (n.get("st") or {}).values()
        yield from (a[3] for a in n.get("an") or [])

  def px(v):
    if isinstance(v, (list, tuple)):
      if v and v[0] == "L":
        return v[2] == "px"
      return any(px(x) for x in v)
    return False
  return any(px(v) for v in vals())


def _all_representable(doc, unit):
  els = list(doc.iter_regions())
  if doc.get_body() is not None:
    els += list(doc.get_body().dfs_iterator())
  for e in els:
    ts = [e.get_begin(), e.get_end()] + [x for a in e.iter_animation_steps() for x in (a.begin, a.end)]
    for t in ts:
      if t is not None and (F(t) / unit).denominator != 1:
        return False
  return True


def _timed_pairs(src, dst):
  """parallel walk of two isomorphic documents -> list of (source offset, re-read offset, label)"""
  out = []

  def pair(a, b, label):
    out.append((a.get_begin(), b.get_begin(), label + ".begin"))
    out.append((a.get_end(), b.get_end(), label + ".end"))
    sa, sb = list(a.iter_animation_steps()), list(b.iter_animation_steps())
    if len(sa) == len(sb):
      for i, (x, y) in enumerate(zip(sa, sb)):
        out.append((x.begin, y.begin, f"{label}.set{i}.begin"))
        out.append((x.end, y.end, f"{label}.set{i}.end"))
    else:
      from mc.spec import PROP_NAME
      lost = sorted({PROP_NAME[x.style_property] for x in sa} - {PROP_NAME[y.style_property] for y in sb}) or ["same-props"]
      out.append(("animation-count", len(sa), len(sb), "+".join(lost)))
    if not isinstance(a, model.Region):
      ca, cb = [c for c in a if not isinstance(c, (model.Text, model.Br))], [c for c in b if not isinstance(c, (model.Text, model.Br))]
      for x, y in zip(ca, cb):
        pair(x, y, f"{label}/{KIND_OF.get(type(x))}")
  for r in src.iter_regions():
    r2 = dst.get_region(r.get_id())
    if r2 is not None:
      pair(r, r2, f"region[{r.get_id()}]")
  if src.get_body() is not None and dst.get_body() is not None:
    pair(src.get_body(), dst.get_body(), "body")
  return out


TTML = "{http://www.w3.org/ns/ttml}"


def _xml_accounting(doc, tree, acc, cc):
  """the writer never drops a model element: element counts per kind, animation steps, initial values and the text
  in document order are compared between the model and the XML it was serialised to"""
  from collections import Counter
  want = Counter()
  texts = []
  elems = list(doc.iter_regions())
  if doc.get_body() is not None:
    elems += list(doc.get_body().dfs_iterator())
  for e in elems:
    if isinstance(e, model.Text):
      texts.append(e.get_text())
      continue
    want["region" if isinstance(e, model.Region) else KIND_OF[type(e)]] += 1
    want["set"] += len(list(e.iter_animation_steps()))
  want["initial"] = len(list(doc.iter_initial_values()))
  got = Counter()
  root = tree.getroot()
  ruby_map = {"container": "ruby", "base": "rb", "text": "rt", "delimiter": "rp", "baseContainer": "rbc", "textContainer": "rtc"}
  for x in root.iter():
    tag = x.tag.replace(TTML, "")
    if tag == "span":
      rb = x.get("{http://www.w3.org/ns/ttml#styling}ruby")
      tag = ruby_map.get(rb, "span")
    if tag in ("body", "div", "p", "span", "br", "region", "set", "initial", "ruby", "rb", "rt", "rp", "rbc", "rtc"):
      got[tag] += 1
  for k in sorted(set(want) | set(got)):
    if want[k] != got[k]:
      acc.violation("C05.writer.drops-element", f"kind={k}", cc, observed=got[k], expected=want[k], note=f"{k}: model has {want[k]}, XML has {got[k]}")
  body = root.find(TTML + "body")
  xt = "".join(body.itertext()) if body is not None else ""
  if xt != "".join(texts):
    acc.violation("C05.writer.text", "adjacent-text-nodes" if len(texts) > 1 else "text", cc, observed=xt, expected="".join(texts),
                  note="text of the model in document order vs text content of the written body")


def check_rt(case, acc):
  spec, c = case["spec"], case.get("config")
  c = None if c is None else (c[0], None if c[1] is None else tuple(c[1]))
  try:
    doc = build(spec)
  except Exception:  # pylint: disable=broad-except
    acc.case("invalid-spec")
    return
  syn, unit = config_unit(c)
  cfgs = f"{'default' if c is None else (c[0] or 'unset')}@{'-' if c is None or c[1] is None else f'{c[1][0]}/{c[1][1]}'}"
  cc = {"spec": spec, "config": c}
  # --- write
  try:
    tree = imsc_writer.from_model(doc, mkconfig(c))
    buf = io.BytesIO()
    tree.write(buf, encoding="utf-8", xml_declaration=True)
    data = buf.getvalue()
  except ValueError as e:
    fr = None if c is None or c[1] is None else F(c[1][0], c[1][1])
    documented = c is not None and ((c[0] in ("frames", "clock_time_with_frames") and fr is None) or
                                    (c[0] == "clock_time_with_frames" and fr is not None and fr.denominator != 1))
    if documented:
      acc.case("config-rejected")
      return
    acc.violation("C05.writer.raises", exc_disc(e), cc, observed=repr(e)[:200], note="the writer failed on a value the model accepts")
    acc.case("writer-raises")
    return
  except Exception as e:  # pylint: disable=broad-except
    acc.violation("C05.writer.raises", exc_disc(e), cc, observed=repr(e)[:200], note="the writer failed on a value the model accepts")
    acc.case("writer-raises")
    return
  # --- parse + re-read
  try:
    tree2 = et.ElementTree(et.fromstring(data))
  except et.ParseError as e:
    acc.violation("C05.parse", "not-well-formed", cc, observed=str(e))
    acc.case("unparsable")
    return
  _xml_accounting(doc, tree2, acc, cc)
  cap = _Cap()
  lg = logging.getLogger("ttconv")
  lg.addHandler(cap)
  old = lg.level
  lg.setLevel(logging.DEBUG)
  try:
    doc2 = imsc_reader.to_model(tree2)
  finally:
    lg.removeHandler(cap)
    lg.setLevel(old)
  if doc2 is None:
    acc.violation("C05.reread.none", "reader-returned-none", cc, observed=cap.records[:3])
    acc.case("reread-none")
    return
  for m in sorted(set(cap.records)):
    acc.violation("C05.reread.error-log", "".join(ch for ch in m if not ch.isdigit())[:90], cc, observed=m,
                  note="the reader rejected an attribute value the writer emitted")
  # --- parameters
  a, b = fp_doc_params(doc), fp_doc_params(doc2)
  names = ["lang", "cell", "px", "active-area", "dar"]
  for i, nme in enumerate(names):
    if nme == "px" and not _has_px(spec):
      continue
    if not approx_same(a[i], b[i]):
      acc.violation(f"C05.params.{nme}", nme, cc, observed=b[i], expected=a[i])
  # --- shape (when a time is not representable an interval may legitimately round to nothing and be pruned)
  s1, s2 = doc_shape(doc), doc_shape(doc2)
  if s1 != s2 and not _all_representable(doc, unit):
    acc.case(f"roundtrip:{syn}:rounded-away", nontrivial=True, key=case.get("key") or repr(cc))
    return
  if s1 != s2:
    acc.violation("C05.shape", _shape_disc(s1, s2), cc, observed=s2, expected=s1, note="element tree differs after the round trip")
    acc.case("shape-differs")
    return
  # --- times
  representable = True
  pairs = _timed_pairs(doc, doc2)
  vals = []
  for p in pairs:
    if p[0] == "animation-count":
      acc.violation("C05.animation-count", f"lost={p[3]}", cc, observed=p[2], expected=p[1], note="animation steps lost in the round trip")
      continue
    src, dst, label = p
    if src is None:
      continue      # the reader materialises implicit ends / zero begins; the snapshot clause judges their meaning
    if dst is None:
      if label.endswith(".begin"):
        dst = F(0)    # an absent begin means 0
      else:
        acc.violation("C05.time.presence", f"syntax={syn},end-lost", cc, observed=dst, expected=src, note=label)
        continue
    vals.append((src, dst))
    if (F(src) / unit).denominator == 1:
      if dst != src:
        acc.violation("C05.time.exact", f"syntax={syn}", cc, observed=dst, expected=src, note=f"{label}: representable time not reproduced exactly ({cfgs})")
    else:
      representable = False
      if abs(F(dst) - F(src)) >= unit:
        acc.violation("C05.time.moved", f"syntax={syn}", cc, observed=dst, expected=src, note=f"{label}: moved by one unit or more ({cfgs})")
  for (a1, b1) in vals:
    for (a2, b2) in vals:
      if a1 <= a2 and not b1 <= b2:
        acc.violation("C05.time.order", f"syntax={syn}", cc, observed=[b1, b2], expected=[a1, a2], note="order of written times changed")
        break
  # --- snapshots
  content = False
  if representable:
    for t in probe_times(spec):
      try:
        i1 = ISD.from_model(doc, t)
      except ValueError as e:
        if "ruby" in str(e).lower():
          continue
        raise
      i2 = ISD.from_model(doc2, t)
      f1, f2 = _noid(fp_isd(i1)[1]), _noid(fp_isd(i2)[1])
      if f1:
        content = True
      if not approx_same(f1, f2):
        acc.violation("C05.snapshot", _snap_disc(f1, f2), dict(cc, t=t), observed=_first_diff(f1, f2), note=f"snapshots differ at t={t} ({cfgs})")
        break
  else:
    content = True
  acc.case(f"roundtrip:{syn}:{'exact' if representable else 'rounded'}", nontrivial=content, key=case.get("key") or repr(cc))


def _noid(fp):
  """drops the ids of content elements from an ISD fingerprint (region ids are kept)"""
  def el(e):
    kind = e[0]
    if kind == "text":
      return e
    kids = []
    for c in e[-1]:
      c = el(c)
      if c[0] == "text" and kids and kids[-1][0] == "text":
        kids[-1] = ("text", None, kids[-1][2] + c[2]) + tuple(c[3:])     # adjacent text nodes cannot be told apart in XML
      else:
        kids.append(c)
    return (kind, e[1] if kind == "region" else None) + tuple(e[2:-1]) + (tuple(kids),)
  return tuple(el(r) for r in fp)


def _shape_disc(s1, s2):
  if s1[0] != s2[0]:
    return "regions"
  def kinds(s, acc):
    if s is None:
      return acc
    if s[0] == "text":
      acc.append("text")
      return acc
    acc.append(s[0])
    for c in s[2]:
      kinds(c, acc)
    return acc
  k1, k2 = kinds(s1[1], []), kinds(s2[1], [])
  if k1 != k2:
    from collections import Counter
    d = Counter(k1) - Counter(k2)
    e = Counter(k2) - Counter(k1)
    return f"lost={'+'.join(sorted(d))},gained={'+'.join(sorted(e))}"
  return "ids-or-text"


def _first_diff(a, b, path=""):
  if isinstance(a, tuple) and isinstance(b, tuple):
    if len(a) != len(b):
      return {"path": path, "a": str(a)[:300], "b": str(b)[:300]}
    for i, (x, y) in enumerate(zip(a, b)):
      if not approx_same(x, y):
        return _first_diff(x, y, f"{path}/{i}")
  return {"path": path, "source": str(a)[:300], "reread": str(b)[:300]}


def _snap_disc(f1, f2):
  d = _first_diff(f1, f2)
  src = d.get("source", d.get("a", ""))
  # the property name is the first element of the (name, value) pair that contains the difference
  import re
  m = None
  def find(a, b):
    nonlocal m
    if isinstance(a, tuple) and isinstance(b, tuple) and len(a) == len(b):
      if len(a) == 2 and isinstance(a[0], str) and a[0][:1].isupper() and a[0] == b[0] and not approx_same(a[1], b[1]):
        m = a[0]
        return
      for x, y in zip(a, b):
        if not approx_same(x, y):
          find(x, y)
          return
  find(f1, f2)
  if m:
    return f"prop={m}"
  # fp_element layout: (kind, id, lang, space, timing, region, anims, styles, children)
  if d.get("path", "").endswith("/2") and isinstance(d.get("source"), str):
    return "element-lang"
  if d.get("path", "").endswith("/3") and isinstance(d.get("source"), str):
    return "element-space"
  return "structure"


# ---------------------------------------------------------------------------------------------------
# families

CONFIGS_SMALL = [None, ("clock_time", None), ("frames", (25, 1)), ("clock_time_with_frames", (30, 1))]
CONFIGS_ALL = [None] + [(s, None if f is None else (f.numerator, f.denominator)) for s in SYNTAX for f in [None] + FPS]


def fam_styles(configs=None):
  from mc.props import c13
  g = c13.fam_grid()
  prod = Product([range(g.n), configs or CONFIGS_SMALL])

  def dec(i):
    gi, c = prod.decode(i)
    return {"spec": g.decode(gi)["spec"], "config": c, "key": f"styles#{i}"}
  return Family("F-styles", prod.n, dec, check_rt, timeout=30, note="style grid x 4 configurations")


ODD_VALUES = [
  # values that the model accepts and that sit at the edge of what the IMSC syntax can express
  ("span", "TextDecoration", ["td", None, None, None]),                 # specifies none of the three decorations
  ("p", "FontFamily", ["ff", ["a\\b"]]), ("p", "FontFamily", ["ff", ["abc\\"]]), ("p", "FontFamily", ["ff", ['say "hi"']]),
  ("p", "FontFamily", ["ff", ["it's"]]), ("p", "FontFamily", ["ff", ["a,b", "c"]]), ("p", "FontFamily", ["ff", [" lead"]]),
  ("span", "Color", ["C", 0, 0, 0, 0]), ("region", "Opacity", 0.0), ("region", "Opacity", 0.5),
  # numbers that the g presentation type prints in exponent notation, which TTML does not have
  ("p", "FontSize", L(0.00001, "em")), ("p", "LineHeight", L(0.00002, "c")), ("region", "Origin", ["org", L(0.00001, "%"), L(5, "%")]),
  ("region", "Extent", ["ext", L(1234567, "px"), L(2000000, "px")]),
  ("p", "Shear", 0.00001), ("p", "Shear", -0.00002), ("p", "FontFamily", ["ff", [""]]), ("p", "FontFamily", ["ff", ["a", ""]]),
  ("init", "TextDecoration", ["td", None, None, None]), ("init", "Shear", 0.00001),
  ("span", "TextShadow", ["ts", []]), ("init", "TextShadow", ["ts", []]),      # a list of no shadows
]


def fam_odd_values():
  prod = Product([range(len(ODD_VALUES)), CONFIGS_SMALL[:2]])

  def dec(i):
    vi, c = prod.decode(i)
    where, prop, val = copy.deepcopy(ODD_VALUES[vi])
    spec = docgen.chain_doc({}, True)
    pnode = spec["body"]["c"][0]["c"][0]
    if where == "init":
      spec["init"] = [[prop, val]]
    else:
      tgt = {"region": spec["regions"][0], "p": pnode, "span": pnode["c"][0]}[where]
      tgt["st"] = {prop: val}
    return {"spec": spec, "config": c, "key": f"odd#{i}"}
  return Family("F-odd-values", prod.n, dec, check_rt, timeout=30, note="style values at the edge of what the IMSC syntax can express")


def fam_kinds():
  specs = []
  for pat in c01.RUBY_PATTERNS:
    rb = c01.ruby_node(pat, {})
    specs.append(doc_spec(node("body", [node("div", [node("p", [node("span", [text("x")], id="s0"), rb, {"k": "br", "id": "br9"}], id="p")], id="d")], id="b"), []))
  for t in docgen.all_trees(7):
    if docgen.has_leaf(t):
      import copy
      specs.append(doc_spec(copy.deepcopy(t), []))
  # xml:space / xml:lang variations on three levels
  for sp1 in (None, "preserve"):
    for sp2 in (None, "preserve", "default"):
      for lg1 in (None, "fr"):
        for lg2 in (None, "en-US", ""):
          s = docgen.chain_doc({}, True)
          s["lang"] = "en"
          s["body"]["sp"] = sp1
          s["body"]["c"][0]["c"][0]["sp"] = sp2
          # the model stores the RESOLVED language on every element (as a reader produces it)
          l_body = lg1 if lg1 is not None else "en"
          l_span = lg2 if lg2 is not None else l_body
          s["regions"][0]["lang"] = "en"
          s["body"]["lang"] = l_body
          s["body"]["c"][0]["lang"] = l_body
          s["body"]["c"][0]["c"][0]["lang"] = l_body
          s["body"]["c"][0]["c"][0]["c"][0]["lang"] = l_span
          # same for xml:space
          sp_body = sp1 or "default"
          sp_p = sp2 or sp_body
          s["body"]["c"][0]["sp"] = sp_body
          s["body"]["c"][0]["c"][0]["sp"] = sp_p
          s["body"]["c"][0]["c"][0]["c"][0]["sp"] = sp_p
          s["body"]["c"][0]["c"][0]["c"][0]["c"] = [text("  a  b \n c ")]
          specs.append(s)
  # xml:space of siblings (an attribute is written where the value differs from the parent's, whatever the sibling before has):
  # every assignment of default / preserve to three adjacent spans under a default and under a preserved paragraph, and a preserved
  # region followed by a preserved body
  for psp in ("default", "preserve"):
    for a in ("default", "preserve"):
      for b in ("default", "preserve"):
        for c3 in ("default", "preserve"):
          kids = [node("span", [text(f" {k}  {k} ")], id=f"s{j}", sp=v) for j, (k, v) in enumerate(zip("xyz", (a, b, c3)))]
          for k_ in kids:
            k_["lang"] = "en"
          p_ = node("p", kids, id="p", sp=psp)
          p_["lang"] = "en"
          s = doc_spec(node("body", [node("div", [p_], id="d", sp=psp)], id="b", sp=psp), [{"id": "r1", "sp": "preserve" if a == "preserve" else None, "lang": "en"}])
          s["lang"] = "en"
          for n_ in (s["body"], s["body"]["c"][0]):
            n_["lang"] = "en"
          s["body"]["c"][0]["c"][0]["r"] = "r1"
          specs.append(s)
  prod = Product([range(len(specs)), CONFIGS_SMALL])

  def dec(i):
    si, c = prod.decode(i)
    return {"spec": specs[si], "config": c, "key": f"kinds#{i}"}
  return Family("F-kinds", prod.n, dec, check_rt, timeout=30, note="ruby patterns, all trees <= 7 nodes, space/lang variations x 4 configurations")


def _time_values(fr):
  """values on, between and around units of both syntaxes"""
  vals = [None, F(0), F(1, 1000), F(1), F(3600), F(1, 2000), F(12345, 10000), F(86400), F(91800) + F(1, 2),     # the last two: 24 h and beyond
          F(1199996, 10000), F(35999996, 10000)]      # less than half a millisecond below a whole minute / hour: the rounding carries into every field
  if fr is not None:
    vals += [1 / fr, 7 / fr, (F(7) + F(1, 2)) / fr, 100 / fr + F(1, 1000)]
  return vals


def fam_times(tier):
  items = []
  for c in CONFIGS_ALL:
    fr = None if c is None or c[1] is None else F(c[1][0], c[1][1])
    tv = _time_values(fr)
    for lv in ("p", "region", "span", "anim"):
      for b in tv:
        for e in tv:
          if b is not None and e is not None and not b < e:
            continue
          items.append((c, lv, b, e))

  def dec(i):
    c, lv, b, e = items[i]
    if lv == "anim":
      spec = docgen.chain_doc({"p": (F(1), None)}, True)
      spec["body"]["c"][0]["c"][0]["c"][0]["an"] = [["Color", b, e, stylegen.RED]]
    else:
      spec = docgen.chain_doc({lv: (b, e), "div": (F(1, 2), None)}, True)
    return {"spec": spec, "config": c, "key": f"times#{i}"}
  return Family("F-times", len(items), dec, check_rt, timeout=30, note="time values on/between units x every configuration (syntax x fps)")


def fam_anim_order():
  """two animation steps on one element in every order of their begin times: where both are active the later one in the
  element's list wins, so the written <set> elements must keep the order of the list"""
  iv = [(None, None), (F(1), F(3)), (F(2), F(4)), (F(2), None), (None, F(3)), (F(3), F(4))]
  prod = Product([iv, iv, ["p", "span", "region"], [0, 1], CONFIGS_SMALL[:2]])

  def dec(i):
    (b1, e1), (b2, e2), lv, same, c = prod.decode(i)
    spec = docgen.chain_doc({"p": (None, F(5))}, True)
    pnode = spec["body"]["c"][0]["c"][0]
    tgt = {"region": spec["regions"][0], "p": pnode, "span": pnode["c"][0]}[lv]
    p1, v1, v2 = ("BackgroundColor", stylegen.RED, ["C", 0, 0, 255, 255]) if lv == "region" else ("Color", stylegen.RED, ["C", 0, 0, 255, 255])
    second = [p1, b2, e2, v2] if same else ["Opacity" if lv == "region" else "FontStyle", b2, e2, 0.5 if lv == "region" else E("FontStyleType", "italic")]
    tgt["an"] = [[p1, b1, e1, v1], second]
    return {"spec": spec, "config": c, "key": f"anim-order#{i}"}
  return Family("F-anim-order", prod.n, dec, check_rt, timeout=30,
                note="two animation steps on p / span / region: begin and end of each present or absent, earlier or later than the other's, same or different property")


def fam_params():
  cells = [None, [15, 32], [19, 40], [1, 1]]
  pxs = [None, [640, 480]]
  aas = [None, [0.1, 0.2, 0.8, 0.7], [0, 0, 1, 1]]
  dars = [None, F(16, 9), F(4, 3)]
  langs = ["", "en", "fr-CA"]
  # where the only pixel length of the document sits (the writer scans the document for one to decide whether tts:extent is
  # written on tt): nowhere; each component of every length-valued region property on its own; a p property; an animation
  # step; an initial value
  pct = L(10, "%")
  carriers = [
    None,
    ("region", "Extent", ["ext", L(240, "px"), L(320, "px")]),
    ("region", "Extent", ["ext", L(50, "%"), L(320, "px")]), ("region", "Extent", ["ext", L(240, "px"), L(50, "%")]),
    ("region", "Origin", ["org", L(24, "px"), pct]), ("region", "Origin", ["org", pct, L(24, "px")]),
    ("region", "Position", ["pos", L(24, "px"), pct, "left", "top"]), ("region", "Position", ["pos", pct, L(24, "px"), "left", "top"]),
    ("region", "Position", ["pos", pct, L(24, "px"), "right", "bottom"]),
    ("region", "Padding", ["pad", L(1, "%"), L(1, "%"), L(1, "%"), L(5, "px")]), ("region", "Padding", ["pad", L(5, "px"), L(1, "%"), L(1, "%"), L(1, "%")]),
    ("p", "LineHeight", L(60, "px")), ("p", "FontSize", L(40, "px")), ("span", "TextOutline", ["to", L(3, "px"), None]),
    ("anim", "Position", ["pos", pct, L(24, "px"), "left", "top"]), ("init", "Position", ["pos", pct, L(24, "px"), "left", "top"]),
    ("init", "Origin", ["org", pct, L(24, "px")]),
  ]
  prod = Product([cells, pxs, aas, dars, langs, carriers, CONFIGS_SMALL[:2]])

  def dec(i):
    cell, px, aa, dar, lang, usepx, c = prod.decode(i)
    spec = docgen.chain_doc({}, True)
    spec.update({"cell": cell, "px": px, "aa": aa, "dar": dar, "lang": lang})
    if usepx:
      where, prop, val = copy.deepcopy(usepx)
      pnode = spec["body"]["c"][0]["c"][0]
      if where == "region":
        spec["regions"][0]["st"] = {prop: val}
      elif where == "p":
        pnode["st"] = {prop: val}
      elif where == "span":
        pnode["c"][0]["st"] = {prop: val}
      elif where == "anim":
        spec["regions"][0]["an"] = [[prop, F(1), F(2), val]]
      else:
        spec["init"] = [[prop, val]]
    # elements carry the resolved language, as in a document produced by a reader
    for r in spec["regions"]:
      r["lang"] = lang
    for n, _ in walk(spec["body"]):
      if n["k"] not in ("text", "br"):
        n["lang"] = lang
    return {"spec": spec, "config": c, "key": f"params#{i}"}
  return Family("F-params", prod.n, dec, check_rt, timeout=30, note="document parameters")


def plan(tier, seed):
  # thorough: the style grid under every writer configuration (every syntax x every frame rate)
  return [fam_styles(CONFIGS_ALL if tier == "thorough" else None), fam_kinds(), fam_times(tier), fam_params(), fam_odd_values(), fam_anim_order()]

"""C16 — the LCD filter simplifies style and layout but keeps the text timeline (DESIGN.md 3, C16).

Post-conditions + metamorphic relations on the real LCDDocFilter over bounded-exhaustive document x configuration
families.  Clauses: C16.exception, C16.no-animation, C16.whitelist, C16.safe-area, C16.safe-area.computed, C16.merged,
C16.refs, C16.text-preserved, C16.computed.color / .bg / .align, C16.idempotent.
"""
from __future__ import annotations

import copy
from fractions import Fraction as F

from mc import env  # noqa
from mc.kernel import Family, exc_disc
from mc import docgen, stylegen
from mc.docgen import Product
from mc.spec import build, fp_doc, node, text, doc_spec, PROP_NAME, enc_val, walk, E, L
from mc.ref_isd import probe_times, abstract_isd
from mc.ref_style import approx_eq
from mc.props import c01

import ttconv.model as model
import ttconv.style_properties as styles
from ttconv.style_properties import StyleProperties as SP
from ttconv.isd import ISD
from ttconv.filters.doc.lcd import LCDDocFilter, LCDDocFilterConfig

ID = "C16"
LEVEL = "exploration"
RULE = ("cases are (document spec, filter configuration) pairs from complete mixed-radix families; non-trivial when the "
        "document has at least one region or body and the filter changed its fingerprint; distinct by family index")
BOUNDS = {
  "quick": "F-geom: one region x geometry menu (origin/position/extent in %, px, c, edges) x displayAlign x writing mode x "
           "0-3 animation steps x initial values x 24 configurations; F-merge: 2-3 regions x timing patterns x alignment x "
           "content assignment x 6 configurations; F-content: styles/animation on every element kind, no body, x 8 configurations",
  "thorough": "same families with the seed-independent full configuration product on F-merge and F-content",
}
ASSUMPTIONS = [
  "text preservation is only demanded for documents that use no display/visibility/opacity styling (as the statement says); "
  "text is compared region-agnostically as the sorted list of visible text leaves, at every critical time and midpoint",
  "the writing mode is removed by the filter by design (not in its style whitelist), so 'equal writing mode' is judged on the filtered document",
]

RED = stylegen.RED
BLUE = ["C", 0, 0, 255, 255]


def mkcfg(c):
  sa, preserve, color, bg = c
  return LCDDocFilterConfig(safe_area=sa, preserve_text_align=preserve,
                            color=None if color is None else styles.ColorType(tuple(color[1:])),
                            bg_color=None if bg is None else styles.ColorType(tuple(bg[1:])))


def _uses_hiding(spec):
  def props():
    for p, _ in spec.get("init") or []:
      yield p
    for r in spec.get("regions") or []:
      yield from (r.get("st") or {})
      yield from (a[0] for a in r.get("an") or [])
    if spec.get("body"):
      for n, _ in walk(spec["body"]):
        yield from (n.get("st") or {})
        yield from (a[0] for a in n.get("an") or [])
  return any(p in ("Display", "Visibility", "Opacity") for p in props())


def _visible_text(doc, t):
  isd = ISD.from_model(doc, t)
  out = []
  for leaves in abstract_isd(isd).values():
    out.extend(txt for k, txt, _ in leaves if k == "text")
  return sorted(out), isd


def _p_aligns(isd):
  out = {}
  for reg in isd.iter_regions():
    for body in reg:
      for e in body.dfs_iterator():
        if isinstance(e, model.P) and e.get_id() is not None:
          out[e.get_id()] = str(e.get_style(SP.TextAlign))
  return out


def _all_elements(doc):
  els = list(doc.iter_regions())
  if doc.get_body() is not None:
    els += list(doc.get_body().dfs_iterator())
  return els


def check(case, acc):
  spec, c = case["spec"], tuple(case["config"])
  cc = {"spec": spec, "config": list(c)}
  try:
    doc = build(spec)
  except Exception:  # pylint: disable=broad-except
    acc.case("invalid-spec")
    return
  hiding = _uses_hiding(spec)
  times = probe_times(spec)
  before = None
  if not hiding:
    try:
      before = [_visible_text(doc, t)[0] for t in times]
    except ValueError:
      before = None
  # computed text alignment of every paragraph before the filter (compared afterwards when the configuration preserves it)
  align_before = None
  if c[1]:
    try:
      align_before = [_p_aligns(ISD.from_model(doc, t)) for t in times]
    except ValueError:
      align_before = None
  fp0 = fp_doc(doc)
  cfg = mkcfg(c)
  sa = c[0]
  try:
    LCDDocFilter(cfg).process(doc)
  except Exception as e:  # pylint: disable=broad-except
    acc.violation("C16.exception", exc_disc(e), cc, observed=repr(e)[:200], note="the filter must succeed on every readable document")
    acc.case("filter-raises")
    return
  fp1 = fp_doc(doc)
  # --- no animation
  for e in _all_elements(doc):
    n = len(list(e.iter_animation_steps()))
    if n:
      acc.violation("C16.no-animation", f"kind={type(e).__name__},left={n}", cc, observed=n, expected=0, note=f"{n} animation step(s) left on {type(e).__name__} {e.get_id()}")
      break
  # --- whitelist
  allowed = {"DisplayAlign", "Extent", "Origin"}
  if c[1]:
    allowed.add("TextAlign")
  allowed.add("TextAlign")      # set on body (center) when not preserved
  allowed |= {"Color", "BackgroundColor"}
  for e in _all_elements(doc):
    extra = sorted({PROP_NAME[p] for p in e.iter_styles()} - allowed)
    if extra:
      acc.violation("C16.whitelist", f"kind={type(e).__name__},prop={extra[0]}", cc, observed=extra, expected=sorted(allowed))
      break
  extra = sorted({PROP_NAME[p] for p, _ in doc.iter_initial_values()} - allowed)
  if extra:
    acc.violation("C16.whitelist.initial", f"prop={extra[0]}", cc, observed=extra, expected=sorted(allowed), note="initial value of a property outside the whitelist survives")
  # --- safe area (specified values)
  want_o = ("org", ("L", sa, "%"), ("L", sa, "%"))
  want_e = ("ext", ("L", 100 - 2 * sa, "%"), ("L", 100 - 2 * sa, "%"))
  for r in doc.iter_regions():
    if not approx_eq(want_o, enc_val(r.get_style(SP.Origin))) or not approx_eq(want_e, enc_val(r.get_style(SP.Extent))):
      acc.violation("C16.safe-area", "specified", cc, observed=[enc_val(r.get_style(SP.Origin)), enc_val(r.get_style(SP.Extent))], expected=[want_o, want_e])
      break
  # --- merged
  seen = {}
  for r in doc.iter_regions():
    key = (r.get_begin() or 0, r.get_end(), enc_val(r.get_style(SP.WritingMode)), enc_val(r.get_style(SP.DisplayAlign)))
    if key in seen:
      acc.violation("C16.merged", "duplicate-fingerprint", cc, observed=[seen[key], r.get_id()], expected="one region per (timing, writing mode, alignment)")
      break
    seen[key] = r.get_id()
  # --- references
  if doc.get_body() is not None:
    for e in doc.get_body().dfs_iterator():
      reg = e.get_region()
      if reg is not None and doc.get_region(reg.get_id()) is not reg:
        acc.violation("C16.refs", "dangling", cc, observed=reg.get_id(), expected="every referenced region is registered")
        break
  # --- snapshots
  if doc.get_body() is not None or list(doc.iter_regions()):
    for i, t in enumerate(times):
      try:
        txt, isd = _visible_text(doc, t)
      except ValueError as e:
        if "ruby" in str(e).lower():
          continue
        raise
      if before is not None and txt != before[i]:
        acc.violation("C16.text-preserved", _text_disc(before[i], txt), dict(cc, t=t), observed=txt, expected=before[i], note=f"visible text changed at t={t}")
        break
      if align_before is not None and not hiding:
        now = _p_aligns(isd)
        diff = sorted(k for k in now if k in align_before[i] and now[k] != align_before[i][k])
        if diff:
          acc.violation("C16.computed.align", "preserved-alignment-changed", dict(cc, t=t), observed={k: now[k] for k in diff},
                        expected={k: align_before[i][k] for k in diff}, note="preserve_text_align: the computed textAlign of a paragraph differs from the one before the filter")
          break
      bad = False
      for reg in isd.iter_regions():
        o, x = enc_val(reg.get_style(SP.Origin)), enc_val(reg.get_style(SP.Extent))
        if not approx_eq(("org", ("L", sa, "rw"), ("L", sa, "rh")), o) or not approx_eq(("ext", ("L", 100 - 2 * sa, "rh"), ("L", 100 - 2 * sa, "rw")), x):
          acc.violation("C16.safe-area.computed", _init_disc(spec), dict(cc, t=t), observed=[o, x], expected=f"safe area {sa}%", note="the region a snapshot computes is not the safe area")
          bad = True
          break
        for body in reg:
          for e in body.dfs_iterator():
            if isinstance(e, model.P):
              if c[3] is not None and not approx_eq(tuple(c[3]), enc_val(e.get_style(SP.BackgroundColor))):
                acc.violation("C16.computed.bg", "p", dict(cc, t=t), observed=enc_val(e.get_style(SP.BackgroundColor)), expected=c[3])
                bad = True
              if not c[1] and e.get_style(SP.TextAlign) is not styles.TextAlignType.center:
                acc.violation("C16.computed.align", "p-not-centered", dict(cc, t=t), observed=str(e.get_style(SP.TextAlign)), expected="center")
                bad = True
            if isinstance(e, model.Span) and c[2] is not None and not approx_eq(tuple(c[2]), enc_val(e.get_style(SP.Color))):
              acc.violation("C16.computed.color", "span", dict(cc, t=t), observed=enc_val(e.get_style(SP.Color)), expected=c[2])
              bad = True
            if bad:
              break
          if bad:
            break
        if bad:
          break
      if bad:
        break
  # --- idempotence
  try:
    LCDDocFilter(cfg).process(doc)
    fp2 = fp_doc(doc)
    if fp2 != fp1:
      acc.violation("C16.idempotent", "differs", cc, note="filter(filter(d)) != filter(d)")
  except Exception as e:  # pylint: disable=broad-except
    acc.violation("C16.idempotent", exc_disc(e), cc, observed=repr(e)[:200], note="second application raised")
  acc.case("filtered" if fp1 != fp0 else "unchanged", nontrivial=fp1 != fp0, key=case.get("key") or repr(cc))


def _text_disc(a, b):
  if len(b) < len(a):
    return "text-lost"
  if len(b) > len(a):
    return "text-gained"
  return "text-changed"


def _init_disc(spec):
  init = sorted(p for p, _ in spec.get("init") or [] if p in ("Position", "Origin", "Extent"))
  return "initial=" + ("+".join(init) if init else "none")


# ---------------------------------------------------------------------------------------------------

CONFIGS = [(sa, pr, col, bg) for sa in (0, 10, 30) for pr in (False, True) for col in (None, RED) for bg in (None, BLUE)]
CONFIGS_SMALL = [(10, False, None, None), (0, True, RED, None), (30, False, None, BLUE), (10, True, RED, BLUE), (10, False, RED, None), (0, False, None, BLUE)]

GEOM = [
  {},
  {"Origin": ["org", L(10, "%"), L(80, "%")], "Extent": ["ext", L(10, "%"), L(80, "%")]},
  {"Origin": ["org", L(192, "px"), L(108, "px")], "Extent": ["ext", L(216, "px"), L(1536, "px")]},
  {"Position": ["pos", L(10, "%"), L(10, "%"), "right", "bottom"], "Extent": ["ext", L(20, "%"), L(50, "%")]},
  {"Position": ["pos", L(96, "px"), L(54, "px"), "left", "top"]},
  {"Position": ["pos", L(50, "%"), L(50, "%"), "left", "top"], "Extent": ["ext", L(5, "c"), L(16, "c")]},
  {"Extent": ["ext", L(3, "c"), L(20, "c")], "Origin": ["org", L(2, "c"), L(11, "c")]},
  {"Origin": ["org", L(5, "%"), L(60, "%")]},
  # both tts:origin and tts:position (legal: the position takes precedence)
  {"Origin": ["org", L(10, "%"), L(10, "%")], "Position": ["pos", L(50, "%"), L(0, "%"), "left", "bottom"], "Extent": ["ext", L(20, "%"), L(50, "%")]},
]
DALIGN = [None, "before", "center", "after"]
WM = [None, "rltb", "tbrl", "tblr"]
INIT = [None, ["Extent", ["ext", L(30, "%"), L(40, "%")]], ["Origin", ["org", L(20, "%"), L(70, "%")]],
        ["Position", ["pos", L(5, "%"), L(5, "%"), "right", "bottom"]], ["Color", RED], ["DisplayAlign", E("DisplayAlignType", "after")],
        ["WritingMode", E("WritingModeType", "tbrl")], ["FontSize", L(2, "c")], ["TextAlign", E("TextAlignType", "end")]]
STEPS = [["Origin", None, F(1), ["org", L(1, "%"), L(1, "%")]], ["Extent", F(1), F(2), ["ext", L(9, "%"), L(9, "%")]],
         ["BackgroundColor", F(2), None, RED], ["Origin", None, F(1), ["org", L(1, "%"), L(1, "%")]]]      # the 4th equals the 1st


def fam_geom(configs):
  prod = Product([range(len(GEOM)), DALIGN, WM, [0, 1, 2, 3, 4], range(len(INIT)), configs])

  def dec(i):
    gi, da, wm, ns, ii, c = prod.decode(i)
    spec = docgen.chain_doc({"p": (F(1), F(3))}, True)
    st = dict(copy.deepcopy(GEOM[gi]))
    if da:
      st["DisplayAlign"] = E("DisplayAlignType", da)
    if da == "after":
      st["TextAlign"] = E("TextAlignType", "end")      # inherited by the paragraphs flowed into the region (preserve_text_align)
    if wm:
      st["WritingMode"] = E("WritingModeType", wm)
    spec["regions"][0]["st"] = st
    if ns:
      spec["regions"][0]["an"] = copy.deepcopy(STEPS[:ns])
    if INIT[ii] is not None:
      spec["init"] = [copy.deepcopy(INIT[ii])]
    return {"spec": spec, "config": list(c), "key": f"geom#{i}"}
  return Family("F-geom", prod.n, dec, check, timeout=30, note="one region: geometry x displayAlign x writing mode x animation steps x initial value x configurations")


TIMING = [
  [(None, None), (None, None)], [(None, None), (F(1), F(3))], [(F(1), F(3)), (F(1), F(3))], [(None, F(0)), (None, None)],
  [(F(0), None), (None, None)], [(F(1), None), (F(1), F(4))], [(None, None), (None, None), (None, None)], [(None, None), (F(1), F(3)), (F(1), F(3))],
]


def fam_merge(configs):
  da = [None, "before", "after"]
  prod = Product([range(len(TIMING)), da, da, [None, "tbrl"], [0, 1, 2], [0, 1, 2, 3, 4, 5], configs])

  def dec(i):
    ti, d1, d2, wm2, geo, assign, c = prod.decode(i)
    tim = TIMING[ti]
    regs = []
    for j, (b, e) in enumerate(tim):
      r = {"id": f"r{j + 1}", "st": {}}
      if b is not None:
        r["b"] = b
      if e is not None:
        r["e"] = e
      d = (d1, d2, d1)[j]
      if d:
        r["st"]["DisplayAlign"] = E("DisplayAlignType", d)
      if j == 1 and wm2:
        r["st"]["WritingMode"] = E("WritingModeType", wm2)
      if geo == 1:
        r["st"]["Origin"] = ["org", L(10 * j, "%"), L(10 + 40 * (j % 2), "%")]
        r["st"]["Extent"] = ["ext", L(30, "%"), L(50, "%")]
      elif geo == 2:
        r["st"]["Position"] = ["pos", L(5, "%"), L(5 + 10 * j, "%"), "right", "bottom" if j % 2 else "top"]
        r["st"]["Extent"] = ["ext", L(30, "%"), L(50, "%")]
      regs.append(r)
    # content: paragraphs assigned to regions in different ways
    ps = []
    n = len(tim)
    for j in range(n):
      rid = f"r{j + 1}"
      p = node("p", [node("span", [text("abc"[j])], id=f"s{j}")], id=f"p{j}", b=F(j, 2), e=F(j, 2) + 2)
      if assign == 0:
        p["r"] = rid
      elif assign == 1:
        p["c"][0]["r"] = rid
      elif assign == 2:
        p["r"] = "r1"
      elif assign == 4:
        p["r"] = rid                 # the same region referenced at several nesting levels
        p["c"][0]["r"] = rid
      ps.append(p)
    if assign == 4:
      # one div per paragraph, the same region referenced on div, p and span
      body = node("body", [node("div", [p], id=f"d{j}", r=p["r"]) for j, p in enumerate(ps)], id="b")
    else:
      body = node("body", [node("div", ps, id="d")], id="b")
    if assign == 3:
      body["c"][0]["r"] = f"r{n}"
    if assign == 5:
      body["r"] = f"r{n}"          # the reference sits on the body itself, and on the last region (the one that is merged away)
    return {"spec": doc_spec(body, regs), "config": list(c), "key": f"merge#{i}"}
  return Family("F-merge", prod.n, dec, check, timeout=30, note="2-3 regions: timing patterns x alignment x writing mode x geometry x region assignment")


def fam_content(configs):
  kinds = ["body", "div", "p", "span"]
  props = [("Color", RED), ("BackgroundColor", BLUE), ("TextAlign", E("TextAlignType", "end")), ("FontSize", L(2, "c")),
           ("FontWeight", E("FontWeightType", "bold")), ("Position", ["pos", L(1, "%"), L(1, "%"), "left", "top"]),
           ("LineHeight", L(125, "%")), ("TextDecoration", ["td", True, None, None])]
  # nobody: 0 = the chain body/div/p/span, 1 = no body at all, 2 = a body without children (which still carries styles and steps)
  prod = Product([kinds, range(len(props)), [0, 1, 2, 3, 4], [0, 1, 2], configs])

  def dec(i):
    k, pi, ns, nobody, c = prod.decode(i)
    if nobody == 2:
      k = "body"
    spec = docgen.chain_doc({"p": (F(1), F(3))}, True)
    nodes = {"body": spec["body"], "div": spec["body"]["c"][0], "p": spec["body"]["c"][0]["c"][0], "span": spec["body"]["c"][0]["c"][0]["c"][0]}
    pn, pv = props[pi]
    nodes[k].setdefault("st", {})[pn] = pv
    steps = [["Color", None, F(1), RED], ["Color", F(1), F(2), BLUE], ["BackgroundColor", F(2), None, RED], ["Color", None, F(1), RED]]   # the 4th equals the 1st
    if ns:
      nodes[k]["an"] = copy.deepcopy(steps[:ns])
    if nobody == 1:
      spec["body"] = None
    elif nobody == 2:
      spec["body"]["c"] = []
    return {"spec": spec, "config": list(c), "key": f"content#{i}"}
  return Family("F-content", prod.n, dec, check, timeout=30, note="style/animation on every content kind, with and without body")


def plan(tier, seed):
  cfgs = CONFIGS_SMALL if tier == "quick" else CONFIGS
  return [fam_geom(cfgs), fam_merge(cfgs), fam_content(CONFIGS_SMALL + [(10, True, None, None), (30, True, RED, BLUE)] if tier == "quick" else CONFIGS)]

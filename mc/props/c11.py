"""C11 — the WebVTT reader reproduces cues, inline markup and cue-setting geometry (DESIGN.md section 3, C11).

E-states : the file-level machine driven by ALL line-token sequences up to the depth bound over {WEBVTT header,
           blank, blank-with-spaces, identifier, timing line, text line, NOTE, STYLE, REGION} (+ implicit EOF), from
           the empty file and from the prefix "WEBVTT, blank", in three renderings (LF, LF without final EOL, CRLF).
E-inputs : every millisecond value x hour/minute/second corners with and without hours; cue-text trees of depth <= 3
           over b/i/u/c.class/lang/v/ruby/rt; character references; annotations; inline time stamps; the full
           product of cue settings (geometry clauses); file lay-outs with NOTE/STYLE/REGION blocks, identifiers,
           LF/CRLF, blank runs; the WebVTT writer's own output under its 8 configurations.

Oracle: mc.strictparse.parse_vtt (independent of ttconv) + the geometry clauses below (one clause each):
  C11.geom.inside        region inside [0,100]^2 with non-negative extent              (literally the statement)
  C11.geom.displayalign  before/center/after for line alignment start/center/end, after without line   (statement)
  C11.geom.textalign     WebVTT mapping of align (left/right by direction)                              (statement)
  C11.geom.anchor        horizontal writing only: the anchored edge sits at the line position (derived reading)
  C11.geom.share         equal settings => same region object; settings whose expected alignment/anchor differ =>
                         different regions
  C11.geom.position / C11.geom.size   derived readings (horizontal: the position-aligned edge sits at position%; the
                         region is not longer than size% in the line direction), separate clauses
"""
from __future__ import annotations

import re
from fractions import Fraction

from mc import env  # noqa
from mc.kernel import Family, StateFamily, HarnessError
from mc.docgen import Product
from mc import strictparse as sp
from mc.readerio import read_file_like_tt, LogTap, INTERNAL
from mc.spec import build
from mc.props.c10 import exc_sig as _exc_sig, _WORDS, roundtrip_spec, SPAN_SHAPES, TIMINGS

import ttconv.model as model
import ttconv.vtt.reader as vtt_reader
import ttconv.vtt.writer as vtt_writer
from ttconv.vtt.config import VTTWriterConfiguration
from ttconv.style_properties import StyleProperties as SP, FontWeightType, FontStyleType, WritingModeType, LengthType

ID = "C11"
LEVEL = "model_checking"
RULE = ("E-states: a state is a sequence of line tokens (the file prefix); every sequence up to the depth bound is "
        "executed on the real reader in up to three renderings (no merging: the reader's machine state is local to "
        "to_model, the history is the canonical key); a history is non-trivial when it contains a timing line. "
        "E-inputs: every index of every family is executed; a case is non-trivial when the file is grammatical "
        "WebVTT with >= 1 cue that has text (the full oracle applies); distinct by file text")
BOUNDS = {
  "quick": "E-states: all sequences of <= 5 tokens over 9 line tokens from the empty file and after the prefix "
           "'WEBVTT, blank' (total length <= 7) x 2 renderings (LF; CRLF without final EOL); times: hours {-,00,01,99,100,999,1000} x min/sec "
           "{00,59} x all 1000 ms; cue text: 11 shapes x 9 tag spellings per slot (depth <= 3), 8 ruby shapes, 9 "
           "character references x 9 neighbours x 4 contexts, annotations, 9 time-stamp shapes x 3 cue begins x 2 "
           "spellings x 3 tags; settings: vertical 3 x line 29 x position 17 x size 3 x align 6 = 26622 files of 4 "
           "cues; lay-out product of 19440 files; writer round trip 576 documents x 8 configurations",
  "thorough": "as quick with E-states depth 6 (+ prefix depth 6), 3 renderings (LF, LF without final EOL, CRLF), tag-token sequences <= 5",
}
ASSUMPTIONS = [
  "mc.strictparse.parse_vtt is the grammar of the statement (bound by gates(): hand examples, WebVTT specification examples, the literals of test_vtt_reader.py)",
  "direction is ltr (the reader never produces rtl): align:left means start, align:right means end",
  "geom.anchor rows = the reader's own grid constant _DEFAULT_ROWS; line n >= 0 is n rows from the top, n < 0 is |n| rows above the bottom",
  "for vertical writing only displayAlign=center for line alignment center is demanded (TTML before/after depend on the block progression direction)",
  "a cue with an empty payload is grammatical WebVTT but only the no-internal-exception clause is applied to files that contain one",
  "ruby: the model stores all bases before all annotations; the oracle compares base text and annotation text each in source order",
  "inline time stamps and float origins/extents are compared with absolute tolerance 1e-6; exactness is demanded only of paragraph begin/end",
]

TOL = 1e-6

# the eight colour classes WebVTT predefines (applies to text colour; bg_ prefixed to background)
VTT_COLORS = {"white": (255, 255, 255, 255), "lime": (0, 255, 0, 255), "cyan": (0, 255, 255, 255), "red": (255, 0, 0, 255),
              "yellow": (255, 255, 0, 255), "magenta": (255, 0, 255, 255), "blue": (0, 0, 255, 255), "black": (0, 0, 0, 255)}
_RGBA_NAME = {v: k for k, v in VTT_COLORS.items()}


def exc_sig(e):
  return _exc_sig(e, via="vtt/reader.py")


def run_reader(text: str):
  with LogTap() as tap:
    try:
      doc = read_file_like_tt(vtt_reader.to_model, text.encode("utf-8"))
    except Exception as e:  # pylint: disable=broad-except
      return "exc", e, tap
  return ("none" if doc is None else "doc"), doc, tap


# ---------------------------------------------------------------------------------------------------
# observed per-character records


def _span_state(e, st):
  b, i, u, col, bg, lang, ruby = st
  fw = e.get_style(SP.FontWeight)
  if fw is not None:
    b = fw is FontWeightType.bold
  fs = e.get_style(SP.FontStyle)
  if fs is not None:
    i = fs is FontStyleType.italic
  td = e.get_style(SP.TextDecoration)
  if td is not None and td.underline is not None:
    u = bool(td.underline)
  c = e.get_style(SP.Color)
  if c is not None:
    col = tuple(c.components)
  g = e.get_style(SP.BackgroundColor)
  if g is not None:
    bg = tuple(g.components)
  if e.get_lang():
    lang = e.get_lang()
  if isinstance(e, model.Rb):
    ruby = "rb"
  elif isinstance(e, model.Rt):
    ruby = "rt"
  return (b, i, u, col, bg, lang, ruby)


def _tok(st):
  b, i, u, col, bg, lang, ruby = st
  s = set()
  if b:
    s.add("b")
  if i:
    s.add("i")
  if u:
    s.add("u")
  if col is not None:
    s.add("color:" + _RGBA_NAME.get(col, "#%02x%02x%02x%02x" % col))
  if bg is not None and bg in _RGBA_NAME:      # the reader's default cue background (0,0,0,204) is not a class colour
    s.add("bg:" + _RGBA_NAME[bg])
  if lang:
    s.add("lang:" + lang)
  if ruby:
    s.add(ruby)
  return frozenset(s)


def _walk_obs(e, st, off, chars):
  for ch in e:
    if isinstance(ch, model.Text):
      t = _tok(st)
      for x in ch.get_text():
        chars.append((x, t, off))
    elif isinstance(ch, model.Br):
      chars.append(("\n", _tok(st), off))
    else:
      b = ch.get_begin()
      _walk_obs(ch, _span_state(ch, st), off + (b if b is not None else 0), chars)


def observe(doc):
  out = []
  body = doc.get_body()
  if body is None:
    return out
  for div in body:
    for p in div:
      chars = []
      _walk_obs(p, (False, False, False, None, None, None, None), 0, chars)
      out.append({"begin": p.get_begin(), "end": p.get_end(), "chars": chars, "kind": type(p).__name__,
                  "region": p.get_region() if isinstance(p, model.P) else None})
  return out


# ---------------------------------------------------------------------------------------------------
# expected per-character records from the strict parser's tree


def _walk_exp(tree, st, ctx, out):
  """appends (char, tokens, ts in effect, directly-after-ts, after-end-tag-since-ts)"""
  prev_ts = False
  for n in tree:
    if n[0] == "text":
      t = _tok(st)
      for x in n[1]:
        out.append((x, t, ctx["ts"], prev_ts, ctx["closed"], ctx["nth"]))
      prev_ts = False
    elif n[0] == "ts":
      ctx["ts"] = n[1]
      ctx["closed"] = False
      ctx["nth"] += 1
      prev_ts = True
    else:
      prev_ts = False
      b, i, u, col, bg, lang, ruby = st
      name, classes, annot = n[1], n[2], n[3]
      if name == "b":
        b = True
      elif name == "i":
        i = True
      elif name == "u":
        u = True
      elif name == "c":
        for c in classes:
          if c in VTT_COLORS:
            col = VTT_COLORS[c]
          elif c.startswith("bg_") and c[3:] in VTT_COLORS:
            bg = VTT_COLORS[c[3:]]
      elif name == "lang":
        lang = annot
      if name == "ruby":
        base, rts = [], []
        for ch in n[5]:
          if ch[0] == "tag" and ch[1] == "rt":
            _walk_exp([ch], (b, i, u, col, bg, lang, "rt"), ctx, rts)
          else:
            _walk_exp([ch], (b, i, u, col, bg, lang, "rb"), ctx, base)
        out.extend(base + rts)
      elif name == "rt":
        _walk_exp(n[5], (b, i, u, col, bg, lang, "rt"), ctx, out)
      else:
        _walk_exp(n[5], (b, i, u, col, bg, lang, ruby), ctx, out)
      ctx["closed"] = True


def expected_chars(cue):
  out = []
  _walk_exp(cue.tree, (False, False, False, None, None, None, None), {"ts": None, "closed": False, "nth": 0}, out)
  return out


def _kinds(tokens):
  return "+".join(sorted({t.split(":")[0] for t in tokens})) or "-"


# ---------------------------------------------------------------------------------------------------
# geometry oracle


def exp_geometry(geo):
  """expected alignment / anchor from parsed settings (mc.strictparse Cue.geometry); None = not demanded"""
  vertical = geo.get("vertical")
  line = geo.get("line")
  al = geo.get("align")
  ta = {None: "center", "start": "start", "center": "center", "end": "end", "left": "start", "right": "end"}[al]
  if line is None:
    da = "after" if vertical is None else None
    anchor = None
  else:
    kind, val, la = line
    la = la or "start"
    if vertical is None:
      da = {"start": "before", "center": "center", "end": "after"}[la]
    else:
      da = "center" if la == "center" else None
    if vertical is None:
      rows = vtt_reader._DEFAULT_ROWS  # pylint: disable=protected-access
      if kind == "pct":
        pos = Fraction(val)
      elif val >= 0:
        pos = Fraction(100 * val, rows)
      else:
        pos = 100 - Fraction(100 * (-val), rows)
      anchor = ({"start": "top", "center": "middle", "end": "bottom"}[la], pos)
      if kind != "pct" and abs(val) > rows:
        anchor = None      # a line number beyond the grid: only 'inside the root container, non-negative extent' is demanded
    else:
      anchor = None
  return {"vertical": vertical, "displayalign": da, "textalign": ta, "anchor": anchor}


def region_box(r):
  o = r.get_style(SP.Origin)
  e = r.get_style(SP.Extent)
  units = {o.x.units, o.y.units, e.width.units, e.height.units}
  return (o.x.value, o.y.value, e.width.value, e.height.value), units


def inside_problems(box):
  x, y, w, h = box
  pr = []
  if w < -TOL:
    pr.append("w<0")
  if h < -TOL:
    pr.append("h<0")
  if x < -TOL:
    pr.append("x<0")
  if y < -TOL:
    pr.append("y<0")
  if x + w > 100 + TOL:
    pr.append("x+w>100")
  if y + h > 100 + TOL:
    pr.append("y+h>100")
  return pr


def _settings_text(sd):
  return " ".join(f"{k}:{v}" for k, v in sd.items())


_INSIDE_CACHE = {}


def _inside_ok_for(sd):
  """re-reads a one-cue file with the settings `sd`; True when its region is inside (memoised per process)"""
  key = tuple(sorted(sd.items()))
  if key not in _INSIDE_CACHE:
    _INSIDE_CACHE[key] = _inside_ok_uncached(sd)
  return _INSIDE_CACHE[key]


def _inside_ok_uncached(sd):
  kind, res, _tap = run_reader(f"WEBVTT\n\n00:01.000 --> 00:02.000 {_settings_text(sd)}\nx\n")
  if kind != "doc":
    return True
  obs = observe(res)
  if not obs or obs[0]["region"] is None:
    return True
  box, _u = region_box(obs[0]["region"])
  return not inside_problems(box)


_CAUSE_CACHE = {}


def minimal_inside_cause(settings):
  """greedy one-step removal of settings while the region stays outside: names the responsible settings (the disc)"""
  key = tuple(sorted(settings.items()))
  if key not in _CAUSE_CACHE:
    _CAUSE_CACHE[key] = _minimal_inside_cause(settings)
  return _CAUSE_CACHE[key]


def _minimal_inside_cause(settings):
  sd = dict(settings)
  changed = True
  while changed:
    changed = False
    for name in ("align", "size", "position", "vertical"):
      if name in sd:
        t = {k: v for k, v in sd.items() if k != name}
        if not _inside_ok_for(t):
          sd, changed = t, True
    if "line" in sd and "," in sd["line"]:
      t = dict(sd)
      t["line"] = sd["line"].split(",")[0]
      if not _inside_ok_for(t):
        sd, changed = t, True
    if "line" in sd:
      t = {k: v for k, v in sd.items() if k != "line"}
      if not _inside_ok_for(t):
        sd, changed = t, True
  parts = []
  for name in ("vertical", "line", "position", "size", "align"):
    if name in sd:
      if name == "line":
        v = sd["line"].split(",")
        s = "line:num<0" if re.fullmatch(r"-\d+", v[0]) else "line"
        if len(v) > 1:
          s += "," + v[1]
        parts.append(s)
      else:
        parts.append(name)
  if "position" in parts:
    # align only selects the default position alignment and size only the width that does not fit: one cause
    parts = [x for x in parts if x not in ("align", "size")]
  return "+".join(parts) or "default"


def check_geometry(k, cue, o, acc, case):
  r = o["region"]
  if r is None:
    acc.violation(f"{ID}.geom.inside", "no-region", case, note=f"cue {k}: the paragraph has no region")
    return None
  exp = exp_geometry(cue.geometry)
  exp["clean"] = False
  box, units = region_box(r)
  if units != {LengthType.Units.pct}:
    acc.violation(f"{ID}.geom.inside", "units", case, observed=sorted(u.value for u in units), expected="%", note=f"cue {k}")
    return exp
  before = sum(n for n, _r in acc.viol.values())
  pr = inside_problems(box)
  if pr:
    acc.violation(f"{ID}.geom.inside", minimal_inside_cause(cue.settings), case, observed={"x,y,w,h": [round(v, 4) for v in box], "outside": pr},
                  expected="0 <= x, 0 <= y, 0 <= w, 0 <= h, x+w <= 100, y+h <= 100", note=f"cue {k} settings {_settings_text(cue.settings)!r}")
  da = r.get_style(SP.DisplayAlign)
  if exp["displayalign"] is not None and (da is None or da.name != exp["displayalign"]):
    acc.violation(f"{ID}.geom.displayalign", f"line-align={(cue.geometry.get('line') or (0, 0, '-'))[2] or 'default'},vertical={exp['vertical'] or '-'}",
                  case, observed=None if da is None else da.name, expected=exp["displayalign"], note=f"cue {k} settings {_settings_text(cue.settings)!r}")
  ta = r.get_style(SP.TextAlign)
  wm = r.get_style(SP.WritingMode)
  want_ta = exp["textalign"]
  if wm is WritingModeType.rltb and cue.geometry.get("align") in ("left", "right"):
    want_ta = {"start": "end", "end": "start"}[want_ta]
  if ta is None or ta.name != want_ta:
    acc.violation(f"{ID}.geom.textalign", f"align={cue.geometry.get('align') or '-'}", case, observed=None if ta is None else ta.name,
                  expected=want_ta, note=f"cue {k} settings {_settings_text(cue.settings)!r}")
  want_wm = {None: ("lrtb", "rltb"), "rl": ("tbrl",), "lr": ("tblr",)}[exp["vertical"]]
  if wm is None or wm.name not in want_wm:
    acc.violation(f"{ID}.geom.writingmode", f"vertical={exp['vertical'] or '-'}", case, observed=None if wm is None else wm.name, expected=list(want_wm))
  if exp["anchor"] is not None:
    edge, pos = exp["anchor"]
    x, y, w, h = box
    got = {"top": y, "middle": y + h / 2, "bottom": y + h}[edge]
    if abs(got - float(pos)) > TOL:
      kind, val, _la = cue.geometry["line"]
      cls = "line:pct" if kind == "pct" else ("line:0" if val == 0 else ("line:num<0" if val < 0 else "line:num>0"))
      acc.violation(f"{ID}.geom.anchor", cls, case, observed={edge: round(got, 4), "x,y,w,h": [round(v, 4) for v in box]},
                    expected={edge: round(float(pos), 4)}, note=f"cue {k} settings {_settings_text(cue.settings)!r}")
  # derived readings of position and size (the statement only names them), kept under their own clause names
  x, y, w, h = box
  if "size" in cue.geometry:
    got = w if exp["vertical"] is None else h
    if got > float(cue.geometry["size"]) + TOL:
      acc.violation(f"{ID}.geom.size", f"vertical={exp['vertical'] or '-'}", case, observed=round(got, 4), expected=f"<= {float(cue.geometry['size'])}",
                    note=f"cue {k} settings {_settings_text(cue.settings)!r}: the region is longer in the line direction than size")
  if "position" in cue.geometry and exp["vertical"] is None:
    pos, pal = cue.geometry["position"]
    if pal is None:
      pal = {"start": "line-left", "end": "line-right", "center": "center"}[exp["textalign"]]
    got = {"line-left": x, "center": x + w / 2, "line-right": x + w}[pal]
    if abs(got - float(pos)) > TOL:
      acc.violation(f"{ID}.geom.position", f"position-align={pal}", case, observed={pal: round(got, 4), "x,y,w,h": [round(v, 4) for v in box]},
                    expected={pal: float(pos)}, note=f"cue {k} settings {_settings_text(cue.settings)!r}")
  exp["clean"] = sum(n for n, _r in acc.viol.values()) == before
  return exp


def check_share(cues, obs, exps, acc, case):
  """equal settings => same region object; expected alignment/anchor differ => different regions"""
  for a in range(len(cues)):
    for b in range(a + 1, len(cues)):
      ra, rb = obs[a]["region"], obs[b]["region"]
      if ra is None or rb is None or exps[a] is None or exps[b] is None:
        continue
      if cues[a].settings == cues[b].settings:
        if ra is not rb:
          acc.violation(f"{ID}.geom.share", "equal-settings-different-regions", case, observed=[ra.get_id(), rb.get_id()],
                        note=f"cues {a} and {b} have the settings {_settings_text(cues[a].settings)!r}")
      else:
        diff = [key for key in ("vertical", "displayalign", "textalign", "anchor")
                if exps[a][key] != exps[b][key] and (key == "vertical" or (exps[a][key] is not None and exps[b][key] is not None))]
        # a region already judged wrong by another clause decides nothing about sharing
        if diff and ra is rb and exps[a]["clean"] and exps[b]["clean"]:
          acc.violation(f"{ID}.geom.share", "different-" + "+".join(diff) + "-same-region", case, observed=ra.get_id(),
                        note=f"cues {a} ({_settings_text(cues[a].settings)!r}) and {b} ({_settings_text(cues[b].settings)!r}) share a region")


# ---------------------------------------------------------------------------------------------------
# oracle for a grammatical file


def compare(cues, doc, acc, case, geometry=True):
  obs = observe(doc)
  if len(obs) != len(cues) or any(o["kind"] != "P" for o in obs):
    acc.violation(f"{ID}.cues", "count", case, observed=len(obs), expected=len(cues),
                  note="each cue becomes one paragraph: the number of paragraphs differs from the number of cues")
    return "cue-count-differs"
  outcome = "agrees"
  styled = timed = tfloat = False
  exps = []
  for k, (cue, o) in enumerate(zip(cues, obs)):
    for which, val, exact in (("begin", o["begin"], cue.begin), ("end", o["end"], cue.end)):
      if isinstance(val, bool) or not isinstance(val, (int, Fraction)):
        acc.violation(f"{ID}.time.exact", f"type={type(val).__name__}", case, observed=repr(val), expected=str(exact),
                      note=f"cue {k} {which} is not an int or a Fraction: the printed decimal went through a binary float")
        tfloat = True
        if not isinstance(val, float) or abs(Fraction(val) - exact) > Fraction(1, 10 ** 6):
          acc.violation(f"{ID}.time.exact", "value", case, observed=repr(val), expected=str(exact), note=f"cue {k} {which}")
      elif val != exact:
        acc.violation(f"{ID}.time.exact", "value", case, observed=repr(val), expected=str(exact), note=f"cue {k} {which}")
    exps.append(check_geometry(k, cue, o, acc, case) if geometry else None)
    exp = expected_chars(cue)
    etext = "".join(x[0] for x in exp)
    otext = "".join(x[0] for x in o["chars"])
    if any(x[1] for x in exp):
      styled = True
    if any(x[2] is not None for x in exp):
      timed = True
    if etext != otext:
      names = [nm for nm in sp.VTT_ENTITIES if f"&{nm}" in otext and f"&{nm}" not in etext]
      if names:
        acc.violation(f"{ID}.text", "cref-not-decoded:" + names[0], case, observed=otext, expected=etext,
                      note=f"cue {k}: a character reference of the grammar is not decoded")
      else:
        acc.violation(f"{ID}.text", "linecount" if etext.count("\n") != otext.count("\n") else "text", case, observed=otext, expected=etext,
                      note=f"cue {k}: payload text differs")
      outcome = "text-differs"
      continue
    flag_done = ts_done = False
    pbeg = o["begin"] if isinstance(o["begin"], (int, float, Fraction)) else None
    for (c, et, ts, direct, closed, nth), (_c2, ot, off) in zip(exp, o["chars"]):
      if c == "\n":
        continue
      if et != ot and not flag_done:
        flag_done = True
        outcome = "flags-differ"
        leak = ts is not None and closed and not (et - ot)
        acc.violation(f"{ID}.tags", "leak-after-ts-inside-tag" if leak else f"missing={_kinds(et - ot)},extra={_kinds(ot - et)}", case,
                      observed=sorted(ot), expected=sorted(et), note=f"cue {k}: style flags of character {c!r} in {etext!r}")
      if pbeg is not None and not ts_done:
        want = float(ts if ts is not None else cue.begin)
        got = float(pbeg) + float(off)
        if abs(got - want) > TOL:
          ts_done = True
          if outcome == "agrees":
            outcome = "ts-differs"
          if ts is None:
            clause, disc = f"{ID}.ts.scope", "before-first-ts"
          elif direct:
            clause, disc = f"{ID}.ts.begin", "first-ts" if nth == 1 else "later-ts"
          else:
            clause, disc = f"{ID}.ts.scope", "after-end-tag" if closed else "inside-following-tag"
          acc.violation(clause, disc, case, observed=got, expected=want,
                        note=f"cue {k}: character {c!r} of {etext!r} becomes visible at {got} s, the time stamp in effect says {want} s")
  if geometry:
    check_share(cues, obs, exps, acc, case)
  if outcome == "agrees":
    outcome = "agrees" + ("-styled" if styled else "") + ("-timed" if timed else "")
  if geometry and any(e is not None and not e["clean"] for e in exps):
    outcome += "+geometry-differs"
  return outcome + ("+time-not-exact" if tfloat else "")


_TIMING_LINE = re.compile(r"\d\.\d{3}[ \t]+-->[ \t]+\d")
_TAG = re.compile(r"<([^<>]*)>")


def crash_feature(text):
  """coarse syntactic cause class of an internal exception (keeps signatures narrow)"""
  lines = sp.split_lines(text)
  if not lines:
    return "empty-file"
  for k, ln in enumerate(lines):
    if _TIMING_LINE.search(ln) and (k + 1 >= len(lines) or lines[k + 1].strip() == ""):
      return "cue-without-text"
  stack = []
  for ln in lines:
    if ln.strip() == "":
      stack = []
      continue
    if "-->" in ln:
      continue
    for m in _TAG.finditer(ln):
      inner = m.group(1)
      if inner[:1].isdigit():
        if stack and stack[-1] == "ruby":
          return "ts-in-ruby-base"
        continue
      if inner.startswith("/"):
        if not stack:
          return "stray-end-tag"
        stack.pop()
        continue
      nm = re.match(r"[A-Za-z]*", inner).group(0)
      if "&" in inner:
        return "annotation-cref"
      if nm == "ruby" and stack:
        return "ruby-in-span"
      if nm != "rt" and stack and stack[-1] == "ruby":
        return "tag-in-ruby-base"
      stack.append(nm)
  return "-"


def check_text(text, acc, case, geometry=True):
  """runs the reader on `text` and evaluates every clause; returns (outcome, fully judged?)"""
  try:
    vf = sp.parse_vtt(text)
    cues = vf.cues
  except sp.GrammarError:
    vf = cues = None
  kind, res, tap = run_reader(text)
  if kind == "exc":
    if isinstance(res, INTERNAL):
      feat = crash_feature(text)
      acc.violation(f"{ID}.noexc", feat if feat != "-" else exc_sig(res), case, observed=f"{exc_sig(res)}: {res!r}"[:300],
                    note="internal exception escaped from the WebVTT reader")
      return f"internal-{type(res).__name__}", False
    if cues is not None:
      acc.violation(f"{ID}.rejects", exc_sig(res), case, observed=repr(res)[:300], note="a grammatical file is rejected")
      return "grammatical-rejected", False
    return f"rejected-{type(res).__name__}", False
  if kind == "none":
    if cues is not None:
      acc.violation(f"{ID}.cues", "returned-None", case, observed=[m for _l, m in tap.records][:3], expected=f"{len(cues)} cues")
      return "grammatical-refused", False
    return "refused", False
  if cues is None:
    return "ungrammatical-read", False
  if any(not c.lines for c in cues):
    return "grammatical-with-empty-cue", False
  out = compare(cues, res, acc, case, geometry=geometry)
  if "\r" in text:
    # the same characters handed over as a text stream that does not translate line ends (io.StringIO keeps CR LF): the
    # reader has to cope with CR LF itself and must build the same document
    import io
    from mc.spec import fp_doc
    try:
      with LogTap():
        doc2 = vtt_reader.to_model(io.StringIO(text), None, lambda _: None)
      same = doc2 is not None and fp_doc(doc2) == fp_doc(res)
    except Exception as e:  # pylint: disable=broad-except
      same, doc2 = False, repr(e)[:200]
    if not same:
      acc.violation(f"{ID}.eol", "in-memory-stream-keeps-CR", case, observed=str(doc2)[:200] if not hasattr(doc2, "get_body") else "document differs",
                    expected="the document read from the same file opened in text mode", note="CR LF line ends in a stream without newline translation")
  blocks = ("+blocks" if (vf.styles or vf.notes or vf.regions) else "")
  return (f"{len(cues)}cue:" if len(cues) < 3 else "3+cue:") + out + blocks, bool(cues)


# ---------------------------------------------------------------------------------------------------
# E-states

TOKENS = ["H", "B", "S", "I", "T", "X", "N", "Y", "R"]


def token_line(tok, k):
  w = _WORDS[k % 9]
  if tok == "H":
    return "WEBVTT" if k % 2 == 0 else "WEBVTT - header text"
  if tok == "B":
    return ""
  if tok == "S":
    return "  " if k % 2 == 0 else " \t"
  if tok == "I":
    return str(k) if k % 2 == 0 else f"id {w}"
  if tok == "T":
    if k % 2 == 0:
      return f"00:{k:02d}.{(137 * (k + 1)) % 1000:03d} --> 00:{k + 1:02d}.{(29 * (k + 3)) % 1000:03d}"
    return f"01:00:{k:02d}.{(137 * (k + 1)) % 1000:03d} --> 01:00:{k + 1:02d}.{(29 * (k + 3)) % 1000:03d} line:{10 * k}% align:left"
  if tok == "X":
    return f"{w} text" if k % 2 == 0 else f"<b>{w}</b> &amp; <i>it<u>al</u></i>"
  if tok == "N":
    return f"NOTE remark {w}" if k % 2 == 0 else "NOTE"
  if tok == "Y":
    return "STYLE"
  if tok == "R":
    return "REGION"
  raise ValueError(tok)


ALL_RENDERINGS = [("lf", "\n", True), ("lf-noeol", "\n", False), ("crlf", "\r\n", True)]
QUICK_RENDERINGS = [("lf", "\n", True), ("crlf-noeol", "\r\n", False), ("crlf", "\r\n", True)]
RENDERINGS = ALL_RENDERINGS      # plan() selects: the quick tier runs LF and CRLF-without-final-EOL (CRLF with EOL when the last line is empty)


def render(history, eol, final):
  lines = [token_line(t, k) for k, t in enumerate(history)]
  s = eol.join(lines)
  if lines and final:
    s += eol
  return s


def expand_machine(history, acc):
  history = list(history)
  outs = []
  judged = False
  last_empty = bool(history) and token_line(history[-1], len(history) - 1) == ""
  for name, eol, final in RENDERINGS:
    if name != "lf" and (not history or (not final and last_empty)):
      continue      # an empty last line cannot be written without its line terminator
    if RENDERINGS is QUICK_RENDERINGS and name == "crlf" and not last_empty:
      continue      # quick tier: CRLF is exercised by the no-final-EOL rendering unless that one is impossible
    text = render(history, eol, final)
    o, g = check_text(text, acc, {"history": history, "rendering": name}, geometry=False)
    outs.append(o)
    judged = judged or g
    acc.count("renderings")
  o = outs[0] if len(set(outs)) == 1 else "renderings-differ:" + "|".join(sorted(set(outs)))
  if len(set(outs)) > 1 and not any(x.startswith("internal") for x in outs):
    acc.violation(f"{ID}.eol", "renderings-differ", {"history": history}, observed=outs, expected="same outcome for LF / no final EOL / CRLF")
  acc.case(o, nontrivial=("T" in history))
  if judged and len(history) % 2 == 1:
    acc.sample({"history": history, "file": render(history, "\n", True)})
  return [(t, tuple(history) + (t,)) for t in TOKENS]


def check_machine_case(case, acc):
  expand_machine(case["history"], acc)


def shrink_history(case):
  h = list(case["history"])
  for i in range(len(h)):
    yield {"history": h[:i] + h[i + 1:]}


# ---------------------------------------------------------------------------------------------------
# E-inputs: generic file case


def check_file(case, acc):
  text = case["file"]
  o, g = check_text(text, acc, case, geometry=case.get("geometry", True))
  acc.case(o, nontrivial=g, key=text)


def shrink_file(case):
  text = case["file"]
  eol = "\r\n" if "\r\n" in text else "\n"
  lines = text.split(eol)
  for i in range(2, len(lines)):        # the signature line and the blank line after it stay
    c = dict(case)
    c["file"] = eol.join(lines[:i] + lines[i + 1:])
    yield c
  for pat in (r"</?[A-Za-z][^<>]*>", r"<[0-9:.]+>", r" (?:vertical|line|position|size|align):\S+", r"&#?[A-Za-z0-9]+;", r" [a-z]+[0-9]?"):
    for m in list(re.finditer(pat, text)):
      c = dict(case)
      c["file"] = text[:m.start()] + text[m.end():]
      yield c


def _file_family(name, n, make_text, note="", geometry=True, timeout=20.0):
  def decode(i):
    return {"file": make_text(i), "geometry": geometry}
  return Family(name, n, decode, check_file, shrink=shrink_file, timeout=timeout, note=note)


# --- times

HOURS = [None, "00", "01", "99", "100", "999", "1000"]
MS60 = ["00", "59"]


def _all_times():
  out = []
  for h in HOURS:
    for m in MS60:
      for s in MS60:
        for ms in range(1000):
          out.append(((int(h or 0) * 3600 + int(m) * 60 + int(s)) * 1000 + ms, ("" if h is None else h + ":") + f"{m}:{s}.{ms:03d}"))
  out.sort()
  return out


def fam_times():
  times = _all_times()
  last = times[-1][0]
  idx = [i for i, (v, _s) in enumerate(times) if v < last]

  def make(k):
    i = idx[k]
    j = i + 1
    while times[j][0] <= times[i][0]:
      j += 1
    return f"WEBVTT\n\n{times[i][1]} --> {times[j][1]}\nexact time\n"
  return _file_family("F-times", len(idx), make, "every (hours or none, minute, second, millisecond) corner as begin and as end", geometry=False)


# --- cue text

TAGS = [("<b>", "</b>"), ("<i>", "</i>"), ("<u>", "</u>"), ("<c>", "</c>"), ("<c.red>", "</c>"), ("<c.bg_blue>", "</c>"),
        ("<c.yellow.bg_red>", "</c>"), ("<lang en>", "</lang>"), ("<v Fred>", "</v>")]
FIXED = {"R": ("<ruby>", "</ruby>"), "T": ("<rt>", "</rt>")}

SHAPES = {
  1: ["pre A( one ) post", "A( one | two )", "A( one ) | post"],
  2: ["A( one )B( two )", "pre A( one ) B( two ) post", "A(B( one ))", "pre A( one B( two ) three ) post",
      "pre A( one B( two | three ) four ) | post", "A( one ) | B( two )"],
  3: ["A(B(C( one )))", "A( one B( two C( three ) four ) five )"],
}
RUBY_SHAPES = ["R(base T(anno))", "pre R(bone T(aone) btwo T(atwo)) post", "R(base T(A(anno)))", "R(base T(x A(anno) y))",
               "R(base T(anno)) | line two", "R(base)", "A(R(base T(anno)))", "R(A(base) T(anno))"]
TS_SHAPES = ["one @1 two", "one @1 two @2 three", "A( one @1 two ) three", "one @1 A( two ) three", "A( one @1 two @2 three ) four",
             "one | @1 two", "A( one ) @1 B( two ) @2 three", "one @1 A( two B( three ) ) four", "R(base @1 more T(anno))"]


def shape_text(shape, tags, stamps=()):
  res, stack, i = [], [], 0
  while i < len(shape):
    ch = shape[i]
    if ch in "ABCRT" and i + 1 < len(shape) and shape[i + 1] == "(":
      o, c = tags["ABC".index(ch)] if ch in "ABC" else FIXED[ch]
      res.append(o)
      stack.append(c)
      i += 2
    elif ch == ")":
      res.append(stack.pop())
      i += 1
    elif ch == "@":
      res.append(f"<{stamps[int(shape[i + 1]) - 1]}>")
      i += 2
    else:
      res.append(ch)
      i += 1
  return re.sub(r"\s*\|\s*", "\n", "".join(res))


def _cue_file(payload, timing="00:00:01.000 --> 00:00:09.500"):
  return f"WEBVTT\n\n{timing}\n{payload}\n"


def fam_tags(nslots):
  shapes = SHAPES[nslots]
  prod = Product([range(len(shapes))] + [range(len(TAGS))] * nslots)

  def make(i):
    ch = prod.decode(i)
    return _cue_file(shape_text(shapes[ch[0]], [TAGS[k] for k in ch[1:]]))
  return _file_family(f"F-tags[{nslots}]", prod.n, make, f"{len(shapes)} tag-tree shapes x {len(TAGS)} tag spellings per slot", geometry=False)


def fam_ruby():
  prod = Product([range(len(RUBY_SHAPES)), range(len(TAGS))])

  def make(i):
    s, t = prod.decode(i)
    return _cue_file(shape_text(RUBY_SHAPES[s], [TAGS[t]]))
  return _file_family("F-ruby", prod.n, make, "ruby/rt shapes, with a styled annotation, inside a tag, with a tag in the base", geometry=False)


# the last three: a character outside the BMP as reference and literally, and a literal BMP symbol next to it
CREFS = ["&amp;", "&lt;", "&gt;", "&nbsp;", "&lrm;", "&rlm;", "&#65;", "&#x42;", "&#8206;", "&#x1F600;", "\U0001F3B5", "\u266a"]
CREF_CONTEXTS = ["x {a} y", "{a}{b} tail", "<b>{a}</b> z", "one{a}\n{b}two"]


def fam_crefs():
  prod = Product([range(len(CREF_CONTEXTS)), CREFS, CREFS])

  def make(i):
    c, a, b = prod.decode(i)
    return _cue_file(CREF_CONTEXTS[c].replace("{a}", a).replace("{b}", b))
  return _file_family("F-crefs", prod.n, make, "every character reference of the grammar x neighbour x context", geometry=False)


ANNOTATIONS = ["<v Fred>hi</v> there", "<v Fred Smith>hi</v>", "<v.loud Fred>hi</v>", "<v Tom &amp; Jerry>hi</v> there", "<v Fred>hi\nthere</v>",
               "<lang en-US>hi</lang>", "<lang en>hi <lang fr>salut</lang></lang> x", "<c.red.bg_blue.other>hi</c>",
               "<c.loud.yellow.bg_blue>hi</c> there", "<c.red.speaker1.bg_blue>hi</c>", "<c.loud>a<c.lime>b</c></c>",      # a class that is no colour, before colour classes
               "<v  Fred >hi</v>", "<v\tFred>hi</v>"]


IDENTIFIERS = ["1", "cue one", "STYLE2", "STYLES", "NOTES", "NOTE1", "REGION1", "style", "note", "X STYLE", "a NOTE b", "0", "-"]


def fam_identifiers():
  """cue identifiers that begin like the keyword of a block: they are identifiers all the same"""
  def make(i):
    ident = IDENTIFIERS[i % len(IDENTIFIERS)]
    second = IDENTIFIERS[(i // len(IDENTIFIERS)) % len(IDENTIFIERS)]
    return f"WEBVTT\n\n{ident}\n00:00:01.000 --> 00:00:02.000\nhello\n\n{second}\n00:00:03.000 --> 00:00:04.000\nworld\n"
  return _file_family("F-identifiers", len(IDENTIFIERS) ** 2, make, "two cues with identifiers, some of which begin like STYLE / NOTE / REGION", geometry=False)


def fam_annotations():
  return _file_family("F-annotations", len(ANNOTATIONS), lambda i: _cue_file(ANNOTATIONS[i]), "voice / language annotations, classes", geometry=False)


TS_BEGINS = [(0, "00:00.000", "00:09.000"), (10000, "00:10.000", "00:19.000"), (3600000, "01:00:00.000", "01:00:09.000")]
TS_TAGS = [0, 4, 7]


def _stamp(ms, hours):
  h, r = divmod(ms, 3600000)
  m, r = divmod(r, 60000)
  s, r = divmod(r, 1000)
  if hours or h:
    return f"{h:02d}:{m:02d}:{s:02d}.{r:03d}"
  return f"{m:02d}:{s:02d}.{r:03d}"


def fam_timestamps():
  prod = Product([range(len(TS_SHAPES)), range(len(TS_BEGINS)), [False, True], TS_TAGS, TS_TAGS])

  def make(i):
    s, b, hours, t1, t2 = prod.decode(i)
    b0, bt, et = TS_BEGINS[b]
    stamps = (_stamp(b0 + 1500, hours), _stamp(b0 + 2250, hours))
    return _cue_file(shape_text(TS_SHAPES[s], [TAGS[t1], TAGS[t2]], stamps), f"{bt} --> {et}")
  return _file_family("F-timestamps", prod.n, make, "inline time stamps: alone, repeated, inside/before/after tags, across lines, cue begin 0 / 10 s / 1 h",
                      geometry=False)


TAGTOKENS = ["<b>", "</b>", "</i>", "x", "\n", "<00:00:01.500>"]


def fam_tagtokens(maxlen):
  counts = [len(TAGTOKENS) ** k for k in range(1, maxlen + 1)]

  def make(i):
    k = 1
    for c in counts:
      if i < c:
        break
      i -= c
      k += 1
    return _cue_file("".join(Product([TAGTOKENS] * k).decode(i)))
  return _file_family(f"F-tagtokens[<={maxlen}]", sum(counts), make,
                      "every payload of <= n tokens over {<b>,</b>,</i>,x,NL,<ts>}: grammatical ones fully judged, the others only for internal exceptions",
                      geometry=False)


# --- cue settings

VERTICAL = [None, "rl", "lr"]
LINE = [None] + [v + a for v in ("0%", "50%", "100%", "0", "1", "-1", "-2") for a in ("", ",start", ",center", ",end")]
POSITION = [None] + [v + a for v in ("0%", "10%", "50%", "100%") for a in ("", ",line-left", ",center", ",line-right")]
SIZE = [None, "50%", "100%"]
ALIGN = [None, "start", "center", "end", "left", "right"]
SETTINGS = Product([VERTICAL, LINE, POSITION, SIZE, ALIGN])
_NAMES = ("vertical", "line", "position", "size", "align")


def _settings_str(vals, order=0):
  items = [(n, v) for n, v in zip(_NAMES, vals) if v is not None]
  if order % 2:
    items.reverse()
  return "".join(f" {n}:{v}" for n, v in items)


LINE_RANGE = [v + a for v in ("22", "23", "24", "30", "-23", "-24", "-30", "39", "40", "41", "45", "-40", "-41", "-45", "1000", "-1000", "12.5%", "0.5%", "99.5%", "33.3%") for a in ("", ",center", ",end")]


def fam_line_range():
  prod = Product([VERTICAL, LINE_RANGE, [None, "50%", "33.3%"]])

  def make(i):
    v, ln, sz = prod.decode(i)
    s_a = _settings_str((v, ln, None, sz, None))
    return "WEBVTT\n\n00:01.000 --> 00:02.000" + s_a + "\nfirst\n\n00:03.000 --> 00:04.000 line:1\nsecond\n"
  return _file_family("F-line-range", prod.n, make, "line numbers at and beyond the 23-row / 40-column grid, both signs, and fractional percentages x line alignment x vertical x size (incl. fractional)")


def fam_settings():
  def make(i):
    vals = SETTINGS.decode(i)
    v, ln, po, sz, al = vals
    al2 = ALIGN[(ALIGN.index(al) + 1 + i % 4) % len(ALIGN)]
    ln2 = LINE[(LINE.index(ln) + 1 + i % 27) % len(LINE)]
    s_a = _settings_str(vals, i)
    s_c = _settings_str((v, ln, po, sz, al2), i)
    s_d = _settings_str((v, ln2, po, sz, al), i)
    return ("WEBVTT\n\n00:01.000 --> 00:02.000" + s_a + "\nfirst\n\n00:03.000 --> 00:04.000" + s_c + "\nother align\n\n"
            "00:05.000 --> 00:06.000" + s_a + "\nsame as first\n\n00:07.000 --> 00:08.000" + s_d + "\nother line\n")
  return _file_family("F-settings", SETTINGS.n, make,
                      "full product vertical x line x position x size x align; 4 cues: s, s with another align, s again, s with another line")


# --- file lay-out

HEADERS = ["WEBVTT", "WEBVTT - a title", "WEBVTT\tx"]
PRE = ["none", "note", "style", "region", "all"]
IDS = ["none", "number", "text"]
MID = ["none", "note1", "noteN"]
LAYOUT = Product([HEADERS, PRE, [1, 2, 3], IDS, MID, [1, 3], ["\n", "\r\n"], [1, 2], ["none", "nl", "blank2"], [False, True]])


def fam_layout():
  def make(i):
    hdr, pre, ncues, ids, mid, nlines, eol, sep, trail, hours = LAYOUT.decode(i)
    blocks = []
    if pre in ("note", "all"):
      blocks.append(["NOTE a comment", "over two lines"])
    if pre in ("style", "all"):
      blocks.append(["STYLE", "::cue { color:lime }", "::cue(b) { color:red }"])
    if pre in ("region", "all"):
      blocks.append(["REGION", "id:fred width:40% lines:3", "regionanchor:0%,100% viewportanchor:10%,90% scroll:up"])
    for j in range(ncues):
      if j and mid == "note1":
        blocks.append([f"NOTE between {j}"])
      elif j and mid == "noteN":
        blocks.append(["NOTE", "a longer remark", f"before cue {j}"])
      blk = []
      if ids == "number":
        blk.append(str(j + 1))
      elif ids == "text":
        blk.append(f"cue {_WORDS[j]} - {j}")
      h = "01:" if hours else ""
      blk.append(f"{h}0{j}:1{j}.{(j * 333 + 7) % 1000:03d} --> {h}0{j}:2{j}.{(j * 211 + 280) % 1000:03d}" + (" line:10% align:right" if j == 1 else ""))
      n = ((nlines + j - 1) % 3) + 1 if j else nlines
      lines = [f"{_WORDS[(j * 5 + k) % 9]} line {k}" for k in range(n)]
      if j % 2 == 0:
        lines[0] = "<i>" + lines[0]
        lines[-1] = lines[-1] + "</i> &amp; more"
      else:
        lines = ["  " + ln + " " for ln in lines]      # indented payload lines are payload, not blank lines
      blk += lines
      blocks.append(blk)
    out = [hdr]
    for b in blocks:
      out += [""] * sep
      out += b
    s = eol.join(out)
    if trail == "nl":
      s += eol
    elif trail == "blank2":
      s += eol * 3
    return s
  return _file_family("F-layout", LAYOUT.n, make,
                      "header x NOTE/STYLE/REGION blocks x cues x identifiers x comments between cues x lines x EOL x blank runs x final EOL x hours")


# --- round trip with the WebVTT writer

RT_REGIONS = [None, "before", "center", "after"]
RT_TA = [None, "start", "end"]
RT_PROD = Product([[1, 3], TIMINGS, SPAN_SHAPES, [0, 5], RT_REGIONS, RT_TA, range(8)])


def _rt_spec(ch):
  np_, timing, shape, oi, reg, ta = ch
  spec = roundtrip_spec((np_, timing, shape, oi, 1))
  if reg is not None:
    spec["regions"] = [{"id": "r1", "st": {"Origin": ["org", ["L", 10, "%"], ["L", 20, "%"]], "Extent": ["ext", ["L", 60, "%"], ["L", 80, "%"]],
                                           "DisplayAlign": ["E", "DisplayAlignType", reg]}}]
    spec["body"]["r"] = "r1"
  if ta is not None:
    for p in spec["body"]["c"][0]["c"]:
      p.setdefault("st", {})["TextAlign"] = ["E", "TextAlignType", ta]
  return spec


def check_roundtrip(case, acc):
  if "file" in case:
    return check_file(case, acc)
  doc = build(case["spec"])
  cfgbits = case["config"]
  cfg = VTTWriterConfiguration(line_position=bool(cfgbits & 1), text_align=bool(cfgbits & 2), cue_id=bool(cfgbits & 4))
  with LogTap():
    try:
      out = vtt_writer.from_model(doc, cfg)
    except Exception as e:  # pylint: disable=broad-except
      acc.case(f"writer-raises-{type(e).__name__}")     # the writer is C06/C07's subject
      return
  try:
    vf = sp.parse_vtt(out)
  except sp.GrammarError:
    acc.case("writer-output-ungrammatical")
    acc.count("writer-output-ungrammatical")
    return
  sub = {"file": out, "from": "vtt-writer", "config": cfgbits, "geometry": True}
  o, _g = check_text(out, acc, sub, geometry=True)
  acc.case(f"rt[{cfgbits}]:" + o, nontrivial=bool(vf.cues), key=out)


def fam_roundtrip():
  def decode(i):
    ch = RT_PROD.decode(i)
    return {"spec": _rt_spec(ch[:6]), "config": ch[6]}
  return Family("F-roundtrip", RT_PROD.n, decode, check_roundtrip, timeout=30,
                note="documents -> WebVTT writer under line_position x text_align x cue_id -> strict parser = expected -> reader")


# ---------------------------------------------------------------------------------------------------
# gates


def _flags_of(cue, word):
  text = "".join(c for c, _ in cue.runs)
  k = text.index(word)
  return cue.runs[k][1]


def gates():
  n = 0

  def need(cond, what):
    nonlocal n
    n += 1
    if not cond:
      raise HarnessError(f"strict WebVTT parser gate failed: {what}")

  def rejects(text, what):
    nonlocal n
    n += 1
    try:
      sp.parse_vtt(text)
    except sp.GrammarError:
      return
    raise HarnessError(f"strict WebVTT parser gate failed: accepts {what}")

  # hand-written examples
  v = sp.parse_vtt("WEBVTT\n\n00:00.280 --> 01:00:00.000\nab\n")
  need(v.cues[0].begin == Fraction(7, 25) and v.cues[0].end == 3600 and v.cues[0].ident is None, "hours optional, 0.280 = 7/25")
  v = sp.parse_vtt("WEBVTT - x\r\n\r\nNOTE c\r\nd\r\n\r\nSTYLE\r\n::cue { color:lime }\r\n\r\nREGION\r\nid:fred width:40%\r\n\r\nintro\r\n"
                   "00:01.000 --> 00:04.000 line:-1 align:left\r\na &lt; <b>b <i>c</i></b>\r\n<c.red.bg_blue>d</c>\r\n\r\n\r\n1000:00:00.000 --> 1000:00:01.000\r\ne")
  need(v.header == "- x" and v.notes == ["c\nd"] and v.styles == ["::cue { color:lime }"] and v.regions == [{"id": "fred", "width": "40%"}], "blocks")
  need(len(v.cues) == 2 and v.cues[0].ident == "intro" and v.cues[0].lines == ["a < b c", "d"] and v.cues[1].begin == 3600000, "cues, CRLF, 4-digit hours")
  need(v.cues[0].geometry == {"line": ("num", -1, None), "align": "left"}, "settings")
  need(_flags_of(v.cues[0], "c") == frozenset(["b", "i"]) and _flags_of(v.cues[0], "d") == frozenset(["c", ".red", ".bg_blue"]), "tag scope and classes")
  v = sp.parse_vtt("WEBVTT\n\n00:01.000 --> 00:05.000\n&amp;&lt;&gt;&nbsp;&lrm;&rlm;&#65;&#x42;<00:02.000>x<ruby>b<rt>t</rt></ruby>\n")
  need(v.cues[0].lines == ["&<>\u00a0\u200e\u200fABxbt"] and v.cues[0].ts[-1] == 2 and v.cues[0].ts[0] is None, "character references, time stamp tag")
  need(_flags_of(v.cues[0], "t") == frozenset(["ruby", "rt"]), "ruby text")
  e = exp_geometry(sp.parse_vtt("WEBVTT\n\n00:01.000 --> 00:02.000 line:-1 align:right\nx\n").cues[0].geometry)
  rows = vtt_reader._DEFAULT_ROWS  # pylint: disable=protected-access
  need(e == {"vertical": None, "displayalign": "before", "textalign": "end", "anchor": ("top", 100 - Fraction(100, rows))}, "line:-1 is the last row")
  e = exp_geometry(sp.parse_vtt("WEBVTT\n\n00:01.000 --> 00:02.000 line:0\nx\n").cues[0].geometry)
  need(e["anchor"] == ("top", 0), "line:0 is the first row")
  e = exp_geometry(sp.parse_vtt("WEBVTT\n\n00:01.000 --> 00:02.000 line:50%,center\nx\n").cues[0].geometry)
  need(e["anchor"] == ("middle", 50) and e["displayalign"] == "center" and e["textalign"] == "center", "line:50%,center")
  e = exp_geometry({})
  need(e["displayalign"] == "after" and e["textalign"] == "center" and e["anchor"] is None, "no settings: bottom, centred")
  rejects("", "an empty file")
  rejects("WEBVTT\n00:01.000 --> 00:02.000\nx\n", "a cue directly after the signature line")
  rejects("WEBVTT\n\n00:01.000 --> 00:02.000\n<b>x</c>\n", "an end tag that does not match")
  rejects("WEBVTT\n\n00:01.000 --> 00:02.000\n<b>x\n", "an unclosed tag")
  rejects("WEBVTT\n\n00:01.000 --> 00:02.000\nx & y\n", "a bare ampersand")
  rejects("WEBVTT\n\n00:01.000 --> 00:02.000\nx\n\nSTYLE\n::cue {}\n", "STYLE after a cue")
  rejects("WEBVTT\n\n00:01.000 --> 00:02.000 line:101%\nx\n", "a percentage above 100")
  rejects("WEBVTT\n\n00:01.000 --> 00:02.000 align:middle\nx\n", "align:middle")
  rejects("WEBVTT\n\n00:02.000 --> 00:01.000\nx\n", "end before begin")
  rejects("WEBVTT\n\n0:01.000 --> 0:02.000\nx\n", "one-digit minutes")
  rejects("WEBVTT\n\n00:01.000 --> 00:05.000\na<00:06.000>b\n", "a time stamp tag after the cue's end")
  rejects("WEBVTT\n\n00:01.000 --> 00:05.000\n<rt>x</rt>\n", "rt outside ruby")
  rejects("WEBVTT\n\n00:01.000 --> 00:05.000\n<v>x</v>\n", "v without annotation")
  # WebVTT recommendation, cue settings examples (section 1.3/4.4)
  v = sp.parse_vtt("WEBVTT\n\n00:00:00.000 --> 00:00:04.000 position:10%,line-left align:left size:35%\nWhere did he go?\n\n"
                   "00:00:03.000 --> 00:00:06.500 position:90% align:right size:35%\nI think he went down this lane.\n\n"
                   "00:00:04.000 --> 00:00:06.500 position:45%,line-right align:center size:35%\nWhat are you waiting for?\n")
  need(v.cues[0].geometry == {"position": (Fraction(10), "line-left"), "align": "left", "size": Fraction(35)} and
       v.cues[2].geometry["position"] == (Fraction(45), "line-right"), "specification example: position/align/size")
  v = sp.parse_vtt("WEBVTT\n\n00:00:00.000 --> 00:00:04.000 vertical:rl line:0\nx\n\n00:00:05.000 --> 00:00:08.000 line:63.5%,end\ny\n")
  need(v.cues[0].geometry == {"vertical": "rl", "line": ("num", 0, None)} and v.cues[1].geometry["line"] == ("pct", Fraction(127, 2), "end"), "vertical, fractional line")
  # the literals of src/test/python/test_vtt_reader.py: wherever a test asserts something, the parser agrees
  rejects("WEBVTT\n\n02:00.000 --> 02:05.000\n<b>This is bold text</c>\n\n04:00.000 --> 04:05.000\n<i>This is italic</i> and this is not\n",
          "test_sample (its first cue closes <b> with </c>; the test only asserts that a document is returned)")
  v = sp.parse_vtt("WEBVTT\n\n02:00.000 --> 02:05.000\n<b>This is bold text</b>\n")
  need(_flags_of(v.cues[0], "bold") == frozenset(["b"]) and v.cues[0].begin == 120, "test_bold")
  v = sp.parse_vtt("WEBVTT\n\n1\n00:02:16.612 --> 00:02:19.376\nSenator, we're making\nour final approach into Coruscant.\n\n\n2\n00:02:19.482 --> 00:02:21.609\n"
                   "Very good, Lieutenant.\n\n5\n00:03:20.476 --> 00:03:22.671\nThere was no danger at all.\n\n\n\n")
  need([c.ident for c in v.cues] == ["1", "2", "5"] and v.cues[0].lines[1].startswith("our final"), "test_blank_lines")
  v = sp.parse_vtt("WEBVTT\n\n00:02:16.612 --> 00:02:19.376\nHello <i>my</i> name is Bob\n")
  need(_flags_of(v.cues[0], "my") == frozenset(["i"]) and _flags_of(v.cues[0], "name") == frozenset(), "test_italic")
  v = sp.parse_vtt("WEBVTT\n\n00:02:16.612 --> 00:02:19.376\nHello <u>my</u> name is Bob\n")
  need(_flags_of(v.cues[0], "my") == frozenset(["u"]), "test_underline")
  v = sp.parse_vtt("WEBVTT\n\n02:00.000 --> 02:05.000\n<c.blue>This is bold text</c>\n")
  need(_tok_of(v.cues[0], "bold") == frozenset(["color:blue"]), "test_blue")
  v = sp.parse_vtt("WEBVTT\n\n02:00.000 --> 02:05.000\n<c.bg_blue>This is bold text</c>\n")
  need(_tok_of(v.cues[0], "bold") == frozenset(["bg:blue"]), "test_bg_blue")
  v = sp.parse_vtt("WEBVTT\n\n02:00.000 --> 02:05.000\n<lang es-419>Spanish as used in Latin America and the Caribbean</lang>\n")
  need(_tok_of(v.cues[0], "Spanish") == frozenset(["lang:es-419"]), "test_lang")
  v = sp.parse_vtt("WEBVTT\n\n00:02:16.612 --> 00:02:19.376\nHello <b>my\n</b> name is Bob\n")
  need(v.cues[0].lines == ["Hello my", " name is Bob"] and _flags_of(v.cues[0], "my") == frozenset(["b"]), "test_multiline_tags")
  v = sp.parse_vtt("WEBVTT\n\n101:00:00.000 --> 101:00:01.000\nHello my name is Bob\n")
  need(v.cues[0].begin == 363600 and v.cues[0].end == 363601, "test_long_hours")
  v = sp.parse_vtt("WEBVTT\n\n00:00:01.000 --> 00:00:03.000\nHello my name<00:02.000>is Bob\n")
  k = v.cues[0].lines[0].index("is Bob")
  need(v.cues[0].begin == 1 and v.cues[0].ts[k] - v.cues[0].begin == 1 and v.cues[0].ts[0] is None, "test_ts_tag")
  v = sp.parse_vtt("WEBVTT\n\nSTYLE\n::cue { color:lime }\n\n00:00:00.000 --> 00:00:25.000\nRed or green?\n")
  need(len(v.styles) == 1 and len(v.cues) == 1, "test_ignore_style")
  v = sp.parse_vtt("WEBVTT\n\n00:00:00.000 --> 00:00:05.000\n<ruby>.<rt>א<c>א</c></rt>ab)<rt>x</rt></ruby>\n")
  need("".join(x[0] for x in expected_chars(v.cues[0])) == "." + "ab)" + "אא" + "x", "test_ruby")
  # generators produce what they claim
  for fam in (fam_times(), fam_tags(1), fam_tags(2), fam_tags(3), fam_crefs(), fam_settings(), fam_line_range(), fam_layout(), fam_timestamps()):
    for i in sorted({0, 1, fam.n // 3, fam.n // 2, fam.n - 1}):
      n += 1
      try:
        sp.parse_vtt(fam.decode(i)["file"])
      except sp.GrammarError as e:
        raise HarnessError(f"generator {fam.name} index {i} is not grammatical: {e}\n{fam.decode(i)['file']}")
  return {"hand_examples": 24, "webvtt_spec_examples": 2, "repo_test_literals": 14, "generator_probes": 40, "checks": n}


def _tok_of(cue, word):
  ex = expected_chars(cue)
  text = "".join(x[0] for x in ex)
  return ex[text.index(word)][1]


# ---------------------------------------------------------------------------------------------------


def plan(tier, seed):
  global RENDERINGS
  RENDERINGS = QUICK_RENDERINGS if tier == "quick" else ALL_RENDERINGS
  depth = 5 if tier == "quick" else 6
  fams = [
    StateFamily("M-lines", [[], ["H", "B"]], expand_machine, depth, canon0=lambda h: tuple(h), timeout=30,
                note="all line-token sequences from the empty file and after 'WEBVTT, blank'; invariant: no internal exception, cue list of the strict parser when grammatical",
                shrink=shrink_history, check=check_machine_case),
    fam_times(),
    fam_tags(1), fam_tags(2), fam_tags(3), fam_ruby(), fam_crefs(), fam_annotations(), fam_identifiers(), fam_timestamps(),
    fam_tagtokens(4 if tier == "quick" else 5),
    fam_settings(),
    fam_line_range(),
    fam_layout(),
    fam_roundtrip(),
  ]
  return fams

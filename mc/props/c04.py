"""C04 -- reading IMSC/TTML XML follows TTML timing, styling and whitespace semantics (DESIGN.md section 3, C04).

E-inputs: bounded-exhaustive families of well-formed TTML documents (mc/c04fam.py); every document is read by the
REAL `ttconv.imsc.reader.to_model` and by the reference interpreter R_ttml (mc/refttml.py, written from TTML2 /
IMSC 1.1); both results are brought to the same abstraction (timed tree: kind, xml:lang, xml:space, region id,
specified styles, animation steps, active interval; document parameters; initial values) and compared at every
breakpoint of either tree, every midpoint and outside -- which decides all rational times, because both trees are
piecewise constant between neighbouring breakpoints.
E-dev: every seed document with exactly one attribute replaced by each value of a malformed menu: same result as
with the attribute removed, a ttconv.imsc* log record, no exception.
"""
from __future__ import annotations

import xml.etree.ElementTree as ET

from mc import env  # noqa
from mc.kernel import Family, HarnessError, exc_disc, innermost_ttconv_frame
from mc import refttml as R
from mc import c04core as core
from mc import c04fam as fam

ID = "C04"
LEVEL = "exploration"
RULE = ("cases are whole TTML documents enumerated by mixed-radix index per family (distinct by construction within a family); "
        "a timing document is non-trivial when the reference's snapshots over the probe times take >= 2 distinct values "
        "and one shows content; a styling/parameter/whitespace document when the reference assigns a non-default value to "
        "the aspect under test; an E-dev case when the corrupted value is rejected by the reference grammar (all are)")
BOUNDS = {}
ASSUMPTIONS = [
  "R_ttml (mc/refttml.py) is the reference: TTML2 sections 6, 8, 10, 12, 13 and IMSC 1.1 sections 6-8 as restated in DESIGN.md appendix A",
  "snapshots are compared at every breakpoint of either timed tree, midpoints and outside: exact for all rational t",
  "the canonical model means: begin = parent begin + offset, end clipped by the parent's end (doc/data_model.md)",
  "decimal literals become the nearest IEEE double on both sides (the data model stores floats)",
  "for tts:extent/origin/position a percentage equals rw/rh by axis, and a right/bottom percentage p equals left/top 100-p",
]


# ---------------------------------------------------------------------------------------------------
# check of one well-formed document

def check_doc(case, acc):
  xml = case["xml"]
  root = ET.fromstring(xml)
  rdoc = R.interpret(root)
  rc = R.canonical(rdoc)
  doc, _logs, exc = core.real_or_violation(case, acc)
  if doc is None:
    acc.case(f"{case['area']}:exception:{exc}", nontrivial=True, key=case.get("key"))
    return
  ic, raw = core.abstract_model(doc, want_raw=case["area"] in core.TIMED_AREAS)
  if case.get("cyclic"):
    # TTML2: a loop of style references is an error and its resolution is not defined; demanded: termination, no
    # exception, and the element's own inline attributes still win
    nv = _check_cycle(case, root, ic, acc)
    acc.case("graph:cycle" + (":mismatch" if nv else ""), nontrivial=True, key=case.get("key"))
    return
  nv = core.compare(case, rdoc, rc, ic, raw, acc)
  nt, cls = _nontrivial(case, rdoc, rc)
  acc.case(f"{case['area']}:{cls}" + (":mismatch" if nv else ""), nontrivial=nt, key=case.get("key"))


def _find_lang(c, lang):
  if c is None or c[0] == "text":
    return None
  if c[2] == lang:
    return c
  for k in c[9]:
    f = _find_lang(k, lang)
    if f is not None:
      return f
  return None


def _check_cycle(case, root, ic, acc):
  tgt = next((e for e in root.iter() if e.attrib.get(R.q(R.NS_XML, "lang")) == "tg"), None)
  inline = dict(R.norm_styles(R.parse_style_attrs(tgt)))
  node = None
  for c in list(ic["regions"]) + [ic["body"]]:
    node = node or _find_lang(c, "tg")
  got = dict(node[5]) if node is not None else None
  if got is None or any(got.get(p) != v for p, v in inline.items()):
    acc.violation("C04.style.cycle", case.get("d") or "cycle", case, observed=got, expected=inline,
                  note="inline attributes of the element must win whatever a reference loop resolves to")
    return 1
  return 0


def _nontrivial(case, rdoc, rc):
  area = case["area"]
  if area in ("time", "expr", "set", "regiontime"):
    snaps = {R.snapshot(rc, t) for t in R.probe_times(rc)}
    shows = any(s != ((), None) for s in snaps)
    n = len(snaps)
    return (n >= 2 and shows), ("never-active" if not shows else "static" if n < 2 else f"changing{min(n, 6)}")
  if area == "param":
    p = rc["params"]
    nd = p["px"] is not None or p["activeArea"] is not None or p["dar"] is not None or p["cell"] != (32, 15)
    return nd, "non-default" if nd else "default"

  def any_styles(c):
    return c is not None and c[0] != "text" and (bool(c[5]) or bool(c[6]) or any(any_styles(k) for k in c[9]))
  st = bool(rc["initials"]) or any(any_styles(r) for r in rc["regions"]) or any_styles(rc["body"])
  if area in ("graph", "value", "initial"):
    return st, "styled" if st else "unstyled"
  return rc["body"] is not None, "content" if rc["body"] is not None else "empty"


def shrink_doc(case):
  """one-step reductions of the XML: drop an attribute, drop an element (with its tail text), drop a text"""
  try:
    root = ET.fromstring(case["xml"])
  except ET.ParseError:
    return
  n_el = len(list(root.iter()))
  for idx in range(n_el):
    base = list(root.iter())[idx]
    for a in list(base.attrib):
      r2 = ET.fromstring(case["xml"])
      e2 = list(r2.iter())[idx]
      del e2.attrib[a]
      yield dict(case, xml=_ser(r2))
    for ci in range(len(base)):
      r2 = ET.fromstring(case["xml"])
      e2 = list(r2.iter())[idx]
      del e2[ci]
      yield dict(case, xml=_ser(r2))


def _ser(root):
  return ET.tostring(root, encoding="unicode")


def check_dev(case, acc):
  """E-dev: the corrupted attribute must behave as if absent, be logged by ttconv.imsc*, and raise nothing"""
  attr, menu = case["attr"], case["menu"]
  r_bad = R.canonical(R.interpret(ET.fromstring(case["xml"])))
  r_base = R.canonical(R.interpret(ET.fromstring(case["base"])))
  if r_bad != r_base:
    acc.case("dev:value-is-well-formed-for-the-reference", nontrivial=False)     # not a malformed value: nothing is demanded
    return
  try:
    doc_b, logs_b = core.read_real(case["base"])
  except Exception as e:  # pylint: disable=broad-except
    if innermost_ttconv_frame(e.__traceback__) is None:
      raise
    acc.case("dev:seed-raises", nontrivial=False)
    return
  group = "style" if attr.split(":")[0] in ("tts", "itts", "ebutts") and case["on"] != "tt" and attr != "tts:ruby" else f"{attr}@{case['on']}" if attr == "tts:extent" else attr
  try:
    doc_c, logs_c = core.read_real(case["xml"])
  except Exception as e:  # pylint: disable=broad-except
    if innermost_ttconv_frame(e.__traceback__) is None:
      raise
    acc.violation("C04.dev.exception", f"{exc_disc(e)},attr={group}", case, observed=repr(e)[:300],
                  expected="the malformed attribute is ignored and logged", note=f"{attr}={_bad_value(case)!r} on {case['on']}")
    acc.case(f"dev:exception:{type(e).__name__}", nontrivial=True)
    return
  ib, _ = core.abstract_model(doc_b, want_raw=False)
  ic, _ = core.abstract_model(doc_c, want_raw=False)
  feat = _DEV_GROUP.get(attr, attr if group == "style" else group)
  if ib != ic:
    acc.violation("C04.dev.same-as-absent", feat, case, observed=_first_delta(ic, ib), expected="the result for the document without the attribute",
                  note=f"{attr}={_bad_value(case)!r} ({menu}) on {case['on']} changes the result")
    acc.case("dev:changes-meaning", nontrivial=True)
  elif len(logs_c) <= len(logs_b):
    # (when the value changed the result, the missing report is the same defect and is not reported twice)
    acc.violation("C04.dev.logged", feat, case, observed=logs_c, expected="a log record from a ttconv.imsc logger",
                  note=f"{attr}={_bad_value(case)!r} ({menu}) on {case['on']} is ignored silently")
    acc.case("dev:ignored-silently", nontrivial=True)
  else:
    acc.case("dev:ignored+logged", nontrivial=True)


_DEV_GROUP = {"begin": "time-expression", "dur": "time-expression", "end": "time-expression",
              "ttp:frameRate": "tt-parameter", "ttp:frameRateMultiplier": "tt-parameter", "ttp:tickRate": "tt-parameter",
              "ttp:cellResolution": "tt-parameter", "ittp:aspectRatio": "tt-parameter", "ttp:displayAspectRatio": "tt-parameter",
              "tts:color": "colour", "tts:backgroundColor": "colour"}


def _bad_value(case):
  root = ET.fromstring(case["xml"])
  base = ET.fromstring(case["base"])
  for a, b in zip(root.iter(), base.iter()):
    for k, v in a.attrib.items():
      if k not in b.attrib:
        return v
  return None


def _first_delta(a, b):
  for k in ("params", "initials", "regions", "body"):
    if a[k] != b[k]:
      return {k: a[k], "without": b[k]}
  return None


def _family(name, n_decode, note, timeout=20.0, keyed=False):
  n, dec = n_decode

  def decode(i):
    c = dec(i)
    if keyed:
      c["key"] = c["xml"]
    return c
  return Family(name, n, decode, check_doc, shrink=shrink_doc, timeout=timeout, note=note)


def gates():
  return {"hand_examples": 0}


def plan(tier, seed):
  fams = []
  if tier == "quick":
    fams.append(_family("F-time[<=4,full]", fam.fam_time((1, 2, 3, 4), True, False),
                        "all trees <= 4 elements x {par,seq} x begin{-,1s} x dur{-,2s} x end{-,3s} on every node"))
    fams.append(_family("F-time[5,reduced]", fam.fam_time((5,), False, False, True),
                        "all trees of 5 elements, body untimed, per node {par,seq} x {-,begin,end,begin+dur}"))
  else:
    fams.append(_family("F-time[<=4,full,text]", fam.fam_time((1, 2, 3, 4), True, True), "as quick plus text{yes,no} on leaves"))
    fams.append(_family("F-time[5,reduced,body]", fam.fam_time((5,), False, False, False), "5 elements, body timed too"))
    fams.append(_family("F-time[6,reduced]", fam.fam_time((6,), False, False, True), "6 elements, body untimed"))
  fams.append(_family("F-graph[p]", fam.fam_graph(tier != "quick", False),
                      "3 style elements, every reference list of length <= 2 among them incl. a missing id (quick: no mixed missing lists) "
                      "x which of them set tts:color x element references (<= 2, incl. missing) x inline"))
  fams.append(_family("F-graph[region]", fam.fam_graph(False, True), "region target with 0-2 nested style children, nested style with a reference"))
  fams.append(_family("F-value", fam.fam_value(), "every value form of every IMSC 1.1 style attribute x 7 carriers (p, span, region, style, initial, set, nested style)"))
  fams.append(_family("F-spacelang", fam.fam_spacelang(), "xml:space {-,default,preserve} x xml:lang {-,fr,''} on tt, body, p, span"))
  fams.append(_family("F-mixed", fam.fam_mixed(4 if tier == "quick" else 5), "all child sequences of length <= 4 (5) over {text, white space, span, empty span, br, nested mixed span} in p and in span x {par,seq} x xml:space"))
  fams.append(_family("F-ruby", fam.fam_ruby(), "ruby patterns (base/text, delimiters, containers, tts:ruby=none) x text/span content x container timing x annotation timing"))
  fams.append(_family("F-param", fam.fam_param(), "ttp:cellResolution x tts:extent on tt x ittp:activeArea x aspect ratio attributes"))
  fams.append(_family("F-set", fam.fam_set(), "set on body/div/p/span/br/region x target timing x set begin/dur/end x second set"))
  fams.append(_family("F-regiontime", fam.fam_regiontime(), "region begin/dur/end x set child begin/dur/end"))
  fams.append(_family("F-initial", fam.fam_initial(), "pairs of initial properties in one or two initial elements"))
  n_dev, dec_dev = fam.fam_dev()
  fams.append(Family("E-dev", n_dev, dec_dev, check_dev, timeout=20.0,
                     note="every attribute of the seed documents (timing on every kind, parameters, xml:space, style references, tts:ruby, every "
                          "style attribute on 5 carriers) x malformed menu {empty, unknown keyword, non-numeric, extra component, extra junk, junk suffix, missing unit}"))
  fams.append(_family("F-expr", fam.fam_expr(), "every time expression syntax x boundary values x frameRate x multiplier x tickRate x {begin,end,dur}"))
  return fams

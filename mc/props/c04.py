"""C04 -- reading IMSC/TTML XML follows TTML timing, styling and whitespace semantics (DESIGN.md section 3, C04).

E-inputs: bounded-exhaustive families of well-formed TTML documents (mc/c04fam.py); every document is read by the
REAL `ttconv.imsc.reader.to_model` and by the reference interpreter R_ttml (mc/refttml.py, written from TTML2 /
IMSC 1.1); both results are brought to the same abstraction (timed tree: kind, xml:lang, xml:space, region id,
specified styles, animation steps, active interval; document parameters; initial values) and compared at every
breakpoint of either tree, every midpoint and outside -- which decides all rational times, because both trees are
piecewise constant between neighbouring breakpoints.
E-dev: every seed document with exactly one attribute replaced by each value of a malformed menu: same result as
with the attribute removed, a ttconv.imsc* log record, no exception.
"""
from __future__ import annotations

import xml.etree.ElementTree as ET

from mc import env  # noqa
from mc.kernel import Family, HarnessError, exc_disc, innermost_ttconv_frame
from mc import refttml as R
from mc import c04core as core
from mc import c04fam as fam

ID = "C04"
LEVEL = "exploration"
RULE = ("cases are whole TTML documents enumerated by mixed-radix index per family (distinct by construction within a family); "
        "a timing document is non-trivial when the reference's snapshots over the probe times take >= 2 distinct values "
        "and one shows content; a styling/parameter/whitespace document when the reference assigns a non-default value to "
        "the aspect under test; an E-dev case when the corrupted value is rejected by the reference grammar (all are)")
BOUNDS = {
  "quick": "F-time: all element trees over {body,div,p,span,br,set} of depth <= 4 with <= 4 elements x the full product of "
           "{par,seq} x begin{-,1s} x dur{-,2s} x end{-,3s} on every node (set: begin/dur/end; body of 4-element trees: {par,seq} x "
           "{-,begin,end,begin+dur}; every node of the 5-element trees: {par,seq} x {-,end,begin+dur}, their body untimed), text on leaf p/span, set "
           "children only in par containers; F-expr: 9 syntaxes x 5-9 boundary values x frameRate{-,24,25,30} x multiplier{-,1000 1001} x "
           "tickRate{-,1,10000000} x {begin,end,dur}; F-graph: 3 style elements x reference lists {[],a,b,ab,ba,missing} each x which set "
           "tts:color x element references (12 lists of <= 2 incl. a missing id) x inline, target p; region target with 0-2 nested styles "
           "and a nested style with a reference; F-value: every value form of the 36 IMSC 1.1 style attributes x 7 carriers; F-spacelang "
           "3^4 x 3^4; F-mixed: child sequences <= 4 over 6 tokens x {p,span} x {par,seq} x xml:space; F-ruby; F-param; F-set; "
           "F-regiontime; F-initial; E-dev: every attribute of 4 structural seeds and of 2 value forms x 5 carriers per style attribute "
           "x 7 malformed values",
  "thorough": "as quick with: F-time <= 4 elements additionally text{yes,no} on every leaf and the full domain on body; 5-element trees "
              "with body timed; all 6-element trees (body untimed, per node {par,seq} x {-,end,begin+dur}); F-graph with the mixed missing-id reference lists (10 per style); "
              "F-mixed sequences <= 5",
}
ASSUMPTIONS = [
  "R_ttml (mc/refttml.py) is the reference: TTML2 sections 6, 8, 10, 12, 13 and IMSC 1.1 sections 6-8 as restated in DESIGN.md appendix A",
  "snapshots are compared at every breakpoint of either timed tree, midpoints and outside: exact for all rational t",
  "the canonical model means: begin = parent begin + offset, end clipped by the parent's end (doc/data_model.md)",
  "decimal literals become the nearest IEEE double on both sides (the data model stores floats)",
  "for tts:extent/origin/position a percentage equals rw/rh by axis, and a right/bottom percentage p equals left/top 100-p",
]


# ---------------------------------------------------------------------------------------------------
# check of one well-formed document

def check_doc(case, acc):
  xml = case["xml"]
  root = ET.fromstring(xml)
  rdoc = R.interpret(root)
  rc = R.canonical(rdoc)
  doc, _logs, exc = core.real_or_violation(case, acc)
  if doc is None:
    acc.case(f"{case['area']}:exception:{exc}", nontrivial=True, key=case.get("key"))
    return
  ic, raw = core.abstract_model(doc, want_raw=case["area"] in core.TIMED_AREAS)
  if case.get("cyclic"):
    # TTML2: a loop of style references is an error and its resolution is not defined; demanded: termination, no
    # exception, and the element's own inline attributes still win
    nv = _check_cycle(case, root, ic, acc)
    acc.case("graph:cycle" + (":mismatch" if nv else ""), nontrivial=True, key=case.get("key"))
    return
  nv = core.compare(case, rdoc, rc, ic, raw, acc)
  nt, cls = _nontrivial(case, rdoc, rc)
  acc.case(f"{case['area']}:{cls}" + (":mismatch" if nv else ""), nontrivial=nt, key=case.get("key"))


def _find_lang(c, lang):
  if c is None or c[0] == "text":
    return None
  if c[2] == lang:
    return c
  for k in c[9]:
    f = _find_lang(k, lang)
    if f is not None:
      return f
  return None


def _check_cycle(case, root, ic, acc):
  tgt = next((e for e in root.iter() if e.attrib.get(R.q(R.NS_XML, "lang")) == "tg"), None)
  inline = dict(R.norm_styles(R.parse_style_attrs(tgt)))
  node = None
  for c in list(ic["regions"]) + [ic["body"]]:
    node = node or _find_lang(c, "tg")
  got = dict(node[5]) if node is not None else None
  if got is None or any(got.get(p) != v for p, v in inline.items()):
    acc.violation("C04.style.cycle", case.get("d") or "cycle", case, observed=got, expected=inline,
                  note="inline attributes of the element must win whatever a reference loop resolves to")
    return 1
  return 0


def _nontrivial(case, rdoc, rc):
  area = case["area"]
  if area in ("time", "expr", "set", "regiontime"):
    # number of distinct snapshots over time, bounded below by the breakpoints of the reference tree
    bps = R.breakpoints(rc)
    shows = rc["body"] is not None or bool(rc["regions"])
    n = len(bps) + (1 if bps and bps[0] > 0 else 0)
    return (n >= 2 and shows), ("never-active" if not shows else "static" if n < 2 else f"changing{min(n, 6)}")
  if area == "param":
    p = rc["params"]
    nd = p["px"] is not None or p["activeArea"] is not None or p["dar"] is not None or p["cell"] != (32, 15)
    return nd, "non-default" if nd else "default"

  def any_styles(c):
    return c is not None and c[0] != "text" and (bool(c[5]) or bool(c[6]) or any(any_styles(k) for k in c[9]))
  st = bool(rc["initials"]) or any(any_styles(r) for r in rc["regions"]) or any_styles(rc["body"])
  if area in ("graph", "value", "initial"):
    return st, "styled" if st else "unstyled"
  return rc["body"] is not None, "content" if rc["body"] is not None else "empty"


_XML_LANG = R.q(R.NS_XML, "lang")
_XML_ID = R.q(R.NS_XML, "id")
_KEEP_ATTRS = {"region", "style", _XML_ID}
_KEEP_TAGS = {R.q(R.NS_TT, t) for t in ("head", "styling", "layout", "body")}


def shrink_doc(case):
  """one-step reductions of the XML: drop an attribute, drop an element (with its tail text), drop a text"""
  try:
    root = ET.fromstring(case["xml"])
  except ET.ParseError:
    return
  n_el = len(list(root.iter()))
  for idx in range(n_el):
    base = list(root.iter())[idx]
    for a in list(base.attrib):
      if a in _KEEP_ATTRS or (a == _XML_LANG and case.get("area") in core.TIMED_AREAS):
        continue
      r2 = ET.fromstring(case["xml"])
      e2 = list(r2.iter())[idx]
      del e2.attrib[a]
      yield dict(case, xml=_ser(r2))
    for ci in range(len(base)):
      if base[ci].tag in _KEEP_TAGS or _XML_ID in base[ci].attrib:
        continue
      r2 = ET.fromstring(case["xml"])
      e2 = list(r2.iter())[idx]
      del e2[ci]
      yield dict(case, xml=_ser(r2))


def _ser(root):
  return ET.tostring(root, encoding="unicode")


def check_dev(case, acc):
  """E-dev: the corrupted attribute must behave as if absent, be logged by ttconv.imsc*, and raise nothing"""
  attr, menu = case["attr"], case["menu"]
  r_bad = R.canonical(R.interpret(ET.fromstring(case["xml"])))
  r_base = R.canonical(R.interpret(ET.fromstring(case["base"])))
  if r_bad != r_base:
    acc.case("dev:value-is-well-formed-for-the-reference", nontrivial=False)     # not a malformed value: nothing is demanded
    return
  try:
    doc_b, logs_b = core.read_real(case["base"])
  except Exception as e:  # pylint: disable=broad-except
    if innermost_ttconv_frame(e.__traceback__) is None:
      raise
    acc.case("dev:seed-raises", nontrivial=False)
    return
  group = "style" if attr.split(":")[0] in ("tts", "itts", "ebutts") and case["on"] != "tt" and attr != "tts:ruby" else f"{attr}@{case['on']}" if attr == "tts:extent" else attr
  try:
    doc_c, logs_c = core.read_real(case["xml"])
  except Exception as e:  # pylint: disable=broad-except
    if innermost_ttconv_frame(e.__traceback__) is None:
      raise
    acc.violation("C04.dev.exception", f"{exc_disc(e)},attr={group}", case, observed=repr(e)[:300],
                  expected="the malformed attribute is ignored and logged", note=f"{attr}={_bad_value(case)!r} on {case['on']}")
    acc.case(f"dev:exception:{type(e).__name__}", nontrivial=True)
    return
  ib, _ = core.abstract_model(doc_b, want_raw=False)
  ic, _ = core.abstract_model(doc_c, want_raw=False)
  feat = _DEV_GROUP.get(attr, attr if group == "style" else group)
  if ib != ic:
    acc.violation("C04.dev.same-as-absent", feat, case, observed=_first_delta(ic, ib), expected="the result for the document without the attribute",
                  note=f"{attr}={_bad_value(case)!r} ({menu}) on {case['on']} changes the result")
    acc.case("dev:changes-meaning", nontrivial=True)
  elif len(logs_c) <= len(logs_b):
    # (when the value changed the result, the missing report is the same defect and is not reported twice)
    acc.violation("C04.dev.logged", feat, case, observed=logs_c, expected="a log record from a ttconv.imsc logger",
                  note=f"{attr}={_bad_value(case)!r} ({menu}) on {case['on']} is ignored silently")
    acc.case("dev:ignored-silently", nontrivial=True)
  else:
    acc.case("dev:ignored+logged", nontrivial=True)


_DEV_GROUP = {"begin": "time-expression", "dur": "time-expression", "end": "time-expression",
              "ttp:frameRate": "tt-parameter", "ttp:frameRateMultiplier": "tt-parameter", "ttp:tickRate": "tt-parameter",
              "ttp:cellResolution": "tt-parameter", "ittp:aspectRatio": "tt-parameter", "ttp:displayAspectRatio": "tt-parameter",
              "tts:color": "colour", "tts:backgroundColor": "colour"}


def _bad_value(case):
  root = ET.fromstring(case["xml"])
  base = ET.fromstring(case["base"])
  for a, b in zip(root.iter(), base.iter()):
    for k, v in a.attrib.items():
      if k not in b.attrib:
        return v
  return None


def _first_delta(a, b):
  for k in ("params", "initials", "regions", "body"):
    if a[k] != b[k]:
      return {k: a[k], "without": b[k]}
  return None


def _family(name, n_decode, note, timeout=20.0, keyed=False):
  n, dec = n_decode

  def decode(i):
    c = dec(i)
    if keyed:
      c["key"] = c["xml"]
    return c
  return Family(name, n, decode, check_doc, shrink=shrink_doc, timeout=timeout, note=note)


def _intervals(canon):
  """{xml:lang marker: (begin, end)} of the elements of a canonical timed tree (first occurrence wins)"""
  out = {}

  def rec(c):
    if c is None or c[0] == "text":
      return
    out.setdefault(c[2] if c[1] != "region" else c[4], (c[7], c[8]))
    for k in c[9]:
      rec(k)
  for r in canon["regions"]:
    rec(r)
  rec(canon["body"])
  return out


def _ref(xml):
  return R.canonical(R.interpret(ET.fromstring(xml)))


def gates():
  """(a) hand-computed TTML2/SMIL examples, (b) the repository's own pinned expectations, replayed through R_ttml"""
  from fractions import Fraction as F
  el, tt, head = core.el, core.tt, core.head
  n_a = n_b = 0

  def want_intervals(name, body, exp, attrs=None, hd=""):
    nonlocal n_a
    got = _intervals(_ref(tt(hd + body, attrs)))
    exp = {k: (F(v[0]), None if v[1] is None else F(v[1])) for k, v in exp.items()}
    if got != exp:
      raise HarnessError(f"R_ttml gate (a) {name}: got {got}, hand-computed {exp}")
    n_a += 1

  L = lambda m, **a: dict({"xml:lang": m}, **a)
  # G1 par: offsets relative to the parent's begin; implicit end of an offset container = latest child end
  want_intervals("par-offsets", el("body", L("b"), [el("div", L("d", begin="1s"), [el("p", L("p", begin="1s", end="3s"), ["x"])])]),
                 {"b": (0, 4), "d": (1, 4), "p": (2, 4)})
  # G2/G3 seq: each child is relative to the end of its predecessor, begin AND end
  want_intervals("seq-dur", el("body", L("b"), [el("div", L("d", timeContainer="seq"), [el("p", L("p1", dur="2s"), ["x"]), el("p", L("p2", dur="3s"), ["y"])])]),
                 {"b": (0, 5), "d": (0, 5), "p1": (0, 2), "p2": (2, 5)})
  want_intervals("seq-begin-end", el("body", L("b"), [el("div", L("d", timeContainer="seq"), [el("p", L("p1", begin="1s", dur="2s"), ["x"]),
                                                                                                   el("p", L("p2", begin="1s", end="3s"), ["y"])])]),
                 {"b": (0, 6), "d": (0, 6), "p1": (1, 3), "p2": (4, 6)})
  want_intervals("seq-10-20", el("body", L("b"), [el("div", L("d", timeContainer="seq"), [el("p", L("p1", dur="10s"), ["x"]), el("p", L("p2", dur="10s"), ["y"])])]),
                 {"b": (0, 20), "d": (0, 20), "p1": (0, 10), "p2": (10, 20)})
  # G4 active end = min(begin + dur, end)
  want_intervals("dur-end-min", el("body", L("b"), [el("div", L("d"), [el("p", L("p1", begin="1s", dur="2s", end="10s"), ["x"]),
                                                                        el("p", L("p2", begin="1s", dur="20s", end="3s"), ["y"])])]),
                 {"b": (0, 3), "d": (0, 3), "p1": (1, 3), "p2": (1, 3)})
  # G5 an indefinite child of a seq: the next one never begins
  want_intervals("seq-indefinite", el("body", L("b"), [el("div", L("d"), [el("p", L("p", timeContainer="seq"), [el("span", L("s1"), ["a"]), el("span", L("s2"), ["b"])])])]),
                 {"b": (0, None), "d": (0, None), "p": (0, None), "s1": (0, None)})
  # G6 an anonymous span in a seq has zero duration
  c = _ref(tt(el("body", L("b"), [el("div", L("d"), [el("p", L("p", timeContainer="seq"), ["x", el("span", L("s", dur="1s"), ["y"])])])])))
  if _intervals(c) != {"b": (F(0), F(1)), "d": (F(0), F(1)), "p": (F(0), F(1)), "s": (F(0), F(1))} or "'x'" in repr(R.snapshot(c, F(1, 2))):
    raise HarnessError("R_ttml gate (a) anonymous span in seq")
  n_a += 1
  # G7 set: relative to the begin of the animated element
  c = _ref(tt(el("body", L("b"), [el("div", L("d"), [el("p", L("p", begin="1s"), [el("set", {"begin": "1s", "dur": "2s", "tts:color": "red"}), "x"])])])))
  for t, red in ((F(3, 2), False), (F(2), True), (F(39, 10), True), (F(4), False)):
    if ("Color" in repr(R.snapshot(c, t))) != red:
      raise HarnessError(f"R_ttml gate (a) set at t={t}")
  n_a += 1
  # G8 clipping by the parent; G12 accumulated offsets; G11 empty containers have zero implicit duration
  want_intervals("clip", el("body", L("b"), [el("div", L("d", end="2s"), [el("p", L("p", end="5s"), ["x"])])]), {"b": (0, 2), "d": (0, 2), "p": (0, 2)})
  want_intervals("nested-offsets", el("body", L("b", begin="1s"), [el("div", L("d", begin="1s"), [el("p", L("p", begin="1s", dur="1s"), ["x"])])]),
                 {"b": (1, 4), "d": (2, 4), "p": (3, 4)})
  want_intervals("empty", el("body", L("b"), [el("div", L("d"))]), {})
  want_intervals("empty-sibling", el("body", L("b"), [el("div", L("d")), el("div", L("e", dur="2s"))]), {"b": (0, 2), "e": (0, 2)})
  # G9 frames, frame rate multiplier, clock time with frames, ticks
  P = "http://www.w3.org/ns/ttml#parameter"
  want_intervals("frames-multiplier", el("body", L("b"), [el("div", L("d"), [el("p", L("p", end="24f"), ["x"])])]),
                 {"b": (0, F(1001, 1000)), "d": (0, F(1001, 1000)), "p": (0, F(1001, 1000))}, {"ttp:frameRate": "24", "ttp:frameRateMultiplier": "1000 1001"})
  want_intervals("clock-frames", el("body", L("b"), [el("div", L("d"), [el("p", L("p", begin="00:00:01:12", end="15000000t"), ["x"])])]),
                 {"b": (0, F(3, 2)), "d": (0, F(3, 2)), "p": (F(37, 25), F(3, 2))}, {"ttp:frameRate": "25", "ttp:tickRate": "10000000"})
  want_intervals("default-frame-rate-30", el("body", L("b"), [el("div", L("d"), [el("p", L("p", end="15f"), ["x"])])]),
                 {"b": (0, F(1, 2)), "d": (0, F(1, 2)), "p": (0, F(1, 2))})
  # G10 region timing; br in seq
  want_intervals("region", el("body", L("b"), [el("div", L("d"), [el("p", L("p", region="r1", end="9s"), ["x"])])]),
                 {"r1": (1, 3), "b": (0, 9), "d": (0, 9), "p": (0, 9)}, None, head("", el("region", {"xml:id": "r1", "begin": "1s", "end": "3s"})))
  # styling: inline > nested > referential (later wins) > chained
  st = el("style", {"xml:id": "a", "tts:color": "red", "tts:fontStyle": "italic"}) + el("style", {"xml:id": "b", "tts:color": "green", "style": "a"}) + \
       el("style", {"xml:id": "c", "tts:color": "blue", "tts:fontWeight": "bold"})
  c = _ref(tt(head(st, el("region", {"xml:id": "r1", "style": "b"}, [el("style", {"tts:color": "aqua"}), el("style", {"tts:color": "purple"})])) +
              el("body", L("b"), [el("div", L("d"), [el("p", L("p1", style="b c"), ["x"]), el("p", L("p2", style="c b", **{"tts:fontWeight": "normal"}), ["y"])])])))
  snap = R.snapshot(c, F(0))
  p1, p2 = snap[1][5][0][5][0], snap[1][5][0][5][1]
  if dict(p1[4]) != {"Color": ("C", 0, 0, 255, 255), "FontStyle": ("E", "italic"), "FontWeight": ("E", "bold")} or \
     dict(p2[4]) != {"Color": ("C", 0, 128, 0, 255), "FontStyle": ("E", "italic"), "FontWeight": ("E", "normal")} or \
     dict(snap[0][0][4]) != {"Color": ("C", 128, 0, 128, 255), "FontStyle": ("E", "italic")}:
    raise HarnessError(f"R_ttml gate (a) style precedence: {p1[4]} {p2[4]} {snap[0][0][4]}")
  n_a += 1

  # ---- (b) the repository's own pinned expectations
  import importlib
  import os
  import sys
  tdir = os.path.join(env.REPO, "src", "test", "python")
  sys.path.insert(0, tdir)
  try:
    # time expressions (effective rate 24000/1001 = 24 x 1000/1001, tick rate 60)
    m = importlib.import_module("test_imsc_time_expressions")
    for expr, _eff, tick, exp in m.IMSCTimeExpressionsTest.tests:
      got = R.parse_time(expr, 24, F(1000, 1001), F(tick))
      if got != exp:
        raise HarnessError(f"R_ttml gate (b) time expression {expr}: {got} != {exp}")
      n_b += 1
    for bad, fr in (("100:00:00:100", 24), ("100:00:00;01", 24)):
      try:
        R.parse_time(bad, fr, F(1), F(60))
        raise HarnessError(f"R_ttml gate (b): {bad} accepted")
      except R.Malformed:
        n_b += 1
    m = importlib.import_module("test_imsc_color_parser")
    for txt, exp in m.IMSCReaderTest.tests:
      if R.p_color(txt) != ("C",) + tuple(exp.components):
        raise HarnessError(f"R_ttml gate (b) colour {txt}")
      n_b += 1
    try:
      R.p_color("#red")
      raise HarnessError("R_ttml gate (b): #red accepted")
    except R.Malformed:
      n_b += 1
    m = importlib.import_module("test_imsc_font_families_parser")
    for txt, exp in m.IMSCReaderTest._parse_tests:  # pylint: disable=protected-access
      want = tuple(x if isinstance(x, str) else ("E", "monospaceSerif" if x.value == "default" else x.value) for x in exp)
      if R.p_font_family(txt) != ("ff", want):
        raise HarnessError(f"R_ttml gate (b) font family {txt}: {R.p_font_family(txt)}")
      n_b += 1
    m = importlib.import_module("test_imsc_position_parser")
    for txt, (he, ho, ve, vo) in m.IMSCPositionTest.tests:
      want = ("pos", ("L", ho.value, ho.units.value), ("L", vo.value, vo.units.value), he, ve)
      if R.p_position(txt) != want:
        raise HarnessError(f"R_ttml gate (b) position {txt!r}: {R.p_position(txt)} != {want}")
      n_b += 1
    for txt, st, pos in (("dot after", "filled_dot", "after"), ("dot before", "filled_dot", "before"), ("filled after", "filled_circle", "after"),
                         ("open before", "open_circle", "before")):      # test_imsc_reader.test_text_emphasis
      v = R.p_text_emphasis(txt)
      if v[1] != st or v[3] != pos:
        raise HarnessError(f"R_ttml gate (b) text emphasis {txt}")
      n_b += 1
  finally:
    sys.path.remove(tdir)
  res = os.path.join(env.RES, "ttml")
  f = os.path.join(res, "referential_styling.ttml")          # test_imsc_reader.test_referential_styling
  if os.path.exists(f):
    c = R.canonical(R.interpret(ET.parse(f).getroot()))
    snap = R.snapshot(c, F(0))
    col = lambda n, p: dict(n[4]).get(p)
    green, blue, black, yellow, red = (("C", 0, 128, 0, 255), ("C", 0, 0, 255, 255), ("C", 0, 0, 0, 255), ("C", 255, 255, 0, 255), ("C", 255, 0, 0, 255))
    divs, regs = snap[1][5], snap[0]
    exp = [(divs[0], "Color", green), (divs[0], "BackgroundColor", blue), (divs[1], "Color", black), (divs[1], "BackgroundColor", blue),
           (regs[0], "Color", blue), (regs[0], "BackgroundColor", yellow), (regs[1], "Color", red), (regs[1], "BackgroundColor", yellow)]
    for node, p, v in exp:
      if col(node, p) != v:
        raise HarnessError(f"R_ttml gate (b) referential_styling.ttml: {node[0]} {p} = {col(node, p)}, the repository's test asserts {v}")
      n_b += 1
  f = os.path.join(res, "body_only.ttml")                     # test_cell_resolution style literal; the file must simply be readable
  if os.path.exists(f):
    rd = R.interpret(ET.parse(f).getroot())
    if rd.cell != (38, 12) or rd.body.styles.get("LineHeight") != ("L", 25.0, "%") or rd.body.region != "r1" or len(rd.regions) != 1:
      raise HarnessError("R_ttml gate (b) body_only.ttml")
    n_b += 1
  if _ref('<tt xml:lang="en" xmlns="http://www.w3.org/ns/ttml" xmlns:ttp="http://www.w3.org/ns/ttml#parameter" ttp:cellResolution="32 15"/>')["params"]["cell"] != (32, 15):
    raise HarnessError("R_ttml gate (b) test_cell_resolution")
  n_b += 1
  # test_isd_lwsp: the words of every text run, in order, and the xml:space of the run (white-space collapsing itself is C13's)
  for fn, exp in (("lwsp_default.ttml", [["hello", "my name", "is Mathilda"], ["bonjour", "mon nom", "<br>", "est"]]),
                  ("lwsp_preserve.ttml", [["hello", "my name", "is Mathilda"]])):
    f = os.path.join(res, fn)
    if not os.path.exists(f):
      continue
    c = R.canonical(R.interpret(ET.parse(f).getroot()))
    snap = R.snapshot(c, F(0))
    got = []
    for p in snap[1][5][0][5]:
      runs = []
      for k in p[5]:
        runs.append("<br>" if k[0] == "br" else " ".join(" ".join(x[1] for x in k[5] if x[0] == "text").split()))
      got.append([r for r in runs if r])          # runs of white space only are dropped by the ISD stage the test looks at
    if got != exp:
      raise HarnessError(f"R_ttml gate (b) {fn}: {got} != {exp}")
    if fn == "lwsp_preserve.ttml":
      sp = snap[1][5][0][5][0][5][1]
      if sp[2] != "preserve" or sp[5][0][1] != " my \nname ":
        raise HarnessError("R_ttml gate (b) lwsp_preserve.ttml preserve span")
    n_b += 1
  return {"hand_examples": n_a, "repo_pinned_expectations": n_b}


def plan(tier, seed):
  fams = []
  if tier == "quick":
    fams.append(_family("F-time[<=4,full]", fam.fam_time((1, 2, 3, 4), True, False, body_reduced_from=4),
                        "all trees <= 4 elements x {par,seq} x begin{-,1s} x dur{-,2s} x end{-,3s} on every node (body of 4-element trees: {-,begin,end,begin+dur})"))
    fams.append(_family("F-time[5,reduced]", fam.fam_time((5,), "red3", False, True),
                        "all trees of 5 elements, body untimed, per node {par,seq} x {-,end,begin+dur}"))
  else:
    fams.append(_family("F-time[<=4,full,text]", fam.fam_time((1, 2, 3, 4), True, True), "as quick plus text{yes,no} on leaves"))
    fams.append(_family("F-time[5,reduced,body]", fam.fam_time((5,), False, False, False), "5 elements, body timed too"))
    fams.append(_family("F-time[6,reduced]", fam.fam_time((6,), "red3", False, True), "6 elements, body untimed, per node {par,seq} x {-,end,begin+dur}"))
  fams.append(_family("F-graph[p]", fam.fam_graph(tier != "quick", False),
                      "3 style elements, every reference list of length <= 2 among them incl. a missing id (quick: no mixed missing lists) "
                      "x which of them set tts:color x element references (<= 2, incl. missing) x inline"))
  fams.append(_family("F-graph[region]", fam.fam_graph(False, True), "region target with 0-2 nested style children, nested style with a reference"))
  fams.append(_family("F-refsep", fam.fam_refsep(), "style reference lists separated / padded by every kind of XML white space (space, two spaces, tab, LF, CR) on p and on a style element"))
  fams.append(_family("F-value", fam.fam_value(), "every value form of every IMSC 1.1 style attribute x 7 carriers (p, span, region, style, initial, set, nested style)"))
  fams.append(_family("F-spacelang", fam.fam_spacelang(), "xml:space {-,default,preserve} x xml:lang {-,fr,''} on tt, body, p, span"))
  fams.append(_family("F-mixed", fam.fam_mixed(4 if tier == "quick" else 5), "all child sequences of length <= 4 (5) over {text, white space, span, empty span, br, nested mixed span} in p and in span x {par,seq} x xml:space"))
  fams.append(_family("F-ruby", fam.fam_ruby(), "ruby patterns (base/text, delimiters, containers, tts:ruby=none) x text/span content x container timing x annotation timing"))
  fams.append(_family("F-param", fam.fam_param(), "ttp:cellResolution x tts:extent on tt x ittp:activeArea x aspect ratio attributes"))
  fams.append(_family("F-set", fam.fam_set(), "set on body/div/p/span/br/region x target timing x set begin/dur/end x second set"))
  fams.append(_family("F-regiontime", fam.fam_regiontime(), "region begin/dur/end x set child begin/dur/end"))
  fams.append(_family("F-initial", fam.fam_initial(), "pairs of initial properties in one or two initial elements"))
  n_dev, dec_dev = fam.fam_dev()
  fams.append(Family("E-dev", n_dev, dec_dev, check_dev, timeout=20.0,
                     note="every attribute of the seed documents (timing on every kind, parameters, xml:space, style references, tts:ruby, every "
                          "style attribute on 5 carriers) x malformed menu {empty, unknown keyword, non-numeric, extra component, extra junk, junk suffix, missing unit}"))
  fams.append(_family("F-expr", fam.fam_expr(), "every time expression syntax x boundary values x frameRate (incl. malformed: ignored) x multiplier x tickRate x {begin,end,dur}"))
  return fams

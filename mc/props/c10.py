"""C10 — the SRT reader reproduces every cue's time, lines and formatting exactly (DESIGN.md section 3, C10).

E-states : the file-level machine COUNTER -> TC -> TEXT driven by ALL line-token sequences up to the depth bound
           over {blank, blank-with-spaces, counter, time-code line, text line, tagged line} (+ implicit EOF), each
           rendered with LF, LF without final newline, and CR LF.  Invariant per history: no internal exception; for
           sequences that are grammatical SubRip, exactly the cue list of the independent strict parser.
E-inputs : the cue grammar: every millisecond value x hour/minute/second corners (exactness clauses), tag trees of
           depth <= 3 in angle and brace syntax, file lay-outs (1-3 cues, 1-5 lines, LF/CRLF, blank-line runs, 2/3
           hour digits), unbalanced tag sequences (no internal exception), and the SRT writer's own output.

Files reach the reader the way `tt convert` hands them over (mc.readerio.read_file_like_tt).
Oracle: mc.strictparse.parse_srt (independent of ttconv) -> per cue one paragraph, exact times, lines, per
character style flags.
"""
from __future__ import annotations

import math
import re
import traceback
from fractions import Fraction

from mc import env  # noqa
from mc.kernel import Family, StateFamily, HarnessError, exc_disc
from mc.docgen import Product
from mc import strictparse as sp
from mc.readerio import read_file_like_tt, LogTap, INTERNAL
from mc.spec import build, node, text as tnode, doc_spec

import ttconv.model as model
import ttconv.srt.reader as srt_reader
import ttconv.srt.writer as srt_writer
from ttconv.srt.config import SRTWriterConfiguration
import ttconv.imsc.writer as imsc_writer
from ttconv.imsc.config import IMSCWriterConfiguration
from ttconv.imsc.attributes import TimeExpressionSyntaxEnum
from ttconv.style_properties import StyleProperties as SP, FontWeightType, FontStyleType

ID = "C10"
LEVEL = "model_checking"
RULE = ("E-states: a state is a sequence of line tokens (the file prefix); every sequence up to the depth bound is "
        "executed on the real reader in three renderings (no merging: the reader's machine state is local to "
        "to_model, so the history itself is the canonical key); a history is non-trivial when it contains a counter "
        "and a time-code line (the machine leaves COUNTER). E-inputs: every index of every family is executed; a "
        "case is non-trivial when the file is grammatical SubRip with >= 1 cue (the full oracle applies); distinct "
        "by file text")
BOUNDS = {
  "quick": "E-states: all sequences of <= 7 tokens over 6 line tokens x 3 renderings; E-inputs: hours "
           "{00,01,99,100,999} x min/sec {00,59} x all 1000 ms as begin and as end, fps {24,25,30} direct and through "
           "the IMSC writer in frames mode; 10 tag-tree shapes (depth <= 3) x 19 tag spellings per slot; lay-out "
           "product (1-3 cues x 1-5 lines x LF/CRLF x leading/separating/trailing blank runs x 2/3 hour digits x 4 "
           "payload styles); all tag-token sequences <= 4; SRT writer round trip over 1296 documents x 2 configurations",
  "thorough": "as quick with E-states depth 8 and tag-token sequences <= 5",
}
ASSUMPTIONS = [
  "mc.strictparse.parse_srt is the grammar of the statement (bound by gates(): hand examples + the literals of test_srt_reader.py)",
  "a line of only spaces/tabs counts as a blank line (SubRip has no formal grammar; checked under its own clause prefix C10.wsblank)",
  "{b}/{i}/{u} and {bold}/{italic}/{underline} are the brace spellings; a brace font tag is not demanded",
  "character references and '&' in SubRip text are not generated (the statement is silent about them)",
  "a real temporary file opened with open(path, 'r', encoding='utf-8') stands for the file tt convert opens",
]

FPS = (24, 25, 30)

# ---------------------------------------------------------------------------------------------------
# running the reader


def run_reader(text: str):
  """-> ("doc", doc, tap) | ("none", None, tap) | ("exc", exception, tap)"""
  with LogTap() as tap:
    try:
      doc = read_file_like_tt(srt_reader.to_model, text.encode("utf-8"))
    except Exception as e:  # pylint: disable=broad-except
      return "exc", e, tap
  return ("none" if doc is None else "doc"), doc, tap


def exc_sig(e: BaseException, via="srt/reader.py"):
  """Type@innermost ttconv frame<innermost frame inside the reader module"""
  inner = exc_disc(e)
  v = None
  for fs in traceback.extract_tb(e.__traceback__):
    fn = fs.filename.replace("\\", "/")
    if fn.endswith("/ttconv/" + via):
      v = fs.name
  return f"{inner}<{v}" if v and not inner.endswith(f"{via}:{v}") else inner


# ---------------------------------------------------------------------------------------------------
# observed and expected per-character records


def _span_flags(e, flags):
  b, i, u, c = flags
  fw = e.get_style(SP.FontWeight)
  if fw is not None:
    b = fw is FontWeightType.bold
  fs = e.get_style(SP.FontStyle)
  if fs is not None:
    i = fs is FontStyleType.italic
  td = e.get_style(SP.TextDecoration)
  if td is not None and td.underline is not None:
    u = bool(td.underline)
  col = e.get_style(SP.Color)
  if col is not None:
    c = tuple(col.components)
  return (b, i, u, c)


def _tok(flags):
  b, i, u, c = flags
  s = set()
  if b:
    s.add("b")
  if i:
    s.add("i")
  if u:
    s.add("u")
  if c is not None:
    s.add(sp.color_token(c))
  return frozenset(s)


def _walk_obs(e, flags, chars):
  for ch in e:
    if isinstance(ch, model.Text):
      t = _tok(flags)
      for x in ch.get_text():
        chars.append((x, t))
    elif isinstance(ch, model.Br):
      chars.append(("\n", _tok(flags)))
    else:
      _walk_obs(ch, _span_flags(ch, flags), chars)


def observe(doc):
  """[{begin, end, chars:[(char, frozenset)]}] for every paragraph of the document, in document order"""
  out = []
  body = doc.get_body()
  if body is None:
    return out
  for div in body:
    for p in div:
      chars = []
      _walk_obs(p, (False, False, False, None), chars)
      out.append({"begin": p.get_begin(), "end": p.get_end(), "chars": chars, "kind": type(p).__name__})
  return out


def syntax_class(syn):
  kind, name = syn.split(":")
  if name == "font":
    return "font"
  return f"{kind}-{'short' if len(name) == 1 else 'long'}"


def _walk_exp(tree, flags, syn, chars):
  for n in tree:
    if n[0] == "text":
      t = _tok(flags)
      for x in n[1]:
        chars.append((x, t, syn))
    elif n[0] == "tag":
      b, i, u, c = flags
      if n[1] == "b":
        b = True
      elif n[1] == "i":
        i = True
      elif n[1] == "u":
        u = True
      elif n[1] == "font" and n[3] is not None:          # a font tag without colour leaves the colour as it is
        c = sp.norm_color(n[3])
      _walk_exp(n[5], (b, i, u, c), syn | {syntax_class(n[4])}, chars)


def expected_chars(cue):
  chars = []
  _walk_exp(cue.tree, (False, False, False, None), frozenset(), chars)
  return chars


def _tag_literals(tree, out):
  for n in tree:
    if n[0] == "tag":
      kind, name = n[4].split(":")
      lit = ("<%s" % name) if kind == "angle" else ("{%s}" % name)
      out.append((lit, syntax_class(n[4])))
      _tag_literals(n[5], out)


def _kinds(tokens):
  return "+".join(sorted({"color" if t.startswith("color:") else t for t in tokens})) or "-"


# ---------------------------------------------------------------------------------------------------
# oracle


def compare(prefix, cues, doc, acc, case, frames=True):
  """all clauses for a grammatical file; returns an outcome-class string"""
  obs = observe(doc)
  if len(obs) != len(cues) or any(o["kind"] != "P" for o in obs):
    acc.violation(f"{prefix}.cues", "count", case, observed=len(obs), expected=len(cues),
                  note="each cue becomes one paragraph: the number of paragraphs differs from the number of cues")
    return "cue-count-differs"
  outcome = "agrees"
  styled = False
  tfloat = False
  for k, (cue, o) in enumerate(zip(cues, obs)):
    # times
    for which, val, exact in (("begin", o["begin"], cue.begin), ("end", o["end"], cue.end)):
      if isinstance(val, bool) or not isinstance(val, (int, Fraction)):
        acc.violation(f"{ID}.time.exact", f"type={type(val).__name__}", case, observed=repr(val), expected=str(exact),
                      note=f"cue {k} {which} is not an int or a Fraction: the printed decimal went through a binary float")
        tfloat = True
        if not isinstance(val, float) or abs(Fraction(val) - exact) > Fraction(1, 10 ** 6):
          acc.violation(f"{ID}.time.exact", "value", case, observed=repr(val), expected=str(exact), note=f"cue {k} {which}")
          continue
      elif val != exact:
        acc.violation(f"{ID}.time.exact", "value", case, observed=repr(val), expected=str(exact), note=f"cue {k} {which}")
        continue
      if frames:
        for fps in FPS:
          want = math.ceil(exact * fps)
          got = math.ceil(val * Fraction(fps))
          if got != want:
            acc.violation(f"{ID}.time.frame", "off-frame", case, observed=got, expected=want,
                          note=f"cue {k} {which}={cue.begin_text if which == 'begin' else cue.end_text}: ceil(t*{fps}) is not the intended frame")
    # lines
    exp = expected_chars(cue)
    etext = "".join(c for c, _t, _s in exp)
    otext = "".join(c for c, _t in o["chars"])
    if any(t for _c, t, _s in exp):
      styled = True
    if etext != otext:
      lits = []
      _tag_literals(cue.tree, lits)
      left = sorted({cls for lit, cls in lits if lit in otext})
      if left:
        acc.violation(f"{ID}.tags", "literal:" + "+".join(left), case, observed=otext, expected=etext,
                      note=f"cue {k}: a tag of the grammar is not recognised and stays in the text")
      else:
        import html
        dsc = "linecount" if etext.count("\n") != otext.count("\n") else "text"
        if dsc == "text" and html.unescape(etext) == otext:
          dsc = "text:character-reference-decoded"      # SubRip has no character references: '&amp;' in a file is five characters
        acc.violation(f"{prefix}.lines", dsc, case, observed=otext, expected=etext, note=f"cue {k}: lines differ")
      outcome = "text-differs"
      continue
    for (c, et, syn), (_c2, ot) in zip(exp, o["chars"]):
      if c != "\n" and et != ot:
        acc.violation(f"{ID}.tags", f"missing={_kinds(et - ot)},extra={_kinds(ot - et)}", case, observed=sorted(ot), expected=sorted(et),
                      note=f"cue {k}: style flags of character {c!r} in {etext!r} (enclosing tag syntaxes: {'+'.join(sorted(syn)) or '-'})")
        outcome = "flags-differ"
        break
  if frames and outcome == "agrees" and cues:
    _imsc_frames(prefix, cues, doc, acc, case)
  if outcome == "agrees" and styled:
    outcome = "agrees-styled"
  return outcome + ("+time-not-exact" if tfloat else "")


def _imsc_frames(prefix, cues, doc, acc, case):
  for fps in FPS:
    cfg = IMSCWriterConfiguration(time_format=TimeExpressionSyntaxEnum.frames, fps=Fraction(fps))
    try:
      tree = imsc_writer.from_model(doc, cfg)
    except Exception as e:  # pylint: disable=broad-except
      acc.violation(f"{ID}.time.imsc", "exception:" + exc_disc(e), case, observed=repr(e)[:200])
      return
    ps = [el for el in tree.getroot().iter() if el.tag.endswith("}p")]
    got = [(el.attrib.get("begin"), el.attrib.get("end")) for el in ps]
    want = [(f"{math.ceil(c.begin * fps)}f", f"{math.ceil(c.end * fps)}f") for c in cues]
    if got != want:
      acc.violation(f"{ID}.time.imsc", "off-frame", case, observed=got[:3], expected=want[:3],
                    note=f"IMSC writer, time_format=frames fps={fps}: written begin/end is not the intended frame")
      return


_TC_LINE = re.compile(r"\d\d,\d{3}\s+-->\s+\d")
_ANY_END = re.compile(r"</([A-Za-z]+)>")
_ANY_TAG = re.compile(r"<(/?)([A-Za-z]+)[^<>]*>")


def crash_feature(text):
  """coarse, syntactic cause class of an internal exception (keeps signatures narrow)"""
  lines = sp.split_lines(text)
  for k, ln in enumerate(lines):
    if _TC_LINE.search(ln) and (k + 1 >= len(lines) or lines[k + 1].strip() == ""):
      return "cue-without-text"
  depth = 0
  for m in _ANY_TAG.finditer(text):
    if m.group(1):
      depth -= 1
      if depth < 0:
        return "stray-end-tag"
    else:
      depth += 1
  return "-"


def check_text(text, acc, case, ws_clause=False, frames=True):
  """runs the reader on `text` and evaluates every clause; returns (outcome, grammatical)"""
  prefix = ID
  try:
    cues = sp.parse_srt(text)
  except sp.GrammarError:
    cues = None
    if ws_clause:
      try:
        cues = sp.parse_srt(text, ws_blank=True)
        prefix = f"{ID}.wsblank"
      except sp.GrammarError:
        cues = None
  kind, res, tap = run_reader(text)
  if kind == "exc":
    if isinstance(res, INTERNAL):
      feat = crash_feature(text)
      acc.violation(f"{ID}.noexc", feat if feat != "-" else exc_sig(res), case, observed=f"{exc_sig(res)}: {res!r}"[:300],
                    note="internal exception escaped from the SRT reader")
      return f"internal-{type(res).__name__}", cues is not None
    if cues is not None:
      acc.violation(f"{prefix}.rejects", exc_sig(res), case, observed=repr(res)[:300], note="a grammatical file is rejected")
      return "grammatical-rejected", True
    return f"rejected-{type(res).__name__}", False
  if kind == "none":
    if cues is not None:
      acc.violation(f"{prefix}.cues", "returned-None", case, observed=[m for _l, m in tap.records][:3], expected=f"{len(cues)} cues",
                    note="a grammatical file is refused (to_model returned None)")
      return "grammatical-refused", True
    return "refused", False
  if cues is None:
    return "ungrammatical-read", False
  out = compare(prefix, cues, res, acc, case, frames=frames)
  if "\r" in text:
    # the same characters handed over as a text stream that does not translate line ends (io.StringIO keeps CR LF): the
    # reader has to cope with CR LF itself and must build the same document
    import io
    from mc.spec import fp_doc
    try:
      with LogTap():
        doc2 = srt_reader.to_model(io.StringIO(text), None, lambda _: None)
      same = doc2 is not None and fp_doc(doc2) == fp_doc(res)
    except Exception as e:  # pylint: disable=broad-except
      same, doc2 = False, repr(e)[:200]
    if not same:
      acc.violation(f"{ID}.eol", "in-memory-stream-keeps-CR", case, observed=str(doc2)[:200] if not hasattr(doc2, "get_body") else "document differs",
                    expected="the document read from the same file opened in text mode", note="CR LF line ends in a stream without newline translation")
  return (f"{len(cues)}cue:" if len(cues) < 3 else "3+cue:") + out + (":ws" if prefix != ID else ""), True


# ---------------------------------------------------------------------------------------------------
# E-states: the file-level machine

TOKENS = ["B", "S", "N", "T", "X", "G"]
_WORDS = ["alpha", "bravo", "carol", "delta", "echo", "fox", "golf", "hotel", "india"]


def token_line(tok, k):
  if tok == "B":
    return ""
  if tok == "S":
    return "  " if k % 2 == 0 else " \t"
  if tok == "N":
    return str(k + 1)
  if tok == "T":
    h = "00" if k % 2 == 0 else "100"
    return f"{h}:00:{k:02d},{(137 * (k + 1)) % 1000:03d} --> {h}:00:{k + 1:02d},{(29 * (k + 3)) % 1000:03d}"
  if tok == "X":
    return f"{_WORDS[k % 9]} text"
  if tok == "G":
    return f"<b>{_WORDS[k % 9]}</b> and <i>it<u>al</u></i>"
  raise ValueError(tok)


RENDERINGS = [("lf", "\n", True), ("lf-noeol", "\n", False), ("crlf", "\r\n", True)]


def render(history, eol, final):
  lines = [token_line(t, k) for k, t in enumerate(history)]
  s = eol.join(lines)
  if lines and final:
    s += eol
  return s


def expand_machine(history, acc):
  history = list(history)
  outs = []
  gram = False
  for name, eol, final in RENDERINGS:
    if name != "lf" and (not history or (not final and token_line(history[-1], len(history) - 1) == "")):
      continue      # an empty last line cannot be written without its line terminator
    text = render(history, eol, final)
    o, g = check_text(text, acc, {"history": history, "rendering": name}, ws_clause=True, frames=False)
    outs.append(o)
    gram = gram or g
    acc.count("renderings")
  o = outs[0] if len(set(outs)) == 1 else "renderings-differ:" + "|".join(sorted(set(outs)))
  if len(set(outs)) > 1 and not any(x.startswith("internal") for x in outs):
    # the three renderings denote the same SubRip file: the classification must not depend on the line ends
    acc.violation(f"{ID}.eol", "renderings-differ", {"history": history}, observed=outs, expected="same outcome for LF / no final EOL / CRLF")
  acc.case(o, nontrivial=("N" in history and "T" in history))
  if len(history) % 3 == 0 and gram:
    acc.sample({"history": history, "file": render(history, "\n", True)})
  return [(t, tuple(history) + (t,)) for t in TOKENS]


def check_machine_case(case, acc):
  expand_machine(case["history"], acc)


def shrink_history(case):
  h = list(case["history"])
  for i in range(len(h)):
    yield {"history": h[:i] + h[i + 1:]}


# ---------------------------------------------------------------------------------------------------
# E-inputs: generic file case


def check_file(case, acc):
  text = case["file"]
  o, g = check_text(text, acc, case, ws_clause=False, frames=case.get("frames", True))
  acc.case(o, nontrivial=g, key=text)


def shrink_file(case):
  """one-step reductions: drop a line; drop one tag token; drop one word"""
  text = case["file"]
  eol = "\r\n" if "\r\n" in text else "\n"
  lines = text.split(eol)
  for i in range(len(lines)):
    c = dict(case)
    c["file"] = eol.join(lines[:i] + lines[i + 1:])
    yield c
  for m in list(re.finditer(r"</?[A-Za-z][^<>]*>|\{/?[A-Za-z]+\}", text)):
    c = dict(case)
    c["file"] = text[:m.start()] + text[m.end():]
    yield c
  for m in list(re.finditer(r" [a-z]+", text)):
    c = dict(case)
    c["file"] = text[:m.start()] + text[m.end():]
    yield c


def _file_family(name, n, make_text, note="", frames=True, timeout=20.0):
  def decode(i):
    return {"file": make_text(i), "frames": frames}
  return Family(name, n, decode, check_file, shrink=shrink_file, timeout=timeout, note=note)


# --- times

HOURS = ["00", "01", "99", "100", "999"]
MS60 = ["00", "59"]


def _all_times():
  out = []
  for h in HOURS:
    for m in MS60:
      for s in MS60:
        for ms in range(1000):
          out.append((int(h) * 3600 + int(m) * 60 + int(s), ms, f"{h}:{m}:{s},{ms:03d}"))
  out.sort(key=lambda x: (x[0], x[1]))
  return [x[2] for x in out]


def fam_times():
  times = _all_times()

  def make(i):
    return f"1\n{times[i]} --> {times[i + 1]}\nframe exact\n"
  return _file_family("F-times", len(times) - 1, make,
                      "every (hour, minute, second, millisecond) corner as begin and as end of a one-cue file")


# --- tag trees

TAGS = (
  [(f"<{t}>", f"</{t}>") for t in ("b", "i", "u")]
  + [(f"<{t}>", f"</{t}>") for t in ("bold", "italic", "underline")]
  + [("{%s}" % t, "{/%s}" % t) for t in ("b", "i", "u")]
  + [("{%s}" % t, "{/%s}" % t) for t in ("bold", "italic", "underline")]
  + [('<font color="red">', "</font>"), ('<font color="#00ff00">', "</font>"), ("<font color='#0000ffcc'>", "</font>"),
     ('<font color="#ff000000">', "</font>"),        # alpha 00 is a value, not an absent component
     ('<font color="rgb(255, 128, 0)">', "</font>"),  # functional notation, three different components
     ('<font face="Arial">', "</font>"), ("<s>", "</s>")]   # tags without effect on the styles of the statement: they must nest all the same
)

# shapes: A B C are tag slots, words are text, "|" is a line break
SHAPES = {
  1: ["pre A( one ) post", "A( one | two )"],
  2: ["A( one )B( two )", "pre A( one ) B( two ) post", "A(B( one ))", "pre A( one B( two ) three ) post",
      "pre A( one B( two | three ) four ) | post", "A( one ) | B( two )"],
  3: ["A(B(C( one )))", "A( one B( two C( three ) four ) five )"],
}


def _shape_text(shape, tags):
  # "X(" opens the tag of slot X, ")" closes the innermost open slot
  res = []
  stack = []
  i = 0
  src = shape
  while i < len(src):
    ch = src[i]
    if ch in "ABC" and i + 1 < len(src) and src[i + 1] == "(":
      k = "ABC".index(ch)
      res.append(tags[k][0])
      stack.append(tags[k][1])
      i += 2
      continue
    if ch == ")":
      res.append(stack.pop())
      i += 1
      continue
    res.append(ch)
    i += 1
  s = "".join(res)
  s = re.sub(r"\s*\|\s*", "\n", s)
  return s


def fam_tags(nslots):
  shapes = SHAPES[nslots]
  prod = Product([range(len(shapes))] + [range(len(TAGS))] * nslots)

  def make(i):
    ch = prod.decode(i)
    payload = _shape_text(shapes[ch[0]], [TAGS[k] for k in ch[1:]])
    return f"1\n00:00:01,000 --> 00:00:02,500\n{payload}\n"
  return _file_family(f"F-tags[{nslots}]", prod.n, make, f"{len(shapes)} tag-tree shapes x {len(TAGS)} tag spellings per slot", frames=False)


# --- lay-out

PAYLOAD_STYLES = ["plain", "inline", "spanning", "indented", "amp-tail", "lt-tail"]


def _payload(nlines, style, j):
  lines = [f"{_WORDS[(j * 5 + k) % 9]} line {'one two three four five'.split()[k]}" for k in range(nlines)]
  if style == "inline":
    lines[0] = f"<i>{lines[0]}</i>"
    lines[-1] = lines[-1] + " <b>end</b>"
  elif style == "spanning":
    lines[0] = "<b>" + lines[0]
    lines[-1] = lines[-1] + "</b>"
  elif style == "indented":
    lines = ["  " + ln + " " for ln in lines]
  elif style == "amp-tail":
    # an ampersand that starts no character reference is text; at the very end of a cue a streaming parser may hold it back
    lines[0] = "R&D " + lines[0]
    lines[-1] = lines[-1] + " Q&A"
  elif style == "lt-tail":
    lines[-1] = lines[-1] + " 1 <"
  return lines


def fam_layout():
  prod = Product([[1, 2, 3], [1, 2, 3, 4, 5], ["\n", "\r\n"], [0, 1, 3], [1, 2, 4], ["none", "nl", "blank2"], [2, 3], PAYLOAD_STYLES])

  def make(i):
    ncues, nlines, eol, lead, sep, trail, hd, style = prod.decode(i)
    lines = [""] * lead
    for j in range(ncues):
      if j:
        lines += [""] * sep
      h = f"{j:02d}" if hd == 2 else f"{100 + j}"
      lines.append(str(j + 1))
      lines.append(f"{h}:0{j}:1{j},{(j * 333 + 7) % 1000:03d} --> {h}:0{j}:2{j},{(j * 211 + 280) % 1000:03d}")
      lines += _payload(((nlines + j - 1) % 5) + 1 if j else nlines, style, j)
    s = eol.join(lines)
    if trail == "nl":
      s += eol
    elif trail == "blank2":
      s += eol * 3
    return s
  return _file_family("F-layout", prod.n, make, "cues x lines x EOL x blank runs x final EOL x hour digits x payload style")


# --- unbalanced / arbitrary tag token sequences

TAGTOKENS = ["<b>", "</b>", "</i>", "x", "\n", "{b}"]


def fam_tagtokens(maxlen):
  counts = [len(TAGTOKENS) ** k for k in range(1, maxlen + 1)]
  total = sum(counts)

  def make(i):
    k = 1
    for c in counts:
      if i < c:
        break
      i -= c
      k += 1
    toks = Product([TAGTOKENS] * k).decode(i)
    return "1\n00:00:01,000 --> 00:00:02,000\n" + "".join(toks) + "\n"
  return _file_family(f"F-tagtokens[<={maxlen}]", total, make,
                      "every payload of <= n tokens over {<b>,</b>,</i>,x,NL,{b}}: grammatical ones fully judged, the others only for internal exceptions",
                      frames=False)


# --- round trip with the SRT writer

BOLD = ["E", "FontWeightType", "bold"]
ITALIC = ["E", "FontStyleType", "italic"]
UNDER = ["td", True, None, None]
RED = ["C", 255, 0, 0, 255]
BLUE = ["C", 0, 0, 255, 255]
OUTER = [{"FontWeight": BOLD}, {"FontStyle": ITALIC}, {"TextDecoration": UNDER}, {"Color": RED},
         {"FontWeight": BOLD, "FontStyle": ITALIC}, {"Color": RED, "TextDecoration": UNDER}]
INNER = [{"FontStyle": ITALIC}, {"Color": BLUE}, {"FontWeight": BOLD}]
SPAN_SHAPES = ["plain", "styled", "nested2", "nested3", "adjacent", "styled-br", "entity-like"]
TIMINGS = ["sequential", "overlapping"]


def _p(j, shape, outer, inner, b, e):
  w = _WORDS[(3 * j) % 9]

  def sp_(c, st=None, sid=None):
    return node("span", c, st=st, id=sid)
  if shape == "plain":
    kids = [sp_([tnode(f"{w} plain")])]
  elif shape == "styled":
    kids = [sp_([tnode("pre ")]), sp_([tnode(f"{w} styled")], outer), sp_([tnode(" post")])]
  elif shape == "nested2":
    kids = [sp_([tnode("out "), sp_([tnode(f"{w} in")], inner), tnode(" out")], outer)]
  elif shape == "nested3":
    kids = [sp_([tnode("a "), sp_([tnode("b "), sp_([tnode(f"{w} c")], {"TextDecoration": UNDER}), tnode(" b")], inner), tnode(" a")], outer)]
  elif shape == "adjacent":
    kids = [sp_([tnode(f"{w} one")], outer), sp_([tnode("two")], inner)]
  elif shape == "entity-like":
    # document text that spells a character reference: SubRip has no references, the written characters are the text
    kids = [sp_([tnode(f"{w} R&amp;D &lt;3")])]
  else:
    kids = [sp_([tnode(f"{w} up"), {"k": "br"}, tnode("down")], outer), {"k": "br"}, sp_([tnode("last")])]
  return node("p", kids, id=f"p{j}", b=b, e=e)


def roundtrip_spec(ch):
  np_, timing, shape, oi, ii = ch
  ps = []
  for j in range(np_):
    if timing == "sequential":
      b, e = Fraction(j * 2) + Fraction(j * 7 + 1, 1000), Fraction(j * 2 + 1) + Fraction(280 + j, 1000)
    else:
      b, e = Fraction(j, 2) + Fraction(28, 100), Fraction(3) + Fraction(j, 4)
    ps.append(_p(j, SPAN_SHAPES[(SPAN_SHAPES.index(shape) + j) % len(SPAN_SHAPES)] if j else shape, OUTER[(oi + j) % len(OUTER)], INNER[(ii + j) % len(INNER)], b, e))
  return doc_spec(node("body", [node("div", ps, id="d")], id="b"), [])


RT_PROD = Product([[1, 2, 3], TIMINGS, SPAN_SHAPES, range(len(OUTER)), range(len(INNER)), [True, False]])


def check_roundtrip(case, acc):
  if "file" in case:          # a violation record of this family carries the writer's output: replay it directly
    return check_file(case, acc)
  spec = case["spec"]
  doc = build(spec)
  with LogTap():
    try:
      out = srt_writer.from_model(doc, SRTWriterConfiguration(text_formatting=bool(case["text_formatting"])))
    except Exception as e:  # pylint: disable=broad-except
      # the writer is C06/C07's subject; C10 only speaks about outputs the writer returns
      acc.case(f"writer-raises-{type(e).__name__}")
      return
  try:
    cues = sp.parse_srt(out)
  except sp.GrammarError as e:
    acc.case("writer-output-ungrammatical")
    acc.count("writer-output-ungrammatical")
    return
  sub = {"file": out, "from": "srt-writer", "text_formatting": case["text_formatting"]}
  o, _g = check_text(out, acc, sub, frames=True)
  acc.case("rt:" + o, nontrivial=bool(cues), key=out)


def fam_roundtrip():
  def decode(i):
    ch = RT_PROD.decode(i)
    return {"spec": roundtrip_spec(ch[:5]), "text_formatting": ch[5]}
  return Family("F-roundtrip", RT_PROD.n, decode, check_roundtrip, timeout=30,
                note="documents (1-3 p, nested styled spans, br, sequential/overlapping timing) -> SRT writer -> strict parser = expected -> reader")


# ---------------------------------------------------------------------------------------------------
# gates: the strict parser against hand-written examples and the literals of the repository's own reader tests


def _flags_of(cue, word):
  text = "".join(c for c, _ in cue.runs)
  k = text.index(word)
  return cue.runs[k][1]


def gates():
  n = 0

  def need(cond, what):
    nonlocal n
    n += 1
    if not cond:
      raise HarnessError(f"strict SRT parser gate failed: {what}")

  def rejects(text, what):
    nonlocal n
    n += 1
    try:
      sp.parse_srt(text)
    except sp.GrammarError:
      return
    raise HarnessError(f"strict SRT parser gate failed: accepts {what}")

  # hand-written examples
  c = sp.parse_srt("1\n00:00:00,280 --> 00:00:01,000\nab\n")
  need(len(c) == 1 and c[0].begin == Fraction(7, 25) and c[0].end == 1 and c[0].lines == ["ab"], "0,280 is 7/25")
  c = sp.parse_srt("\n\n7\n999:59:59,998 --> 999:59:59,999\nx\n")
  need(c[0].begin == Fraction(3599999998, 1000) and c[0].ident == "7", "three-digit hours, leading blank lines")
  c = sp.parse_srt("1\r\n00:00:01,000 --> 00:00:02,000\r\na <b>b <i>c</i></b>\r\n{u}d{/u}\r\n\r\n\r\n2\r\n00:00:03,000 --> 00:00:04,000\r\ne")
  need(len(c) == 2 and c[0].lines == ["a b c", "d"] and c[1].lines == ["e"], "CRLF, blank run, no final EOL")
  need(_flags_of(c[0], "c") == frozenset(["b", "i"]) and _flags_of(c[0], "d") == frozenset(["u"]) and _flags_of(c[0], "a") == frozenset(),
       "nested tags and brace syntax scope")
  c = sp.parse_srt('1\n00:00:01,000 --> 00:00:02,000\n<font color="#FF0000">r</font><font color=\'lime\'>g</font>\n')
  need(_flags_of(c[0], "r") == frozenset(["color:#ff0000ff"]) and _flags_of(c[0], "g") == frozenset(["color:#00ff00ff"]), "font colours")
  rejects("1\n00:00:01,000 --> 00:00:02,000\n", "a cue without text")
  rejects("1\n00:00:01,000 --> 00:00:02,000\na</b>\n", "a stray end tag")
  rejects("1\n00:00:01,000 --> 00:00:02,000\n<b>a\n", "an unclosed tag")
  rejects("1\n00:00:01,000 --> 00:00:02,000\n<b>a<i>b</b></i>\n", "mis-nested tags")
  rejects("00:00:01,000 --> 00:00:02,000\na\n", "a missing counter")
  rejects("1\n00:00:01,000 --> 00:00:02,000\na\n2\n00:00:03,000 --> 00:00:04,000\nb\n", "cues not separated by a blank line")
  rejects("1\n00:61:01,000 --> 00:62:02,000\na\n", "minutes > 59")
  rejects("1\n0:00:01,000 --> 0:00:02,000\na\n", "one-digit hours")
  rejects("1\n00:00:02,000 --> 00:00:01,000\na\n", "end before begin")
  need(len(sp.parse_srt("1\n00:00:01,000 --> 00:00:02,000\na\n  \n", ws_blank=True)) == 1, "ws_blank")

  # the literals of src/test/python/test_srt_reader.py: wherever the test asserts something, the parser agrees
  sample = ("1\n00:02:16,612 --> 00:02:19,376\nSenator, we're making\nour final approach into Coruscant.\n\n2\n00:02:19,482 --> 00:02:21,609\n"
            "Very good, Lieutenant.\n\n3\n00:03:13,336 --> 00:03:15,167\nWe made it.\n\n4\n00:03:18,608 --> 00:03:20,371\nI guess I was wrong.\n\n"
            "5\n00:03:20,476 --> 00:03:22,671\nThere was no danger at all.")
  c = sp.parse_srt(sample)
  need(len(c) == 5 and c[0].begin == Fraction(136612, 1000) and c[0].lines[1] == "our final approach into Coruscant.", "test_sample")
  blank = ("\n\n1\n00:02:16,612 --> 00:02:19,376\nSenator, we're making\nour final approach into Coruscant.\n\n\n2\n00:02:19,482 --> 00:02:21,609\n"
           "Very good, Lieutenant.\n\n5\n00:03:20,476 --> 00:03:22,671\nThere was no danger at all.\n\n\n\n")
  c = sp.parse_srt(blank)
  need([q.ident for q in c] == ["1", "2", "5"], "test_blank_lines")
  for tag_o, tag_c, tok, name in (("<bold>", "</bold>", "b", "test_bold"), ("{bold}", "{/bold}", "b", "test_bold_alt"),
                                  ("<italic>", "</italic>", "i", "test_italic"), ("{italic}", "{/italic}", "i", "test_italic_alt"),
                                  ("<underline>", "</underline>", "u", "test_underline"), ("{underline}", "{/underline}", "u", "test_underline_alt")):
    c = sp.parse_srt(f"1\n00:02:16,612 --> 00:02:19,376\nHello {tag_o}my{tag_c} name is Bob\n")
    need(_flags_of(c[0], "my") == frozenset([tok]) and _flags_of(c[0], "name") == frozenset(), name)
  c = sp.parse_srt("1\n00:02:16,612 --> 00:02:19,376\nHello <font color='blue'>my</font> name is Bob\n")
  need(_flags_of(c[0], "my") == frozenset(["color:#0000ffff"]), "test_blue")
  c = sp.parse_srt("1\n00:02:16,612 --> 00:02:19,376\nHello <bold>my\n</bold> name is Bob\n")
  need(c[0].lines == ["Hello my", " name is Bob"] and _flags_of(c[0], "my") == frozenset(["b"]), "test_multiline_tags")
  c = sp.parse_srt("1\n101:00:00,000 --> 101:00:01,000\nHello <bold>my</bold> name is Bob\n")
  need(c[0].begin == 363600 and c[0].end == 363601, "test_long_hours")
  c = sp.parse_srt("1\n101:00:00,000 --> 101:00:01,000\nHello\nWorld\n")
  need(c[0].lines == ["Hello", "World"], "test_multiline_text")
  # and the generators only produce what they claim
  for fam in (fam_times(), fam_tags(1), fam_tags(2), fam_tags(3), fam_layout()):
    for i in sorted({0, 1, fam.n // 3, fam.n // 2, fam.n - 1}):
      n += 1
      try:
        sp.parse_srt(fam.decode(i)["file"])
      except sp.GrammarError as e:
        raise HarnessError(f"generator {fam.name} index {i} is not grammatical: {e}")
  return {"hand_examples": 16, "repo_test_literals": 14, "generator_probes": 25, "checks": n}


# ---------------------------------------------------------------------------------------------------


def plan(tier, seed):
  depth = 7 if tier == "quick" else 8
  fams = [
    StateFamily("M-lines", [[]], expand_machine, depth, canon0=lambda h: tuple(h), timeout=30,
                note="all line-token sequences; invariant: no internal exception, cue list of the strict parser when grammatical",
                shrink=shrink_history, check=check_machine_case),
    fam_times(),
    fam_tags(1), fam_tags(2), fam_tags(3),
    fam_layout(),
    fam_tagtokens(4 if tier == "quick" else 5),
    fam_roundtrip(),
  ]
  return fams

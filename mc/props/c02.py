"""C02 — the presentation changes only at the reported significant times (DESIGN.md section 3, C02).

Differential oracle exactly as the property states it; no reference model needed:
  T = significant_times(doc) strictly increasing;
  for every probe q: fingerprint(ISD(q)) == fingerprint(ISD(max{s in T, s <= q})), and no content before T[0];
  generate_isd_sequence(doc) == [(s, ISD(s)) for s in T], in order.
Probe times: closure of offset sums (incl. absolute begin + animation offsets) + midpoints + outside.
"""
from __future__ import annotations

import bisect
from fractions import Fraction as F

from mc import env  # noqa
from mc.kernel import Family
from mc import docgen
from mc.docgen import Product
from mc.spec import build, fp_isd, fp_isd_render, walk, node, text, doc_spec
from mc.ref_isd import probe_times, abstract_isd
from mc.props import c01

from ttconv.isd import ISD

ID = "C02"
LEVEL = "exploration"
RULE = ("cases are documents (complete mixed-radix families), each probed at every critical time, midpoint and outside "
        "time; a document is non-trivial when its snapshots take >= 3 distinct fingerprints over the probes; distinct "
        "by family index")
BOUNDS = {
  "quick": "C01 quick families (timing chains, region assignments <=6 nodes timed, display lattices, ruby, cross) + "
           "F-anim: element/region at offset {1,3/2} with 1-2 set steps (begin {-,1,2} x end {-,1,2,3}) on display/"
           "color/opacity/showBackground",
  "thorough": "C01 thorough families + F-anim with 3 steps",
}
ASSUMPTIONS = [
  "as C01: snapshots are constant between neighbouring critical times, so probing K, midpoints and outside covers all rational times",
  "'empty before the first significant time' is read as: no text or br leaf in any region",
]


def _leaves(isd):
  return sum(len(v) for v in abstract_isd(isd).values())


def check_doc(case, acc):
  spec = case["spec"]
  try:
    doc = build(spec)
  except Exception:  # pylint: disable=broad-except
    acc.case("invalid-spec")
    return
  probes = [q for q in (case.get("times") or probe_times(spec))]
  try:
    st = ISD.significant_times(doc)
    T = list(st)
  except ValueError as e:
    # ruby containers that are partially active cannot be snapshotted (known finding of C01); nothing to compare
    acc.case("snapshot-raises")
    raise
  c = {"spec": spec}
  if any(not (a < b) for a, b in zip(T, T[1:])):
    acc.violation("C02.increasing", "order", c, observed=T, expected="strictly increasing")
  fps = {}

  def snap(t):
    if t not in fps:
      fps[t] = fp_isd(ISD.from_model(doc, t))
    return fps[t]

  seen = set()
  first_nonempty = None
  for q in probes:
    acc.count("probes")
    isd_q = ISD.from_model(doc, q)
    f_q = fp_isd(isd_q)
    seen.add(f_q)
    if first_nonempty is None and _leaves(isd_q) > 0:
      first_nonempty = q
    i = bisect.bisect_right(T, q) - 1
    if i < 0:
      if _leaves(isd_q) > 0:
        acc.violation("C02.before-first", "content", {"spec": spec, "times": [q]}, observed=f"content at {q}", expected=f"empty before {T[:1]}")
      continue
    s = T[i]
    if f_q != snap(s):
      acc.violation("C02.complete", _disc(spec, T, s, q), {"spec": spec, "times": [q]},
                    observed={"t": q, "snapshot_differs_from": s}, expected=f"ISD({q}) == ISD({s}); significant times {[str(x) for x in T]}",
                    note="a change of the presentation falls between two reported significant times")
  if first_nonempty is not None and T and T[0] > first_nonempty:
    acc.violation("C02.first", "late", c, observed=T[0], expected=f"<= {first_nonempty}")
  # the generated sequence is exactly the snapshots at T
  seq = ISD.generate_isd_sequence(doc)
  if [t for t, _ in seq] != T:
    acc.violation("C02.sequence.times", "times", c, observed=[t for t, _ in seq], expected=T)
  else:
    for t, isd in seq:
      if fp_isd_render(isd) != fp_isd_render(ISD.from_model(doc, t)):
        acc.violation("C02.sequence.snapshot", "snapshot", {"spec": spec, "times": [t]}, observed=f"sequence entry at {t} differs from ISD.from_model(doc, {t})")
        break
  nt = len(seen) >= 3
  acc.case("multi-change" if nt else "few-changes", nontrivial=nt, key=case.get("key") or repr(spec))


def _disc(spec, T, s, q):
  """Narrow discriminator: is the missed change instant (in (s, q]) the boundary of an animation step of an
  element that does not begin together with its parent?  (that is the one listed finding)"""
  from mc.ref_isd import _interval
  cands = []

  def rec(n, pb, pe, is_region):
    if n["k"] == "text":
      return
    b, e = (pb, pe) if n["k"] == "br" else _interval(n, pb, pe)
    for _p, ab, ae, _v in n.get("an") or []:
      sb, se = _interval({"b": ab, "e": ae}, b, e)
      psb, pse = _interval({"b": ab, "e": ae}, pb, pe)
      for x, px in ((sb, psb), (se, pse)):
        if x is not None and x != px:
          cands.append(x)
    for c in n.get("c") or []:
      rec(c, b, e, False)
  for r in spec.get("regions") or []:
    rec(dict(r, k="region"), F(0), None, True)
  if spec.get("body"):
    rec(spec["body"], F(0), None, False)
  if any(s < x <= q and x not in T for x in cands):
    return "missed=animation-step-boundary-of-offset-element"
  return "missed=other"


# ---------------------------------------------------------------------------------------------------

RED = ["C", 255, 0, 0, 255]
STEP_TIMES = [(b, e) for b in (None, F(1), F(2)) for e in (None, F(1), F(2), F(3)) if b is None or e is None or b < e]
ANIM_VALUES = {
  "region": [("Display", docgen.NONE), ("Opacity", 0.5), ("ShowBackground", ["E", "ShowBackgroundType", "whenActive"])],
  "div": [("Display", docgen.NONE), ("BackgroundColor", RED)],
  "p": [("Display", docgen.NONE), ("Color", RED)],
  "span": [("Display", docgen.NONE), ("Color", RED)],
}


def fam_anim(nsteps, step_times=None):
  step_times = step_times or STEP_TIMES
  lvls = ["region", "div", "p", "span"]
  doms = [lvls, [F(1), F(3, 2)], [None, F(4)], [None, F(1, 2)] if nsteps == 1 else [None], [0, 1, 2] if nsteps == 1 else [0, 1]] \
    + [step_times] * nsteps + [[0, 1]] * nsteps
  prod = Product(doms)

  def dec(i):
    ch = prod.decode(i)
    lv, b, e, pb, vi = ch[:5]
    steps = ch[5:5 + nsteps]
    which = ch[5 + nsteps:]
    tim = {lv: (b, e)}
    if pb is not None:
      tim["body"] = (pb, None)
    spec = docgen.chain_doc(tim, True)
    nodes = {"region": spec["regions"][0], "div": spec["body"]["c"][0], "p": spec["body"]["c"][0]["c"][0],
             "span": spec["body"]["c"][0]["c"][0]["c"][0]}
    vals = ANIM_VALUES[lv]
    an = []
    for (sb, se), w in zip(steps, which):
      p, v = vals[(vi + w) % len(vals)]
      an.append([p, sb, se, v])
    nodes[lv]["an"] = an
    return spec

  def decode(i):
    return {"spec": dec(i), "key": f"F-anim{nsteps}#{i}"}
  return Family(f"F-anim[{nsteps} steps]", prod.n, decode, check_doc, shrink=c01.shrink_doc, timeout=30,
                note="element/region at a non-zero offset carrying set steps")


def fam_anim_twins():
  """two elements that begin at different times and carry animation steps that are equal as values (same property, same
  relative begin / end, same value): each contributes its own significant times"""
  prod = Product([[F(0), F(1)], [F(5), F(10)], [(F(1), F(2)), (None, F(2)), (F(1), None)], [("Color", RED), ("Display", docgen.NONE)], ["p", "span"], [0, 1]])

  def decode(i):
    b1, b2, (sb, se), (prop, val), lv, third = prod.decode(i)
    def para(k):
      sp_ = node("span", [text("t%d" % k)], id=f"s{k}")
      pp = node("p", [sp_], id=f"p{k}", r="r1")
      (pp if lv == "p" else sp_)["an"] = [[prop, sb, se, val]]
      return pp
    # the animated element begins together with its parent (the div carries the begin): the listed finding about steps of
    # elements that do not begin with their parent is not what this family is about
    divs = [node("div", [para(1)], id="d1", b=b1, e=b1 + 4), node("div", [para(2)], id="d2", b=b2, e=b2 + 4)]
    if third:
      divs.append(node("div", [para(3)], id="d3", b=b2 + 6, e=b2 + 10))
    return {"spec": doc_spec(node("body", divs, id="b"), [{"id": "r1"}]), "key": f"F-anim-twins#{i}"}
  return Family("F-anim-twins", prod.n, decode, check_doc, shrink=c01.shrink_doc, timeout=30,
                note="equal-valued animation steps on two or three elements that begin at different times")


HIDE = [("Opacity", 0, 1.0), ("Display", docgen.NONE, docgen.AUTO), ("Visibility", ["E", "VisibilityType", "hidden"], ["E", "VisibilityType", "visible"]),
        ("ShowBackground", ["E", "ShowBackgroundType", "whenActive"], ["E", "ShowBackgroundType", "always"]), ("BackgroundColor", ["C", 0, 0, 0, 0], RED)]


def fam_region_bg():
  """regions whose own background is hidden by a specified value or by an initial value and revealed by an animation
  step outside the content interval (the SignificantTimes content-interval short cut must not skip them)"""
  # src: where the hiding value sits (specified on the region / initial value of the document); "init+spec": the document's
  # initial value hides and the region itself specifies the showing value (the specified value wins: the region always paints)
  prod = Product([range(len(HIDE)), ["spec", "init", "init+spec"], [(F(1), F(2)), (None, F(2)), (F(7), None), None], [None, (F(5), F(6))], [1, 2], [None, F(1, 2)]])

  def dec(i):
    hi, src, step, content, nreg, rbegin = prod.decode(i)
    prop, hidden, shown = HIDE[hi]
    spec = docgen.chain_doc({"p": content} if content else {}, True)
    r = spec["regions"][0]
    r["st"] = {"BackgroundColor": RED}
    if src == "spec":
      r["st"][prop] = hidden
    else:
      spec["init"] = [[prop, hidden]]
      if src == "init+spec":
        r["st"][prop] = shown
    if step is not None:
      r["an"] = [[prop, step[0], step[1], shown]]
    if rbegin is not None:
      r["b"] = rbegin
    if nreg == 2:
      spec["regions"].append({"id": "r2"})
    if content is None:
      spec["body"]["c"] = []
    return spec

  def decode(i):
    return {"spec": dec(i), "key": f"F-region-bg#{i}"}
  return Family("F-region-bg", prod.n, decode, check_doc, shrink=c01.shrink_doc, timeout=30,
                note="region background hidden statically (specified/initial) and revealed by an animation step")


def plan(tier, seed):
  fams = []
  for f in c01.plan(tier, seed):
    if f.name.startswith("F-tree") or f.name.endswith(",none]") or f.name.endswith(",two]"):
      continue   # untimed documents have a single snapshot; C01 covers them
    dec = f.decode
    fams.append(Family(f.name, f.n, dec, check_doc, shrink=c01.shrink_doc, timeout=30, note=f.note))
  fams.append(fam_anim(1))
  fams.append(fam_anim(2))
  fams.append(fam_region_bg())
  fams.append(fam_anim_twins())
  if tier == "thorough":
    fams.append(fam_anim(3, STEP_TIMES[::2]))
  return fams

"""C13 — every snapshot satisfies the documented ISD shape (DESIGN.md section 3, C13).

Invariant evaluated on every snapshot of: the C01 families, a style grid (every style property, every value
form/unit, on every level, as specified value, initial value and animation step, under two cell/pixel
resolutions) and the white-space family F-ws.
"""
from __future__ import annotations

import re
from fractions import Fraction as F

from mc import env  # noqa
from mc.kernel import Family
from mc import docgen, stylegen
from mc.docgen import Product
from mc.spec import build, node, text, doc_spec, PROPS, PROP_NAME, fp_doc_params
from mc.ref_isd import probe_times
from mc.props import c01

import ttconv.model as model
import ttconv.style_properties as styles
from ttconv.style_properties import StyleProperties as SP
from ttconv.isd import ISD

ID = "C13"
LEVEL = "exploration"
RULE = ("cases are documents (complete families); every snapshot over the probe times of each document is checked "
        "against every invariant clause; a document is non-trivial when at least one snapshot has content; distinct by "
        "family index")
BOUNDS = {
  "quick": "C01 quick families; style grid: 36 properties x all menu values x {region,body,div,p,span,initial,animated} x 2 "
           "resolutions; F-ws: paragraphs of 1-3 text nodes over 8 strings x space default/preserve x br in gaps",
  "thorough": "C01 thorough families; same grid; F-ws with 4 nodes over 6 strings",
}
ASSUMPTIONS = [
  "applicability ('applicable to its kind') is read through the public is_style_applicable of the model; clause C13.table "
  "diffs it against an independent IMSC 1.1 applicability table once per run",
  "white space: only the clauses of DESIGN.md 2.4 (what TTML2 states unambiguously)",
]

from mc.tables import APPLICABLE  # independent IMSC 1.1 / TTML2 applicability table

CHILDREN = {
  "region": {model.Body}, model.Body: {model.Div}, model.Div: {model.Div, model.P}, model.P: {model.Span, model.Br, model.Ruby},
  model.Span: {model.Span, model.Br, model.Text}, model.Rb: {model.Span}, model.Rt: {model.Span}, model.Rp: {model.Span},
  model.Rbc: {model.Rb}, model.Rtc: {model.Rt, model.Rp}, model.Br: set(), model.Text: set(),
}
RUBY_PATTERNS = [[model.Rb, model.Rt], [model.Rb, model.Rp, model.Rt, model.Rp], [model.Rbc, model.Rtc], [model.Rbc, model.Rtc, model.Rtc]]


def gates():
  """C13.table is evaluated as a clause (not a gate): see check_table."""
  return {"applicability_table_entries": sum(len(v) for v in APPLICABLE.values())}


def _lengths(v):
  """all LengthType instances inside a style value"""
  import dataclasses
  if isinstance(v, styles.LengthType):
    yield v
  elif isinstance(v, (tuple, list)):
    for x in v:
      yield from _lengths(x)
  elif dataclasses.is_dataclass(v) and not isinstance(v, type):
    for f in dataclasses.fields(v):
      yield from _lengths(getattr(v, f.name))


def _kind(e):
  if isinstance(e, model.Region):
    return "region"
  from mc.spec import KIND_OF
  return KIND_OF.get(type(e), type(e).__name__)


def check_isd(isd, doc, src_ids, acc, case, t):
  """evaluates every invariant clause on one snapshot; `src_ids` = id() of every node object of the source"""
  c = case

  def v(clause, disc, obs=None, exp=None, note=""):
    acc.violation(clause, disc, {"spec": c["spec"], "times": [t]}, observed=obs, expected=exp, note=note)

  if fp_doc_params(isd) != fp_doc_params(doc):
    v("C13.params", "params", fp_doc_params(isd), fp_doc_params(doc))
  has_content = False
  for reg in isd.iter_regions():
    if not isinstance(reg, ISD.Region):
      v("C13.content-model", "region-type", type(reg).__name__)
    kids = list(reg)
    if len(kids) > 1:
      v("C13.content-model", "region>1body", len(kids))
    if not kids and reg.get_style(SP.ShowBackground) is not styles.ShowBackgroundType.always:
      v("C13.empty-region", "showBackground!=always", str(reg.get_style(SP.ShowBackground)), "empty regions only with showBackground=always")
    elif kids and reg.get_style(SP.ShowBackground) is not styles.ShowBackgroundType.always and \
        not any(isinstance(x, (model.Text, model.Br)) for b in kids for x in b.dfs_iterator()):
      # containers that hold neither text nor a line break are no content either (e.g. a ruby whose base and text collapsed to nothing)
      v("C13.empty-region", "no-text-or-br,showBackground!=always", [type(x).__name__ for b in kids for x in b.dfs_iterator()],
        "regions without content only with showBackground=always")
    stack = [(reg, None)]
    while stack:
      e, parent = stack.pop()
      k = _kind(e)
      if id(e) in src_ids:
        v("C13.owned", "shared-node", k, "ISD nodes are copies")
      if e.get_doc() is not isd:
        v("C13.owned", "doc", repr(e.get_doc()), "node.get_doc() is the ISD")
      if e.parent() is not parent:
        v("C13.owned", "parent-link", k)
      if e.get_begin() is not None or e.get_end() is not None:
        v("C13.timing", f"kind={k}", [e.get_begin(), e.get_end()], "no begin/end in an ISD")
      if list(e.iter_animation_steps()):
        v("C13.animation", f"kind={k}", len(list(e.iter_animation_steps())), "no animation steps in an ISD")
      if e.get_region() is not None:
        v("C13.region-ref", f"kind={k}", e.get_region().get_id(), "no region reference in an ISD")
      ch = list(e)
      allowed = CHILDREN["region"] if k == "region" else CHILDREN.get(type(e))
      if isinstance(e, model.Ruby):
        if [type(x) for x in ch] not in RUBY_PATTERNS:
          v("C13.content-model", "ruby-pattern", [type(x).__name__ for x in ch])
      elif allowed is not None:
        for x in ch:
          if type(x) not in allowed:
            v("C13.content-model", f"{k}>{_kind(x)}", _kind(x))
      # styles
      present = {PROP_NAME[p] for p in e.iter_styles()}
      if isinstance(e, (model.Br, model.Text)):
        if present:
          v("C13.styles.leaf", f"kind={k}", sorted(present), "br and text carry no style")
      else:
        want = {PROP_NAME[p] for p in SP.ALL if e.is_style_applicable(p)}
        if present - want:
          v("C13.styles.inapplicable", f"kind={k},prop={sorted(present - want)[0]}", sorted(present - want), "only applicable properties")
        if want - present:
          v("C13.styles.missing", f"kind={k},prop={sorted(want - present)[0]}", sorted(want - present), "all applicable properties")
        for p in e.iter_styles():
          val = e.get_style(p)
          for ln in _lengths(val):
            if ln.units not in (styles.LengthType.Units.rh, styles.LengthType.Units.rw):
              v("C13.units", f"prop={PROP_NAME[p]},unit={ln.units.value}", repr(val), "all lengths in rh/rw")
              break
        if e.get_style(SP.Display) is styles.DisplayType.none:
          v("C13.display-none", f"kind={k}", None, "no element computes to display=none")
        if k == "region":
          o, ps = e.get_style(SP.Origin), e.get_style(SP.Position)
          if o is None or ps is None or (o.x, o.y) != (ps.h_offset, ps.v_offset) or ps.h_edge is not styles.PositionType.HEdge.left \
             or ps.v_edge is not styles.PositionType.VEdge.top:
            v("C13.origin-position", "differ", [repr(o), repr(ps)], "origin and position coincide")
      if isinstance(e, model.Text):
        has_content = True
        if e.get_text() == "":
          v("C13.empty-text", "empty", None, "no empty text node")
        # wherever a default-space text node sits (paragraph, ruby base, annotation or delimiter): collapsed inside
        par = e.parent()
        if par is not None and par.get_space() is model.WhiteSpaceHandling.DEFAULT:
          txt = e.get_text()
          if re.search(r"[\t\r\n]", txt) or "  " in txt:
            anc, host = par, None
            while anc is not None and host is None:
              host = type(anc).__name__ if isinstance(anc, (model.P, model.Rt, model.Rtc, model.Rp, model.Rb)) else None
              anc = anc.parent()
            v("C13.ws.default.collapse", f"inside,host={host}", txt, "no TAB/CR/LF and no two adjacent spaces in default text")
      if isinstance(e, (model.P, model.Rt, model.Rtc, model.Rp)):
        # the inline flow of a white-space context (a paragraph without its ruby annotations and delimiters, or one annotation /
        # delimiter): default spaces collapse across text nodes and vanish at the edges of every line
        flow = _flow(e)
        for i, (fk, fs, fpr) in enumerate(flow):
          if fk != "text" or fpr or not fs:
            continue
          prv = flow[i - 1] if i else None
          nxt = flow[i + 1] if i + 1 < len(flow) else None
          host = type(e).__name__
          if fs[0] == " " and (prv is None or prv[0] == "br" or (prv[1] and prv[1][-1] in " \t\r\n")):
            v("C13.ws.default.edge", f"leading-or-across,host={host}", [prv, fs], "no default space at the start of a line or after white space")
            break
          if fs[-1] == " " and (nxt is None or nxt[0] == "br" or (nxt[1] and nxt[1][0] in "\r\n")):
            v("C13.ws.default.edge", f"trailing,host={host}", [fs, nxt], "no default space at the end of a line")
            break
      if isinstance(e, model.Br):
        has_content = True
      if isinstance(e, model.Span) and not ch:
        v("C13.childless-span", "span", e.get_id(), "no childless span")
      for x in reversed(ch):
        stack.append((x, e))
  return has_content


def _flow(host):
  out = []

  def rec(n):
    for c in n:
      if isinstance(c, model.Br):
        out.append(("br", None, None))
      elif isinstance(c, model.Text):
        out.append(("text", c.get_text(), c.parent() is not None and c.parent().get_space() is model.WhiteSpaceHandling.PRESERVE))
      elif not isinstance(c, (model.Rt, model.Rtc, model.Rp)):
        rec(c)
  rec(host)
  return out


def _src_ids(doc):
  ids = set()
  for r in doc.iter_regions():
    ids.add(id(r))
  if doc.get_body() is not None:
    for e in doc.get_body().dfs_iterator():
      ids.add(id(e))
  return ids


def _probe_region_guard(isd, acc, case, t):
  """'regions hold at most one body' is kept by the snapshot's own region class: a region of a generated snapshot accepts a
  body only while it has none (the probe pushes bodies until one is refused; two refusals at most are needed)"""
  for reg in isd.iter_regions():
    pushed = 0
    for _ in range(3):
      try:
        reg.push_child(model.Body(isd))
        pushed += 1
      except (ValueError, TypeError):
        break
    nb = sum(1 for c in reg if isinstance(c, model.Body))
    acc.count("region-guard-probes")
    if nb > 1:
      acc.violation("C13.region.one-body", "region-accepts-a-second-body", {"spec": case["spec"], "times": [t]}, observed=f"{nb} bodies after {pushed} accepted pushes",
                    expected="at most one body per region")
      return


def check_doc(case, acc):
  spec = case["spec"]
  try:
    doc = build(spec)
  except Exception:  # pylint: disable=broad-except
    acc.case("invalid-spec")
    return
  ids = _src_ids(doc)
  any_content = False
  times = case.get("times") or probe_times(spec)
  for t in times:
    try:
      isd = ISD.from_model(doc, t)
    except ValueError as e:
      if "ruby" in str(e).lower():
        acc.count("ruby-snapshot-raises")
        continue      # partially active ruby: listed under C01/C18, nothing to check here
      raise
    acc.count("snapshots")
    any_content |= check_isd(isd, doc, ids, acc, case, t)
    if case.get("ws"):
      check_ws(spec, isd, acc, t)
    _probe_region_guard(isd, acc, case, t)          # last: it modifies the snapshot
  if case.get("seq"):
    for t, isd in ISD.generate_isd_sequence(doc):
      check_isd(isd, doc, ids, acc, case, t)
  acc.case("content" if any_content else "no-content", nontrivial=any_content, key=case.get("key") or repr(spec))


# ---------------------------------------------------------------------------------------------------
# white space (DESIGN 2.4)

_WS = " \t\r\n"


def check_ws(spec, isd, acc, t):
  p = spec["body"]["c"][0]["c"][0]
  src = []     # (kind, text, preserve)
  for c in p["c"]:
    if c["k"] == "br":
      src.append(("br", None, None))
    else:
      src.append(("text", c["c"][0]["t"], (c.get("sp") or spec["body"].get("sp") or "default") == "preserve"))
  out = []     # (kind, text, preserve) from the ISD
  for reg in isd.iter_regions():
    for body in reg:
      for e in body.dfs_iterator():
        if isinstance(e, model.Br):
          out.append(("br", None, None))
        elif isinstance(e, model.Text):
          out.append(("text", e.get_text(), e.parent().get_space() is model.WhiteSpaceHandling.PRESERVE))
  c = {"spec": spec, "times": [t], "ws": True}

  def v(clause, disc, obs, exp):
    acc.violation(clause, disc, c, observed=obs, expected=exp)

  def nonws(items):
    return "".join(ch for k, s, _ in items if k == "text" for ch in s if ch not in _WS)
  if nonws(src) != nonws(out):
    v("C13.ws.nonws", "chars", nonws(out), nonws(src))
  if [k for k, _, _ in src if k == "br"] != [k for k, _, _ in out if k == "br"]:
    v("C13.ws.br", "br", out, src)
    return
  # preserve text unchanged (in order)
  if [s for k, s, pr in src if k == "text" and pr and s != ""] != [s for k, s, pr in out if k == "text" and pr]:
    v("C13.ws.preserve", "changed", [s for k, s, pr in out if k == "text" and pr], [s for k, s, pr in src if k == "text" and pr])
  for i, (k, s, pr) in enumerate(out):
    if k != "text" or pr:
      continue
    if re.search(r"[\t\r\n]", s):
      v("C13.ws.default.controls", "tab/cr/lf", s, "no TAB/CR/LF in default text")
    if "  " in s:
      v("C13.ws.default.collapse", "inside", s, "no two adjacent spaces")
    nxt = out[i + 1] if i + 1 < len(out) else None
    prv = out[i - 1] if i > 0 else None
    if s.endswith(" ") and nxt is not None and nxt[0] == "text" and not nxt[2] and nxt[1].startswith(" "):
      v("C13.ws.default.collapse", "across", [s, nxt[1]], "no two adjacent spaces across default nodes")
    if s.startswith(" ") and (prv is None or prv[0] == "br"):
      v("C13.ws.default.edge", "leading", s, "no default space at the start of a line")
    if s.endswith(" ") and (nxt is None or nxt[0] == "br"):
      v("C13.ws.default.edge", "trailing", s, "no default space at the end of a line")
  # exact reference for any mixture of preserved and default nodes (XSL-FO white-space-collapse / white-space-treatment /
  # linefeed-treatment as TTML2 10.2.? maps xml:space), written over the character stream of each line rather than node by node:
  # default TAB/CR/LF become spaces; a default space is dropped when the character before it (preserved or not) is white space
  # or the line starts there; a default space is dropped when the line ends after it or a (preserved) linefeed follows
  want_nodes = []
  line = []

  def close_line():
    kept = []
    for ch, pr, ni in line:
      if not pr and ch in _WS:
        ch = " "
        if not kept or kept[-1][0] in _WS:
          continue
      kept.append((ch, pr, ni))
    final = [(ch, pr, ni) for j, (ch, pr, ni) in enumerate(kept)
             if not (not pr and ch == " " and (j == len(kept) - 1 or kept[j + 1][0] in "\r\n"))]
    for ch, pr, ni in final:
      if want_nodes and want_nodes[-1][0] == "text" and want_nodes[-1][3] == ni:
        want_nodes[-1][1] += ch
      else:
        want_nodes.append(["text", ch, pr, ni])
    line.clear()
  for ni, (k, s_, pr) in enumerate(src):
    if k == "br":
      close_line()
      want_nodes.append(["br", None, None, ni])
    else:
      line.extend((ch, pr, ni) for ch in s_)
  close_line()
  want_flat = [(k, s_, pr) for k, s_, pr, _ni in want_nodes]
  if want_flat != out:
    mix = "mixed" if any(pr for k, _, pr in src if k == "text") and any(pr is False for k, _, pr in src if k == "text") else "uniform"
    v("C13.ws.exact", f"nodes,{mix}", out, want_flat)
  if all(pr is False for k, _, pr in src if k == "text"):
    def lines(items):
      ls, cur = [], ""
      for k, s, _ in items:
        if k == "br":
          ls.append(cur)
          cur = ""
        else:
          cur += s
      ls.append(cur)
      return ls
    # XML white space only: U+3000, U+00A0 ... are ordinary characters (str.split() would treat them as separators)
    want = [" ".join(w for w in re.split(r"[ \t\r\n]+", x) if w) for x in lines(src)]
    got = lines(out)
    if want != got:
      v("C13.ws.default.lines", "lines", got, want)


WS_ALPHABET = ["a", " ", "  ", "\n", "\t", " a", "a ", " a ", "a\u3000", "\u00a0"]     # the last two: spaces that are not XML white space
WS_ALPHABET_SMALL = ["a", " ", "\n", " a", "a ", " a  b "]


def fam_ws(k, alphabet):
  prod = Product([alphabet] * k + [["default", "preserve"]] * k + [[0, 1]] * (k - 1) + [[None, "preserve"]])

  def dec(i):
    ch = prod.decode(i)
    texts, spaces, brs, bodysp = ch[:k], ch[k:2 * k], ch[2 * k:3 * k - 1], ch[-1]
    kids = []
    for j in range(k):
      kids.append(node("span", [text(texts[j])], id=f"s{j}", sp=spaces[j]))
      if j < k - 1 and brs[j]:
        kids.append({"k": "br", "id": f"br{j}"})
    # the last dimension is the paragraph's own xml:space (every span states its own, so that only the white-space pass can
    # tell a preserved paragraph from a default one); half of the time the body carries it as well
    p = node("p", kids, id="p", sp=bodysp)
    body = node("body", [node("div", [p], id="d")], id="b", sp=bodysp if i % 2 else None)
    # spans without an explicit space would inherit in TTML, but the model stores the resolved value per element
    return {"spec": doc_spec(body, []), "ws": True, "times": [F(0)], "key": f"F-ws{k}#{i}"}
  return Family(f"F-ws[{k} nodes]", prod.n, dec, check_doc, timeout=30, note="text nodes x xml:space x br gaps")


def fam_empty_region():
  """a region that no content is presented in: it may be in the snapshot only while its *computed* showBackground is always,
  wherever that value comes from (own attribute, initial value of the document, an animation step in effect)"""
  SB = lambda v: ["E", "ShowBackgroundType", v]
  own = [None, "always", "whenActive"]
  init = [None, "always", "whenActive"]
  anim = [None, ("always", F(1), F(3)), ("whenActive", F(1), F(3)), ("whenActive", None, None)]
  bg = [None, ["C", 255, 0, 0, 255]]
  content = ["none", "other-time", "other-region-only"]
  prod = Product([own, init, anim, bg, content])

  def dec(i):
    o, ini, an, b, ct = prod.decode(i)
    r2 = {"id": "r2"}
    st = {}
    if o:
      st["ShowBackground"] = SB(o)
    if b:
      st["BackgroundColor"] = b
    if st:
      r2["st"] = st
    if an:
      r2["an"] = [["ShowBackground", an[1], an[2], SB(an[0])]]
    kids = [node("p", [node("span", [text("a")], id="s1")], id="p1", r="r1")]
    if ct == "other-time":
      kids.append(node("p", [node("span", [text("b")], id="s2")], id="p2", r="r2", b=F(5), e=F(6)))
    spec = doc_spec(node("body", [node("div", kids, id="d")], id="b"), [{"id": "r1"}, r2])
    if ini:
      spec["init"] = [["ShowBackground", SB(ini)]]
    return {"spec": spec, "times": [F(0), F(2), F(4), F(11, 2)], "key": f"F-empty-region#{i}"}
  return Family("F-empty-region", prod.n, dec, check_doc, timeout=30,
                note="a region without presented content x showBackground from own attribute / initial value / animation step")


def fam_ws_ruby():
  """white-space collapsing inside ruby containers: text that collapses to nothing below rb / rt"""
  alpha = ["a", " ", " a", "a ", "\n"]
  prod = Product([["x ", "x", " ", None], alpha, alpha, alpha, [0, 1, 2, 3]])

  def dec(i):
    lead, t1, t2, t3, pat = prod.decode(i)
    def sp(sid, s):
      return node("span", [text(s)], id=sid)
    rbk = [sp("b1", t1), node("span", [sp("b2", t2)], id="b2o")]
    rtk = [sp("t1", t3)]
    if pat == 0:
      kids = [node("rb", rbk, id="rb"), node("rt", rtk, id="rt")]
    elif pat == 1:
      kids = [node("rb", rbk, id="rb"), node("rp", [sp("p1", "  (  ")], id="rp1"), node("rt", rtk, id="rt"), node("rp", [sp("p2", " \n) ")], id="rp2")]
    elif pat == 2:
      kids = [node("rbc", [node("rb", rbk, id="rb")], id="rbc"), node("rtc", [node("rt", rtk, id="rt")], id="rtc")]
    else:
      kids = [node("rbc", [node("rb", rbk, id="rb")], id="rbc"), node("rtc", [node("rt", rtk, id="rt")], id="rtc"),
              node("rtc", [node("rt", [sp("t2", "z")], id="rt2")], id="rtc2")]
    if lead is None:
      # the ruby container is all there is, in a region that is shown only while it has content
      p = node("p", [node("ruby", kids, id="ruby")], id="p")
      reg = {"id": "r1", "st": {"ShowBackground": ["E", "ShowBackgroundType", "whenActive"]}}
      return {"spec": doc_spec(node("body", [node("div", [p], id="d")], id="b", r="r1"), [reg]), "times": [F(0)], "key": f"F-ws-ruby#{i}"}
    p = node("p", [sp("s0", lead), node("ruby", kids, id="ruby"), sp("s9", " y")], id="p")
    return {"spec": doc_spec(node("body", [node("div", [p], id="d")], id="b"), []), "times": [F(0)], "key": f"F-ws-ruby#{i}"}
  return Family("F-ws-ruby", prod.n, dec, check_doc, timeout=30, note="white space that collapses to nothing inside ruby base / text")


# ---------------------------------------------------------------------------------------------------
# style grid

GRID_LEVELS = ["region", "body", "div", "p", "span", "initial", "animated-region", "animated-span"]
RES = [(None, None), ([10, 20], [640, 480])]


def fam_grid():
  items = []
  for pname in stylegen.ALL_PROPS:
    for vi, val in enumerate(stylegen.VALUES[pname]):
      for lv in GRID_LEVELS:
        for ri in range(len(RES)):
          items.append((pname, vi, lv, ri))

  def dec(i):
    pname, vi, lv, ri = items[i]
    val = stylegen.VALUES[pname][vi]
    spec = docgen.chain_doc({}, True)
    spec["body"]["c"][0]["c"][0]["c"].append({"k": "br", "id": "br0"})
    nodes = {"region": spec["regions"][0], "body": spec["body"], "div": spec["body"]["c"][0], "p": spec["body"]["c"][0]["c"][0],
             "span": spec["body"]["c"][0]["c"][0]["c"][0]}
    if lv in nodes:
      nodes[lv].setdefault("st", {})[pname] = val
    elif lv == "initial":
      spec["init"] = [[pname, val]]
    else:
      nodes[lv.split("-")[1]]["an"] = [[pname, None, F(2), val]]
    cell, px = RES[ri]
    if cell:
      spec["cell"], spec["px"] = cell, px
    return {"spec": spec, "key": f"grid#{i}", "seq": True}
  return Family("F-style-grid", len(items), dec, check_doc, timeout=30,
                note="every property x every menu value x {5 levels, initial, animated} x 2 resolutions")


def check_table(case, acc):
  """C13.table: the model's applicability table vs the independent IMSC 1.1 table"""
  from mc.spec import KINDS
  kind = case["kind"]
  cls = model.Region if kind == "region" else KINDS[kind]
  e = cls("r") if kind == "region" else cls()
  got = {PROP_NAME[p] for p in SP.ALL if e.is_style_applicable(p)}
  want = APPLICABLE[kind]
  acc.case("table", nontrivial=True, key=kind)
  for p in sorted(got ^ want):
    acc.violation("C13.table", f"kind={kind},prop={p},{'extra' if p in got else 'missing'}", case, observed=p in got, expected=p in want,
                  note="model applicability differs from the IMSC 1.1 table")


def plan(tier, seed):
  fams = []
  for f in c01.plan(tier, seed):
    fams.append(Family(f.name, f.n, f.decode, check_doc, shrink=c01.shrink_doc, timeout=30, note=f.note))
  fams.append(fam_grid())
  fams.append(fam_ws_ruby())
  fams.append(fam_empty_region())
  kinds = sorted(APPLICABLE)
  fams.append(Family("F-table", len(kinds), lambda i: {"kind": kinds[i]}, check_table, timeout=10, note="applicability table diff"))
  if tier == "quick":
    for k in (1, 2, 3):
      fams.append(fam_ws(k, WS_ALPHABET))
  else:
    for k in (1, 2, 3):
      fams.append(fam_ws(k, WS_ALPHABET))
    fams.append(fam_ws(4, WS_ALPHABET_SMALL))
  return fams

"""C17 — every 16-bit CEA-608 word is decoded totally, unambiguously and per the standard (DESIGN.md section 3, C17).

Whole-domain enumeration: all 65,536 values of a word (both parity bits of both bytes are part of the value), each
decoded by the real `SccWord.from_value(v)` -> `get_code()`, `get_channel()`, `to_text()`, the attribute getters of
the code and `get_scc_word_disassembly`, and compared clause by clause with the independent table `mc.ref608`.
Lines: every sequence of 0..K words over one representative word per class (K = 3 quick, 4 thorough), parsed by
`SccLine.from_str` and rendered by `SccLine.to_disassembly` / `reader.to_disassembly`, which must equal the
concatenation of the per-word renderings.
"""
from __future__ import annotations

import ast
import logging
import os
import re

from mc import env  # noqa
from mc.kernel import Family, HarnessError, exc_disc
from mc import ref608
from mc.ref608 import PADDING, PRINTABLE, PAC, MIDROW, CONTROL, ATTRIBUTE, SPECIAL, EXTENDED, UNKNOWN

from ttconv.scc.word import SccWord
from ttconv.scc.line import SccLine
from ttconv.scc import reader as scc_reader
from ttconv.scc.disassembly import get_scc_word_disassembly
from ttconv.scc.codes import SccChannel
from ttconv.scc.codes.attribute_codes import SccAttributeCode
from ttconv.scc.codes.control_codes import SccControlCode
from ttconv.scc.codes.extended_characters import SccExtendedCharacter
from ttconv.scc.codes.mid_row_codes import SccMidRowCode
from ttconv.scc.codes.preambles_address_codes import SccPreambleAddressCode
from ttconv.scc.codes.special_characters import SccSpecialCharacter
from ttconv.style_properties import FontStyleType

ID = "C17"
LEVEL = "exploration"
RULE = ("words: index = the 16-bit value, every value executed (distinct by construction; the four parity variants of a "
        "7+7-bit word are distinct inputs of the parity clause); a word is non-trivial when it is not a pair of two "
        "unsubstituted ASCII characters, i.e. when it is padding, a control pair (first byte 0x10-0x1F), an unassigned "
        "value, or contains a substituted / non-printing / filler byte. lines: index = mixed-radix sequence of 0..K "
        "representative words (one or two per class and channel), plus every 16-bit value between two fixed words; "
        "non-trivial when the line has >= 2 words of >= 2 different classes; distinct by construction")
BOUNDS = {
  "quick": "all 65,536 word values; all lines of 0..3 words over 34 representative words (40,495 lines), time-code "
           "prefix selected by the seed (non-drop / drop-frame), with and without channel display; every 16-bit value as "
           "the middle word of a 3-word line in the seed-selected one of 4 contexts",
  "thorough": "all 65,536 word values; all lines of 0..4 words over 34 representative words (1,376,831 lines) and of "
              "0..3 words with the drop-frame prefix; every 16-bit value as the middle word in all 4 contexts",
}
ASSUMPTIONS = [
  "mc/ref608.py restates the CTA-608-E / 47 CFR 15.119 code tables correctly (bound by the gates: hand examples, the PAC "
  "formula of DESIGN.md 2.6 as a second derivation, and every literal the repository's own SCC unit tests assert)",
  "the class ttconv assigns to a word is observed as the reader dispatches on it (scc/line.py): type of get_code(); with "
  "no code: value 0 = padding, first byte >= 0x20 = printable pair, anything else = unknown",
  "None is accepted as ttconv's encoding of the default where the repository's tests pin it: indent None on a colour PAC "
  "(column 0), colour None on an indent PAC (white), font style None = not italic, text decoration None = no underline",
  "colours are compared by hue (which of R, G, B are non-zero), CEA-608 gives no levels; opacity: opaque = alpha 255, "
  "semi-transparent = strictly between, transparent = 0",
  "glyphs CEA-608 names but Unicode does not identify uniquely (transparent space, vertical bar, the four corners) may be "
  "any of the code points listed in ref608.ALT_CHARS; a printable pair whose second byte is 0x01-0x1F is only required to "
  "start with the first character (the standard assigns no character, the repository's test pins a raw pass-through)",
  "the disassembly mnemonics are ttconv's own format; only what the repository's tests pin is demanded of a token "
  "({NAME}, {}, {??}, {RRII}, {RR<colour>..}, {<colour>}/{I}, {B<colour>}, characters as themselves)",
]

# ttconv's disassembly colour mnemonics as pinned by test_scc_disassembly.py::test_scc_disassembly_color
MNEMONIC = {"white": "Wh", "green": "Gr", "blue": "Bl", "cyan": "Cy", "red": "R", "yellow": "Y", "magenta": "Ma", "black": "Bk"}

# Code points on which the repository's own tests and the reference disagree and no alternate applies.  Resolved by
# reading the standard (DESIGN 2.8 gate b): CTA-608-E names 0x12 0x2A "em dash" and 0x13 0x2C "caret"; U+2501 is a
# box-drawing line and U+028C a phonetic letter.  They are isolated under their own clause; gate (b) fails if the set of
# disagreements is ever different from this one.
PINNED_DISAGREEMENTS = {}   # none left: U+2501 / U+028C are accepted look-alikes, see ref608.ALT_CHARS

_CODE_CLASSES = (
  (SccPreambleAddressCode, PAC), (SccControlCode, CONTROL), (SccAttributeCode, ATTRIBUTE), (SccMidRowCode, MIDROW),
  (SccSpecialCharacter, SPECIAL), (SccExtendedCharacter, EXTENDED),
)


# ---------------------------------------------------------------------------------------------------------------
# observation of the implementation


def _obs_class(word: SccWord) -> str:
  code = word.get_code()
  if code is None:
    if word.value == 0x0000:
      return PADDING
    if word.byte_1 >= 0x20:
      return PRINTABLE
    return UNKNOWN
  for typ, name in _CODE_CLASSES:
    if isinstance(code, typ):
      return name
  return "other:" + type(code).__name__


def _obs_channel(ch):
  if ch is None:
    return None
  if ch is SccChannel.CHANNEL_1:
    return 1
  if ch is SccChannel.CHANNEL_2:
    return 2
  return repr(ch)


def _hue(color):
  """ColorType -> (colour name by hue, alpha) or (None, None)"""
  if color is None:
    return None, None
  r, g, b, a = color.components
  pat = (int(r > 0), int(g > 0), int(b > 0))
  for name, h in ref608.HUE.items():
    if h == pat:
      return name, a
  return repr(color.components), a


def _underlined(td) -> bool:
  return td is not None and td.underline is True


def _finders(value: int, b1: int, b2: int):
  """Which of the six code tables of ttconv claim the (stripped) value."""
  out = []
  if SccControlCode.find(value) is not None:
    out.append(CONTROL)
  if SccAttributeCode.find(value) is not None:
    out.append(ATTRIBUTE)
  if SccMidRowCode.find(value) is not None:
    out.append(MIDROW)
  if SccPreambleAddressCode.find(b1, b2) is not None:
    out.append(PAC)
  if SccSpecialCharacter.find(value) is not None:
    out.append(SPECIAL)
  if SccExtendedCharacter.find(value) is not None:
    out.append(EXTENDED)
  return out


def _signature(word: SccWord):
  """Everything the property observes of a decoded word, as plain data (used by the parity clause)."""
  code = word.get_code()
  cls = _obs_class(word)
  sig = [cls, _obs_channel(word.get_channel()), word.to_text()]
  if cls == PAC:
    sig += [code.get_row(), code.get_indent(), _hue(code.get_color()), code.get_font_style() is FontStyleType.italic,
            _underlined(code.get_text_decoration())]
  elif cls in (CONTROL, ATTRIBUTE, MIDROW, SPECIAL, EXTENDED):
    sig.append(code.name)
  return sig


class _Capture(logging.Handler):
  def __init__(self):
    super().__init__(level=logging.WARNING)
    self.records = []

  def emit(self, record):
    self.records.append(record.getMessage())


class _quiet:
  """Attaches a capturing handler to the ttconv logger for the duration of a block (API rule 7)."""

  def __enter__(self):
    self.h = _Capture()
    self.lg = logging.getLogger("ttconv")
    self.lg.addHandler(self.h)
    return self.h

  def __exit__(self, *a):
    self.lg.removeHandler(self.h)
    return False


# ---------------------------------------------------------------------------------------------------------------
# per-word oracle


def _code1(ref) -> int:
  """the channel-1 form of a control pair (for narrow, channel-independent discriminators)"""
  return ref["stripped"] & 0xF7FF


def check_word(case, acc, fam=None, idx=None):
  """case: {"word": 0..0xFFFF}"""
  v = int(case["word"])
  ref = ref608.classify(v)
  s = ref["stripped"]
  rcls = ref["cls"]
  c = {"word": v}

  nviol = [0]

  def viol(clause, disc, observed=None, expected=None, note=""):
    nviol[0] += 1
    acc.violation(clause, disc, c, observed=observed, expected=expected, note=f"word {v:#06x} (stripped {s:#06x}) {note}".strip(),
                  family=fam, index=idx)

  # -- case accounting
  b1, b2 = ref["b1"], ref["b2"]
  plain = rcls == PRINTABLE and ref["b2_valid"] and b2 != 0 and ref["text"] == chr(b1) + chr(b2)
  if rcls == CONTROL:
    oc = "control/" + ("field2" if ref["field"] == 2 else "tab" if ref["tab"] else f"ch{ref['channel']}")
  elif rcls in (PAC, MIDROW, ATTRIBUTE, SPECIAL, EXTENDED):
    oc = f"{rcls}/ch{ref['channel']}"
  elif rcls == PRINTABLE:
    oc = "printable/" + ("ascii" if plain else "filler" if b2 == 0 else "nonprinting-b2" if not ref["b2_valid"] else "substituted")
  elif rcls == UNKNOWN:
    oc = "unknown/" + ("b1<0x10" if b1 < 0x10 else "b2<0x20" if b2 < 0x20 else "charset-select" if "selection" in ref["detail"] else "unassigned")
  else:
    oc = rcls
  acc.case(oc, nontrivial=not plain)
  if v != s:
    acc.count("words_with_a_parity_bit_set")

  # -- totality
  try:
    w = SccWord.from_value(v)
    code = w.get_code()
    ocls = _obs_class(w)
    och = _obs_channel(w.get_channel())
    text = w.to_text()
    sig = _signature(w)
  except Exception as e:  # pylint: disable=broad-except
    viol("C17.total", exc_disc(e), observed=repr(e)[:200], expected="every word decodes")
    return

  # -- parity: the decoder sees the 7+7 data bits only, and decodes all parity variants alike
  if (w.byte_1, w.byte_2, w.value) != (b1, b2, s):
    viol("C17.parity", f"bits,b1={'ok' if w.byte_1 == b1 else 'wrong'},b2={'ok' if w.byte_2 == b2 else 'wrong'}",
         observed=[w.byte_1, w.byte_2, w.value], expected=[b1, b2, s], note="parity bit not removed")
    return   # everything below would only restate this
  if v != s:
    try:
      sig0 = _signature(SccWord.from_value(s))
    except Exception as e:  # pylint: disable=broad-except
      sig0 = ["exception", exc_disc(e)]
    if sig != sig0:
      viol("C17.parity", f"decoding,ref={rcls}", observed=sig, expected=sig0, note="decoded differently from the same word without parity bits")

  # -- class
  if ocls != rcls:
    viol("C17.class", f"ref={rcls},got={ocls},b1={b1 & 0x17:#04x}" if 0x10 <= b1 < 0x20 else f"ref={rcls},got={ocls}",
         observed=ocls, expected=rcls, note=ref["detail"])

  # -- exactly one class: at most one code table claims the value, none claims a non-code value
  claims = _finders(w.value, w.byte_1, w.byte_2)
  if len(claims) > 1:
    viol("C17.exactly-one-class", "tables=" + "+".join(sorted(claims)), observed=claims, expected=[rcls],
         note="two code tables claim the word; the result depends on the lookup order")
  elif claims and rcls in (PADDING, PRINTABLE):
    viol("C17.exactly-one-class", f"tables={claims[0]},ref={rcls}", observed=claims, expected=[])
  if ocls != rcls:
    return   # the attribute clauses below presuppose the class

  # -- channel
  if rcls in (PAC, MIDROW, CONTROL, ATTRIBUTE, SPECIAL, EXTENDED):
    if ref["field"] == 2:
      if och is not None:
        viol("C17.channel.field2", f"b1={b1:#04x},got={och}", observed=och, expected=None,
             note="field-2 control code attributed to a channel of field 1")
    elif och != ref["channel"]:
      viol("C17.channel", f"cls={rcls},ref={ref['channel']},got={och}", observed=och, expected=ref["channel"])
  elif och is not None:
    viol("C17.channel", f"cls={rcls},ref=None,got={och}", observed=och, expected=None)

  # -- attributes and characters
  if rcls in (PAC, MIDROW, ATTRIBUTE) and v == s and ref["color"] and code.get_color() is not None:
    # evidence only: which RGB levels ttconv gives each CEA-608 colour name, per class (the standard gives none)
    acc.count(f"rgb[{ref['color']}]={','.join(map(str, code.get_color().components[:3]))} ({rcls})")
  if rcls == PAC:
    _check_pac(ref, code, viol)
  elif rcls == MIDROW:
    _check_midrow(ref, code, viol)
  elif rcls == CONTROL:
    if code.get_name() != ref["name"]:
      viol("C17.control.name", f"ref={ref['name']},got={code.get_name()}", observed=code.get_name(), expected=ref["name"])
  elif rcls == ATTRIBUTE:
    _check_attribute(ref, code, viol)
  elif rcls in (SPECIAL, EXTENDED):
    ch = code.get_unicode_value()
    if ch != ref["text"] and ch not in ref["alt_text"]:
      k = _code1(ref)
      if rcls == EXTENDED and PINNED_DISAGREEMENTS.get(k) == ch:
        viol("C17.char.extended.unicode-identity", f"code={k:04x}", observed=ch, expected=ref["text"],
             note="the glyph named by CEA-608 has one Unicode identity; ttconv (and its unit test) use another code point")
      else:
        viol(f"C17.char.{rcls}", f"code={k:04x}", observed=ch, expected=[ref["text"], *ref["alt_text"]])
    elif ch != ref["text"]:
      acc.count("chars_accepted_as_alternate_code_point")
  elif rcls == PRINTABLE:
    if ref["b2_valid"]:
      if text != ref["text"]:
        bad = [b for b, got in zip((b1, b2), _split2(text, b2)) if got != ref608.std_char(b)] if b2 else [b1]
        viol("C17.char.standard", "byte=" + ",".join(f"{b:02x}" for b in sorted(set(bad))) if bad else "length", observed=text, expected=ref["text"])
    else:
      acc.count("printable_with_nonprinting_second_byte")
      if not text.startswith(ref["text"]):
        viol("C17.char.standard", f"byte={b1:02x}", observed=text, expected=ref["text"] + "<anything>")
  elif rcls == UNKNOWN:
    if code is not None:
      viol("C17.class", f"ref=unknown,code={type(code).__name__}", observed=repr(code), expected=None)

  # -- disassembly of the single word (when the decoding itself is right: otherwise the token only restates the fault)
  if not nviol[0]:
    _check_token(ref, w, text, code, acc, viol)


def _split2(text, b2):
  return (text[:1], text[1:]) if b2 else (text,)


def _check_pac(ref, code, viol):
  row = code.get_row()
  if row != ref["row"]:
    viol("C17.pac.row", f"ref={ref['row']},got={row}", observed=row, expected=ref["row"])
  indent = code.get_indent()
  indent_coded = bool(ref["b2"] & 0x10)
  if indent_coded:
    if indent != ref["indent"]:
      viol("C17.pac.indent", f"ref={ref['indent']},got={indent}", observed=indent, expected=ref["indent"])
  elif indent not in (None, 0):
    viol("C17.pac.indent", f"colour-pac,got={indent}", observed=indent, expected=[None, 0])
  hue, alpha = _hue(code.get_color())
  if indent_coded:
    if hue not in (None, "white"):
      viol("C17.pac.color", f"indent-pac,got={hue}", observed=hue, expected=[None, "white"])
  elif hue != ref["color"] or alpha != 255:
    viol("C17.pac.color", f"ref={ref['color']},got={hue}", observed=[hue, alpha], expected=[ref["color"], 255])
  fs = code.get_font_style()
  if (fs is FontStyleType.italic) != ref["italics"] or fs not in (None, FontStyleType.italic, FontStyleType.normal):
    viol("C17.pac.italics", f"ref={ref['italics']}", observed=repr(fs), expected=ref["italics"])
  if _underlined(code.get_text_decoration()) != ref["underline"]:
    viol("C17.pac.underline", f"ref={ref['underline']},indent-coded={indent_coded}", observed=repr(code.get_text_decoration()),
         expected=ref["underline"])


def _check_midrow(ref, code, viol):
  hue, alpha = _hue(code.get_color())
  if hue != ref["color"] or (hue is not None and alpha != 255):
    viol("C17.midrow.color", f"ref={ref['color']},got={hue}", observed=[hue, alpha], expected=ref["color"],
         note="(the italics codes leave the colour alone)" if ref["color"] is None else "")
  fs = code.get_font_style()
  if (fs is FontStyleType.italic) != ref["italics"] or fs not in (None, FontStyleType.italic, FontStyleType.normal):
    viol("C17.midrow.italics", f"ref={ref['italics']}", observed=repr(fs), expected=ref["italics"])
  if _underlined(code.get_text_decoration()) != ref["underline"]:
    viol("C17.midrow.underline", f"ref={ref['underline']}", observed=repr(code.get_text_decoration()), expected=ref["underline"])


def _check_attribute(ref, code, viol):
  if code.get_name() != ref["name"]:
    viol("C17.attribute.name", f"ref={ref['name']},got={code.get_name()}", observed=code.get_name(), expected=ref["name"])
  if bool(code.is_background()) != ref["background"]:
    viol("C17.attribute.background", f"name={ref['name']}", observed=code.is_background(), expected=ref["background"])
  hue, alpha = _hue(code.get_color())
  op = "opaque" if alpha == 255 else "transparent" if alpha == 0 else "semi" if alpha is not None else None
  if op != ref["opacity"]:
    viol("C17.attribute.opacity", f"name={ref['name']},got={op}", observed=alpha, expected=ref["opacity"])
  if ref["opacity"] != "transparent" and hue != ref["color"]:
    viol("C17.attribute.color", f"name={ref['name']},got={hue}", observed=hue, expected=ref["color"])
  if _underlined(code.get_text_decoration()) != ref["underline"]:
    viol("C17.attribute.underline", f"name={ref['name']}", observed=repr(code.get_text_decoration()), expected=ref["underline"])


_TOKEN_RE = re.compile(r"^\{([^{}]*)\}$")


def _token_problem(ref, tok, char=None):
  """None when `tok` is an acceptable rendering of the reference entry, else (clause, disc, expected)."""
  cls = ref["cls"]
  if cls == PADDING:
    return None if tok == "{}" else ("C17.disasm.class", "ref=padding", "{}")
  if cls == UNKNOWN:
    return None if tok == "{??}" else ("C17.disasm.class", "ref=unknown", "{??}")
  if cls == PRINTABLE:
    if ref["b2_valid"]:
      return None if tok == ref["text"] else ("C17.disasm.class", "ref=printable", ref["text"])
    return None if tok.startswith(ref["text"]) else ("C17.disasm.class", "ref=printable", ref["text"] + "<anything>")
  if cls in (SPECIAL, EXTENDED):
    ok = tok == char if char is not None else (tok == ref["text"] or tok in ref["alt_text"] or tok == PINNED_DISAGREEMENTS.get(_code1(ref)))
    return None if ok else ("C17.disasm.class", f"ref={cls}", char or ref["text"])
  m = _TOKEN_RE.match(tok)
  if m is None or tok == "{??}" or tok == "{}":
    return ("C17.disasm.class", f"ref={cls}", "{<mnemonic>}")
  inner = m.group(1)
  if cls == CONTROL:
    return None if inner == ref["name"] else ("C17.disasm.class", f"ref=control,name={ref['name']}", "{" + ref["name"] + "}")
  if cls == PAC:
    rr = f"{ref['row']:02}"
    if not inner.startswith(rr):
      return ("C17.disasm.class", f"ref=pac,row={ref['row']}", "{" + rr + "..}")
    rest = inner[2:]
    if ref["b2"] & 0x10:
      want = f"{ref['indent']:02}"
      return None if rest == want else ("C17.disasm.class", f"ref=pac,indent={ref['indent']}", "{" + rr + want + "}")
    want = MNEMONIC[ref["color"]] + ("I" if ref["italics"] else "") + ("U" if ref["underline"] else "")
    return None if rest == want else ("C17.disasm.colour", f"cls=pac,colour={ref['color']}", "{" + rr + want + "}")
  if cls == MIDROW:
    want = ("I" if ref["italics"] else MNEMONIC[ref["color"]]) + ("U" if ref["underline"] else "")
    return None if inner == want else ("C17.disasm.colour", f"cls=midrow,colour={ref['color']}", "{" + want + "}")
  if cls == ATTRIBUTE:
    if ref["opacity"] == "transparent":
      want = "BT"
    else:
      want = ("B" if ref["background"] else "") + MNEMONIC[ref["color"]] + ("S" if ref["opacity"] == "semi" else "") + ("U" if ref["underline"] else "")
    return None if inner == want else ("C17.disasm.colour", f"cls=attribute,colour={ref['color']}", "{" + want + "}")
  return ("C17.disasm.class", f"ref={cls}", "?")


def _check_token(ref, w, text, code, acc, viol):
  try:
    with _quiet() as cap:
      tok = get_scc_word_disassembly(w)
      tokc = get_scc_word_disassembly(w, True)
  except Exception as e:  # pylint: disable=broad-except
    viol("C17.disasm.total", exc_disc(e), observed=repr(e)[:200], expected="a token")
    return
  if not isinstance(tok, str) or not tok or not isinstance(tokc, str) or not tokc:
    viol("C17.disasm.nonempty", f"ref={ref['cls']}", observed=[tok, tokc], expected="a non-empty token")
    return
  char = code.get_unicode_value() if ref["cls"] in (SPECIAL, EXTENDED) else None
  pb = _token_problem(ref, tok, char)
  if pb is not None:
    viol(pb[0], pb[1], observed=tok, expected=pb[2], note="; log: " + " | ".join(cap.records[:2]) if cap.records else "")
  elif cap.records and ref["cls"] != UNKNOWN:
    acc.count("disassembly_warnings_on_known_words")
  # with channels: the same token with the channel prepended (characters: "[CCn]" + character)
  if ref["cls"] in (PAC, MIDROW, CONTROL, ATTRIBUTE):
    chs = "None" if ref["channel"] is None else f"CC{ref['channel']}"
    want = "{" + chs + "|" + tok[1:]
    if tokc != want:
      viol("C17.disasm.channel", f"ref={ref['cls']}", observed=tokc, expected=want)
  elif ref["cls"] in (SPECIAL, EXTENDED):
    want = f"[CC{ref['channel']}]" + tok
    if tokc != want:
      viol("C17.disasm.channel", f"ref={ref['cls']}", observed=tokc, expected=want)
  elif tokc != tok:
    viol("C17.disasm.channel", f"ref={ref['cls']}", observed=tokc, expected=tok)


def fam_words():
  name = "words-all"

  def decode(i):
    return {"word": i}

  def run_range(a, b, acc):
    for i in range(a, b):
      if i == a and a % 0x4000 == 0:
        e = ref608.classify(i)
        acc.sample({"family": name, "word": i, "reference": {k: e[k] for k in ("cls", "channel", "name", "row", "indent", "color", "text")}})
      check_word({"word": i}, acc, name, i)

  return Family(name, 0x10000, decode, lambda case, acc: check_word(case, acc, name, case["word"]), timeout=0, chunk=1024,
                note="every 16-bit value through SccWord.from_value and get_scc_word_disassembly", run_range=run_range)


# ---------------------------------------------------------------------------------------------------------------
# lines

# one or two representatives per class, channel and field (stripped values; sent with odd parity as SCC files do)
REPRESENTATIVES = [
  0x0000,                                   # padding
  0x6162, 0x2A5C, 0x4100,                   # printable: "ab", substituted "áé", character + filler
  0x1448, 0x1472, 0x1C52, 0x1040, 0x114F,   # PAC: ch1 colour, ch1 indent, ch2 indent, row 11, italics underline
  0x1122, 0x112E, 0x1929,                   # mid-row: colour, italics, ch2 colour underline
  0x1420, 0x142F, 0x142D, 0x1C29,           # misc control: RCL, EOC, CR, RDC ch2
  0x1520, 0x1D2C,                           # field-2 variants: RCL, EDM
  0x1722, 0x1F23,                           # tab offsets
  0x1024, 0x182F, 0x172D, 0x172E, 0x1F2F,   # attribute: BBO, BAS ch2, BT, FA, FAU ch2
  0x1130, 0x1939,                           # special: registered mark, transparent space ch2
  0x1220, 0x133B, 0x1B3F,                   # extended
  0x1000, 0x0041, 0x1724, 0x1060,           # unknown: b2 < 0x20, b1 < 0x10, charset select, row-11 hole
]
TIME_CODES = ["00:00:00:00", "01:02:03;04"]
HEADER = "Scenarist_SCC V1.0\n\n"

_TOK_CACHE = {}


def _word_token(hexword, show):
  k = (hexword, show)
  t = _TOK_CACHE.get(k)
  if t is None:
    t = _TOK_CACHE[k] = get_scc_word_disassembly(SccWord.from_str(hexword), show)
  return t


def check_line(case, acc):
  """case: {"tc": "hh:mm:ss:ff", "words": ["9420", ...]}"""
  tc = case["tc"]
  words = list(case["words"])
  refs = [ref608.classify(int(x, 16)) for x in words]
  classes = {r["cls"] for r in refs}
  acc.case(f"len{len(words)}/{min(len(classes), 3)}{'+' if len(classes) > 3 else ''}cls", nontrivial=len(words) >= 2 and len(classes) >= 2)
  c = {"tc": tc, "words": words}
  line_str = tc + "\t" + " ".join(words)
  with _quiet():
    try:
      line = SccLine.from_str(line_str)
    except Exception as e:  # pylint: disable=broad-except
      acc.violation("C17.disasm.line-parse", exc_disc(e), c, observed=repr(e)[:200])
      return
    if line is None:
      acc.violation("C17.disasm.line-parse", "none", c, observed=None, expected="an SccLine")
      return
    got_vals = [w.value for w in line.scc_words]
    if got_vals != [r["stripped"] for r in refs]:
      acc.violation("C17.disasm.line-words", "count" if len(got_vals) != len(refs) else "values", c, observed=got_vals, expected=[r["stripped"] for r in refs])
      return   # the words of the line are not the words given: the renderings below would only restate this
    for show in (False, True):
      want = tc + "\t" + "".join(_word_token(x, show) for x in words)
      try:
        got = line.to_disassembly(show)
        got_file = scc_reader.to_disassembly(HEADER + line_str + "\n", show)
      except Exception as e:  # pylint: disable=broad-except
        acc.violation("C17.disasm.total", exc_disc(e), c, observed=repr(e)[:200])
        return
      if got != want:
        acc.violation("C17.disasm.concat", f"line,channels={show}", c, observed=got, expected=want,
                      note="the line's disassembly is not the concatenation of the renderings of its words")
      if got_file != want + "\n":
        acc.violation("C17.disasm.concat", f"file,channels={show}", c, observed=got_file, expected=want + "\n")


def shrink_line(case):
  ws = case["words"]
  for i in range(len(ws)):
    yield {"tc": case["tc"], "words": ws[:i] + ws[i + 1:]}


def fam_lines(k_max, tc):
  reps = [f"{ref608.with_odd_parity(v):04x}" for v in REPRESENTATIVES]
  r = len(reps)
  offs = [0]
  for k in range(k_max + 1):
    offs.append(offs[-1] + r ** k)

  def decode(i):
    k = 0
    while i >= offs[k + 1]:
      k += 1
    j = i - offs[k]
    ws = []
    for _ in range(k):
      j, d = divmod(j, r)
      ws.append(reps[d])
    ws.reverse()
    return {"tc": tc, "words": ws}

  return Family(f"lines<={k_max}[{tc}]", offs[-1], decode, check_line, shrink=shrink_line, timeout=20.0,
                note=f"all sequences of 0..{k_max} words over {r} representatives, disassembled with and without channels")


CONTEXTS = [("9420", "6162"), ("c1c2", "942f"), ("8080", "91b0"), ("9470", "9470")]


def fam_every_word_in_line(ctx, tc):
  """every 16-bit value as the middle word of a three-word line"""
  a, b = ctx

  def decode(i):
    return {"tc": tc, "words": [a, f"{i:04x}", b]}

  return Family(f"line-with-every-word[{a} . {b}]", 0x10000, decode, check_line, shrink=shrink_line, timeout=20.0, chunk=2048,
                note="every value between two fixed words: the line renders it as the word alone is rendered")


# ---------------------------------------------------------------------------------------------------------------
# pairs: decoding is a function of the word alone - a decoded word that is still held does not change when any
# other word is decoded after it (shared tables, memoised code objects)

PAIR_WORDS = [(b1 << 8) | b2 for b1 in range(0x10, 0x20) for b2 in range(0x20, 0x80)] + \
             [v for v in REPRESENTATIVES if not 0x1020 <= v < 0x2000 or (v & 0xFF) < 0x20]


def _sig_or_exc(w):
  try:
    return _signature(w) + [get_scc_word_disassembly(w, True)]
  except Exception as e:  # pylint: disable=broad-except
    return ["exception", exc_disc(e)]


def check_pairs(case, acc):
  """case: {"first": word, "second": [words] or None (= every pair word)}: `first` is decoded and held while each second word is
  decoded; after each of them the held word must still show what it showed, and the second word must show what it shows alone."""
  v = int(case["first"])
  seconds = case.get("second") or PAIR_WORDS
  r1 = ref608.classify(v)
  acc.case(f"first={r1['cls']}", nontrivial=True)
  with _quiet():
    try:
      held = SccWord.from_value(v)
    except Exception:  # pylint: disable=broad-except
      return   # totality is the per-word family's clause
    before = _sig_or_exc(held)
    keep = []
    for u in seconds:
      try:
        other = SccWord.from_value(u)
      except Exception:  # pylint: disable=broad-except
        continue
      keep.append(other)
      acc.count("ordered_pairs")
      after = _sig_or_exc(held)
      if after != before:
        r2 = ref608.classify(u)
        same = "same-code-other-channel" if (r2["stripped"] ^ r1["stripped"]) == 0x0800 else "same-word" if r2["stripped"] == r1["stripped"] else "other"
        acc.violation("C17.function-of-word", f"held={r1['cls']},decoded={r2['cls']},{same}", {"first": v, "second": [u]},
                      observed=after, expected=before, note=f"word {v:#06x}, decoded and still held, reads differently after {u:#06x} was decoded")
        return
    # the words decoded while others were held read as they do alone (a fresh decode of the same value)
    for other in keep[::97]:
      try:
        alone = _sig_or_exc(SccWord.from_value(other.value))
      except Exception:  # pylint: disable=broad-except
        continue
      if _sig_or_exc(other) != alone:
        acc.violation("C17.function-of-word", f"held={r1['cls']},later-word-changed", {"first": v, "second": [other.value]},
                      observed=_sig_or_exc(other), expected=alone)
        return


def fam_pairs():
  def decode(i):
    return {"first": PAIR_WORDS[i], "second": None}

  return Family("held-word x every control-range word", len(PAIR_WORDS), decode, check_pairs, timeout=60.0, chunk=16,
                note=f"every ordered pair over the {len(PAIR_WORDS)} pair words (all 16 x 96 control-range values and the other representatives): "
                     "the first word is held while the second is decoded")


def plan(tier, seed):
  if tier == "thorough":
    return [fam_words(), fam_pairs(), fam_lines(4, TIME_CODES[0]), fam_lines(3, TIME_CODES[1])] + \
           [fam_every_word_in_line(c, TIME_CODES[i % 2]) for i, c in enumerate(CONTEXTS)]
  return [fam_words(), fam_pairs(), fam_lines(3, TIME_CODES[seed % 2]), fam_every_word_in_line(CONTEXTS[seed % len(CONTEXTS)], TIME_CODES[(seed + 1) % 2])]


# ---------------------------------------------------------------------------------------------------------------
# gates: the reference table is bound before it is believed (DESIGN.md 2.8)

# (a) hand-known facts: word (as transmitted or stripped) -> expected fields
HAND = [
  (0x9420, dict(stripped=0x1420, cls=CONTROL, name="RCL", channel=1, field=1)),
  (0x942F, dict(stripped=0x142F, cls=CONTROL, name="EOC", channel=1, field=1)),
  (0x9470, dict(stripped=0x1470, cls=PAC, channel=1, row=15, indent=0, color="white", underline=False, italics=False)),
  (0x91B0, dict(stripped=0x1130, cls=SPECIAL, channel=1, text="®")),
  (0x0000, dict(cls=PADDING, channel=None)), (0x8080, dict(cls=PADDING, stripped=0)),
  (0x94AE, dict(cls=CONTROL, name="ENM")), (0x942C, dict(cls=CONTROL, name="EDM")), (0x94A1, dict(cls=CONTROL, name="BS")),
  (0x9425, dict(cls=CONTROL, name="RU2")), (0x9426, dict(cls=CONTROL, name="RU3")), (0x94A7, dict(cls=CONTROL, name="RU4")),
  (0x94AD, dict(cls=CONTROL, name="CR")), (0x9429, dict(cls=CONTROL, name="RDC")), (0x94A4, dict(cls=CONTROL, name="DER")),
  (0x942A, dict(cls=CONTROL, name="TR")), (0x94AB, dict(cls=CONTROL, name="RTD")), (0x94A8, dict(cls=CONTROL, name="FON")),
  (0x1C20, dict(cls=CONTROL, name="RCL", channel=2, field=1)), (0x1C2F, dict(cls=CONTROL, name="EOC", channel=2)),
  (0x1520, dict(cls=CONTROL, name="RCL", channel=None, field=2, field2_channel=1)),
  (0x1D2F, dict(cls=CONTROL, name="EOC", channel=None, field=2, field2_channel=2)),
  (0x97A1, dict(stripped=0x1721, cls=CONTROL, name="TO1", tab=1, channel=1)), (0x97A2, dict(cls=CONTROL, name="TO2", tab=2)),
  (0x9723, dict(cls=CONTROL, name="TO3", tab=3)), (0x1F21, dict(cls=CONTROL, name="TO1", channel=2)),
  (0x91AE, dict(stripped=0x112E, cls=MIDROW, color=None, italics=True, underline=False, channel=1)),
  (0x9120, dict(cls=MIDROW, color="white", italics=False, underline=False)),
  (0x1123, dict(cls=MIDROW, color="green", underline=True)), (0x192C, dict(cls=MIDROW, color="magenta", channel=2)),
  (0x112F, dict(cls=MIDROW, color=None, italics=True, underline=True)),
  # the row table of 47 CFR 15.119 (h): first byte (channel 1) / second byte range -> row
  (0x1140, dict(cls=PAC, row=1)), (0x1160, dict(cls=PAC, row=2)), (0x1240, dict(cls=PAC, row=3)), (0x1260, dict(cls=PAC, row=4)),
  (0x1540, dict(cls=PAC, row=5)), (0x1560, dict(cls=PAC, row=6)), (0x1640, dict(cls=PAC, row=7)), (0x1660, dict(cls=PAC, row=8)),
  (0x1740, dict(cls=PAC, row=9)), (0x1760, dict(cls=PAC, row=10)), (0x1040, dict(cls=PAC, row=11)), (0x1340, dict(cls=PAC, row=12)),
  (0x1360, dict(cls=PAC, row=13)), (0x1440, dict(cls=PAC, row=14)), (0x1460, dict(cls=PAC, row=15)),
  (0x1060, dict(cls=UNKNOWN)), (0x187F, dict(cls=UNKNOWN)), (0x185F, dict(cls=PAC, row=11, channel=2, indent=28, underline=True)),
  (0x1D40, dict(cls=PAC, row=5, channel=2)), (0x1F60, dict(cls=PAC, row=10, channel=2)),
  (0x145E, dict(cls=PAC, row=14, indent=28, underline=False, color="white")),
  (0x147F, dict(cls=PAC, row=15, indent=28, underline=True)),
  (0x1452, dict(cls=PAC, row=14, indent=4)), (0x147A, dict(cls=PAC, row=15, indent=20)), (0x1673, dict(cls=PAC, row=8, indent=4, underline=True)),
  (0x144E, dict(cls=PAC, row=14, indent=0, color="white", italics=True, underline=False)),
  (0x144F, dict(cls=PAC, italics=True, underline=True)),
  (0x1448, dict(cls=PAC, row=14, color="red", italics=False)), (0x1442, dict(cls=PAC, color="green")), (0x1444, dict(cls=PAC, color="blue")),
  (0x1446, dict(cls=PAC, color="cyan")), (0x144A, dict(cls=PAC, color="yellow")),
  (0x1C4D, dict(cls=PAC, channel=2, row=14, color="magenta", underline=True)),
  (0x91D0, dict(stripped=0x1150, cls=PAC, channel=1, row=1, indent=0)), (0x99D0, dict(stripped=0x1950, cls=PAC, channel=2, row=1)),
  (0x1020, dict(cls=ATTRIBUTE, name="BWO", color="white", opacity="opaque", background=True, channel=1)),
  (0x9024, dict(stripped=0x1024, cls=ATTRIBUTE, name="BBO", color="blue", opacity="opaque")),
  (0x1023, dict(cls=ATTRIBUTE, name="BGS", color="green", opacity="semi")), (0x102F, dict(cls=ATTRIBUTE, name="BAS", color="black", opacity="semi")),
  (0x182E, dict(cls=ATTRIBUTE, name="BAO", channel=2)), (0x1029, dict(cls=ATTRIBUTE, name="BRS")), (0x102A, dict(cls=ATTRIBUTE, name="BYO")),
  (0x1027, dict(cls=ATTRIBUTE, name="BCS")), (0x102C, dict(cls=ATTRIBUTE, name="BMO")),
  (0x172D, dict(cls=ATTRIBUTE, name="BT", opacity="transparent", background=True)),
  (0x172E, dict(cls=ATTRIBUTE, name="FA", color="black", background=False, underline=False)),
  (0x1F2F, dict(cls=ATTRIBUTE, name="FAU", background=False, underline=True, channel=2)),
  (0x1030, dict(cls=UNKNOWN)), (0x1720, dict(cls=UNKNOWN)), (0x172B, dict(cls=UNKNOWN)), (0x172C, dict(cls=UNKNOWN)), (0x1724, dict(cls=UNKNOWN)),
  (0x1620, dict(cls=UNKNOWN)), (0x1430, dict(cls=UNKNOWN)), (0x1432, dict(cls=UNKNOWN)), (0x1530, dict(cls=UNKNOWN)),
  (0x1000, dict(cls=UNKNOWN)), (0x1D00, dict(cls=UNKNOWN)), (0x1F38, dict(cls=UNKNOWN)), (0x1F1F, dict(cls=UNKNOWN)),
  (0x0041, dict(cls=UNKNOWN)), (0x0100, dict(cls=UNKNOWN)), (0x0F00, dict(cls=UNKNOWN)), (0x0080, dict(cls=PADDING)),
  (0x9132, dict(stripped=0x1132, cls=SPECIAL, text="½")), (0x1133, dict(cls=SPECIAL, text="¿")), (0x1134, dict(cls=SPECIAL, text="™")),
  (0x1137, dict(cls=SPECIAL, text="♪")), (0x1139, dict(cls=SPECIAL, text=" ")), (0x193F, dict(cls=SPECIAL, text="û", channel=2)),
  (0x9220, dict(stripped=0x1220, cls=EXTENDED, text="Á", channel=1)), (0x122A, dict(cls=EXTENDED, text="—")),
  (0x122C, dict(cls=EXTENDED, text="℠")), (0x123F, dict(cls=EXTENDED, text="»")), (0x1320, dict(cls=EXTENDED, text="Ã")),
  (0x132C, dict(cls=EXTENDED, text="^")), (0x1334, dict(cls=EXTENDED, text="ß")), (0x1B3F, dict(cls=EXTENDED, text="┘", channel=2)),
  (0x1A25, dict(cls=EXTENDED, text="ü", channel=2)),
  (0x2A5C, dict(cls=PRINTABLE, text="áé")), (0x5E5F, dict(cls=PRINTABLE, text="íó")), (0x607B, dict(cls=PRINTABLE, text="úç")),
  (0x7C7D, dict(cls=PRINTABLE, text="÷Ñ")), (0x7E7F, dict(cls=PRINTABLE, text="ñ█")), (0xFFFF, dict(stripped=0x7F7F, text="██")),
  (0x4100, dict(cls=PRINTABLE, text="A")), (0xC845, dict(stripped=0x4845, cls=PRINTABLE, text="HE")), (0x2C80, dict(cls=PRINTABLE, text=",")),
  (0x2020, dict(cls=PRINTABLE, text="  ")), (0x4C6F, dict(cls=PRINTABLE, text="Lo")), (0x27A7, dict(cls=PRINTABLE, text="''")),
]

# the literals of test_scc_word.py (get_code / get_channel), transcribed: word -> (class, name or None, channel)
REPO_WORD_LITERALS = [
  ("9420", CONTROL, "RCL", None), ("91ae", MIDROW, "ITALICS", None), ("9421", CONTROL, "BS", None), ("4c6f", PRINTABLE, None, None),
  ("7265", PRINTABLE, None, None), ("6d20", PRINTABLE, None, None), ("9220", EXTENDED, None, None), ("942c", CONTROL, "EDM", None),
  ("942f", CONTROL, "EOC", None), ("9425", CONTROL, "RU2", None), ("94ad", CONTROL, "CR", None), ("9673", PAC, None, None),
  ("742e", PRINTABLE, None, None), ("2065", PRINTABLE, None, None),
  ("1000", UNKNOWN, None, "none"), ("1432", UNKNOWN, None, "none"), ("1d00", UNKNOWN, None, "none"), ("1f38", UNKNOWN, None, "none"),
  ("91d0", PAC, None, 1), ("99d0", PAC, None, 2), ("1020", ATTRIBUTE, None, 1), ("1820", ATTRIBUTE, None, 2),
]

# the (line, disassembly) pairs of test_scc_disassembly.py and test_scc_line.py, transcribed
REPO_DISASSEMBLY_LITERALS = [
  ("9425 9425 94ad 94ad 9470 9470 4c6f 7265 6d20 6970 7375 6d20 646f 6c6f 7220 7369 7420 616d 6574 2c80",
   "{RU2}{RU2}{CR}{CR}{1500}{1500}Lorem ipsum dolor sit amet,"),
  ("9425 9425 94ad 94ad 9673 9673 636f 6e73 6563 7465 7475 7220 6164 6970 6973 6369 6e67 2065 6c69 742e",
   "{RU2}{RU2}{CR}{CR}{0804}{0804}consectetur adipiscing elit."),
  ("9426 9426 94ad 94ad 9470 9470 496e 7465 6765 7220 6c75 6374 7573 2065 7420 6c69 6775 6c61 2061 6320 7361 6769 7474 6973 2e80",
   "{RU3}{RU3}{CR}{CR}{1500}{1500}Integer luctus et ligula ac sagittis."),
  ("94a7 94ad 9470 7665 7374 6962 756c 756d 206e 6563 2076 6974 6165 206e 6973 692e", "{RU4}{CR}{1500}vestibulum nec vitae nisi."),
  ("9429 9429 94d2 94d2 4c6f 7265 6d20 6970 7375 6d20 646f 6c6f 7220 7369 7420 616d 6574 2c80 94f2 94f2 636f 6e73 6563 7465 7475 7220 "
   "6164 6970 6973 6369 6e67 2065 6c69 742e",
   "{RDC}{RDC}{1404}{1404}Lorem ipsum dolor sit amet,{1504}{1504}consectetur adipiscing elit."),
  ("94ae 94ae 9420 9420 947a 947a 97a2 97a2 a820 68ef f26e 2068 ef6e 6be9 6e67 2029 942c 942c 8080 8080 942f 942f",
   "{ENM}{ENM}{RCL}{RCL}{1520}{1520}{TO2}{TO2}( horn honking ){EDM}{EDM}{}{}{EOC}{EOC}"),
  ("942c 942c", "{EDM}{EDM}"),
  ("94ae 94ae 9420 9420 94f2 94f2 c845 d92c 2054 c845 91b0 45ae 942c 942c 8080 8080 942f 942f",
   "{ENM}{ENM}{RCL}{RCL}{1504}{1504}HEY, THE®E.{EDM}{EDM}{}{}{EOC}{EOC}"),
  ("9420 9420 9452 9452 97a1 97a1 54e5 73f4 2080 9132 2043 6170 f4e9 ef6e 2080 94f2 94f2 97a1 97a1 54e5 73f4 2080 91ae 91ae f4e5 73f4 "
   "9120 9120 2043 6170 f4e9 ef6e 7380 942c 942c 942f 942f",
   "{RCL}{RCL}{1404}{1404}{TO1}{TO1}Test ½ Caption {1504}{1504}{TO1}{TO1}Test {I}{I}test{Wh}{Wh} Captions{EDM}{EDM}{EOC}{EOC}"),
  ("94ae 94ae 9420 9420 94f2 94f2 c845 d92c 2054 c845 5245 ae80 942c 942c 8080 8080 942f 942f",
   "{ENM}{ENM}{RCL}{RCL}{1504}{1504}HEY, THERE.{EDM}{EDM}{}{}{EOC}{EOC}"),
  ("9024 c845 d92c 2054 c845 5245 ae80 9f9f", "{BBl}HEY, THERE.{??}"),
  ("9425 9425 94ad 94ad 94c8 94c8 c845 d92c 2054 c845 5245 ae80", "{RU2}{RU2}{CR}{CR}{14R}{14R}HEY, THERE."),
  ("9429 9429 94f2 94f2 c845 d92c 2054 c845 5245 ae80", "{RDC}{RDC}{1504}{1504}HEY, THERE."),
]


def _tree(name):
  path = os.path.join(env.REPO, "src", "test", "python", name)
  try:
    with open(path, encoding="utf-8") as f:
      return ast.parse(f.read())
  except OSError as e:
    raise HarnessError(f"gate (b): cannot read the repository's test {path}: {e}") from e


def _dotted(n):
  if isinstance(n, ast.Attribute):
    return _dotted(n.value) + "." + n.attr
  if isinstance(n, ast.Name):
    return n.id
  return "?"


def _style_lit(n):
  """None | 'white' (NamedColors.white.value) | 'italic' (FontStyleType.italic) | 'U' (TextDecorationType(underline=True))"""
  if isinstance(n, ast.Constant):
    return n.value
  if isinstance(n, ast.Attribute):
    d = _dotted(n)
    if d.startswith("NamedColors.") and d.endswith(".value"):
      return d.split(".")[1]
    if d == "FontStyleType.italic":
      return "italic"
    return d
  if isinstance(n, ast.Call) and _dotted(n.func) == "TextDecorationType":
    kw = {k.arg: getattr(k.value, "value", "?") for k in n.keywords}
    return "U" if kw == {"underline": True} else repr(kw)
  return "?"


def _lists(tree):
  out = {}
  for n in tree.body:
    if isinstance(n, ast.Assign) and isinstance(n.value, ast.List) and all(isinstance(e, ast.Constant) for e in n.value.elts):
      out[n.targets[0].id] = [e.value for e in n.value.elts]
  return out


def _calls(tree, attr):
  return [n for n in ast.walk(tree) if isinstance(n, ast.Call) and isinstance(n.func, ast.Attribute) and n.func.attr == attr]


def _find_arg(call, lists):
  """value of X in `Something.find(X)` where X is a literal or LIST[i]"""
  a = call.args[0]
  if isinstance(a, ast.Constant):
    return a.value
  if isinstance(a, ast.Subscript) and isinstance(a.value, ast.Name) and isinstance(a.slice, ast.Constant):
    return lists[a.value.id][a.slice.value], a.value.id
  raise HarnessError("gate (b): unexpected argument shape in a repository test")


def harvest_repo_literals():
  """Facts about single words asserted by the repository's SCC code tests: list of (source, word, {field: value})."""
  facts = []
  # PACs
  t = _tree("test_scc_pacs.py")
  for c in _calls(t, "check_scc_pac_attributes"):
    pac = c.args[0]
    b1, b2 = pac.args[0].value, pac.args[1].value
    ch, row, indent, color, fs, td = [_style_lit(a) for a in c.args[1:7]]
    facts.append(("pacs", (b1 << 8) | b2, dict(cls=PAC, channel=ch, row=row, t_indent=indent, t_color=color, italics=fs == "italic", underline=td == "U")))
  # mid-row codes
  t = _tree("test_scc_mid_row_codes.py")
  ls = _lists(t)
  for c in _calls(t, "check_mid_row_code"):
    v, _l = _find_arg(c.args[0], ls)
    name = _dotted(c.args[1]).split(".")[-1]
    color, fs, td = [_style_lit(a) for a in c.args[2:5]]
    facts.append(("midrow", v, dict(cls=MIDROW, name=name, color=color, italics=fs == "italic", underline=td == "U")))
  # control and attribute codes
  for fname, enum, cls in (("test_scc_control_codes.py", "SccControlCode", CONTROL), ("test_scc_attribute_codes.py", "SccAttributeCode", ATTRIBUTE)):
    t = _tree(fname)
    ls = _lists(t)
    for c in _calls(t, "assertEqual"):
      if len(c.args) == 2 and isinstance(c.args[0], ast.Attribute) and _dotted(c.args[0]).startswith(enum + ".") \
         and isinstance(c.args[1], ast.Call) and _dotted(c.args[1].func) == enum + ".find":
        v, lname = _find_arg(c.args[1], ls)
        f = dict(cls=cls, name=c.args[0].attr)
        if cls == CONTROL:
          f["t_field"] = 1 if "FIELD_1" in lname else 2
        facts.append((cls, v, f))
  # special and extended characters: `x = Enum.find(0x....)` followed by assertEqual('<char>', x.get_unicode_value())
  for fname in ("test_scc_special_characters.py", "test_scc_extended_characters.py"):
    t = _tree(fname)
    for fn in [n for n in ast.walk(t) if isinstance(n, ast.FunctionDef)]:
      cur = None
      for st in fn.body:
        if isinstance(st, ast.Assign) and isinstance(st.value, ast.Call) and isinstance(st.value.func, ast.Attribute) \
           and st.value.func.attr == "find" and isinstance(st.value.args[0], ast.Constant):
          cur = (st.value.args[0].value, SPECIAL if "Special" in _dotted(st.value.func) else EXTENDED)
        elif isinstance(st, ast.Expr) and isinstance(st.value, ast.Call) and getattr(st.value.func, "attr", "") == "assertEqual" and cur:
          a = st.value.args
          if isinstance(a[0], ast.Constant) and isinstance(a[0].value, str) and isinstance(a[1], ast.Call) \
             and getattr(a[1].func, "attr", "") == "get_unicode_value":
            facts.append(("chars", cur[0], dict(cls=cur[1], t_char=a[0].value)))
  # standard characters
  t = _tree("test_scc_standard_characters.py")
  for c in _calls(t, "assertEqual"):
    a = c.args
    if isinstance(a[0], ast.Subscript) and _dotted(a[0].value) == "SCC_STANDARD_CHARACTERS_MAPPING" and isinstance(a[1], ast.Constant):
      facts.append(("standard", a[0].slice.value, dict(t_std=a[1].value)))
  return facts


def _gate_b(facts):
  counts = {}
  disagreements = {}
  for src, v, f in facts:
    counts[src] = counts.get(src, 0) + 1
    if "t_std" in f:
      if ref608.std_char(v) != f["t_std"]:
        raise HarnessError(f"gate (b): standard character {v:#x}: reference {ref608.std_char(v)!r}, repository test {f['t_std']!r}")
      continue
    e = ref608.classify(v)
    for k, want in f.items():
      if k == "t_indent":      # the tests pin None for colour PACs
        ok = (want is None and not e["b2"] & 0x10 and e["indent"] == 0) or (want is not None and e["b2"] & 0x10 and e["indent"] == want)
      elif k == "t_color":     # .. and None for indent PACs
        ok = (want is None and e["b2"] & 0x10 and e["color"] == "white") or (want is not None and not e["b2"] & 0x10 and e["color"] == want)
      elif k == "t_field":
        ok = e["field"] in (want, None) and (e["field"] is not None or e["tab"])
      elif k == "t_char":
        ok = want == e["text"] or want in e["alt_text"]
        if not ok:
          disagreements[v & 0xF7FF] = want
          ok = True
      else:
        ok = e[k] == want
      if not ok:
        raise HarnessError(f"gate (b): word {v:#06x} field {k}: repository test asserts {want!r}, reference table says "
                           f"{ {x: e[x] for x in ('cls', 'channel', 'name', 'row', 'indent', 'color', 'italics', 'underline', 'field', 'text')} }")
  if disagreements != PINNED_DISAGREEMENTS:
    raise HarnessError(f"gate (b): character literals of the repository's tests that differ from the reference: "
                       f"{ {hex(k): v for k, v in disagreements.items()} }; resolved so far: { {hex(k): v for k, v in PINNED_DISAGREEMENTS.items()} } "
                       "- read the standard and resolve before the check may report")
  floor = {"pacs": 900, "midrow": 32, CONTROL: 70, ATTRIBUTE: 38, "chars": 160, "standard": 96}
  for k, n in floor.items():
    if counts.get(k, 0) < n:
      raise HarnessError(f"gate (b): only {counts.get(k, 0)} literals harvested from the repository's {k} tests (expected >= {n}); the tests changed shape")
  return counts


def _gate_lines():
  """the disassembly literals of the repository's tests, matched word by word against the reference classes"""
  n = 0
  for hexline, want in REPO_DISASSEMBLY_LITERALS:
    pos = 0
    for hw in hexline.split():
      e = ref608.classify(int(hw, 16))
      cls = e["cls"]
      if cls in (PRINTABLE, SPECIAL, EXTENDED):
        tok = e["text"]
      elif cls == PADDING:
        tok = "{}"
      else:
        end = want.find("}", pos)
        tok = want[pos:end + 1]
      if not want.startswith(tok, pos) or _token_problem(e, tok) is not None:
        raise HarnessError(f"gate (b): disassembly literal {want!r}: word {hw} (reference class {cls}) does not match at offset {pos}: "
                           f"{want[pos:pos + 12]!r} / {_token_problem(e, tok)}")
      pos += len(tok)
      n += 1
    if pos != len(want):
      raise HarnessError(f"gate (b): disassembly literal {want!r} has trailing text the reference does not account for")
  return n


def gates():
  # (a) hand examples
  for w, want in HAND:
    e = ref608.classify(w)
    for k, x in want.items():
      if e[k] != x:
        raise HarnessError(f"gate (a): word {w:#06x}: reference says {k}={e[k]!r}, hand-known value {x!r}")
  # structure: census of the classes (15 rows x 32 x 2 channels PACs, ...), parity helpers
  cen = ref608.census()
  want_cen = {PADDING: 1, PRINTABLE: 96 * 128, PAC: 960, MIDROW: 32, CONTROL: 70, ATTRIBUTE: 38, SPECIAL: 32, EXTENDED: 128}
  want_cen[UNKNOWN] = 128 * 128 - sum(want_cen.values())
  if cen != want_cen:
    raise HarnessError(f"gate (a): class census {cen} != {want_cen}")
  for s in range(0x8000):
    if s & 0x80:
      continue
    t = ref608.with_odd_parity(s)
    if ref608.strip(t) != s or ref608.parity_ok(t) != (True, True):
      raise HarnessError(f"gate (a): parity helper wrong for {s:#06x}")
  # second derivation of the PAC attributes (DESIGN.md 2.6): indent = ((b2 & 0x1E) - 0x10) * 2 when b2 & 0x10
  n_pac = 0
  for e in ref608.table():
    if e["cls"] != PAC:
      continue
    n_pac += 1
    b2 = e["b2"]
    if b2 & 0x10:
      ok = e["indent"] == ((b2 & 0x1E) - 0x10) * 2 and e["color"] == "white" and not e["italics"]
    else:
      a = (b2 & 0x0E) >> 1      # 0..6 the seven colours, 7 white italics
      ok = e["indent"] == 0 and e["color"] == (list(ref608.COLORS) + ["white"])[a] and e["italics"] == (a == 7)
    if not ok or e["underline"] != bool(b2 & 1) or e["channel"] != (2 if e["b1"] & 8 else 1):
      raise HarnessError(f"gate (a): PAC {e['stripped']:#06x} disagrees with the bit formula")
  # every representative of the line family has the class it is listed for
  rep_classes = {ref608.classify(v)["cls"] for v in REPRESENTATIVES}
  if rep_classes != set(ref608.CLASSES) or len(set(REPRESENTATIVES)) != len(REPRESENTATIVES):
    raise HarnessError("gate (a): the representatives do not cover every class exactly")
  # (b) the repository's own pinned expectations
  counts = _gate_b(harvest_repo_literals())
  for hw, cls, name, ch in REPO_WORD_LITERALS:
    e = ref608.classify(int(hw, 16))
    if e["cls"] != cls or (name is not None and e["name"] != name) or (ch == "none" and e["channel"] is not None) \
       or (isinstance(ch, int) and e["channel"] != ch):
      raise HarnessError(f"gate (b): test_scc_word.py literal {hw}: reference says {e['cls']}/{e['name']}/{e['channel']}")
  n_dis = _gate_lines()
  return {"hand_examples": len(HAND), "pac_formula_entries": n_pac, "parity_helper_words": 1 << 14,
          "repo_test_literals": dict(counts, word=len(REPO_WORD_LITERALS), disassembly_words=n_dis),
          "repo_literals_resolved_against_the_tests": {f"{k:#06x}": v for k, v in PINNED_DISAGREEMENTS.items()}}

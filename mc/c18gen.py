"""Seeds, tokenizers, deviation menus and token alphabets for C18 (DESIGN.md 1.1 E-dev, C18).

Everything here is deterministic plain data.  A *seed* is a token list; a *deviation* is one edit of one token taken
from a finite menu; `DevSpace(seed)` addresses all executions with 0, 1 or 2 deviations by index (mixed radix over
the menu, never materialised beyond the per-seed menu table).

Token models
  text formats (SRT, WebVTT, SCC): token = [text, separator, type]; the file is the concatenation of text+separator.
      Two tokenisations of each seed are explored: lines (separator = line end) and words (separator = white space;
      tags, time stamps, arrows, settings, hex words are single tokens).
  TTML: a small element tree [tag, {attr: value}, [child | str, ...]] with prefixed names; tokens are elements,
      attributes and text positions; the deviated tree is serialised to text.  A lexical tokenisation of the
      serialised text (tags / text runs) is explored as well (truncation and deletion: mostly XML parse errors).
  EBU STL: tokens are the fields of the GSI block and of every TTI block (byte ranges), every used byte of a TF
      field, and the 128-byte blocks themselves.
"""
from __future__ import annotations

import bisect
import os
import re
import struct

LONG_NUM = "9" * 5000          # longer than CPython's int/str conversion limit (4300 digits)
LONG_TXT = "A" * 20000
JUNK_TXT = "\x00\x7f�<&>{]١٢"
GENERIC = ["", "0", "-1", "99999999", LONG_NUM, LONG_TXT, JUNK_TXT]

# ------------------------------------------------------------------------------------------------------
# text tokenisation


def tok_lines(text):
  """[line, eol, 'line'] tokens"""
  out = []
  for ln in text.splitlines(keepends=True):
    body = ln.rstrip("\r\n")
    out.append([body, ln[len(body):], "line"])
  return out


_WORD_RE = re.compile(r"(<[^<>\n]*>|[^\s<>]+|[<>])(\s*)")


def _wtype(fmt, w):
  if w.startswith("<") and w.endswith(">") and len(w) > 1:
    return "tag"
  if w in ("-->",):
    return "arrow"
  if re.fullmatch(r"[0-9:.,;]+", w) and (":" in w):
    return "ts"
  if re.fullmatch(r"-?[0-9]+", w):
    return "int"
  if fmt == "scc" and re.fullmatch(r"[0-9a-fA-F]{4}", w):
    return "hex"
  if fmt == "vtt" and re.fullmatch(r"[a-z]+:[^\s]+", w):
    return "setting"
  return "word"


def tok_words(fmt, text):
  out = []
  m0 = re.match(r"\s*", text)
  pos = m0.end()
  if pos:
    out.append(["", text[:pos], "ws"])
  for m in _WORD_RE.finditer(text, pos):
    out.append([m.group(1), m.group(2), _wtype(fmt, m.group(1))])
  return out


def join_tokens(toks):
  return "".join(t[0] + t[1] for t in toks)


TYPE_VALUES = {
  "line": ["", " ", "0", "-1", "99999999", LONG_NUM, LONG_TXT, JUNK_TXT, "-->", "00:00:00,000 --> 00:00:00,000",
           "00:00.000 --> 00:00.000", "</b>", "<b>", "WEBVTT", "NOTE x", "STYLE", "﻿"],
  "int": GENERIC + ["1.5", " ", "١"],
  "ts": GENERIC + ["00:00:00,000", "00:00:00.000", "99:59:59,999", "99:59:59.999", "00:00:01,0000", "00:00:01.0000",
                   "00:00:01", "00:61:61,000", "00:61:61.000", "00:01.000", "100:00:00.000", "1000:00:00,000",
                   "00:00:00:00", "23:59:59;29", "99:99:99:99", "00:00:00:30", "xx:yy:zz,www",
                   "٠٠:٠٠:٠١,٠٠٠"],
  "arrow": ["", "->", "--->", "-- >", "-->-->", "<--", JUNK_TXT],
  "word": GENERIC + ["<", ">", "&", "&amp;", "&#0;", "&#x110000;", "</b>", "<b>", "<rt>", "</ruby>", "{b}", "-->"],
  "tag": ["", "<>", "</>", "<b", "b>", "<b>", "</b>", "</i>", "<font>", "</font>", '<font color="">', '<font color="#12">',
          '<font color="red">', "<font color>", '<font color="rgb(1,2)">', "<" + "b" * 5000 + ">", "<!--", "<?x", "<![CDATA[",
          "<ruby>", "</ruby>", "<rt>", "</rt>", "<c.>", "<c..red>", "<c.bg_>", "<lang>", "<v>", "<00:00:00.000>", "<99:99:99.999>",
          "<00:00.5>", "<1>", "</ >", "<\t>", JUNK_TXT,
          "<b>" * 400, "<i>" * 1500, "</b>" * 5],       # "very long" for structure: nested start tags, repeated end tags
  "hex": ["", "0", "-1", "99999999", LONG_NUM, "zzzz", "942", "94200", "0000", "8080", "ffff", "7f7f", "1020", "1f2f", "1c20",
          "9420", "942c", "942f", "94ae", "9429", "9425", "94ad", "94a1", "94a4", "97a1", "97a2", "9723", "9140", "917f", "91ae",
          "91b0", "9220", "923f", "1320", "94a8", "9470", "94d0", "9454"],
  "setting": GENERIC + ["line:", "line:0", "line:-1", "line:101%", "line:50%,center", "line:50%,zzz", "line:1e9", "line:,",
                        "line:99999999999999999999", "position:", "position:50%,line-left", "position:150%", "position:-1%",
                        "position:50%,zzz", "size:", "size:0%", "size:1000%", "size:50", "align:", "align:zzz", "align:left",
                        "align:right", "align:start", "align:end", "vertical:", "vertical:lr", "vertical:rl", "vertical:zz",
                        "region:r", "a:b:c", ":", "::",
                        # numbers that overflow a float or exceed the integer-string conversion limit, in every numeric setting
                        "size:" + "9" * 400 + "%", "position:" + "9" * 400 + "%", "line:" + "9" * 400 + "%", "line:" + "9" * 400,
                        "size:1e400%", "size:" + LONG_NUM + "%", "line:-" + "9" * 19],
  "ws": ["", "﻿", "\x00", "\t"],
}


# ------------------------------------------------------------------------------------------------------
# deviation space over a token list


class DevSpace:
  """All executions with 0, 1 (and optionally 2) deviations of a token list.

  ops: ("del", i) ("dup", i) ("swap", i) ("trunc", i) ("mid", i) ("rep", i, k)
  """

  def __init__(self, name, fmt, toks, values=TYPE_VALUES, join=join_tokens, pairs=False, positions=None, extra=None):
    self.name, self.fmt, self.toks, self.values, self.join = name, fmt, toks, values, join
    self.extra = extra or {}
    n = len(toks)
    self.singles = []
    pos_iter = range(n) if positions is None else positions
    for i in pos_iter:
      self.singles.append(("del", i))
      self.singles.append(("dup", i))
      if i + 1 < n:
        self.singles.append(("swap", i))
      self.singles.append(("trunc", i))
      if len(toks[i][0]) > 1:
        self.singles.append(("mid", i))
      for k, v in enumerate(values.get(toks[i][2], GENERIC)):
        if v != toks[i][0]:
          self.singles.append(("rep", i, k))
    self.n1 = len(self.singles)
    self.pair_cum = None
    self.n2 = 0
    if pairs:
      # b ranges over the singles at a strictly later position than a; a is never a truncation (it would erase b)
      first_after = {}
      for idx, op in enumerate(self.singles):
        first_after.setdefault(op[1], idx)
      starts = sorted(first_after.items())
      pos_list = [p for p, _ in starts]
      cum = []
      tot = 0
      self.pair_a = []
      for idx, op in enumerate(self.singles):
        if op[0] in ("trunc", "mid"):
          continue
        j = bisect.bisect_right(pos_list, op[1])
        if j >= len(starts):
          continue
        st = starts[j][1]
        cnt = self.n1 - st
        if cnt <= 0:
          continue
        self.pair_a.append((idx, st))
        cum.append(tot)
        tot += cnt
      self.pair_cum = cum
      self.n2 = tot
    self.n = 1 + self.n1 + self.n2

  def apply(self, toks, op):
    kind, i = op[0], op[1]
    if i >= len(toks):
      return toks
    if kind == "del":
      t = toks[i]
      out = toks[:i] + toks[i + 1:]
      # a deleted last word of a line hands its line end to the previous word
      if isinstance(t[1], str) and "\n" in t[1] and i > 0 and "\n" not in out[i - 1][1] and t[2] != "line":
        out[i - 1] = [out[i - 1][0], t[1], out[i - 1][2]]
      return out
    if kind == "dup":
      return toks[:i + 1] + [list(toks[i])] + toks[i + 1:]
    if kind == "swap":
      if i + 1 >= len(toks):
        return toks
      a, b = toks[i], toks[i + 1]
      return toks[:i] + [[b[0], a[1], b[2]], [a[0], b[1], a[2]]] + toks[i + 2:]
    if kind == "trunc":
      return toks[:i]
    if kind == "mid":
      return toks[:i] + [[toks[i][0][:max(1, len(toks[i][0]) // 2)], "", toks[i][2]]]
    if kind == "rep":
      v = self.values.get(toks[i][2], GENERIC)[op[2]]
      return toks[:i] + [[v, toks[i][1], toks[i][2]]] + toks[i + 1:]
    raise ValueError(kind)

  def ops_of(self, idx):
    if idx == 0:
      return []
    idx -= 1
    if idx < self.n1:
      return [self.singles[idx]]
    idx -= self.n1
    j = bisect.bisect_right(self.pair_cum, idx) - 1
    a_idx, st = self.pair_a[j]
    b_idx = st + (idx - self.pair_cum[j])
    return [self.singles[b_idx], self.singles[a_idx]]      # later position first: indices stay valid

  def decode(self, idx):
    ops = self.ops_of(idx)
    toks = self.toks
    for op in ops:
      toks = self.apply(toks, op)
    case = {"fmt": self.fmt, "src": f"{self.name}:{'+'.join('.'.join(map(str, o)) for o in ops) or 'seed'}"}
    case.update(self.extra)
    payload = self.join(toks)
    case["data" if isinstance(payload, (bytes, bytearray)) else "text"] = payload
    return case


# ------------------------------------------------------------------------------------------------------
# SRT / VTT / SCC seeds (grammar-generated minimal valid files)

SRT_SEEDS = {
  "srt-1cue": "1\n00:00:01,000 --> 00:00:02,000\nHello <b>bold</b>\n\n",
  "srt-2cue-tags": ("1\n00:00:01,000 --> 00:00:02,500\n<i>one</i> <font color=\"#ff0000\">red</font>\nsecond <u>line</u>\n\n"
                    "2\n00:00:02,500 --> 00:00:04,000\n{b}curly{/b} <b><i>x</i></b>\n"),
  "srt-hours3-noeol": "7\n100:00:00,001 --> 100:00:00,002\n<font color=\"blue\">a</font>",
}

VTT_SEEDS = {
  "vtt-1cue": "WEBVTT\n\n00:00:01.000 --> 00:00:02.000\nHello <b>bold</b>\n\n",
  "vtt-rich": ("WEBVTT - title\n\nNOTE a comment\nmore\n\nSTYLE\n::cue { color: red }\n\nREGION\nid:r lines:3\n\n"
               "cue-1\n00:00:01.000 --> 00:00:03.000 line:10% position:50%,center size:80% align:start\n"
               "<c.yellow.bg_blue>col</c> <v Bob>voice</v> <lang en>lang</lang>\n<ruby>base<rt>text</rt></ruby> a<00:00:02.000>b &amp; c\n\n"
               "00:04.000 --> 00:05.000 vertical:rl line:-1\n<b><i><u>x</u></i></b>\n"),
  "vtt-2cue-short": "WEBVTT\n\n1\n00:01.000 --> 00:02.000 align:end\n<i>a</i>\n\n2\n00:02.000 --> 00:02.001 line:0\nb\nc\n",
}

SCC_HEADER = "Scenarist_SCC V1.0\n\n"
SCC_SEEDS = {
  "scc-popon": SCC_HEADER + "00:00:01:00\t94ae 94ae 9420 9420 9470 9470 c845 4c4c 4f80 942c 942c 942f 942f\n\n00:00:03:00\t942c 942c\n\n",
  "scc-popon2": SCC_HEADER + ("00:00:01:00\t9420 9420 9452 9452 97a1 97a1 54e5 73f4 2080 91ae 91ae f4e5 73f4 942f 942f\n\n"
                              "00:00:02:00\t9420 9420 94f2 94f2 91b0 9220 1020 c1c2 942c 942c 942f 942f\n\n00:00:04:00\t942c 942c\n"),
  "scc-rollup": SCC_HEADER + ("00:00:00;22\t9425 9425 94ad 94ad 9470 9470 3e3e 3e20 c849 ae80\n\n"
                              "00:00:02;23\t9425 9425 94ad 94ad 9470 9470 49a7 cd20 91ae 91ae cb45\n\n00:00:04;17\t94a7 94a7 94ad 94ad 9454 9454 c1c2\n\n"
                              "00:00:06;00\t942c 942c\n"),
  "scc-painton": SCC_HEADER + ("00:00:01:00\t9429 9429 94d2 94d2 4c6f 7265 6d20 91ae 91ae 6970 2c80 94f2 94f2 636f 6e73\n\n"
                               "00:00:02:00\t9429 9429 94d2 94d2 5065 6c80 94a1 94a1 94a4 94a4\n\n00:00:03:00\t942c 942c\n"),
}


def text_spaces(fmt, seeds, pairs_max_tokens):
  """DevSpaces of the generated text seeds: line and word tokenisations; pairs where the token count allows"""
  out = []
  for name, text in seeds.items():
    lt = tok_lines(text)
    wt = tok_words(fmt, text)
    out.append(DevSpace(name + "/lines", fmt, lt, pairs=len(lt) <= pairs_max_tokens))
    out.append(DevSpace(name + "/words", fmt, wt, pairs=len(wt) <= pairs_max_tokens))
  return out


# ------------------------------------------------------------------------------------------------------
# token alphabets (all strings of length <= k)

SRT_LINE_ALPHABET = ["1\n", "\n", "00:00:01,000 --> 00:00:02,000\n", "00:00:02,000 --> 00:00:02,000\n", "text\n", "<b>x</b> <i>y\n",
                     "</b>\n", "<font color=\"red\">r</font>\n", "<font color=\"nocolor\">r\n", "a --> b\n", "-1\n"]
SRT_TEXT_ALPHABET = ["a", " ", "\n", "<b>", "</b>", "<i>", "<u>", "</u>", "<font color=\"red\">", "<font color=\"#12\">", "<font color>", "<font>",
                     "</font>", "<x>", "{b}", "{/bold}", "&amp;", "<", "<![x[", "<!--"]
VTT_LINE_ALPHABET = ["WEBVTT\n", "\n", "NOTE x\n", "STYLE\n", "REGION\n", "id\n", "00:01.000 --> 00:02.000\n",
                     "00:00:02.000 --> 00:00:02.000 line:0 align:start position:10%,line-right vertical:lr\n", "text\n", "<b>x\n", "</b>\n",
                     "<ruby>a<rt>b\n", "x --> y\n"]
VTT_TEXT_ALPHABET = ["a", "\n", "<b>", "</b>", "<c.red.bg_blue>", "</c>", "<ruby>", "</ruby>", "<rt>", "</rt>", "<v A>", "<lang en>", "<lang>",
                     "<00:01.500>", "<00:00.500>", "&amp;", "&", "<", "<x>", "</>"]
SCC_WORD_ALPHABET = ["9420", "942f", "942c", "94ae", "9425", "94a7", "94ad", "9429", "9470", "9140", "91ae", "97a1", "94a1", "94a4", "91b0", "9220",
                     "1020", "1c20", "c845", "2080", "0000", "zz"]
SCC_LINE_ALPHABET = ["Scenarist_SCC V1.0\n", "\n", "00:00:01:00\t9420 9420 9470 9470 c845 942f 942f\n", "00:00:02:00\t942c 942c\n",
                     "00:00:03;00\t9425 9425 94ad 94ad 9470 9470 c1c2\n", "00:00:04:00\t94ad 94ad c3c4\n", "00:00:05:00\t9429 9429 94d2 94d2 4c6f\n",
                     "00:00:06:00\t942f 942f\n", "00:00:07:00\t94a1 94a1 97a1 91ae\n", "99:99:99:99\t9420\n", "00:00:08:00 9420\n", "00:00:09:00\tzz 94\n"]


class Strings:
  """all strings of length 0..k over an alphabet, rendered by `render(list of symbols) -> case`"""

  def __init__(self, name, alphabet, k, render):
    self.name, self.alphabet, self.k, self.render = name, alphabet, k, render
    a = len(alphabet)
    self.offsets = []
    tot = 0
    for ln in range(k + 1):
      self.offsets.append(tot)
      tot += a ** ln
    self.n = tot

  def decode(self, idx):
    ln = bisect.bisect_right(self.offsets, idx) - 1
    r = idx - self.offsets[ln]
    a = len(self.alphabet)
    syms = []
    for _ in range(ln):
      r, d = divmod(r, a)
      syms.append(self.alphabet[d])
    syms.reverse()
    case = self.render(syms)
    case["src"] = f"{self.name}:len{ln}#{idx}"
    return case


# ------------------------------------------------------------------------------------------------------
# TTML trees

NS = {
  "": "http://www.w3.org/ns/ttml", "tts": "http://www.w3.org/ns/ttml#styling", "ttp": "http://www.w3.org/ns/ttml#parameter",
  "ttm": "http://www.w3.org/ns/ttml#metadata", "itts": "http://www.w3.org/ns/ttml/profile/imsc1#styling",
  "ittp": "http://www.w3.org/ns/ttml/profile/imsc1#parameter", "ebutts": "urn:ebu:tt:style",
}
_NS_REV = {v: k for k, v in NS.items()}
_NS_REV["http://www.w3.org/XML/1998/namespace"] = "xml"


def _esc(s, attr=False):
  s = s.replace("&", "&amp;").replace("<", "&lt;").replace(">", "&gt;")
  if attr:
    s = s.replace('"', "&quot;").replace("\n", "&#10;").replace("\t", "&#9;")
  # characters XML 1.0 cannot carry are kept: they are part of the exploration (parse error expected)
  return s


def ser(node, root=True):
  tag, attrs, kids = node
  if tag == "#deep":
    # "very long" structure: n nested copies of one start tag around the inner element, serialised without recursion
    opening = "<" + attrs["tag"] + "".join(f' {k}="{_esc(v, True)}"' for k, v in attrs["attrs"].items()) + ">"
    return opening * attrs["n"] + "".join(_esc(k) if isinstance(k, str) else ser(k, False) for k in kids) + f"</{attrs['tag']}>" * attrs["n"]
  out = ["<", tag]
  if root:
    for p, u in NS.items():
      out.append(f' xmlns{":" + p if p else ""}="{u}"')
  for k, v in attrs.items():
    out.append(f' {k}="{_esc(v, True)}"')
  if not kids:
    out.append("/>")
    return "".join(out)
  out.append(">")
  for k in kids:
    out.append(_esc(k) if isinstance(k, str) else ser(k, False))
  out.append(f"</{tag}>")
  return "".join(out)


def E(tag, attrs=None, *kids):
  return [tag, dict(attrs or {}), list(kids)]


def from_et(el):
  """xml.etree element -> tree (prefixes by the fixed table; foreign namespaces become plain local names)"""
  def qn(name):
    if name.startswith("{"):
      ns, loc = name[1:].split("}", 1)
      p = _NS_REV.get(ns)
      if p is None:
        return "x_" + loc
      return f"{p}:{loc}" if p else loc
    return name
  kids = []
  if el.text:
    kids.append(el.text)
  for c in el:
    if not isinstance(c.tag, str):
      continue
    kids.append(from_et(c))
    if c.tail:
      kids.append(c.tail)
  return [qn(el.tag), {qn(k): v for k, v in el.attrib.items()}, kids]


def _ruby(*kids, **at):
  return E("span", dict({"tts:ruby": "container"}, **at), *kids)


TTML_SEEDS = {
  "ttml-min": E("tt", {"xml:lang": "en"}, E("body", {}, E("div", {}, E("p", {"begin": "1s", "end": "2s"}, "Hello")))),
  "ttml-full": E(
    "tt", {"xml:lang": "en", "ttp:cellResolution": "40 20", "ttp:frameRate": "25", "ttp:frameRateMultiplier": "1000 1001", "ttp:tickRate": "10000000",
           "tts:extent": "640px 480px", "ittp:activeArea": "10% 10% 80% 80%", "ittp:aspectRatio": "16 9", "xml:space": "default"},
    E("head", {},
      E("styling", {},
        E("initial", {"tts:color": "red", "tts:fontSize": "2c"}),
        E("style", {"xml:id": "s1", "tts:color": "#ff000080", "tts:fontFamily": "monospace, 'A b'", "tts:textAlign": "center"}),
        E("style", {"xml:id": "s2", "style": "s1", "tts:fontStyle": "italic", "tts:textDecoration": "underline"})),
      E("layout", {},
        E("region", {"xml:id": "r1", "tts:origin": "10% 10%", "tts:extent": "80% 40%", "tts:displayAlign": "after", "tts:backgroundColor": "blue",
                     "tts:showBackground": "whenActive", "begin": "0s", "end": "100s", "tts:padding": "1c 2c", "tts:writingMode": "lrtb"},
          E("style", {"tts:opacity": "0.5"}),
          E("set", {"begin": "1s", "end": "2s", "tts:display": "none"})),
        E("region", {"xml:id": "r2", "tts:position": "center bottom", "tts:extent": "50% 20%", "style": "s1", "timeContainer": "par"}))),
    E("body", {"region": "r1", "style": "s2", "begin": "00:00:00.000", "tts:lineHeight": "125%"},
      E("div", {"begin": "10f", "dur": "00:00:10:00", "xml:lang": "fr", "timeContainer": "par"},
        E("p", {"begin": "1s", "end": "5s", "xml:id": "p1", "tts:textOutline": "red 1px", "tts:textShadow": "1px 1px 2px red", "ebutts:linePadding": "0.5c",
                "itts:fillLineGap": "true", "ebutts:multiRowAlign": "start", "tts:rubyReserve": "both 1c"},
          E("set", {"begin": "1s", "dur": "1s", "tts:color": "green"}),
          "text ", E("span", {"begin": "10000000t", "tts:fontWeight": "bold", "tts:textEmphasis": "filled circle red before", "xml:space": "preserve"}, " in  span ", E("br"), "x"),
          E("br"), " tail"),
        E("p", {"region": "r2", "begin": "5s", "end": "5.0001s", "tts:direction": "rtl", "tts:unicodeBidi": "embed", "tts:visibility": "hidden", "tts:wrapOption": "noWrap",
                "tts:shear": "10%", "tts:luminanceGain": "1.5", "tts:disparity": "1px", "tts:textCombine": "all", "tts:rubyPosition": "outside", "tts:rubyAlign": "center",
                "tts:overflow": "visible"},
          "short")))),
  "ttml-ruby": E(
    "tt", {"xml:lang": "ja"},
    E("head", {}, E("layout", {}, E("region", {"xml:id": "r1"}))),
    E("body", {},
      E("div", {"region": "r1"},
        E("p", {"begin": "0s", "end": "10s"},
          "a", _ruby(E("span", {"tts:ruby": "base"}, "B"), E("span", {"tts:ruby": "text", "begin": "2s", "end": "4s"}, "T")),
          _ruby(E("span", {"tts:ruby": "base"}, "B"), E("span", {"tts:ruby": "delimiter"}, "("), E("span", {"tts:ruby": "text"}, "T"), E("span", {"tts:ruby": "delimiter"}, ")")),
          _ruby(E("span", {"tts:ruby": "baseContainer"}, E("span", {"tts:ruby": "base"}, "B1"), E("span", {"tts:ruby": "base"}, "B2")),
                E("span", {"tts:ruby": "textContainer", "begin": "1s", "end": "3s"}, E("span", {"tts:ruby": "text"}, "T1"), E("span", {"tts:ruby": "text", "end": "2s"}, "T2"))))))),
  "ttml-seq": E(
    "tt", {"xml:lang": ""},
    E("body", {"timeContainer": "seq"},
      E("div", {"dur": "2s"}, E("p", {}, E("span", {"dur": "1s"}, "a"))),
      E("div", {"timeContainer": "seq", "begin": "1s"}, E("p", {"dur": "1s"}, "b"), E("p", {"end": "2s"}, E("span", {}, "c"), E("br")))),
  ),
}

TTML_SEEDS["ttml-untimed-2regions"] = E(
  "tt", {"xml:lang": "en"},
  E("head", {}, E("layout", {}, E("region", {"xml:id": "r1", "tts:origin": "10% 10%", "tts:extent": "80% 20%"}),
                E("region", {"xml:id": "r2", "tts:origin": "10% 70%", "tts:extent": "80% 20%", "tts:displayAlign": "after"}))),
  E("body", {}, E("div", {}, E("p", {"region": "r1"}, "always"), E("p", {"region": "r2", "begin": "1s"}, "from 1s on"), E("p", {"region": "r2", "end": "1s"}, ""))))

ELEMENT_NAMES = ["tt", "head", "styling", "layout", "body", "div", "p", "span", "br", "set", "region", "style", "initial", "metadata", "foo", "ttm:title"]
RUBY_KINDS = ["container", "base", "text", "delimiter", "baseContainer", "textContainer"]

STYLE_ATTRS = ["tts:backgroundColor", "tts:color", "tts:direction", "tts:disparity", "tts:display", "tts:displayAlign", "tts:extent", "itts:fillLineGap",
               "tts:fontFamily", "tts:fontSize", "tts:fontStyle", "tts:fontWeight", "tts:lineHeight", "ebutts:linePadding", "tts:luminanceGain",
               "ebutts:multiRowAlign", "tts:opacity", "tts:origin", "tts:overflow", "tts:padding", "tts:position", "tts:rubyAlign", "tts:rubyPosition",
               "tts:rubyReserve", "tts:shear", "tts:showBackground", "tts:textAlign", "tts:textCombine", "tts:textDecoration", "tts:textEmphasis",
               "tts:textOutline", "tts:textShadow", "tts:unicodeBidi", "tts:visibility", "tts:wrapOption", "tts:writingMode"]
OTHER_ATTRS = ["begin", "end", "dur", "timeContainer", "region", "style", "xml:id", "xml:lang", "xml:space", "tts:ruby"]
ROOT_ATTRS = ["ttp:cellResolution", "ttp:frameRate", "ttp:frameRateMultiplier", "ttp:tickRate", "tts:extent", "ittp:activeArea", "ittp:aspectRatio",
              "ttp:displayAspectRatio", "xml:lang", "xml:space"]
ATTR_NAMES = STYLE_ATTRS + OTHER_ATTRS + ["ttp:cellResolution", "ttp:frameRate", "ttp:frameRateMultiplier", "ttp:tickRate", "ittp:activeArea",
                                          "ittp:aspectRatio", "ttp:displayAspectRatio", "foo"]

# typed values that every slice of the quick tier keeps: with the seeds' begin="1s" / end="2s" they give an interval that is shorter than a
# millisecond and straddles a millisecond boundary (rounded time codes coincide, truncated ones do not)
ALWAYS_VALUES = ["1.9996s", "1.0004s",
                 # numbers that become an infinite float: as percentage, pixel and cell lengths and as a pair (origin / extent)
                 "1" + "0" * 400 + "%", "1" + "0" * 400 + "px", "1" + "0" * 400 + "% 1" + "0" * 400 + "%", "0% 1" + "0" * 400 + "%"]

VALUE_POOL = GENERIC + ALWAYS_VALUES + [
  " ", "  ", "1", "2", "0.5", "1.5", "NaN", "inf", "-inf", "1e400", "1e-400", "+1", "١",
  # time expressions
  "1s", "1.5s", "0.0001s", "10f", "10.5f", "10t", "1t", "00:00:01", "00:00:01.5", "00:00:01:10", "00:00:01:99", "1h", "1m", "100ms", "-1s", "1fps", "99999999h",
  "00:00:60", "0:0:1", "000:00:01.0001",
  # lengths and tuples of lengths
  "10px", "10%", "1c", "1em", "1rh", "1rw", "px", "+5px", "-5%", "1e3px", ".5c", "0px", "10 px", "10PX", "10%%",
  "10% 10%", "10px 10px", "1c 1c", "-10% -10%", "0% 0%", "200% 200%", "1em 1em", "auto", "10% 10% 10%", "1% 2% 3% 4%", "1% 2% 3% 4% 5%", "10%  10%", "10% px",
  "640px 480px", "640px", "0px 0px", "6.5px 4px", "640 480",
  # colours
  "red", "RED", "transparent", "#ff0000", "#ff000080", "#FF0000", "rgb(1,2,3)", "rgba(1,2,3,4)", "rgb(999,0,0)", "rgba(1,2,3,999)", "#ff", "#gg0000", "rgb(1,2)",
  # enumerations
  "none", "before", "after", "center", "start", "end", "left", "right", "justify", "wrap", "noWrap", "visible", "hidden", "lrtb", "rltb", "tbrl", "tblr", "lr", "rl",
  "tb", "normal", "italic", "oblique", "bold", "embed", "bidiOverride", "isolate", "ltr", "rtl", "always", "whenActive", "all", "outside", "withBase", "spaceAround",
  "true", "false", "preserve", "default", "seq", "par", "container", "base", "text", "delimiter", "baseContainer", "textContainer", "mro", "__class__", "name",
  # font families
  "monospace, 'a b'", "default", "\"x", ",", "'", "a\\", "proportionalSansSerif",
  # decorations, emphasis, outline, shadow, reserve, position
  "underline", "noUnderline lineThrough overline", "underline noUnderline",
  "filled circle red before", "open", "dot after", "filled open", "auto outside", "sesame #12", "current",
  "red 1px", "1px red", "red", "1px 2px 3px", "red 1px 1px", "1c",
  "1px 1px", "1px 1px 1px", "1px 1px red", "1px 1px 1px red", "1px 1px, 2px 2px", "1px 1px 1px red 5", "1px 1px,", ",", "1px 1px red 1px",
  "both", "both 1c", "before 1c 1c", "both red",
  "center bottom", "left 10% top 10%", "right bottom", "left 10% center", "top left", "left left", "10% top 10%", "left 10% 10% 10%", "center center center",
  # root parameters
  "32 15", "0 0", "32", "a b", "32 15 1", "25", "30000", "1000 1001", "1 0", "0 1", "16 9", "16 0", "0 9",
  "10% 10% 80% 80%", "10 10 80 80", "110% 0% 10% 10%", "-10% 0% 10% 10%", "0% 0% 100%",
  # references
  "r1", "r2", "s1", "s2", "s1 s2", "s2  s1", "p1", "nosuch", "en", "fr-CA", "x y",
]
VALUE_POOL = list(dict.fromkeys(VALUE_POOL))

ADD_ATTRS = [("timeContainer", "seq"), ("timeContainer", "par"), ("begin", "1s"), ("end", "2s"), ("dur", "1s"), ("end", "0s"), ("xml:space", "preserve"),
             ("tts:display", "none"), ("tts:visibility", "hidden"), ("region", "r1"), ("region", "nosuch"), ("style", "s1"), ("xml:id", "r1"), ("xml:id", ""),
             ("tts:ruby", "container"), ("tts:ruby", "text"), ("tts:ruby", "base"), ("tts:ruby", "textContainer"), ("tts:ruby", "zzz"), ("tts:extent", "auto"),
             ("tts:origin", "auto"), ("tts:fontSize", "10px"), ("tts:opacity", "0")]


def _walk(node, path=()):
  """yields (path, node) for every element; path = child indices from the root"""
  yield path, node
  for i, k in enumerate(node[2]):
    if not isinstance(k, str):
      yield from _walk(k, path + (i,))


def _copy(node):
  at = dict(node[1])
  if node[0] == "#deep":
    at["attrs"] = dict(at["attrs"])
  return [node[0], at, [k if isinstance(k, str) else _copy(k) for k in node[2]]]


def _at(root, path):
  n = root
  for i in path:
    n = n[2][i]
  return n


class XmlSpace:
  """structural deviations of a TTML tree: 0 and 1 deviation (pairs optional: element/attribute ops x attribute value ops)"""

  def __init__(self, name, tree, pairs=False, value_pool=None, rename_attrs=True):
    self.name, self.tree = name, tree
    pool = VALUE_POOL if value_pool is None else value_pool
    self.pool = pool
    ops = []
    for path, nd in _walk(tree):
      if path:
        ops += [("edel", path), ("edup", path), ("eswap", path), ("etrunc", path), ("eunwrap", path)]
      for nm in ELEMENT_NAMES:
        if nm != nd[0]:
          ops.append(("ename", path, nm))
      if nd[0] == "span":
        for rk in RUBY_KINDS:
          if nd[1].get("tts:ruby") != rk:
            ops.append(("aset", path, "tts:ruby", rk))
      for where in ("before", "first", "last", "after"):
        if path or where in ("first", "last"):
          ops.append(("text", path, where))
      for an in list(nd[1]):
        ops.append(("adel", path, an))
        for k, v in enumerate(pool):
          if v != nd[1][an]:
            ops.append(("aval", path, an, k))
        if rename_attrs:
          for nn in ATTR_NAMES:
            if nn != an and nn not in nd[1]:
              ops.append(("aname", path, an, nn))
      for an, av in ADD_ATTRS:
        if an not in nd[1]:
          ops.append(("aset", path, an, av))
      if path:
        ops.append(("deep", path, 60))
        ops.append(("deep", path, 1500))
    self.singles = ops
    self.n1 = len(ops)
    self.n2 = 0
    if pairs:
      # second deviation ranges over the "light" menu (no value pool / attribute renaming): structure x structure, structure x boundary value
      self.light = [i for i, o in enumerate(ops) if o[0] not in ("aval", "aname", "deep") or (o[0] == "aval" and o[3] < len(GENERIC))]
      self.n2 = len(self.light) * (len(self.light) - 1) // 2
    self.n = 1 + self.n1 + self.n2

  def apply(self, root, op):
    root = _copy(root)
    kind, path = op[0], op[1]
    try:
      nd = _at(root, path)
      parent = _at(root, path[:-1]) if path else None
    except (IndexError, TypeError):
      return root            # the position vanished under an earlier deviation
    if isinstance(nd, str):
      return root
    idx = path[-1] if path else None
    if kind == "edel":
      del parent[2][idx]
    elif kind == "edup":
      parent[2].insert(idx, _copy(nd))
    elif kind == "eswap":
      nxt = next((j for j in range(idx + 1, len(parent[2])) if not isinstance(parent[2][j], str)), None)
      if nxt is not None:
        parent[2][idx], parent[2][nxt] = parent[2][nxt], parent[2][idx]
    elif kind == "etrunc":
      # drop this element and everything after it in document order (the tree stays well formed)
      p = path
      while p:
        par = _at(root, p[:-1])
        del par[2][p[-1] + (0 if p is path else 1):]
        p = p[:-1]
    elif kind == "eunwrap":
      parent[2][idx:idx + 1] = nd[2]
    elif kind == "ename":
      nd[0] = op[2]
    elif kind == "text":
      w = op[2]
      if w == "first":
        nd[2].insert(0, "x")
      elif w == "last":
        nd[2].append("x")
      elif w == "before":
        parent[2].insert(idx, "x")
      else:
        parent[2].insert(idx + 1, "x")
    elif kind == "adel":
      nd[1].pop(op[2], None)
    elif kind == "aval":
      if op[2] in nd[1]:
        nd[1][op[2]] = self.pool[op[3]]
    elif kind == "aname":
      if op[2] in nd[1]:
        v = nd[1].pop(op[2])
        nd[1][op[3]] = v
    elif kind == "aset":
      nd[1][op[2]] = op[3]
    elif kind == "deep":
      # "very long" for structure: the element nested in `depth` copies of its own start tag
      parent[2][idx] = ["#deep", {"tag": nd[0], "attrs": dict(nd[1]), "n": op[2]}, [_copy(nd)]]
    else:
      raise ValueError(kind)
    return root

  def ops_of(self, idx):
    if idx == 0:
      return []
    idx -= 1
    if idx < self.n1:
      return [self.singles[idx]]
    idx -= self.n1
    # unrank the pair (a < b) over self.light
    m = len(self.light)
    a = 0
    row = m - 1
    while idx >= row:
      idx -= row
      a += 1
      row -= 1
    b = a + 1 + idx
    oa, ob = self.singles[self.light[a]], self.singles[self.light[b]]
    return self._order(oa, ob)

  @staticmethod
  def _order(oa, ob):
    struct_a = oa[0] in ("edel", "edup", "eswap", "etrunc", "eunwrap", "text", "deep")
    struct_b = ob[0] in ("edel", "edup", "eswap", "etrunc", "eunwrap", "text", "deep")
    if struct_a and not struct_b:
      return [ob, oa]
    if struct_b and not struct_a:
      return [oa, ob]
    if struct_a and struct_b:
      return [ob, oa] if ob[1] >= oa[1] else [oa, ob]      # later path first
    return [oa, ob]

  def decode(self, idx):
    ops = self.ops_of(idx)
    root = self.tree
    for op in ops:
      root = self.apply(root, op)
    def s(o):
      return ".".join("/".join(map(str, x)) if isinstance(x, tuple) else str(x) for x in o)
    return {"fmt": "ttml", "text": ser(root), "src": f"{self.name}:{'+'.join(s(o) for o in ops) or 'seed'}"}


_XML_LEX = re.compile(r"(<[^<>]*>|[^<>]+)()")


def tok_xml_lex(text):
  return [[m.group(1), "", "xmltag" if m.group(1).startswith("<") else "xmltext"] for m in _XML_LEX.finditer(text)]


XML_LEX_VALUES = {"xmltag": ["", "<", "<x>", "</x>", "<x/>", "<!--", "<![CDATA[", "<?xml version=\"1.0\"?>", "<!DOCTYPE tt [<!ENTITY a \"&a;&a;\">]>", "&a;"],
                  "xmltext": ["", "&", "&#0;", "&nosuch;", "\x00", "]]>", LONG_TXT]}


# host x attribute x value product (the "token strings" of TTML attributes)

ATTR_HOSTS = ["tt", "region", "style", "initial", "body", "div", "p", "span", "set", "region-style", "br", "ruby"]


def attr_product(hosts=None, names=None, pool=None):
  hosts = hosts or ATTR_HOSTS
  names = names or (STYLE_ATTRS + ["begin", "end", "dur", "timeContainer", "xml:space", "xml:lang", "xml:id", "region", "style"] +
                    ["ttp:cellResolution", "ttp:frameRate", "ttp:frameRateMultiplier", "ttp:tickRate", "tts:extent", "ittp:activeArea", "ittp:aspectRatio",
                     "ttp:displayAspectRatio"])
  names = list(dict.fromkeys(names))
  pool = pool or VALUE_POOL
  n = len(hosts) * len(names) * len(pool)

  def decode(i):
    i, vi = divmod(i, len(pool))
    hi, ni = divmod(i, len(names))
    host, an, av = hosts[hi], names[ni], pool[vi]
    tree = attr_host_tree(host, an, av)
    return {"fmt": "ttml", "text": ser(tree), "src": f"attr-product:{host}.{an}#{vi}"}
  return n, decode


def attr_host_tree(host, an, av):
  a = {an: av}
  region = E("region", {"xml:id": "r1"})
  style = E("style", {"xml:id": "s1", "tts:color": "red"})
  initial = None
  p_kids = ["t", E("span", {"begin": "1s", "end": "2s"}, "u")]
  span = p_kids[1]
  p = E("p", {"region": "r1", "style": "s1", "begin": "1s", "end": "3s"}, *p_kids)
  div = E("div", {}, p)
  body = E("body", {}, div)
  root_attrs = {"xml:lang": "en", "ttp:frameRate": "25", "ttp:tickRate": "10"}
  if host == "tt":
    root_attrs = dict(root_attrs)
    root_attrs.pop(an, None)
    root_attrs.update(a)
  elif host == "region":
    region[1].update(a)
  elif host == "style":
    style[1].update(a)
  elif host == "initial":
    initial = E("initial", a)
  elif host == "body":
    body[1].update(a)
  elif host == "div":
    div[1].update(a)
  elif host == "p":
    p[1].update(a)
  elif host == "span":
    span[1].update(a)
  elif host == "set":
    p[2].insert(0, E("set", dict({"begin": "1s", "end": "2s"}, **a)))
  elif host == "region-style":
    region[2].append(E("style", a))
  elif host == "br":
    p[2].append(E("br", a))
  elif host == "ruby":
    p[2].append(_ruby(E("span", {"tts:ruby": "base"}, "B"), E("span", dict({"tts:ruby": "text"}, **a), "T")))
  styling = E("styling", {}, *( [initial] if initial else []), style)
  return E("tt", root_attrs, E("head", {}, styling, E("layout", {}, region)), body)


# element chains (token strings over the element alphabet): tok1 > tok2 > ... nested, below a root

CHAIN_ALPHABET = ["tt", "head", "styling", "layout", "body", "div", "p", "span", "br", "set", "region", "style", "initial", "foo", "#text",
                  "ruby:container", "ruby:base", "ruby:text", "ruby:textContainer", "p+seq", "span+timed"]


def chain_tree(syms, rooted):
  """`rooted` = context the chain is placed in: tt | body | p | layout | styling | bare (the chain's first element is the root)"""
  def mk(sym, kids):
    if sym == "#text":
      return None
    if sym.startswith("ruby:"):
      return E("span", {"tts:ruby": sym[5:]}, *kids)
    if sym == "p+seq":
      return E("p", {"timeContainer": "seq", "begin": "1s"}, *kids)
    if sym == "span+timed":
      return E("span", {"begin": "1s", "end": "2s"}, *kids)
    at = {}
    if sym in ("region",):
      at = {"xml:id": "r1"}
    if sym == "style":
      at = {"xml:id": "s1", "tts:color": "red"}
    if sym == "initial":
      at = {"tts:color": "red"}
    if sym == "set":
      at = {"tts:color": "red", "begin": "1s"}
    return E(sym, at, *kids)
  cur = ["x"]
  for sym in reversed(syms):
    nd = mk(sym, cur)
    cur = ["x"] + cur if nd is None else [nd]
  ctx = rooted
  if ctx == "bare":
    first = next((k for k in cur if not isinstance(k, str)), None)
    return first if first is not None else E("tt", {}, *cur)
  head = E("head", {}, E("styling", {}, E("style", {"xml:id": "s1", "tts:color": "red"})), E("layout", {}, E("region", {"xml:id": "r1"})))
  body = E("body", {}, E("div", {}, E("p", {"region": "r1", "begin": "1s", "end": "3s"}, "t")))
  if ctx == "tt":
    return E("tt", {"xml:lang": "en"}, *cur)
  if ctx == "body":
    return E("tt", {"xml:lang": "en"}, head, E("body", {}, *cur))
  if ctx == "p":
    return E("tt", {"xml:lang": "en"}, head, E("body", {}, E("div", {}, E("p", {"region": "r1", "begin": "1s", "end": "3s"}, *cur))))
  if ctx == "layout":
    return E("tt", {"xml:lang": "en"}, E("head", {}, E("layout", {}, E("region", {"xml:id": "r1"}), *cur)), body)
  if ctx == "styling":
    return E("tt", {"xml:lang": "en"}, E("head", {}, E("styling", {}, *cur), E("layout", {}, E("region", {"xml:id": "r1"}))), body)
  raise ValueError(ctx)


# ------------------------------------------------------------------------------------------------------
# EBU STL

GSI_FIELDS = [("CPN", 3), ("DFC", 8), ("DSC", 1), ("CCT", 2), ("LC", 2), ("OPT", 32), ("OET", 32), ("TPT", 32), ("TET", 32), ("TN", 32), ("TCD", 32), ("SLR", 16),
              ("CD", 6), ("RD", 6), ("RN", 2), ("TNB", 5), ("TNS", 5), ("TNG", 3), ("MNC", 2), ("MNR", 2), ("TCS", 1), ("TCP", 8), ("TCF", 8), ("TND", 1), ("DSN", 1),
              ("CO", 3), ("PUB", 32), ("EN", 32), ("ECD", 32), ("SPARE", 75), ("UDA", 576)]
TTI_FIELDS = [("SGN", 1), ("SN", 2), ("EBN", 1), ("CS", 1), ("TCIh", 1), ("TCIm", 1), ("TCIs", 1), ("TCIf", 1), ("TCOh", 1), ("TCOm", 1), ("TCOs", 1), ("TCOf", 1),
              ("VP", 1), ("JC", 1), ("CF", 1)]
assert sum(n for _, n in GSI_FIELDS) == 1024 and sum(n for _, n in TTI_FIELDS) == 16


def stl_gsi(**kw):
  vals = {"CPN": b"850", "DFC": b"STL25.01", "DSC": b"1", "CCT": b"00", "LC": b"09", "TNB": b"00001", "TNS": b"00001", "TNG": b"001", "MNC": b"40", "MNR": b"23",
          "TCS": b"1", "TCP": b"00000000", "TCF": b"00000000", "TND": b"1", "DSN": b"1", "CO": b"FRA", "CD": b"200101", "RD": b"200101", "RN": b"00"}
  vals.update({k: (v if isinstance(v, bytes) else str(v).encode("latin-1")) for k, v in kw.items()})
  out = b""
  for nm, ln in GSI_FIELDS:
    v = vals.get(nm, b"")
    out += v[:ln].ljust(ln, b" ")
  return out


def stl_tti(sn=0, ebn=0xFF, cs=0, tci=(0, 0, 1, 0), tco=(0, 0, 2, 0), vp=20, jc=2, cf=0, sgn=0, tf=b"Hello"):
  return struct.pack("<BHBBBBBBBBBBBBB", sgn, sn, ebn, cs, *tci, *tco, vp, jc, cf) + tf[:112].ljust(112, b"\x8f")


STL_SEEDS = {
  "stl-1tti": stl_gsi() + stl_tti(tf=b"\x0d\x0b\x0bHello\x8a\x8aworld\x0a\x0a"),
  "stl-3tti-cumul": stl_gsi(TNB="00003", DSC="0") + stl_tti(sn=1, cs=1, tf=b"one") + stl_tti(sn=1, cs=2, tci=(0, 0, 1, 12), tf=b"\x80two\x81") +
                    stl_tti(sn=1, cs=3, tci=(0, 0, 1, 24), tco=(0, 0, 2, 0), tf=b"\x02thr\x8aee\x1d\x07x"),
  "stl-ext-userdata": stl_gsi(TNB="00004", DFC="STL30.01", CCT="01", TCP="10000000") + stl_tti(sn=0, ebn=0, tci=(10, 0, 1, 0), tco=(10, 0, 2, 0), vp=2, jc=1, tf=b"A" * 112) +
                      stl_tti(sn=0, ebn=0xFF, tci=(10, 0, 1, 0), tco=(10, 0, 2, 0), vp=2, jc=1, tf=b"B\x8aC") + stl_tti(sn=1, ebn=0xFE, tf=b"user") +
                      stl_tti(sn=2, sgn=1, tci=(10, 0, 2, 0), tco=(10, 0, 2, 1), vp=22, jc=3, tf=b"\xc1a\x82u\x83"),
}

_B = lambda *xs: [bytes([x]) for x in xs]
STL_VALUES = {
  "ascii": lambda n: [b" " * n, b"0" * n, b"-1".ljust(n, b" ")[:n], b"9" * n, b"\x00" * n, b"\xff" * n, b"z" * n, b"1".rjust(n, b"0"), b"1".ljust(n, b" ")],
  "DFC": lambda n: [b"STL23.01", b"STL24.01", b"STL25.01", b"STL30.01", b"STL50.01", b"STL99.01", b"stl25.01", b" " * 8, b"\x00" * 8, b"\xff" * 8],
  "DSC": lambda n: _B(0x20, 0x30, 0x31, 0x32, 0x33, 0x00, 0xFF),
  "CCT": lambda n: [b"00", b"01", b"02", b"03", b"04", b"05", b"  ", b"\x00\x00", b"\xff\xff", b"-1"],
  "MNR": lambda n: [b"00", b"01", b"02", b"11", b"23", b"99", b"  ", b"-1", b"\x00\x00", b"zz", b" 1", b"+5"],
  "TCP": lambda n: [b"00000000", b"10000000", b"99999999", b"23595924", b"00000099", b"        ", b"-1      ", b"\x00" * 8, b"zzzzzzzz", b"0000000 ", b"00:00:00"],
  "u8": lambda n: _B(0x00, 0x01, 0x02, 0x03, 0x04, 0x0B, 0x0C, 0x17, 0x18, 0x3B, 0x3C, 0x63, 0x7F, 0x80, 0xEF, 0xF0, 0xFE, 0xFF),
  "u16": lambda n: [b"\x00\x00", b"\x01\x00", b"\xff\xff", b"\x00\x80", b"\xfe\xff"],
  "tf": lambda n: _B(0x00, 0x01, 0x07, 0x08, 0x0A, 0x0B, 0x0C, 0x0D, 0x1C, 0x1D, 0x1F, 0x20, 0x41, 0x7F, 0x80, 0x81, 0x82, 0x83, 0x84, 0x85, 0x86, 0x8A, 0x8F, 0x90, 0xA0, 0xC1, 0xCF, 0xFF),
  "tfpad": lambda n: [b"", b"\x8a" * n, b"\x20" * n, b"A" * n, b"\x0d" * n, b"\xc1" * n, b"\x00" * n],
  "uda": lambda n: [b"\x00" * n, b""],
}


def stl_tokens(data, tf_bytes=True):
  """[bytes, b'', type] tokens covering the whole file"""
  toks = []
  pos = 0
  for nm, ln in GSI_FIELDS:
    if pos >= len(data):
      break
    typ = nm if nm in ("DFC", "DSC", "CCT", "MNR", "TCP") else ("uda" if nm in ("UDA", "SPARE") else "ascii")
    toks.append([data[pos:pos + ln], b"", typ, f"GSI.{nm}"])
    pos += ln
  blk = 0
  while pos < len(data):
    for nm, ln in TTI_FIELDS:
      if pos >= len(data):
        break
      toks.append([data[pos:pos + ln], b"", "u16" if ln == 2 else "u8", f"TTI{blk}.{nm}"])
      pos += ln
    tf = data[pos:pos + 112]
    pos += 112
    used = tf.rstrip(b"\x8f")
    if tf_bytes:
      for j in range(len(used)):
        toks.append([used[j:j + 1], b"", "tf", f"TTI{blk}.TF[{j}]"])
    elif used:
      toks.append([used, b"", "tfpad", f"TTI{blk}.TF"])
    if len(tf) > len(used):
      toks.append([tf[len(used):], b"", "tfpad", f"TTI{blk}.TFpad"])
    blk += 1
  return toks


class StlSpace(DevSpace):
  """field / TF-byte deviations + block-level deviations of an STL file"""

  def __init__(self, name, data, cfg, pairs=False, tf_bytes=True, only=None):
    """only: None = every token; 'fields' = GSI and TTI fields (no TF); 'tti' = TTI fields and TF (no GSI); 'gsi' = GSI fields; 'none' = block-level deviations only"""
    toks = stl_tokens(data, tf_bytes)
    values = {}
    for t in toks:
      key = (t[2], len(t[0]))
      if key not in values:
        values[key] = STL_VALUES[t[2]](len(t[0]))
    # DevSpace looks values up by type: make the type unique per (type, length)
    toks = [[t[0], b"", f"{t[2]}/{len(t[0])}", t[3]] for t in toks]
    vals = {f"{k[0]}/{k[1]}": v for k, v in values.items()}
    self.data = data
    positions = None
    if only == "fields":
      positions = [i for i, t in enumerate(toks) if ".TF" not in t[3]]
    elif only == "tti":
      positions = [i for i, t in enumerate(toks) if not t[3].startswith("GSI.")]
    elif only == "gsi":
      positions = [i for i, t in enumerate(toks) if t[3].startswith("GSI.")]
    elif only == "none":
      positions = []
    super().__init__(name, "stl", toks, values=vals, join=lambda ts: b"".join(t[0] for t in ts), pairs=pairs, positions=positions,
                     extra={"cfg": cfg})
    # block-level and byte-offset truncations
    nblocks = max(0, (len(data) - 1024 + 127) // 128)
    self.block_ops = []
    for off in list(range(0, 1024, 128)) + [1024 + 128 * b for b in range(nblocks + 1)]:
      self.block_ops.append(("cut", off))
      self.block_ops.append(("cut", off + 64))
      self.block_ops.append(("cut", off + 1))
    for b in range(nblocks):
      self.block_ops += [("bdel", b), ("bdup", b), ("bswap", b), ("bmany", b)]
    self.block_ops += [("gdup", 0), ("gdel", 0)]
    self.n += len(self.block_ops)

  def decode(self, idx):
    base = 1 + self.n1 + self.n2
    if idx < base:
      c = super().decode(idx)
      ops = self.ops_of(idx)
      c["src"] = f"{self.name}:" + ("+".join(f"{o[0]}.{self.toks[o[1]][3]}" + (f"#{o[2]}" if len(o) > 2 else "") for o in ops) or "seed")
      return c
    kind, x = self.block_ops[idx - base]
    d = self.data
    blk = lambda b: d[1024 + 128 * b:1024 + 128 * (b + 1)]
    if kind == "cut":
      out = d[:x]
    elif kind == "bdel":
      out = d[:1024 + 128 * x] + d[1024 + 128 * (x + 1):]
    elif kind == "bdup":
      out = d[:1024 + 128 * x] + blk(x) + d[1024 + 128 * x:]
    elif kind == "bswap":
      out = d[:1024 + 128 * x] + blk(x + 1) + blk(x) + d[1024 + 128 * (x + 2):]
    elif kind == "bmany":
      out = d[:1024 + 128 * x] + blk(x) * 100 + d[1024 + 128 * x:]
    elif kind == "gdup":
      out = d[:1024] + d
    else:
      out = d[1024:]
    return {"fmt": "stl", "data": out, "cfg": self.extra["cfg"], "src": f"{self.name}:{kind}.{x}"}


def stl_block_alphabet():
  return [
    stl_tti(sn=1, tf=b"a"), stl_tti(sn=2, tci=(0, 0, 2, 0), tco=(0, 0, 3, 0), tf=b"b\x8ac"), stl_tti(sn=1, cs=1, tf=b"c1"), stl_tti(sn=1, cs=2, tf=b"c2"),
    stl_tti(sn=1, cs=3, tf=b"c3"), stl_tti(sn=3, ebn=0, tf=b"ext"), stl_tti(sn=3, ebn=0xFE, tf=b"user"), stl_tti(sn=4, tci=(0, 0, 3, 0), tco=(0, 0, 1, 0), tf=b"rev"),
    stl_tti(sn=5, tci=(0, 0, 0, 30), tf=b"badtc"), stl_tti(sn=6, vp=0, jc=1, tf=b"\x0dtop\x8a\x8a"), stl_tti(sn=7, vp=23, jc=3, sgn=1, tf=b"\x8a\x8abot"),
    stl_tti(sn=8, tf=b""), stl_tti(sn=9, cs=4, tf=b"cs4"), stl_tti(sn=1, tf=b"a")[:64],
  ]


# ------------------------------------------------------------------------------------------------------
# corpus


def corpus_files(res):
  """(format, relative name, bytes) of the bundled corpus, sorted; licence/readme files excluded"""
  out = []
  ext = {".scc": "scc", ".stl": "stl", ".ttml": "ttml", ".vtt": "vtt", ".srt": "srt"}
  for sub in ("scc", "stl", "ttml", "vtt", "srt"):
    base = os.path.join(res, sub)
    if not os.path.isdir(base):
      continue
    for dp, _dn, fns in os.walk(base):
      for fn in sorted(fns):
        e = os.path.splitext(fn)[1].lower()
        if e not in ext:
          continue
        p = os.path.join(dp, fn)
        with open(p, "rb") as f:
          out.append((ext[e], os.path.relpath(p, res), f.read()))
  out.sort(key=lambda x: (x[0], x[1]))
  return out

"""Reference style resolver R_style(spec, t) (DESIGN.md 2.3), written from TTML2 section 10 and IMSC 1.1 section 8;
independent of ttconv.isd.  Values are the encoded tagged tuples of mc.spec (enc_val), numbers as Fractions.

r_style(spec, t) -> {region id -> {element id (or region id) -> {property name -> computed value}}}
only for elements that are presentable in that region at t (activity/display handled by the caller through
ref_isd; here every element on an active path is resolved).
"""
from __future__ import annotations

from fractions import Fraction

from mc.tables import APPLICABLE, INHERITED
from mc.ref_isd import _interval, _active

F = Fraction


def Fr(x):
  return x if isinstance(x, Fraction) else Fraction(x)


WHITE = ("C", 255, 255, 255, 255)

DEFAULTS = {
  "BackgroundColor": ("C", 0, 0, 0, 0), "Color": WHITE, "Direction": ("E", "DirectionType", "ltr"), "Disparity": ("L", F(0), "%"),
  "Display": ("E", "DisplayType", "auto"), "DisplayAlign": ("E", "DisplayAlignType", "before"),
  "Extent": ("ext", ("L", F(100), "%"), ("L", F(100), "%")), "FillLineGap": False,
  "FontFamily": ("ff", (("E", "GenericFontFamilyType", "default"),)), "FontSize": ("L", F(1), "c"),
  "FontStyle": ("E", "FontStyleType", "normal"), "FontWeight": ("E", "FontWeightType", "normal"), "LineHeight": ("S", "normal"),
  "LinePadding": ("L", F(0), "c"), "LuminanceGain": 1.0, "MultiRowAlign": ("E", "MultiRowAlignType", "auto"), "Opacity": 1.0,
  "Origin": ("org", ("L", F(0), "%"), ("L", F(0), "%")), "Overflow": ("E", "OverflowType", "hidden"),
  "Padding": ("pad", ("L", F(0), "%"), ("L", F(0), "%"), ("L", F(0), "%"), ("L", F(0), "%")), "Position": None,
  "RubyAlign": ("E", "RubyAlignType", "center"), "RubyPosition": ("E", "AnnotationPositionType", "outside"), "RubyReserve": ("S", "none"),
  "Shear": 0.0, "ShowBackground": ("E", "ShowBackgroundType", "always"), "TextAlign": ("E", "TextAlignType", "start"),
  "TextCombine": ("E", "TextCombineType", "none"), "TextDecoration": ("td", False, False, False), "TextEmphasis": ("S", "none"),
  "TextOutline": ("S", "none"), "TextShadow": ("S", "none"), "UnicodeBidi": ("E", "UnicodeBidiType", "normal"),
  "Visibility": ("E", "VisibilityType", "visible"), "WrapOption": ("E", "WrapOptionType", "wrap"), "WritingMode": ("E", "WritingModeType", "lrtb"),
}
ALL = sorted(DEFAULTS)


def tup(v):
  """encoded spec value (lists) -> tuples with Fraction numbers inside lengths"""
  if isinstance(v, (list, tuple)):
    if v and v[0] == "L":
      return ("L", Fr(v[1]), v[2])
    return tuple(tup(x) for x in v)
  return v


class Ctx:
  def __init__(self, spec):
    rows, cols = spec.get("cell") or (15, 32)
    w, h = spec.get("px") or (1920, 1080)
    self.c_h = ("L", F(100, rows), "rh")
    self.c_w = ("L", F(100, cols), "rw")
    self.px_h = ("L", F(100, h), "rh")
    self.px_w = ("L", F(100, w), "rw")
    self.init = {p: tup(v) for p, v in (spec.get("init") or [])}


def clen(src, pct, em, c, px):
  """[compute length]: %, em, c, px -> the unit of the reference; rh/rw unchanged"""
  _, val, u = src
  if u == "%":
    return ("L", val * pct[1] / 100, pct[2])
  if u == "em":
    return ("L", val * em[1], em[2])
  if u == "c":
    return ("L", val * c[1], c[2])
  if u == "px":
    return ("L", val * px[1], px[2])
  return src


def specified(n, b, e, t, prop):
  """animation (last active step wins) > specified"""
  val = None
  for p, ab, ae, v in n.get("an") or []:
    if p != prop:
      continue
    sb, se = _interval({"b": ab, "e": ae}, b, e)
    if _active(sb, se, t):
      val = tup(v)
  if val is None:
    st = (n.get("st") or {}).get(prop)
    if st is not None:
      val = tup(st)
  return val


def resolve(n, kind, parent, parent_kind, b, e, t, ctx, root_wm):
  """-> dict property -> computed value for element n (kind in APPLICABLE) with resolved parent values (or None)"""
  out = {}
  sp = {p: specified(n, b, e, t, p) for p in ALL}
  # --- specified / inherited / initial / default
  for p in ALL:
    v = sp[p]
    if p == "TextDecoration" and parent is not None:
      pv = parent[p]
      if v is None:
        v = pv
      else:
        v = ("td",) + tuple(v[i] if v[i] is not None else pv[i] for i in (1, 2, 3))
    elif v is None and p in INHERITED and parent is not None:
      v = parent[p]
      if p == "FontSize" and (kind == "rtc" or (kind == "rt" and parent_kind != "rtc")):
        v = ("L", v[1] / 2, v[2])
      out[p] = v
      continue
    if v is None:
      v = ctx.init.get(p)
    if v is None:
      v = DEFAULTS[p]
    if p == "TextDecoration" and None in v[1:]:
      # a component specified neither here nor on an ancestor: the document's initial value, else the TTML default (none)
      iv = ctx.init.get(p) or DEFAULTS[p]
      v = ("td",) + tuple(v[i] if v[i] is not None else bool(iv[i]) for i in (1, 2, 3))
    out[p] = v
  # --- direction implied by writing mode on regions (TTML2 10.2.10 special semantics)
  if kind == "region" and sp["Direction"] is None:
    wm = out["WritingMode"]
    if wm[2] in ("lrtb", "rltb"):
      out["Direction"] = ("E", "DirectionType", "ltr" if wm[2] == "lrtb" else "rtl")
  # --- computed values, dependency order
  inherited_fs = sp["FontSize"] is None and parent is not None
  if not inherited_fs:
    ref = parent["FontSize"] if parent is not None else ctx.c_h
    out["FontSize"] = clen(out["FontSize"], ref, ref, ctx.c_h, ctx.px_h)
  fs = out["FontSize"]

  def scalar(v):
    return clen(v, fs, fs, ctx.c_h, ctx.px_h)

  def was_inherited(p):
    return sp[p] is None and p in INHERITED and parent is not None

  ex = out["Extent"]
  out["Extent"] = ("ext", clen(ex[1], ("L", F(100), "rh"), fs, ctx.c_h, ctx.px_h), clen(ex[2], ("L", F(100), "rw"), fs, ctx.c_w, ctx.px_w))
  og = out["Origin"]
  out["Origin"] = ("org", clen(og[1], ("L", F(100), "rw"), None, ctx.c_w, ctx.px_w), clen(og[2], ("L", F(100), "rh"), None, ctx.c_h, ctx.px_h))
  ps = out["Position"]
  if ps is None:
    out["Position"] = ("pos", out["Origin"][1], out["Origin"][2], "left", "top")
  else:
    eh, ew = out["Extent"][1], out["Extent"][2]
    ho = clen(ps[1], ("L", 100 - ew[1], "rw"), None, ctx.c_w, ctx.px_w)
    vo = clen(ps[2], ("L", 100 - eh[1], "rh"), None, ctx.c_h, ctx.px_h)
    if ps[3] == "right":
      ho = ("L", 100 - ew[1] - ho[1], ho[2])
    if ps[4] == "bottom":
      vo = ("L", 100 - eh[1] - vo[1], vo[2])
    out["Origin"] = ("org", ho, vo)
    out["Position"] = ("pos", ho, vo, "left", "top")
  if not was_inherited("LineHeight") and out["LineHeight"] != ("S", "normal"):
    out["LineHeight"] = scalar(out["LineHeight"])
  if not was_inherited("LinePadding"):
    out["LinePadding"] = scalar(out["LinePadding"])
  if not was_inherited("RubyReserve") and out["RubyReserve"] != ("S", "none"):
    rr = out["RubyReserve"]
    out["RubyReserve"] = ("rr", rr[1], scalar(rr[2]) if rr[2] is not None else ("L", fs[1] / 2, fs[2]))
  if not was_inherited("TextOutline") and out["TextOutline"] != ("S", "none"):
    to = out["TextOutline"]
    out["TextOutline"] = ("to", scalar(to[1]), to[2] if to[2] is not None else out["Color"])
  if not was_inherited("TextShadow") and out["TextShadow"] != ("S", "none"):
    out["TextShadow"] = ("ts", tuple((scalar(s[0]), scalar(s[1]), None if s[2] is None else scalar(s[2]), s[3] if s[3] is not None else out["Color"])
                                     for s in out["TextShadow"][1]))
  if not was_inherited("TextEmphasis") and out["TextEmphasis"] != ("S", "none"):
    te = out["TextEmphasis"]
    style = te[1]
    if style == "auto":
      style = "filled_sesame" if root_wm in ("tbrl", "tblr") else "filled_circle"
    out["TextEmphasis"] = ("te", style, te[2] if te[2] is not None else out["Color"], te[3])
  pd = out["Padding"]
  vertical = out["WritingMode"][2] in ("tbrl", "tblr")
  eh, ew = out["Extent"][1], out["Extent"][2]
  blk = (ew, ctx.c_w, ctx.px_w) if vertical else (eh, ctx.c_h, ctx.px_h)
  inl = (eh, ctx.c_h, ctx.px_h) if vertical else (ew, ctx.c_w, ctx.px_w)
  out["Padding"] = ("pad", clen(pd[1], blk[0], fs, blk[1], blk[2]), clen(pd[2], inl[0], fs, inl[1], inl[2]),
                    clen(pd[3], blk[0], fs, blk[1], blk[2]), clen(pd[4], inl[0], fs, inl[1], inl[2]))
  dp = out["Disparity"]
  out["Disparity"] = clen(dp, ("L", F(100), "rw"), fs, ctx.c_w, ctx.px_w)
  return out


def r_style(spec, t):
  """-> {region id: {element id: (kind, {prop: value})}} for every element whose ancestors are all active at t
  (display / region association are NOT applied here: the caller compares only elements present in the snapshot)."""
  ctx = Ctx(spec)
  res = {}
  regions = spec.get("regions") or [{"id": "default_region"}]
  for r in regions:
    b, e = _interval(r, F(0), None)
    if not _active(b, e, t):
      continue
    rv = resolve(r, "region", None, None, b, e, t, ctx, None)
    root_wm = rv["WritingMode"][2]
    m = {r["id"]: ("region", rv)}
    body = spec.get("body")
    if body is not None:
      _walk(body, rv, "region", F(0), None, t, ctx, root_wm, m)
    res[r["id"]] = m
  return res


def _walk(n, parent, parent_kind, pb, pe, t, ctx, root_wm, m):
  k = n["k"]
  if k in ("text", "br"):
    return
  b, e = _interval(n, pb, pe)
  if not _active(b, e, t):
    return
  v = resolve(n, k, parent, parent_kind, b, e, t, ctx, root_wm)
  if n.get("id") is not None:
    m[n["id"]] = (k, v)
  for c in n.get("c") or []:
    _walk(c, v, k, b, e, t, ctx, root_wm, m)


# ---------------------------------------------------------------------------------------------------
# comparison with real values (encoded by mc.spec.enc_val)


def approx_eq(want, got, rel=1e-9):
  """structural equality, numbers within relative tolerance; textDecoration None == False"""
  if isinstance(want, tuple) and isinstance(got, tuple):
    if len(want) != len(got):
      return False
    if want and want[0] == "td":
      return all(bool(a) == bool(b) for a, b in zip(want[1:], got[1:]))
    return all(approx_eq(a, b, rel) for a, b in zip(want, got))
  if isinstance(want, bool) or isinstance(got, bool) or want is None or got is None or isinstance(want, str) or isinstance(got, str):
    return want == got and type(want) == type(got) if isinstance(want, bool) or isinstance(got, bool) else want == got
  try:
    a, b = float(want), float(got)
  except (TypeError, ValueError):
    return want == got
  return abs(a - b) <= rel * max(1.0, abs(a), abs(b))

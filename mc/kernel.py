"""Exploration kernel shared by all checks (DESIGN.md section 1.1).

* `Family`      — E-inputs / E-dev: a finite, index-addressable set of cases; every index is executed.
* `StateFamily` — E-states: breadth-first explicit-state search; a state is the event history reaching it,
                  `expand(history)` replays it on fresh real objects and returns the successors with their
                  canonical keys; the kernel de-duplicates on the keys, level by level.
* `run_property` — runs all families of a property on a fixed pool of forked workers, merges the accumulators,
                  shrinks and confirms violations in a fresh process, matches them against known_findings.json,
                  writes the evidence file and returns the exit code.

Nothing here samples: every index of every family and every successor of every reached state is executed.
"""
from __future__ import annotations

import collections
import hashlib
import json
import math
import multiprocessing
import os
import signal
import subprocess
import sys
import time
import traceback
from fractions import Fraction

from . import env

# ------------------------------------------------------------------------------------------------------
# JSON codec (Fractions, bytes, tuples survive a round trip as Fractions, bytes, lists)


def jenc(o):
  if isinstance(o, Fraction):
    return {"$F": f"{o.numerator}/{o.denominator}"}
  if isinstance(o, bool) or o is None or isinstance(o, (int, str)):
    return o
  if isinstance(o, float):
    if o != o or o in (float("inf"), float("-inf")):
      return {"$f": repr(o)}
    return o
  if isinstance(o, (bytes, bytearray)):
    return {"$B": bytes(o).hex()}
  if isinstance(o, dict):
    return {str(k): jenc(v) for k, v in o.items()}
  if isinstance(o, (list, tuple)):
    return [jenc(v) for v in o]
  if isinstance(o, (set, frozenset)):
    return [jenc(v) for v in sorted(o, key=repr)]
  return {"$repr": repr(o)}


def jdec(o):
  if isinstance(o, dict):
    if len(o) == 1:
      if "$F" in o:
        n, d = o["$F"].split("/")
        return Fraction(int(n), int(d))
      if "$B" in o:
        return bytes.fromhex(o["$B"])
      if "$f" in o:
        return float(o["$f"])
    return {k: jdec(v) for k, v in o.items()}
  if isinstance(o, list):
    return [jdec(v) for v in o]
  return o


def h64(obj) -> int:
  """Stable 64-bit hash of a canonical (repr-able) object."""
  return int.from_bytes(hashlib.blake2b(repr(obj).encode("utf-8", "surrogatepass"), digest_size=8).digest(), "big")


# ------------------------------------------------------------------------------------------------------
# accumulator


class CaseTimeout(Exception):
  pass


class HarnessError(Exception):
  pass


MAX_VIOL_PER_SIG = 3
MAX_SAMPLES = 4


class Acc:
  """Per-worker accumulator; merged in the parent."""

  def __init__(self):
    self.evaluations = 0
    self.nontrivial_direct = 0       # counted directly (cases distinct by construction)
    self.keys = set()                # 64-bit hashes of non-trivial distinct cases
    self.outcomes = collections.Counter()
    self.viol = {}                   # signature -> [count, [records]]
    self.samples = []
    self.states = 0
    self.transitions = 0
    self.traces = 0
    self.extra = collections.Counter()
    self.harness_errors = []

  # -- bookkeeping
  def case(self, outcome="ok", nontrivial=False, key=None, n=1):
    self.evaluations += n
    self.outcomes[outcome] += n
    if nontrivial:
      if key is None:
        self.nontrivial_direct += n
      else:
        self.keys.add(h64(key))

  def sample(self, case):
    if len(self.samples) < MAX_SAMPLES:
      self.samples.append(jenc(case))

  def count(self, name, n=1):
    self.extra[name] += n

  def violation(self, clause, disc, case, observed=None, expected=None, note="", family=None, index=None):
    sig = (clause, str(disc))
    ent = self.viol.setdefault(sig, [0, []])
    ent[0] += 1
    if len(ent[1]) < MAX_VIOL_PER_SIG:
      enc = jenc(case)
      ent[1].append({
        "clause": clause, "disc": str(disc), "family": family, "index": index, "case": enc,
        "observed": jenc(observed), "expected": jenc(expected), "note": note, "_sz": len(repr(enc))})

  def merge(self, other: "Acc"):
    self.evaluations += other.evaluations
    self.nontrivial_direct += other.nontrivial_direct
    self.keys |= other.keys
    self.outcomes.update(other.outcomes)
    self.extra.update(other.extra)
    for sig, (n, recs) in other.viol.items():
      ent = self.viol.setdefault(sig, [0, []])
      ent[0] += n
      if len(ent[1]) >= MAX_VIOL_PER_SIG and n > 0 and ent[0] > 50:
        continue      # enough witnesses kept for a signature that fires massively; avoid quadratic bookkeeping
      ent[1].extend(recs)
      ent[1].sort(key=lambda r: (r["family"] or "", r["index"] if r["index"] is not None else 1 << 62, r.get("_sz", 0)))
      del ent[1][MAX_VIOL_PER_SIG:]
    for s in other.samples:
      if len(self.samples) < MAX_SAMPLES * 3:
        self.samples.append(s)
    self.states += other.states
    self.transitions += other.transitions
    self.traces += other.traces
    self.harness_errors.extend(other.harness_errors[:3])

  @property
  def distinct_nontrivial(self):
    return self.nontrivial_direct + len(self.keys)


# ------------------------------------------------------------------------------------------------------
# exception classification


def innermost_ttconv_frame(tb):
  """Returns 'file:function' of the innermost frame that lies in the explored ttconv tree, or None."""
  found = None
  for fs in traceback.extract_tb(tb):
    fn = fs.filename.replace("\\", "/")
    if "/ttconv/" in fn and "/verif/" not in fn:
      found = f"{fn.split('/ttconv/', 1)[1]}:{fs.name}"
  return found


def exc_disc(e: BaseException) -> str:
  fr = innermost_ttconv_frame(e.__traceback__)
  return f"{type(e).__name__}@{fr or 'harness'}"


# ------------------------------------------------------------------------------------------------------
# families


class Family:
  """A finite, index-addressable case set.  `decode(i)` -> case (plain data); `check(case, acc)` executes it
  on the real code and reports through `acc`.  `run_range` may be overridden for hot loops."""

  kind = "inputs"

  def __init__(self, name, n, decode, check, shrink=None, timeout=20.0, chunk=None, note="", run_range=None):
    self.name = name
    self.n = int(n)
    self.decode = decode
    self.check = check
    self.shrink = shrink
    self.timeout = timeout
    self.chunk = chunk
    self.note = note
    self._run_range = run_range

  def run_range(self, lo, hi, acc: Acc):
    if self._run_range is not None:
      return self._run_range(lo, hi, acc)
    for i in range(lo, hi):
      case = self.decode(i)
      if i == lo and lo % 7 == 0:
        acc.sample({"family": self.name, "index": i, "case": case})
      run_case(self, case, acc, index=i, chunk_lo=lo)


def run_case(fam, case, acc: Acc, index=None, chunk_lo=None):
  """Executes one case under the per-case alarm; unexpected exceptions are classified."""
  sub = Acc()
  if fam.timeout:
    signal.setitimer(signal.ITIMER_REAL, fam.timeout)
  try:
    fam.check(case, sub)
  except CaseTimeout:
    sub.violation(f"{fam.prop}.timeout", fam.name, case, note=f"case did not finish within {fam.timeout}s")
  except RecursionError as e:
    sub.violation(f"{fam.prop}.crash", exc_disc(e), case, observed=repr(e)[:300])
  except Exception as e:  # pylint: disable=broad-except
    if innermost_ttconv_frame(e.__traceback__) is not None:
      sub.violation(f"{fam.prop}.crash", exc_disc(e), case, observed=repr(e)[:300],
                    note="exception escaped from the implementation where the property allows none")
    else:
      sub.harness_errors.append({"family": fam.name, "index": index, "case": jenc(case),
                                 "trace": traceback.format_exc()[-3000:]})
  finally:
    if fam.timeout:
      signal.setitimer(signal.ITIMER_REAL, 0)
  for (_c, _d), (_n, recs) in sub.viol.items():
    for r in recs:
      r["family"] = fam.name
      r["index"] = index
      if chunk_lo is not None:
        r["chunk_lo"] = chunk_lo
  acc.merge(sub)
  return sub


class StateFamily:
  """Explicit-state breadth-first search over the real transition function.

  `initial` : list of initial histories (usually [[]] or one per seed document).
  `expand(history, acc)` : replays `history` on fresh real objects, evaluates the invariant in the reached
      state and the step oracle on every enabled event, and returns a list of (event, canon_key) for the
      successors.  canon_key must be hashable/repr-able.  It reports violations through acc.
  `canon0(history)` : canonical key of an initial history's state.
  States are de-duplicated on canon_key; the search is level-synchronous up to `depth` events.
  """

  kind = "states"

  def __init__(self, name, initial, expand, depth, canon0=None, timeout=30.0, note="", shrink=None, check=None):
    self.name = name
    self.initial = initial
    self.expand = expand
    self.depth = depth
    self.canon0 = canon0 or (lambda h: ("init", repr(h)))
    self.timeout = timeout
    self.note = note
    self.shrink = shrink
    # check(case, acc) for replay: case = {"history": [...]} -> re-expand that history
    self.check = check or (lambda case, acc: self.expand(case["history"], acc))
    self.n = len(initial)


# ------------------------------------------------------------------------------------------------------
# worker side

_PLAN = None       # list of families, inherited by fork
_PROP = None


def _alarm(_sig, _frm):
  raise CaseTimeout()


def _init_worker():
  signal.signal(signal.SIGALRM, _alarm)
  signal.signal(signal.SIGINT, signal.SIG_IGN)


def _work_range(args):
  fi, lo, hi = args
  fam = _PLAN[fi]
  acc = Acc()
  try:
    fam.run_range(lo, hi, acc)
  except Exception:  # pylint: disable=broad-except
    acc.harness_errors.append({"family": fam.name, "range": [lo, hi], "trace": traceback.format_exc()[-3000:]})
  return fi, acc


def _work_expand(args):
  fi, hists = args
  fam = _PLAN[fi]
  acc = Acc()
  out = []
  for h in hists:
    sub = Acc()
    succ = []
    signal.setitimer(signal.ITIMER_REAL, fam.timeout)
    try:
      succ = fam.expand(h, sub) or []
    except CaseTimeout:
      sub.violation(f"{fam.prop}.timeout", fam.name, {"history": h}, note="history did not finish in time")
    except Exception as e:  # pylint: disable=broad-except
      if innermost_ttconv_frame(e.__traceback__) is not None:
        sub.violation(f"{fam.prop}.crash", exc_disc(e), {"history": h}, observed=repr(e)[:300])
      else:
        sub.harness_errors.append({"family": fam.name, "history": jenc(h), "trace": traceback.format_exc()[-3000:]})
    finally:
      signal.setitimer(signal.ITIMER_REAL, 0)
    for (_c, _d), (_n, recs) in sub.viol.items():
      for r in recs:
        r["family"] = fam.name
        r["index"] = len(h)
    acc.merge(sub)
    out.append((h, [(ev, h64(k)) for ev, k in succ]))
  return fi, acc, out


# ------------------------------------------------------------------------------------------------------
# parent side


def _chunks(n, workers, chunk):
  if n <= 0:
    return
  size = chunk or max(1, min(5000, math.ceil(n / (workers * 6))))
  lo = 0
  while lo < n:
    yield lo, min(n, lo + size)
    lo += size


def explore(prop_id, plan, workers=None, log=print):
  """Runs every family of `plan`; returns (merged Acc, per-family stats)."""
  global _PLAN, _PROP
  _PLAN, _PROP = plan, prop_id
  for f in plan:
    f.prop = prop_id
  workers = workers or int(os.environ.get("VERIF_WORKERS", "0")) or min(16, os.cpu_count() or 1)
  total = Acc()
  fstats = []
  ctx = multiprocessing.get_context("fork")
  with ctx.Pool(workers, initializer=_init_worker) as pool:
    only = os.environ.get("VERIF_ONLY_FAMILY") if os.environ.get("TTCONV_REPO") else None   # debugging aid, scratch trees only
    for fi, fam in enumerate(plan):
      if only and only not in fam.name:
        continue
      t0 = time.time()
      facc = Acc()
      if fam.kind == "inputs":
        tasks = [(fi, lo, hi) for lo, hi in _chunks(fam.n, workers, fam.chunk)]
        for _fi, acc in pool.imap_unordered(_work_range, tasks):
          facc.merge(acc)
        st = {"family": fam.name, "kind": "inputs", "cases": fam.n, "evaluations": facc.evaluations,
              "distinct_nontrivial": facc.distinct_nontrivial, "note": fam.note}
      else:
        seen = set()
        frontier = []
        for h in fam.initial:
          k = h64(fam.canon0(h))
          if k not in seen:
            seen.add(k)
            frontier.append(list(h))
        transitions = 0
        expanded = 0
        level = 0
        levels = []
        while frontier and level <= fam.depth:
          # at level == depth the states are still *checked* (invariant) but not expanded further:
          # expand() both checks the state and lists successors; successors beyond depth are dropped.
          size = max(1, min(200, math.ceil(len(frontier) / (workers * 4))))
          tasks = [(fi, frontier[i:i + size]) for i in range(0, len(frontier), size)]
          nxt = []
          for _fi, acc, out in pool.imap_unordered(_work_expand, tasks):
            facc.merge(acc)
            for h, succ in out:
              expanded += 1
              if level == fam.depth:
                continue
              for ev, k in succ:
                transitions += 1
                if k not in seen:
                  seen.add(k)
                  nxt.append(h + [ev])
          levels.append(len(frontier))
          nxt.sort(key=repr)
          frontier = nxt
          level += 1
        facc.states += len(seen)
        facc.transitions += transitions
        facc.traces += expanded
        st = {"family": fam.name, "kind": "states", "states": len(seen), "transitions": transitions,
              "histories_replayed_on_impl": expanded, "depth": fam.depth, "level_sizes": levels,
              "evaluations": facc.evaluations, "distinct_nontrivial": facc.distinct_nontrivial, "note": fam.note}
      st["wall_s"] = round(time.time() - t0, 2)
      st["violations"] = sum(n for n, _ in facc.viol.values())
      st["outcomes"] = dict(facc.outcomes.most_common(12))
      fstats.append(st)
      log(f"  [{prop_id}] {fam.name}: " + ", ".join(f"{k}={v}" for k, v in st.items()
                                                     if k in ("cases", "evaluations", "states", "transitions", "distinct_nontrivial", "violations", "wall_s")))
      total.merge(facc)
  return total, fstats


# ------------------------------------------------------------------------------------------------------
# known findings


def load_known():
  """known_findings.json plus known_findings.d/*.json (committed, never written at run time)"""
  import glob
  out = []
  if os.environ.get("VERIF_IGNORE_KNOWN"):     # debugging aid only (never set by a registered command): report listed findings as violations
    return out
  paths = [os.path.join(env.VERIF, "known_findings.json")] + sorted(glob.glob(os.path.join(env.VERIF, "known_findings.d", "*.json")))
  for p in paths:
    if os.path.exists(p):
      with open(p, encoding="utf-8") as f:
        out.extend(json.load(f).get("findings", []))
  return out


def match_known(known, prop_id, clause, disc):
  for k in known:
    if k.get("status", "known") != "known":
      continue
    if k["property"] == prop_id and k["clause"] == clause and k["disc"] == disc:
      return k
  return None


# ------------------------------------------------------------------------------------------------------
# shrinking, replay


def _first_matching(fam, case, clause, disc):
  sub = Acc()
  fam.prop = getattr(fam, "prop", _PROP)
  signal.signal(signal.SIGALRM, _alarm)
  run_case(fam, case, sub) if fam.kind == "inputs" else _expand_case(fam, case, sub)
  ent = sub.viol.get((clause, disc))
  return ent[1][0] if ent else None


def _expand_case(fam, case, sub):
  """re-executes the case of a state family: fam.check(case, acc) (default: expand case["history"])"""
  signal.setitimer(signal.ITIMER_REAL, fam.timeout)
  try:
    fam.check(case, sub)
  except CaseTimeout:
    sub.violation(f"{fam.prop}.timeout", fam.name, case)
  except Exception as e:  # pylint: disable=broad-except
    if innermost_ttconv_frame(e.__traceback__) is not None:
      sub.violation(f"{fam.prop}.crash", exc_disc(e), case, observed=repr(e)[:300])
    else:
      sub.harness_errors.append({"trace": traceback.format_exc()[-3000:]})
  finally:
    signal.setitimer(signal.ITIMER_REAL, 0)


def shrink(fam, rec, budget_s=20.0):
  """Exhaustive-greedy shrinking: try every one-step reduction; keep the first that still fails with the same
  signature; repeat until none does."""
  if fam.shrink is None:
    return rec
  clause, disc = rec["clause"], rec["disc"]
  case = jdec(rec["case"])
  t0 = time.time()
  improved = True
  while improved and time.time() - t0 < budget_s:
    improved = False
    for cand in fam.shrink(case):
      r = _first_matching(fam, cand, clause, disc)
      if r is not None:
        case, rec, improved = cand, r, True
        rec["family"] = fam.name
        break
      if time.time() - t0 > budget_s:
        break
  return rec


def replay(prop_id, plan, path, log=print):
  with open(path, encoding="utf-8") as f:
    rec = json.load(f)
  fam = next((f_ for f_ in plan if f_.name == rec["family"]), None)
  if fam is None:
    log(f"replay: family {rec['family']} not in plan")
    return 2
  global _PROP
  _PROP = prop_id
  fam.prop = prop_id
  case = jdec(rec["case"])
  sub = Acc()
  signal.signal(signal.SIGALRM, _alarm)
  if fam.kind == "inputs" and rec.get("pre_indices"):
    # history-dependent behaviour: the violation needs these cases of the family to run first in the same process
    for i in rec["pre_indices"]:
      run_case(fam, fam.decode(i), Acc(), index=i)
    log(f"replay: {len(rec['pre_indices'])} preceding case(s) of {fam.name} executed first in this process")
  if fam.kind == "inputs":
    run_case(fam, case, sub)
  else:
    _expand_case(fam, case, sub)
  if sub.harness_errors:
    log("HARNESS-ERROR during replay:\n" + sub.harness_errors[0]["trace"])
    return 2
  hit = sub.viol.get((rec["clause"], rec["disc"]))
  for (c, d), (_n, recs) in sub.viol.items():
    r = recs[0]
    log(f"replayed: clause={c} disc={d}\n  observed={json.dumps(r['observed'])[:1500]}\n  expected={json.dumps(r['expected'])[:1500]}\n  note={r['note']}")
  if hit:
    log(f"REPRODUCED property={prop_id} clause={rec['clause']} disc={rec['disc']}")
    return 1
  log("not reproduced")
  return 0


# ------------------------------------------------------------------------------------------------------
# top level


def run_property(mod, tier, seed, log=print, confirm=True):
  prop_id = mod.ID
  level = mod.LEVEL
  t0 = time.time()
  plan = mod.plan(tier, seed)
  gates = getattr(mod, "gates", None)
  gate_info = None
  if gates is not None:
    gate_info = gates()        # raises HarnessError when a reference model fails its binding gate
  total, fstats = explore(prop_id, plan, log=log)
  wall = time.time() - t0

  if total.harness_errors:
    log(f"HARNESS-ERROR property={prop_id}: {len(total.harness_errors)} case(s) crashed inside the harness; first:")
    log(json.dumps(total.harness_errors[0], indent=1)[:4000].replace("\\n", "\n"))

  known = load_known()
  new_viol = []
  known_hits = []
  fam_by_name = {f.name: f for f in plan}
  recs_by_sig = {}      # unshrunk first witness per signature (carries index / chunk_lo for history-dependent replays)
  for (clause, disc), (n, recs) in sorted(total.viol.items()):
    k = match_known(known, prop_id, clause, disc)
    if k is not None:
      known_hits.append((k, n))
      continue
    rec = recs[0]
    recs_by_sig[(clause, disc)] = rec
    fam = fam_by_name.get(rec["family"])
    if fam is not None:
      try:
        rec = shrink(fam, rec)
      except Exception:  # pylint: disable=broad-except
        log("shrink failed:\n" + traceback.format_exc())
    new_viol.append((clause, disc, n, rec))

  for k, n in known_hits:
    log(f"KNOWN-FINDING: property={prop_id} clause={k['clause']} disc={k['disc']} occurrences={n} :: {k.get('what', '')}")
  listed = [k for k in known if k["property"] == prop_id and k.get("status", "known") == "known"]
  for k in listed:
    if not any(k is kh for kh, _ in known_hits):
      log(f"note: listed finding not observed in this run (tier/slice may not reach it): {k['clause']} {k['disc']}")

  exit_code = 0
  rdir = os.path.join(env.VERIF if os.path.realpath(env.REPO) == "/repo" else "/tmp/verif-scratch-replays", "replays", prop_id)
  unconfirmed = 0
  for clause, disc, n, rec in new_viol:
    os.makedirs(rdir, exist_ok=True)
    sig = hashlib.blake2b(f"{clause}|{disc}".encode(), digest_size=6).hexdigest()
    path = os.path.join(rdir, f"{clause.replace('/', '_')}.{sig}.json")
    out = dict(rec)
    out.update({"property": prop_id, "tier": tier, "seed": seed, "occurrences": n})
    with open(path, "w", encoding="utf-8") as f:
      json.dump(out, f, indent=1)
    ok = True
    if confirm:
      def _replay_rc():
        return subprocess.run([sys.executable, "-B", os.path.join(env.VERIF, "mc", "main.py"), prop_id, "--tier", tier,
                               "--seed", str(seed), "--replay", path], capture_output=True, text=True, timeout=900)
      cp = _replay_rc()
      ok = cp.returncode == 1
      orig = recs_by_sig.get((clause, disc))
      if not ok and orig is not None and orig.get("index") is not None and orig.get("chunk_lo") is not None:
        # not reproducible alone: history-dependent behaviour is a violation too, provided it can be replayed.  Re-run the
        # unshrunk case after the cases that preceded it in its chunk (then after the whole family prefix), in a fresh process
        idx, lo = orig["index"], orig["chunk_lo"]
        for pre in ([list(range(lo, idx))] if idx > lo else []) + ([list(range(0, idx))] if 0 < lo and idx <= 30000 else []):
          out = dict(orig)
          out.update({"property": prop_id, "tier": tier, "seed": seed, "occurrences": n, "pre_indices": pre})
          with open(path, "w", encoding="utf-8") as f:
            json.dump(out, f, indent=1)
          cp2 = _replay_rc()
          if cp2.returncode == 1:
            # keep only as many of the preceding cases as are needed (halving)
            while len(pre) > 1:
              for half in (pre[len(pre) // 2:], pre[:len(pre) // 2]):
                out["pre_indices"] = half
                with open(path, "w", encoding="utf-8") as f:
                  json.dump(out, f, indent=1)
                if _replay_rc().returncode == 1:
                  pre = half
                  break
              else:
                break
            out["pre_indices"] = pre
            out["note"] = ((out.get("note") or "") + f" [history-dependent: reproduces only after case(s) {pre[:8]}{'...' if len(pre) > 8 else ''} "
                           f"of family {out.get('family')} ran in the same process; alone in a fresh process the case passes]").strip()
            with open(path, "w", encoding="utf-8") as f:
              json.dump(out, f, indent=1)
            rec, ok = out, True
            break
      if not ok:
        unconfirmed += 1
        log(f"HARNESS-ERROR property={prop_id}: violation {clause} {disc} did not reproduce in a fresh process "
            f"(exit {cp.returncode}); replay kept at {path}\n{cp.stdout[-1500:]}{cp.stderr[-1500:]}")
    if ok:
      exit_code = 1
      log(f"VIOLATION property={prop_id} replay={path}")
      log(f"  clause={clause} disc={disc} occurrences={n}")
      log(f"  case={json.dumps(rec['case'])[:1200]}")
      log(f"  observed={json.dumps(rec['observed'])[:800]}")
      log(f"  expected={json.dumps(rec['expected'])[:800]}")
      if rec.get("note"):
        log(f"  note={rec['note']}")

  if (total.harness_errors or unconfirmed) and exit_code == 0:
    exit_code = 2

  # evidence
  cov = {
    "evaluations": total.evaluations,
    "distinct_nontrivial": total.distinct_nontrivial,
    "rule": getattr(mod, "RULE", ""),
    "samples": total.samples[:6] or [{"note": "no sample recorded"}],
    "exhaustive": True,
    "families": fstats,
    "outcome_classes": dict(total.outcomes.most_common(40)),
    "distinct_outcome_classes": len(total.outcomes),
    "bounds": getattr(mod, "BOUNDS", {}).get(tier, ""),
    "counters": dict(total.extra),
    "known_findings_reproduced": [f"{k['clause']} {k['disc']}" for k, _ in known_hits],
    "new_violation_signatures": [f"{c} {d}" for c, d, _n, _r in new_viol],
  }
  if gate_info is not None:
    cov["reference_model_gates"] = gate_info
  if level == "model_checking":
    cov["states"] = max(total.states, 0)
    cov["transitions"] = max(total.transitions, 0)
    cov["traces_validated_against_impl"] = total.traces
  ev = {
    "property_id": prop_id, "tier": tier, "seed": seed, "level": level, "coverage": cov,
    "assumptions": list(getattr(mod, "ASSUMPTIONS", [])),
    "wall_s": round(time.time() - t0, 2),
    "violations": sum(n for _c, _d, n, _r in new_viol),
  }
  # evidence is only ever written for runs against the repository itself; runs against scratch worktrees
  # (TTCONV_REPO, used to try the checks on seeded changes) write to a scratch directory
  evdir = os.path.join(env.VERIF, "evidence") if os.path.realpath(env.REPO) == "/repo" else "/tmp/verif-scratch-evidence"
  os.makedirs(evdir, exist_ok=True)
  with open(os.path.join(evdir, f"{prop_id}.json"), "w", encoding="utf-8") as f:
    json.dump(ev, f, indent=1)
  log(f"[{prop_id}] tier={tier} seed={seed} evaluations={total.evaluations} distinct_nontrivial={total.distinct_nontrivial} "
      f"states={total.states} transitions={total.transitions} outcome_classes={len(total.outcomes)} "
      f"known={len(known_hits)} new={len(new_viol)} wall={wall:.1f}s exit={exit_code}")
  return exit_code

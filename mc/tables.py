"""Independent TTML2 / IMSC 1.1 tables (written from the specifications, not read from ttconv)."""

# independent IMSC 1.1 / TTML2 applicability table (property -> element kinds), written from the specifications
_T = {
  "BackgroundColor": "region body div p span ruby rb rt rp rbc rtc",
  "Color": "span rb rt rp", "Direction": "p span ruby rb rt rp rbc rtc", "Disparity": "region", "Display": "region body div p span ruby rb rt rp rbc rtc",
  "DisplayAlign": "region", "Extent": "region", "FillLineGap": "p", "FontFamily": "p span rb rt rp", "FontSize": "p span rb rt rp",
  "FontStyle": "p span rb rt rp", "FontWeight": "p span rb rt rp", "LineHeight": "p", "LinePadding": "p", "LuminanceGain": "region",
  "MultiRowAlign": "p", "Opacity": "region body div p span ruby rb rt rp rbc rtc", "Origin": "region", "Overflow": "region", "Padding": "region",
  "Position": "region", "RubyAlign": "ruby", "RubyPosition": "rt rtc", "RubyReserve": "p", "Shear": "p", "ShowBackground": "region",
  "TextAlign": "p", "TextCombine": "span rb rt rp", "TextDecoration": "span rb rt rp", "TextEmphasis": "span rb rt rp", "TextOutline": "span rb rt rp",
  "TextShadow": "span rb rt rp", "UnicodeBidi": "p span rb rt rp", "Visibility": "region body div p span ruby rb rt rp rbc rtc",
  "WrapOption": "span rb rt rp", "WritingMode": "region",
}
APPLICABLE = {k: {p for p, kinds in _T.items() if k in kinds.split()} for k in
              ("region", "body", "div", "p", "span", "ruby", "rb", "rt", "rp", "rbc", "rtc")}


# TTML2 section 10: inherited properties
INHERITED = set("""Color Direction FillLineGap FontFamily FontSize FontStyle FontWeight LineHeight LinePadding MultiRowAlign RubyAlign
RubyPosition RubyReserve Shear TextAlign TextCombine TextDecoration TextEmphasis TextOutline TextShadow Visibility WrapOption""".split())

"""Bounded-exhaustive document spec families shared by C01, C02, C13, C14 (DESIGN.md section 3, C01).

Every family is a mixed-radix product: `Product(domains)` decodes an index into one choice per domain, so
the case set is never materialised and shards are index ranges.
"""
from __future__ import annotations

from fractions import Fraction as F

from mc.spec import node, text, doc_spec, E


class Product:
  def __init__(self, domains):
    self.domains = [list(d) for d in domains]
    self.n = 1
    for d in self.domains:
      self.n *= len(d)

  def __len__(self):
    return self.n

  def decode(self, i):
    out = []
    for d in reversed(self.domains):
      i, r = divmod(i, len(d))
      out.append(d[r])
    out.reverse()
    return out


NONE = [E("DisplayType", "none")][0]
AUTO = E("DisplayType", "auto")

# --- F-time ------------------------------------------------------------------------------------------

BEGINS_FULL = [None, F(1), F(3, 2)]
ENDS_FULL = [None, F(0), F(1), F(2), F(7, 2)]      # end = 0: never active (and 0 is falsy in Python)
BEGINS_SMALL = [None, F(1)]
ENDS_SMALL = [None, F(2)]
LEVELS = ["region", "body", "div", "p", "span"]


def chain_doc(tim, with_region=True, region_on="p", extra=None):
  """region? -> body -> div -> p -> span -> text, `tim` = {level: (b, e)}"""
  def be(lv):
    b, e = tim.get(lv, (None, None))
    return {"b": b, "e": e}
  sp = node("span", [text("a")], id="s", **be("span"))
  p = node("p", [sp], id="p", **be("p"))
  dv = node("div", [p], id="d", **be("div"))
  bd = node("body", [dv], id="b", **be("body"))
  regs = []
  if with_region:
    r = {"id": "r1"}
    r.update({k: v for k, v in be("region").items() if v is not None})
    regs.append(r)
    {"p": p, "div": dv, "body": bd, "span": sp}[region_on]["r"] = "r1"
  return doc_spec(bd, regs)


def f_time(pair, with_region):
  """full timing domain on the two levels of `pair`, small domain on the others"""
  doms = []
  for lv in LEVELS:
    if lv == "region" and not with_region:
      doms.append([(None, None)])
      continue
    if lv in pair:
      doms.append([(b, e) for b in BEGINS_FULL for e in ENDS_FULL])
    else:
      doms.append([(b, e) for b in BEGINS_SMALL for e in ENDS_SMALL])
  prod = Product(doms)

  def decode(i):
    ch = prod.decode(i)
    return chain_doc(dict(zip(LEVELS, ch)), with_region)
  return prod.n, decode


# --- F-tree -------------------------------------------------------------------------------------------


def _trees(kind, budget, depth):
  """all subtrees rooted at an element of `kind` using at most `budget` nodes (the root included)"""
  if budget < 1:
    return
  if kind in ("br", "text"):
    yield {"k": kind}
    return
  child_kinds = {"body": ["div"], "div": ["div", "p"] if depth < 2 else ["p"], "p": ["span", "br"],
                 "span": ["span", "br", "text"] if depth < 2 else ["br", "text"]}[kind]
  for kids in _forests(child_kinds, budget - 1, kind, depth):
    yield {"k": kind, "c": kids}


def _forests(kinds, budget, parent, depth):
  yield []
  if budget < 1:
    return
  for k in kinds:
    nd = depth + 1 if k == parent else 0
    for first in _trees(k, budget, nd):
      used = _size(first)
      for rest in _forests(kinds, budget - used, parent, depth):
        yield [first] + rest


def _size(n):
  return 1 + sum(_size(c) for c in n.get("c") or [])


def label_tree(n, counter=None):
  """assign unique ids to elements and unique strings to text nodes"""
  if counter is None:
    counter = [0, 0]
  if n["k"] == "text":
    n["t"] = "abcdefghijklmnopqrstuvwxyz"[counter[1] % 26] * (1 + counter[1] // 26)
    counter[1] += 1
  else:
    n["id"] = f"n{counter[0]}"
    counter[0] += 1
  for c in n.get("c") or []:
    label_tree(c, counter)
  return n


_TREE_CACHE = {}


def all_trees(max_nodes):
  if max_nodes not in _TREE_CACHE:
    out = []
    for t in _trees("body", max_nodes, 0):
      import copy
      out.append(label_tree(copy.deepcopy(t)))
    _TREE_CACHE[max_nodes] = out
  return _TREE_CACHE[max_nodes]


def has_leaf(n):
  return n["k"] in ("text", "br") or any(has_leaf(c) for c in n.get("c") or [])


def elements(n):
  """pre-order list of element (non-text, non-br) nodes"""
  out = []
  if n["k"] not in ("text", "br"):
    out.append(n)
    for c in n.get("c") or []:
      out.extend(elements(c))
  return out

"""C04 document families (DESIGN.md C04 "Enumerated"): every family is index-addressable; decode(i) -> case dict
{"xml": text, "area": ..., "clause": default clause, "d": discriminator label}."""
from __future__ import annotations

import bisect

from mc.docgen import Product
from mc.c04core import el, tt, head, esc

# ---------------------------------------------------------------------------------------------------
# F-time: timing skeletons

CHILD_KINDS = {"body": ["div"], "div": ["div", "p"], "p": ["span", "br"], "span": ["span", "br"]}
MAXDEPTH = 4


def _gen(kind, budget, depth):
  """all subtrees rooted at `kind` with at most `budget` elements; yields (tree, size)"""
  if budget < 1:
    return
  if kind in ("br", "set"):
    yield {"k": kind}, 1
    return
  for nsets in range(0, budget):
    if nsets and depth + 1 > MAXDEPTH:
      break
    for forest, used in _forests(CHILD_KINDS[kind], budget - 1 - nsets, depth + 1):
      yield {"k": kind, "c": [{"k": "set"} for _ in range(nsets)] + forest}, 1 + nsets + used


def _forests(kinds, budget, depth):
  yield [], 0
  if budget < 1 or depth > MAXDEPTH:
    return
  for k in kinds:
    for first, u in _gen(k, budget, depth):
      for rest, u2 in _forests(kinds, budget - u, depth):
        yield [first] + rest, u + u2


_SHAPES = {}


def shapes(n_exact):
  """all trees rooted at body with exactly n elements"""
  if n_exact not in _SHAPES:
    import copy
    _SHAPES[n_exact] = [copy.deepcopy(t) for t, s in _gen("body", n_exact, 1) if s == n_exact]
  return _SHAPES[n_exact]


def _preorder(t, out=None):
  if out is None:
    out = []
  out.append(t)
  for c in t.get("c", []):
    _preorder(c, out)
  return out


SET_PROPS = [("tts:color", "red"), ("tts:backgroundColor", "blue"), ("tts:opacity", "0.5"), ("tts:visibility", "hidden"),
             ("tts:fontStyle", "italic"), ("tts:fontWeight", "bold")]

B, D, E = "1s", "2s", "3s"
FULL_T = [(b, d, e) for b in (None, B) for d in (None, D) for e in (None, E)]
RED_T = [(None, None, None), (B, None, None), (None, None, E), (B, D, None)]


def _node_domain(n, full, with_text_flag):
  """list of attribute options for one element of a shape"""
  tims = FULL_T if full else RED_T
  k = n["k"]
  if k == "br":
    return [None]
  if k == "set":
    return [("set", t) for t in tims]
  has_set = any(c["k"] == "set" for c in n.get("c", []))
  tcs = ["par"] if has_set else ["par", "seq"]       # `set` children of seq containers are not generated (appendix A)
  leaf_text = k in ("p", "span") and not [c for c in n.get("c", []) if c["k"] != "set"]
  texts = [True, False] if (leaf_text and with_text_flag) else [leaf_text]
  return [(tc, t, tx) for tc in tcs for t in tims for tx in texts]


def _time_xml(shape, choice):
  nodes = _preorder(shape)
  opt = {id(n): c for n, c in zip(nodes, choice)}
  cnt = {"el": 0, "set": 0, "txt": 0}

  def ser(n):
    k = n["k"]
    o = opt[id(n)]
    if k == "br":
      return el("br")
    if k == "set":
      _s, (b, d, e) = o
      pn, pv = SET_PROPS[cnt["set"] % len(SET_PROPS)]
      cnt["set"] += 1
      return el("set", {"begin": b, "dur": d, "end": e, pn: pv})
    tc, (b, d, e), tx = o
    a = {"xml:lang": f"n{cnt['el']}", "timeContainer": "seq" if tc == "seq" else None, "begin": b, "dur": d, "end": e}
    cnt["el"] += 1
    kids = [ser(c) for c in n.get("c", [])]
    if tx:
      kids.append("abcdefgh"[cnt["txt"] % 8])
      cnt["txt"] += 1
    return el(k, a, kids)
  return tt(ser(shape))


def fam_time(sizes, full, with_text_flag, body_plain=False):
  """all shapes of the given sizes x the product of the per-node domains"""
  table, starts, total = [], [], 0
  for n in sizes:
    for sh in shapes(n):
      nodes = _preorder(sh)
      doms = [_node_domain(x, full, with_text_flag) for x in nodes]
      if body_plain:
        doms[0] = [("par", (None, None, None), False)]
      p = Product(doms)
      table.append((sh, p))
      starts.append(total)
      total += p.n

  def decode(i):
    j = bisect.bisect_right(starts, i) - 1
    sh, p = table[j]
    return {"xml": _time_xml(sh, p.decode(i - starts[j])), "area": "time", "clause": "C04.time.other"}
  return total, decode


# ---------------------------------------------------------------------------------------------------
# F-expr: time expression grid

def expr_values(fr):
  f1 = fr - 1
  return [
    ("clock", ["00:00:00", "00:00:01", "00:00:59", "00:01:00", "00:59:59", "01:00:00", "99:59:59", "100:00:00", "123:04:05"]),
    ("clock-fraction", ["00:00:00.0", "00:00:00.001", "00:00:00.999", "00:00:01.5", "00:00:59.999", "00:00:00.0001", "00:00:02.50",
                        "01:02:03.235", "100:00:00.1"]),
    ("clock-frames", ["00:00:00:00", "00:00:00:01", f"00:00:00:{f1:02d}", f"00:00:00:{fr:02d}", "00:00:01:00", f"00:00:59:{f1:02d}",
                      "01:00:00:12", "00:00:00:100", "100:00:00:10"]),
    ("h", ["0h", "1h", "0.5h", "1.25h", "10h"]),
    ("m", ["0m", "1m", "59m", "60m", "0.5m", "90m"]),
    ("s", ["0s", "1s", "59s", "60s", "0.001s", "1.5s", "3600s", "1.2s"]),
    ("ms", ["0ms", "1ms", "999ms", "1000ms", "1001ms", "0.5ms", "1500ms"]),
    ("f", ["0f", "1f", f"{f1}f", f"{fr}f", f"{fr + 1}f", "1.5f", "1000f"]),
    ("t", ["0t", "1t", "10000000t", "9999999t", "10000001t", "1.5t", "123456789t", "120t"]),
  ]


def fam_expr():
  cases = []
  for fr in (None, 24, 25, 30):
    for mult in (None, "1000 1001"):
      for tick in (None, "1", "10000000"):
        for syn, vals in expr_values(fr or 30):
          for v in vals:
            for pos in ("begin", "end", "dur"):
              cases.append((fr, mult, tick, syn, v, pos))

  def decode(i):
    fr, mult, tick, syn, v, pos = cases[i]
    a = {"ttp:frameRate": None if fr is None else str(fr), "ttp:frameRateMultiplier": mult, "ttp:tickRate": tick}
    pa = {"xml:lang": "n2", pos: v}
    if pos != "begin":
      pa["begin"] = "0.25s"
    xml = tt(el("body", {"xml:lang": "n0"}, [el("div", {"xml:lang": "n1"}, [el("p", pa, ["x"])])]), a)
    default_tick = syn == "t" and tick is None
    return {"xml": xml, "area": "expr", "clause": "C04.time.tickrate.default" if default_tick else "C04.time.expr",
            "d": f"syntax={syn},frameRate={'-' if fr is None else 'set'},mult={'-' if mult is None else 'set'},tickRate={'-' if tick is None else 'set'}"}
  return len(cases), decode


# ---------------------------------------------------------------------------------------------------
# F-graph: style reference graphs (<= 3 style elements, every reference relation, missing id, cycles)

STYLE_OWN = {"s1": ("red", ("tts:fontStyle", "italic")), "s2": ("green", ("tts:fontWeight", "bold")), "s3": ("blue", ("tts:textAlign", "center"))}
SIDS = ["s1", "s2", "s3"]


def _ref_options(others, full):
  a, b = others
  o = [[], [a], [b], [a, b], [b, a], ["nx"]]
  if full:
    o += [[a, "nx"], ["nx", a], [b, "nx"], ["nx", b]]
  return o


ELEM_REFS = [[]] + [[s] for s in SIDS] + [[a, b] for a in SIDS for b in SIDS if a != b] + [["nx", "s1"], ["s1", "nx"]]
TARGETS_P = ["p"]
TARGETS_R = ["region", "region+n1", "region+n1+n2", "region+n1ref"]


def _graph_features(refs, erefs):
  """depth of chaining reachable from the element, diamond, missing id, cycle"""
  reach, missing, cyc = set(), False, False

  def depth(s, stack):
    nonlocal missing, cyc
    if s == "nx":
      missing = True
      return 0
    if s in stack:
      cyc = True
      return 0
    reach.add(s)
    return 1 + max([depth(r, stack + (s,)) for r in refs[s]] or [0])
  dmax = max([depth(s, ()) for s in erefs] or [0])
  paths = {}

  def count(s, stack):
    if s == "nx" or s in stack:
      return
    paths[s] = paths.get(s, 0) + 1
    for r in refs[s]:
      count(r, stack + (s,))
  for s in erefs:
    count(s, ())
  diamond = any(v > 1 for v in paths.values())
  return dmax, diamond, missing, cyc


def fam_graph(full, region_targets):
  if not region_targets:
    doms = [_ref_options(("s2", "s3"), full), _ref_options(("s1", "s3"), full), _ref_options(("s1", "s2"), full),
            list(range(8)), ELEM_REFS, [False, True], TARGETS_P]
  else:
    simple = lambda a: [[], [a]]
    doms = [simple("s2"), simple("s3"), simple("s1"), list(range(8)), ELEM_REFS, [False, True], TARGETS_R]
  prod = Product(doms)

  def decode(i):
    r1, r2, r3, mask, erefs, inline, target = prod.decode(i)
    refs = {"s1": r1, "s2": r2, "s3": r3}
    st = []
    for j, sid in enumerate(SIDS):
      color, (bn, bv) = STYLE_OWN[sid]
      a = {"xml:id": sid, bn: bv}
      if mask >> j & 1:
        a["tts:color"] = color
      if refs[sid]:
        a["style"] = " ".join(refs[sid])
      st.append(el("style", a))
    ta = {"xml:lang": "tg"}
    if erefs:
      ta["style"] = " ".join(erefs)
    if inline:
      ta["tts:color"] = "yellow"
    if target == "p":
      body = el("body", None, [el("div", None, [el("p", ta, ["x"])])])
      layout = ""
    else:
      nested = []
      if "+n1ref" in target:
        nested.append(el("style", {"tts:backgroundColor": "aqua", "style": "s1"}))
      elif "+n1" in target:
        nested.append(el("style", {"tts:color": "aqua", "tts:backgroundColor": "aqua"}))
      if "+n2" in target:
        nested.append(el("style", {"tts:color": "purple"}))
      ta["xml:id"] = "r1"
      layout = el("region", ta, nested)
      body = el("body", None, [el("div", None, [el("p", {"region": "r1"}, ["x"])])])
    dmax, diamond, missing, cyc = _graph_features(refs, erefs)
    if cyc:
      clause = "C04.style.cycle"
    elif "n1ref" in target:
      clause = "C04.style.nested.chain"
    elif dmax >= 2:
      clause = "C04.style.chain"
    else:
      clause = "C04.style.precedence"
    d = f"target={target},refs={len(erefs)},inline={int(inline)},depth={dmax},diamond={int(diamond)},missing={int(missing)}"
    return {"xml": tt(head("".join(st), layout) + body), "area": "graph", "clause": clause, "d": d, "cyclic": cyc, "key": None}
  return prod.n, decode


# ---------------------------------------------------------------------------------------------------
# F-value: per-attribute value grids

NAMED = ["transparent", "black", "silver", "gray", "white", "maroon", "red", "purple", "fuchsia", "magenta", "green", "lime", "olive",
         "yellow", "navy", "blue", "teal", "aqua", "cyan"]
COLORS = [("named", c) for c in NAMED] + [("hex6", "#ff0000"), ("hex6", "#0a0B0c"), ("hex8", "#FF000080"), ("hex8", "#00ff007f"),
                                          ("rgb", "rgb(255,0,0)"), ("rgb", "rgb(0,0,0)"), ("rgba", "rgba(0,128,255,64)"), ("rgba", "rgba(1,2,3,0)")]


def _kw(*v):
  return [("keyword", x) for x in v]


VALUES = {
  "tts:backgroundColor": COLORS,
  "tts:color": COLORS,
  "tts:direction": _kw("ltr", "rtl"),
  "tts:disparity": [("px", "0px"), ("px", "10px"), ("neg", "-10px"), ("%", "2%"), ("neg", "-0.5c"), ("rw", "1rw"), ("rh", "1rh"), ("em", "1em")],
  "tts:display": _kw("auto", "none"),
  "tts:displayAlign": _kw("before", "center", "after"),
  "tts:extent": [("auto", "auto"), ("%", "100% 100%"), ("%", "80% 10%"), ("px", "640px 480px"), ("c", "10c 2c"), ("rwrh", "50rw 50rh"),
                 ("%", "0.5% 12.5%"), ("mixed", "100px 10%")],
  "tts:fontFamily": [("generic", g) for g in ("default", "monospace", "sansSerif", "serif", "monospaceSansSerif", "monospaceSerif",
                                              "proportionalSansSerif", "proportionalSerif")] +
                    [("name", "Arial"), ("list", "Arial, Helvetica"), ("list-nospace", "Arial,Helvetica,proportionalSansSerif"),
                     ("squote", "'Times New Roman'"), ("dquote", '"Times New Roman", serif'), ("unquoted-words", "Times New Roman"),
                     ("quoted-generic", "'default'"), ("escape", r'"bar \"q\""'), ("escape-unquoted", r"foo\,bar, serif"),
                     ("one-char", "A"), ("one-char-list", "A, serif"), ("space-before-comma", "Arial , serif"),
                     ("generic-space-before-comma", "serif , Arial"), ("quoted-comma", '"a,b", c')],
  "tts:fontSize": [("c", "1c"), ("c", "1.5c"), ("%", "100%"), ("%", "150%"), ("em", "2em"), ("em", "0.5em"), ("px", "24px"),
                   ("rh", "10rh"), ("rw", "5rw"), ("nolead", ".5c")],
  "tts:fontStyle": _kw("normal", "italic", "oblique"),
  "tts:fontWeight": _kw("normal", "bold"),
  "tts:lineHeight": [("normal", "normal"), ("%", "125%"), ("em", "1.2em"), ("px", "20px"), ("c", "1c"), ("rh", "5rh")],
  "tts:luminanceGain": [("num", x) for x in ("1", "1.0", "0.5", "2", "0", ".5")],
  "tts:opacity": [("num", x) for x in ("1", "0", "0.5", "1.0", ".25")],
  "tts:origin": [("auto", "auto"), ("%", "0% 0%"), ("%", "10% 80%"), ("px", "64px 48px"), ("c", "1c 1c"), ("rwrh", "5rw 5rh"), ("neg", "-5% 10%")],
  "tts:overflow": _kw("visible", "hidden"),
  "tts:padding": [("1", "1c"), ("1", "0.5em"), ("2", "5% 10%"), ("3", "1px 2px 3px"), ("4", "1px 2px 3px 4px"), ("2", "1c 5%"), ("2", "1rh 1rw"),
                  ("4", "0% 1c 2px 3em")],
  "tts:position": [("1", x) for x in ("center", "left", "right", "top", "bottom", "25%", "10px")] +
                  [("2", x) for x in ("bottom center", "bottom left", "bottom right", "center center", "center top", "center bottom", "center left",
                                      "center right", "center 33%", "left center", "left top", "left bottom", "left 45%", "right center", "right top",
                                      "right bottom", "right 20%", "top center", "top left", "top right", "75% center", "75% top", "75% bottom",
                                      "75% 75%", "10px 20px", "2c 1c")] +
                  [("3", x) for x in ("bottom left 1%", "bottom right 2%", "bottom 3% center", "bottom 4% left", "bottom 5% right", "center bottom 6%",
                                      "center left 7%", "center right 8%", "center top 9%", "left bottom 10%", "left top 11%", "left 12% bottom",
                                      "left 13% center", "left 14% top", "right bottom 15%", "right top 16%", "right 17% bottom", "right 18% center",
                                      "right 19% top", "top left 20%", "top right 21%", "top 22% center", "top 23% left", "top 24% right",
                                      "right 10px center")] +
                  [("4", x) for x in ("bottom 25% left 75%", "bottom 25% right 75%", "left 25% bottom 75%", "right 25% bottom 75%", "top 25% left 75%",
                                      "top 25% right 75%", "left 25% top 75%", "right 25% top 75%", "left 10px top 20px", "right 10c bottom 2c")],
  "tts:rubyAlign": _kw("center", "spaceAround"),
  "tts:rubyPosition": _kw("before", "after", "outside"),
  "tts:rubyReserve": [("none", "none"), ("pos", "both"), ("pos", "before"), ("pos", "after"), ("pos", "outside"), ("pos+len", "both 1em"),
                      ("pos+len", "outside 50%"), ("pos+len", "before 1c"), ("pos+len", "after 10px")],
  "tts:shear": [("%", "0%"), ("%", "16.67%"), ("neg", "-16.67%"), ("%", "100%"), ("clamp", "150%"), ("clamp", "-150%"), ("sign", "+10%")],
  "tts:showBackground": _kw("always", "whenActive"),
  "tts:textAlign": _kw("start", "center", "end"),
  "tts:textCombine": _kw("none", "all"),
  "tts:textDecoration": [("none", "none")] + [("1", x) for x in ("underline", "noUnderline", "lineThrough", "noLineThrough", "overline", "noOverline")] +
                        [("2", "underline overline"), ("2", "overline underline"), ("3", "underline lineThrough overline"),
                         ("3", "noUnderline noLineThrough noOverline"), ("2", "noUnderline lineThrough")],
  "tts:textEmphasis": [("none", "none"), ("auto", "auto")] + [("style", x) for x in ("filled", "open", "circle", "dot", "sesame", "filled circle",
                       "open dot", "filled sesame", "open sesame", "open circle", "filled dot", "sesame open")] +
                      [("style+pos", x) for x in ("dot after", "dot before", "auto outside", "open before", "filled after")] +
                      [("pos", "after"), ("color", "red"), ("color", "current"), ("style+color", "filled circle red"), ("all", "circle red before"),
                       ("all", "dot current after"), ("all", "#ff0000 open sesame outside"), ("all", "before rgba(1,2,3,4) auto")],
  "tts:textOutline": [("none", "none"), ("len", "1px"), ("len", "0.1em"), ("len", "10%"), ("color+len", "red 1px"), ("color+len", "#ff0000 10%"),
                      ("color+len", "rgba(0,0,0,128) 0.05c"), ("color+len", "transparent 1rh")],
  "tts:textShadow": [("none", "none"), ("2len", "1px 1px"), ("2len", "-1px -1px"), ("3len", "1px 1px 2px"), ("2len+color", "1px 1px red"),
                     ("3len+color", "1px 1px 2px red"), ("3len+color", "0.1em 0.1em 0.05em #000000"), ("3len+color", "1px 1px 2px rgba(0,0,0,128)"),
                     ("multi,comma", "1px 1px 2px red,2px 2px 3px blue"), ("multi,comma-space", "1px 1px 2px red, 2px 2px 3px blue"),
                     ("multi,comma-space,short", "1px 1px red, -1px -1px 1px blue")],
  "tts:unicodeBidi": _kw("normal", "embed", "bidiOverride"),
  "tts:visibility": _kw("visible", "hidden"),
  "tts:wrapOption": _kw("wrap", "noWrap"),
  "tts:writingMode": _kw("lrtb", "rltb", "tbrl", "tblr", "lr", "rl", "tb"),
  "itts:fillLineGap": _kw("false", "true"),
  "ebutts:linePadding": [("c", "0c"), ("c", "0.5c"), ("c", "1c")],
  "ebutts:multiRowAlign": _kw("start", "center", "end", "auto"),
}

CARRIERS = ["p", "region", "style", "initial", "set", "nested", "span"]


def value_doc(attr, value, carrier):
  a = {attr: value}
  styling = layout = ""
  pa = {"xml:lang": "tg"}
  kids = ["x"]
  if carrier == "p":
    pa.update(a)
  elif carrier == "span":
    kids = [el("span", a, ["x"])]
  elif carrier == "region":
    layout = el("region", dict({"xml:id": "r1"}, **a))
  elif carrier == "nested":
    layout = el("region", {"xml:id": "r1"}, [el("style", a)])
  elif carrier == "style":
    styling = el("style", dict({"xml:id": "s1"}, **a))
    pa["style"] = "s1"
  elif carrier == "initial":
    styling = el("initial", a)
  elif carrier == "set":
    kids = [el("set", dict({"begin": "1s", "end": "2s"}, **a)), "x"]
  body = el("body", None, [el("div", None, [el("p", pa, kids)])])
  return tt(head(styling, layout) + body)


def fam_value():
  cases = [(attr, lab, v, c) for attr, vals in VALUES.items() for lab, v in vals for c in CARRIERS]

  def decode(i):
    attr, lab, v, c = cases[i]
    local = attr.split(":")[1]
    return {"xml": value_doc(attr, v, c), "area": "value" if c != "initial" else "initial",
            "clause": f"C04.style.value.{local}" if c != "initial" else "C04.initial", "d": f"form={lab}" + (f",attr={local}" if c == "initial" else "")}
  return len(cases), decode
